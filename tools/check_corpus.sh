#!/bin/bash
# check_corpus.sh [repo-worktree] [osmcheck-binary] [verif-dir] ["C07 C02 ..."] : runs every seeded change (must be reported by at least one check) and every
# behaviour-preserving refactoring (must be reported by none) against the quick checks. Uses a private worktree.
set -u
bin=${2:-/verif/bin/osmcheck}
verif=${3:-/verif}
wt=${1:-/tmp/corpus-repo}
export GOFLAGS=-mod=mod GOPROXY=off GOSUMDB=off GOTOOLCHAIN=local GOWORK=off
if [ ! -d $wt ]; then git -C /repo worktree prune; git -C /repo worktree add -q --detach $wt HEAD; fi
props=${4:-$(python3 -c "import json;print(' '.join(c['property_id'] for c in json.load(open('/verif/MANIFEST.json'))['checks']))")}
run() { # patch -> list of props with exit!=0
  git -C $wt checkout -q -- . ; git -C $wt clean -fdq
  git -C $wt apply $1 || { echo "APPLY-FAILED"; return; }
  for p in $props; do ( $bin -prop $p -tier quick -no-evidence -repo $wt -verif $verif >/dev/null 2>&1 || echo -n "$p " ) & done; wait
  git -C $wt checkout -q -- . ; git -C $wt clean -fdq
}
echo "== seeded (want: detected)"
for d in /verif/seeded/*; do r=$(run $d/patch.diff); if [ -z "$r" ]; then echo "MISSED   $(basename $d)"; else echo "detected $(basename $d): $r"; fi; done
echo "== benign (want: silent)"
for d in /verif/benign/*; do r=$(run $d/patch.diff); if [ -z "$r" ]; then echo "silent   $(basename $d)"; else echo "ALARM    $(basename $d): $r"; fi; done
