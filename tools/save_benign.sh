#!/bin/bash
# save_benign.sh <out-dir> <name>: confirm (applies, builds, existing tests pass) and store a behaviour-preserving refactoring under /verif/benign/<name>/
set -u
out=$1; name=$2; dst=/verif/benign/$name
mkdir -p $dst; cp $out/patch.diff $out/meta.json $dst/ 2>/dev/null
for f in $out/*_test.go $out/*_test.go.before $out/*_test.go.after; do [ -e "$f" ] && [ $(stat -c %s "$f") -lt 400000 ] && cp "$f" $dst/; done
r=$(/verif/tools/confirm_benign.sh $dst $name); echo "$r"
case "$r" in *REJECTED*) rm -rf $dst;; esac
