#!/bin/bash
# run benign subset: names given as args
export GOFLAGS=-mod=mod GOPROXY=off GOSUMDB=off GOTOOLCHAIN=local GOWORK=off
wt=/tmp/corpus-repo; bin=/verif/bin/osmcheck
if [ ! -d $wt ]; then git -C /repo worktree prune; git -C /repo worktree add -q --detach $wt HEAD; fi
props=$(python3 -c "import json;print(' '.join(c['property_id'] for c in json.load(open('/verif/MANIFEST.json'))['checks']))")
for n in "$@"; do git -C $wt checkout -q -- . ; git -C $wt clean -fdq; git -C $wt apply /verif/benign/$n/patch.diff || { echo "APPLY-FAILED $n"; continue; }
 r=$(for p in $props; do ( $bin -prop $p -tier quick -no-evidence -repo $wt -verif /verif >/dev/null 2>&1 || echo -n "$p " ) & done; wait)
 if [ -z "$r" ]; then echo "silent   $n"; else echo "ALARM    $n: $r"; fi; done
git -C $wt checkout -q -- . ; git -C $wt clean -fdq
