#!/bin/bash
# check_refac.sh <patch.diff> [prop ...] : apply a behaviour-preserving refactoring to /repo, run quick checks, undo.
set -u
patch=$1; shift
props=${@:-C01 C02 C03 C04 C05 C06 C07 C08 C09 C10 C11 C12 C13 C14 C15 C17 C18 C19 C20}
if [ -n "$(git -C /repo status --porcelain)" ]; then echo "/repo is not clean"; exit 2; fi
git -C /repo apply "$patch" || { echo "patch does not apply"; exit 2; }
trap 'git -C /repo checkout -q -- . ; git -C /repo clean -fdq' EXIT
cd /verif
for p in $props; do
  ( out=$(bin/osmcheck -prop $p -tier quick -no-evidence 2>&1); rc=$?; if [ $rc -ne 0 ]; then echo "FALSE-ALARM? $p exit=$rc"; echo "$out" | grep -E -A1 "^(FAIL|UNDECIDED|CHECK-BROKEN)" | cut -c1-400 | sed 's/^/    /'; fi ) &
done
wait
