#!/bin/bash
# save_seed.sh <seed-out-dir> <name>  -> /verif/seeded/<name>/ (patch.diff, demonstration, run_demo.sh, meta.json)
set -eu
out=$1; name=$2
dst=/verif/seeded/$name
mkdir -p $dst
cp $out/patch.diff $out/run_demo.sh $dst/
for f in $out/*_test.go $out/*.go; do [ -e "$f" ] && cp "$f" $dst/ || true; done
python3 - "$out" "$dst" <<'PY'
import json,sys
out,dst=sys.argv[1],sys.argv[2]
m=json.load(open(out+'/meta.json'))
m['confirmed_by_builder']="tools/confirm_seed.sh: demo passes on a fresh worktree of /repo HEAD, existing tests (all packages except the offline-unrunnable osmpbf tests, which are compiled) pass with the patch, demo fails with the patch"
json.dump(m,open(dst+'/meta.json','w'),indent=1)
PY
