#!/bin/bash
# confirm_seed.sh <seed-out-dir> <label>
# Confirms a seeded change independently in a fresh scratch worktree of /repo HEAD:
#   demo passes on the clean tree, existing tests pass with the patch, demo fails with the patch.
# Prints one line: CONFIRMED or REJECTED <why>. Removes the worktree afterwards.
set -u
export GOFLAGS=-mod=mod GOPROXY=off GOSUMDB=off GOTOOLCHAIN=local GOWORK=off
out=$1; label=$2
wt=/tmp/confirm-$label
rm -rf $wt; git -C /repo worktree prune
git -C /repo worktree add -q --detach $wt HEAD || { echo "REJECTED worktree"; exit 1; }
log=$out/confirm.log; : > $log
res=CONFIRMED
( bash $out/run_demo.sh $wt ) >> $log 2>&1; rc=$?
if [ $rc -ne 0 ]; then res="REJECTED demo fails on the clean tree (rc=$rc)"; fi
# remove any demo files left behind
git -C $wt clean -fdq; git -C $wt checkout -q -- .
if [ "$res" = CONFIRMED ]; then
  git -C $wt apply $out/patch.diff >> $log 2>&1 || res="REJECTED patch does not apply"
fi
if [ "$res" = CONFIRMED ]; then
  ( cd $wt && go build ./... && go vet $(git -C $wt diff --name-only | xargs -n1 dirname | sort -u | sed 's|^|./|') && go test -vet=off -count=1 $(go list ./... | grep -v '/osmpbf$') && go test -vet=off -count=1 -run '^$' ./osmpbf/ ) >> $log 2>&1 || res="REJECTED existing tests/build fail with the patch"
fi
if [ "$res" = CONFIRMED ]; then
  ( bash $out/run_demo.sh $wt ) >> $log 2>&1; rc=$?
  if [ $rc -eq 0 ]; then res="REJECTED demo passes with the patch"; fi
fi
git -C /repo worktree remove --force $wt
echo "$label $res"
