#!/bin/bash
# confirm_benign.sh <dir> <label>: the refactoring applies to /repo HEAD, builds, and the existing tests pass.
set -u
export GOFLAGS=-mod=mod GOPROXY=off GOSUMDB=off GOTOOLCHAIN=local GOWORK=off
d=$(realpath $1); label=$2; wt=/tmp/confirmb-$label
rm -rf $wt; git -C /repo worktree prune
git -C /repo worktree add -q --detach $wt HEAD || { echo "$label REJECTED worktree"; exit 1; }
res=OK
git -C $wt apply $d/patch.diff 2>/dev/null || res="REJECTED patch does not apply"
if [ "$res" = OK ]; then ( cd $wt && go build ./... && go test -vet=off -count=1 $(go list ./... | grep -v '/osmpbf$') && go test -vet=off -count=1 -run '^$' ./osmpbf/ ) > $d/confirm.log 2>&1 || res="REJECTED build/tests fail"; fi
git -C /repo worktree remove --force $wt
echo "$label $res"
