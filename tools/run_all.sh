#!/bin/bash
# run_all.sh [quick|thorough]  - runs every registered check against /repo and prints one line per property
tier=${1:-quick}
cd /verif
rc=0
for p in $(python3 -c "import json;print(' '.join(c['property_id'] for c in json.load(open('MANIFEST.json'))['checks']))"); do
  out=$(bin/osmcheck -prop $p -tier $tier 2>&1); r=$?
  echo "$out" | tail -1
  if [ $r -ne 0 ]; then rc=1; echo "$out" | grep -E "^(FAIL|UNDECIDED|CHECK-BROKEN|SENSITIVITY)" | cut -c1-200; fi
  echo "$out" | grep -E "^SENSITIVITY" | cut -c1-200
done
exit $rc
