#!/bin/bash
# merge_agent.sh <scratch-dir-name> <prefix>... : copy an agent's rule files (by prefix) from /tmp/<dir>/checker/rules into /verif/checker/rules,
# check that shared files were not modified, rebuild, run the quick checks of all properties.
set -u
dir=$1; shift
cd /verif/checker/rules || exit 1
for p in "$@"; do rm -f ${p}*.go; cp /tmp/$dir/checker/rules/${p}*.go . ; done
for f in util.go robust.go registry.go; do diff -q /tmp/$dir/checker/rules/$f $f >/dev/null || echo "NOTE: $dir modified shared rules/$f (not merged)"; done
diff -rq /tmp/$dir/checker/core ../core >/dev/null || echo "NOTE: $dir modified core/ (not merged)"
diff -q /tmp/$dir/checker/main.go ../main.go >/dev/null || echo "NOTE: $dir modified main.go (not merged)"
export GOFLAGS=-mod=mod GOPROXY=off GOSUMDB=off GOTOOLCHAIN=local GOWORK=off
cd /verif/checker && go build -o /verif/bin/osmcheck . && go vet ./... && echo BUILD-OK || exit 1
