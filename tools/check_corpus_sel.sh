#!/bin/bash
# check_corpus_sel.sh <glob-suffix e.g. "-c"> : like check_corpus.sh but only for seeded/benign entries whose name ends with the suffix
set -u
suf=$1
bin=${2:-/verif/bin/osmcheck}; verif=/verif; wt=/tmp/corpus-repo
export GOFLAGS=-mod=mod GOPROXY=off GOSUMDB=off GOTOOLCHAIN=local GOWORK=off
if [ ! -d $wt ]; then git -C /repo worktree prune; git -C /repo worktree add -q --detach $wt HEAD; fi
props=$(python3 -c "import json;print(' '.join(c['property_id'] for c in json.load(open('/verif/MANIFEST.json'))['checks']))")
run() { git -C $wt checkout -q -- . ; git -C $wt clean -fdq
  git -C $wt apply $1 || { echo "APPLY-FAILED"; return; }
  for p in $props; do ( $bin -prop $p -tier quick -no-evidence -repo $wt -verif $verif >/dev/null 2>&1 || echo -n "$p " ) & done; wait
  git -C $wt checkout -q -- . ; git -C $wt clean -fdq; }
echo "== seeded (want: detected)"
for d in /verif/seeded/*$suf; do [ -d $d ] || continue; r=$(run $d/patch.diff); if [ -z "$r" ]; then echo "MISSED   $(basename $d)"; else echo "detected $(basename $d): $r"; fi; done
echo "== benign (want: silent)"
for d in /verif/benign/*$suf; do [ -d $d ] || continue; r=$(run $d/patch.diff); if [ -z "$r" ]; then echo "silent   $(basename $d)"; else echo "ALARM    $(basename $d): $r"; fi; done
