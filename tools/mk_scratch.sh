#!/bin/bash
# mk_scratch.sh <name> : scratch copy of the checker + private worktree of /repo HEAD for a rule-author agent, at /tmp/<name>
set -eu
n=$1; d=/tmp/$n
git -C /repo worktree prune
# refuse to wipe a scratch copy that holds rule files not (yet) merged into /verif (FORCE=1 overrides)
if [ -d $d/checker/rules ] && [ "${FORCE:-0}" != 1 ]; then
  if ! diff -rq $d/checker/rules /verif/checker/rules >/dev/null; then echo "REFUSED: $d/checker/rules differs from /verif/checker/rules (unmerged work?) - merge first or FORCE=1"; exit 1; fi
fi
[ -d $d/repo ] && git -C /repo worktree remove --force $d/repo || true
rm -rf $d; mkdir -p $d
cp -r /verif/checker $d/checker
git -C /repo worktree add -q --detach $d/repo HEAD
ln -s /verif/tables $d/tables
cp /verif/known_findings.jsonl $d/
echo "scratch $d ready"
