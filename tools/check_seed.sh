#!/bin/bash
# check_seed.sh <patch.diff> [prop ...]
# Applies a seeded change to /repo, runs the quick checks (all properties by default), and undoes it.
# Prints "<prop> exit=<n>" per check and the failing obligations of each detecting check.
set -u
patch=$1; shift
props=${@:-C01 C02 C03 C04 C05 C06 C07 C08 C09 C10 C11 C12 C13 C14 C15 C17 C18 C19 C20}
if [ -n "$(git -C /repo status --porcelain)" ]; then echo "/repo is not clean"; exit 2; fi
git -C /repo apply "$patch" || { echo "patch does not apply"; exit 2; }
trap 'git -C /repo checkout -q -- . ; git -C /repo clean -fdq' EXIT
cd /verif
for p in $props; do
  ( out=$(bin/osmcheck -prop $p -tier quick -no-evidence 2>&1); rc=$?; echo "$p exit=$rc"; if [ $rc -ne 0 ]; then echo "$out" | grep -E "^(FAIL|UNDECIDED|CHECK-BROKEN)" | cut -c1-220 | sed 's/^/    /'; fi ) &
done
wait
