package replication

import "testing"

// A minutely state file as the planet server wrote it in 2020 (osmosis era):
// the transaction ids had passed 2^31 by then.
func TestHuntC19StateFile2020(t *testing.T) {
	data := []byte("#Wed Jan 01 00:01:03 UTC 2020\nsequenceNumber=3815077\ntxnMaxQueried=2536398044\ntxnActiveList=\ntimestamp=2020-01-01T00\\:01\\:02Z\ntxnReadyList=\ntxnMax=2536398044\n")
	st, err := decodeIntervalState(data)
	if err != nil {
		t.Fatalf("state file not readable: %v", err)
	}
	if st.SeqNum != 3815077 {
		t.Errorf("seq %d", st.SeqNum)
	}
}
