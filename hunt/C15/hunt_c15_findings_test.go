package osm_test

import (
	"encoding/xml"
	"errors"
	"reflect"
	"testing"
	"time"

	"github.com/paulmach/orb"
	"github.com/paulmach/osm"
)

// F1: an update whose index lies before the child list (negative, e.g. read
// from <update index="-1" .../>) must be reported as an error like an index
// past the end; the unchanged tree panics with "index out of range [-1]".
func TestHuntC15_F1_NegativeIndex(t *testing.T) {
	ts := time.Date(2015, 1, 1, 0, 0, 0, 0, time.UTC)
	up := osm.Updates{{Index: -1, Version: 2, Timestamp: ts, Lat: 1, Lon: 2}}

	run := func(name string, f func() error) {
		defer func() {
			if p := recover(); p != nil {
				t.Errorf("%s: panic instead of UpdateIndexOutOfRangeError: %v", name, p)
			}
		}()
		err := f()
		var ie *osm.UpdateIndexOutOfRangeError
		if !errors.As(err, &ie) {
			t.Errorf("%s: got %v, want *UpdateIndexOutOfRangeError", name, err)
		}
	}

	run("way", func() error {
		w := &osm.Way{Nodes: osm.WayNodes{{ID: 1, Version: 1, Lat: 5, Lon: 6}}, Updates: up}
		return w.ApplyUpdatesUpTo(ts)
	})
	run("relation", func() error {
		r := &osm.Relation{Members: osm.Members{{Type: osm.TypeNode, Ref: 1, Version: 1}}, Updates: up}
		return r.ApplyUpdatesUpTo(ts)
	})

	// the same list as it arrives from a decoded document
	run("way from xml", func() error {
		var w osm.Way
		doc := `<way id="1"><nd ref="1" version="1" lat="5" lon="6"></nd>` +
			`<update index="-1" version="2" timestamp="2015-01-01T00:00:00Z" lat="1" lon="2"></update></way>`
		if err := xml.Unmarshal([]byte(doc), &w); err != nil {
			t.Fatal(err)
		}
		if len(w.Updates) != 1 || w.Updates[0].Index != -1 {
			t.Fatalf("decode: %+v", w.Updates)
		}
		return w.ApplyUpdatesUpTo(ts)
	})

	// the geometry query skips a too-large index; it must also survive a negative one
	func() {
		defer func() {
			if p := recover(); p != nil {
				t.Errorf("LineStringAt: panic: %v", p)
			}
		}()
		w := &osm.Way{Nodes: osm.WayNodes{{ID: 1, Version: 1, Lat: 5, Lon: 6}}, Updates: up}
		if ls := w.LineStringAt(ts); !reflect.DeepEqual(ls, orb.LineString{{6, 5}}) {
			t.Errorf("LineStringAt: got %v", ls)
		}
	}()
}

// F2: fully annotated way; one update (stamped <= t) sets the node to the
// all-zero state (version 0 at 0,0). Applying on a copy and asking for the
// geometry drops that node (LineString treats all-zero nodes as unannotated),
// LineStringAt(t) keeps it as the point (0,0).
func TestHuntC15_F2_UpdateToAllZero(t *testing.T) {
	ts := time.Date(2015, 1, 1, 0, 0, 0, 0, time.UTC)
	w := &osm.Way{
		Nodes: osm.WayNodes{
			{ID: 1, Version: 1, Lat: 10, Lon: 20},
			{ID: 2, Version: 1, Lat: 11, Lon: 21},
		},
		Updates: osm.Updates{{Index: 0, Version: 0, Timestamp: ts, Lat: 0, Lon: 0}},
	}

	c := *w
	c.Nodes = append(osm.WayNodes(nil), w.Nodes...)
	c.Updates = append(osm.Updates(nil), w.Updates...)
	if err := c.ApplyUpdatesUpTo(ts); err != nil {
		t.Fatal(err)
	}

	want := c.LineString()
	got := w.LineStringAt(ts)
	if !reflect.DeepEqual(got, want) {
		t.Errorf("LineStringAt(t) = %v, ApplyUpdatesUpTo(t)+LineString() = %v", got, want)
	}
}
