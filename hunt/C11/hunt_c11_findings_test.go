package annotate_test

import (
	"context"
	"errors"
	"testing"
	"time"

	"github.com/paulmach/osm"
	"github.com/paulmach/osm/annotate"
)

func tm(h, m, s int) time.Time { return time.Date(2015, 3, 1, h, m, s, 0, time.UTC) }
func ptm(h, m, s int) *time.Time {
	t := tm(h, m, s)
	return &t
}

// F1: a child whose history is empty (the datasource knows the id but has no
// versions) panics instead of being ignored when IgnoreInconsistency is set.
func TestHuntC11_F1_EmptyHistoryPanics(t *testing.T) {
	ways := osm.Ways{
		{ID: 1, Version: 1, Visible: true, Timestamp: tm(1, 0, 0), Nodes: osm.WayNodes{{ID: 1}, {ID: 2}}},
	}
	ds := &osm.HistoryDatasource{Nodes: map[osm.NodeID]osm.Nodes{
		1: {}, // known id, no versions
		2: {{ID: 2, Version: 1, Visible: true, Timestamp: tm(0, 0, 0), Lat: 1, Lon: 2}},
	}}

	// without the option: typed error, as documented
	err := annotate.Ways(context.Background(), ways, ds)
	var nv *annotate.NoVisibleChildError
	if !errors.As(err, &nv) {
		t.Fatalf("without ignore option: want NoVisibleChildError, got %T %v", err, err)
	}

	defer func() {
		if p := recover(); p != nil {
			t.Fatalf("Ways panicked with IgnoreInconsistency(true), IgnoreMissingChildren(true): %v", p)
		}
	}()
	err = annotate.Ways(context.Background(), ways, ds,
		annotate.IgnoreInconsistency(true), annotate.IgnoreMissingChildren(true))
	if err != nil {
		t.Fatalf("unexpected error %v", err)
	}
	if ways[0].Nodes[1].Version != 1 {
		t.Errorf("node 2 not annotated: %+v", ways[0].Nodes)
	}
}

// F2: a child that is deleted and restored between two parent versions is an
// inconsistent history (the option IgnoreInconsistency governs it) but the
// error is not one of the documented typed errors.
func TestHuntC11_F2_DeletedBetweenIsUntyped(t *testing.T) {
	mk := func() (osm.Ways, *osm.HistoryDatasource) {
		ways := osm.Ways{
			{ID: 1, Version: 1, Visible: true, Timestamp: tm(1, 0, 0), Nodes: osm.WayNodes{{ID: 1}}},
			{ID: 1, Version: 2, Visible: true, Timestamp: tm(9, 0, 0), Nodes: osm.WayNodes{{ID: 1}}},
		}
		ds := &osm.HistoryDatasource{Nodes: map[osm.NodeID]osm.Nodes{
			1: {
				{ID: 1, Version: 1, Visible: true, Timestamp: tm(0, 0, 0), Lat: 1, Lon: 1},
				{ID: 1, Version: 2, Visible: false, Timestamp: tm(3, 0, 0)},
				{ID: 1, Version: 3, Visible: true, Timestamp: tm(5, 0, 0), Lat: 3, Lon: 3},
			},
		}}
		return ways, ds
	}

	ways, ds := mk()
	if err := annotate.Ways(context.Background(), ways, ds, annotate.IgnoreInconsistency(true)); err != nil {
		t.Fatalf("with IgnoreInconsistency: %v", err)
	}

	ways, ds = mk()
	err := annotate.Ways(context.Background(), ways, ds)
	if err == nil {
		t.Fatalf("expected an error")
	}
	var nv *annotate.NoVisibleChildError
	var nh *annotate.NoHistoryError
	var um *annotate.UnsupportedMemberTypeError
	if !errors.As(err, &nv) && !errors.As(err, &nh) && !errors.As(err, &um) {
		t.Errorf("inconsistent child history produced an untyped error: %T %q", err, err)
	}
}

// F3: re-annotating with a ChildFilter drops the stored updates of the
// children the filter excludes.
func TestHuntC11_F3_ChildFilterDropsUpdates(t *testing.T) {
	nodes := func() osm.Nodes {
		return osm.Nodes{
			{ID: 1, Version: 1, Visible: true, Timestamp: tm(0, 0, 0), Lat: 1, Lon: 1},
			{ID: 1, Version: 2, Visible: true, Timestamp: tm(2, 0, 0), Lat: 2, Lon: 2},
			{ID: 2, Version: 1, Visible: true, Timestamp: tm(0, 0, 0), Lat: 10, Lon: 10},
			{ID: 2, Version: 2, Visible: true, Timestamp: tm(3, 0, 0), Lat: 20, Lon: 20},
		}
	}
	ways := osm.Ways{
		{ID: 1, Version: 1, Visible: true, Timestamp: tm(1, 0, 0), Nodes: osm.WayNodes{{ID: 1}, {ID: 2}}},
	}
	ds := (&osm.OSM{Nodes: nodes()}).HistoryDatasource()
	if err := annotate.Ways(context.Background(), ways, ds); err != nil {
		t.Fatal(err)
	}
	if len(ways[0].Updates) != 2 {
		t.Fatalf("setup: want 2 updates, got %+v", ways[0].Updates)
	}

	// node 1 gets a new version; only node 1 is re-annotated.
	ns := append(nodes(), &osm.Node{ID: 1, Version: 3, Visible: true, Timestamp: tm(4, 0, 0), Lat: 3, Lon: 3})
	ds = (&osm.OSM{Nodes: ns}).HistoryDatasource()
	err := annotate.Ways(context.Background(), ways, ds, annotate.ChildFilter(func(f osm.FeatureID) bool {
		return f == osm.NodeID(1).FeatureID()
	}))
	if err != nil {
		t.Fatal(err)
	}

	w := *ways[0]
	w.Nodes = append(osm.WayNodes(nil), ways[0].Nodes...)
	if err := w.ApplyUpdatesUpTo(tm(5, 0, 0)); err != nil {
		t.Fatal(err)
	}
	if w.Nodes[0].Version != 3 {
		t.Errorf("node 1 at 05:00 is v%d, want v3", w.Nodes[0].Version)
	}
	if w.Nodes[1].Version != 2 {
		t.Errorf("node 2 at 05:00 is v%d, want v2 (its update was dropped: %+v)", w.Nodes[1].Version, ways[0].Updates)
	}
}
