package osm_test

import (
	"encoding/xml"
	"testing"
	"time"

	"github.com/paulmach/osm"
)

// C04 finding 2: note dates finer than a second do not round trip. Every other
// time in the XML model (timestamp, committed, created_at, update timestamps)
// is written as RFC 3339 with nanoseconds and comes back equal; osm.Date is
// formatted with a layout without fractional seconds, so the fraction is
// silently dropped.
func TestC04Find2_NoteDateSubsecond(t *testing.T) {
	created := time.Date(2012, 9, 12, 9, 30, 3, 500000000, time.UTC)
	commented := time.Date(2012, 9, 12, 9, 30, 4, 1, time.UTC)

	in := osm.Note{
		ID:          1,
		DateCreated: osm.Date{Time: created},
		Comments:    []*osm.NoteComment{{Date: osm.Date{Time: commented}, Action: osm.NoteCommentOpened}},
	}

	data, err := xml.Marshal(in)
	if err != nil {
		t.Fatal(err)
	}

	var out osm.Note
	if err := xml.Unmarshal(data, &out); err != nil {
		t.Fatal(err)
	}

	if !out.DateCreated.Equal(created) {
		t.Errorf("date_created: got %v, want %v\n%s", out.DateCreated.Time, created, data)
	}
	if len(out.Comments) != 1 || !out.Comments[0].Date.Equal(commented) {
		t.Errorf("comment date: got %v, want %v", out.Comments[0].Date.Time, commented)
	}

	// whole second dates keep working
	sec := osm.Note{DateCreated: osm.Date{Time: created.Truncate(time.Second)}}
	data, _ = xml.Marshal(sec)
	var out2 osm.Note
	if err := xml.Unmarshal(data, &out2); err != nil {
		t.Fatal(err)
	}
	if !out2.DateCreated.Equal(sec.DateCreated.Time) {
		t.Errorf("whole second: got %v", out2.DateCreated.Time)
	}
}
