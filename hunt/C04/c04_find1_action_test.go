package osm_test

import (
	"encoding/xml"
	"testing"

	"github.com/paulmach/osm"
)

// C04 finding 1: a diff action whose OSM holds more than one element does not
// round trip: Action.MarshalXML writes every node, way and relation, but
// Action.UnmarshalXML replaces a.OSM on every child element it reads, so only
// the last element survives.
func TestC04Find1_DiffActionKeepsAllElements(t *testing.T) {
	in := osm.Diff{Actions: osm.Actions{{
		Type: osm.ActionCreate,
		OSM: &osm.OSM{
			Nodes: osm.Nodes{{ID: 1, Version: 1, Visible: true}, {ID: 2, Version: 1, Visible: true}},
			Ways:  osm.Ways{{ID: 3, Version: 1, Visible: true}},
		},
	}}}

	data, err := xml.Marshal(in)
	if err != nil {
		t.Fatal(err)
	}

	var out osm.Diff
	if err := xml.Unmarshal(data, &out); err != nil {
		t.Fatal(err)
	}

	if len(out.Actions) != 1 || out.Actions[0].OSM == nil {
		t.Fatalf("action lost: %+v\n%s", out, data)
	}

	got := out.Actions[0].OSM
	if len(got.Nodes) != 2 || len(got.Ways) != 1 {
		t.Fatalf("marshalled 2 nodes and 1 way, read back %d nodes and %d ways\n%s", len(got.Nodes), len(got.Ways), data)
	}
	if got.Nodes[0].ID != 1 || got.Nodes[1].ID != 2 || got.Ways[0].ID != 3 {
		t.Errorf("wrong elements: %v %v", got.Nodes.IDs(), got.Ways[0].ID)
	}
}

// Same defect with nodes only: two nodes in, the last one out.
func TestC04Find1_DiffActionTwoNodes(t *testing.T) {
	in := osm.Diff{Actions: osm.Actions{{
		Type: osm.ActionCreate,
		OSM:  &osm.OSM{Nodes: osm.Nodes{{ID: 1}, {ID: 2}}},
	}}}

	data, err := xml.Marshal(in)
	if err != nil {
		t.Fatal(err)
	}

	var out osm.Diff
	if err := xml.Unmarshal(data, &out); err != nil {
		t.Fatal(err)
	}

	if n := len(out.Actions[0].OSM.Nodes); n != 2 {
		t.Fatalf("marshalled 2 nodes, read back %d\n%s", n, data)
	}
}
