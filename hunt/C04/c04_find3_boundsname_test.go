package osm_test

import (
	"bytes"
	"encoding/xml"
	"testing"

	"github.com/paulmach/osm"
)

// C04 finding 3: a Bounds value marshalled on its own is written under the Go
// type name <Bounds>, which is not the OSM XML element name (<bounds>, XML is
// case sensitive). Node, Way, Relation, Changeset, Note and User all carry
// their OSM name. The text is therefore not picked up when placed in an
// <osm> document.
func TestC04Find3_BareBoundsElementName(t *testing.T) {
	b := osm.Bounds{MinLat: 1, MaxLat: 2, MinLon: 3, MaxLon: 4}

	for _, v := range []interface{}{b, &b} {
		data, err := xml.Marshal(v)
		if err != nil {
			t.Fatal(err)
		}

		tok, err := xml.NewDecoder(bytes.NewReader(data)).Token()
		if err != nil {
			t.Fatal(err)
		}
		if name := tok.(xml.StartElement).Name.Local; name != "bounds" {
			t.Errorf("element name %q, want \"bounds\": %s", name, data)
		}

		// what was written is what the whole document decoder reads
		doc := append(append([]byte("<osm>"), data...), "</osm>"...)
		var o osm.OSM
		if err := xml.Unmarshal(doc, &o); err != nil {
			t.Fatal(err)
		}
		if o.Bounds == nil || *o.Bounds != b {
			t.Errorf("bounds not decoded from %s: %v", doc, o.Bounds)
		}
	}
}
