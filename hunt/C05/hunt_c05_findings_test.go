package osm_test

import (
	"bytes"
	"encoding/json"
	"testing"

	"github.com/paulmach/osm"
)

// Finding 1 (hermetic half): the bounds object the library writes does not use
// the osmjson key names. Overpass and the OSM API write
//
//	"bounds":{"minlat":..,"minlon":..,"maxlat":..,"maxlon":..}
//
// both at the top level (OSM API map call) and inside ways/relations
// (Overpass "out bb"/"out geom").
func TestHuntC05_F1_BoundsKeysAreOsmjson(t *testing.T) {
	o := &osm.OSM{
		Bounds:    &osm.Bounds{MinLat: 1, MaxLat: 2, MinLon: 3, MaxLon: 4},
		Ways:      osm.Ways{{ID: 1, Bounds: &osm.Bounds{MinLat: 5, MaxLat: 6, MinLon: 7, MaxLon: 8}}},
		Relations: osm.Relations{{ID: 2, Bounds: &osm.Bounds{MinLat: 9, MaxLat: 10, MinLon: 11, MaxLon: 12}}},
	}
	data, err := json.Marshal(o)
	if err != nil {
		t.Fatal(err)
	}

	var doc struct {
		Bounds   map[string]json.Number `json:"bounds"`
		Elements []struct {
			Type   string                 `json:"type"`
			Bounds map[string]json.Number `json:"bounds"`
		} `json:"elements"`
	}
	dec := json.NewDecoder(bytes.NewReader(data))
	dec.UseNumber()
	if err := dec.Decode(&doc); err != nil {
		t.Fatal(err)
	}

	check := func(where string, m map[string]json.Number, minlat, maxlat, minlon, maxlon string) {
		t.Helper()
		want := map[string]string{"minlat": minlat, "maxlat": maxlat, "minlon": minlon, "maxlon": maxlon}
		for k, v := range want {
			got, ok := m[k] // map lookup: exact, case sensitive, like every non-Go osmjson consumer
			if !ok {
				t.Errorf("%s bounds: key %q missing, object has keys %v", where, k, keysOf(m))
				continue
			}
			if got.String() != v {
				t.Errorf("%s bounds: %s = %s, want %s", where, k, got, v)
			}
		}
	}
	check("top level", doc.Bounds, "1", "2", "3", "4")
	if len(doc.Elements) != 2 {
		t.Fatalf("elements: %s", data)
	}
	check("way", doc.Elements[0].Bounds, "5", "6", "7", "8")
	check("relation", doc.Elements[1].Bounds, "9", "10", "11", "12")
	if t.Failed() {
		t.Logf("output: %s", data)
	}
}

func keysOf(m map[string]json.Number) []string {
	var ks []string
	for k := range m {
		ks = append(ks, k)
	}
	return ks
}

// Finding 2: unmarshalling a document into an OSM value that was used before
// does not yield the elements of the document: the element lists are appended
// to, and a version that is absent keeps the previous document's version while
// the other absent header fields are cleared.
func TestHuntC05_F2_UnmarshalIntoUsedReceiver(t *testing.T) {
	docA := []byte(`{"version":"0.6","generator":"A","elements":[{"type":"node","id":1,"lat":1,"lon":1}]}`)
	docB := []byte(`{"elements":[{"type":"node","id":2,"lat":2,"lon":2}]}`)

	// a stream of documents read with one variable, the usual Decoder loop
	dec := json.NewDecoder(bytes.NewReader(append(append([]byte{}, docA...), docB...)))
	var o osm.OSM
	if err := dec.Decode(&o); err != nil {
		t.Fatal(err)
	}
	if len(o.Nodes) != 1 || o.Nodes[0].ID != 1 || o.Version != "0.6" || o.Generator != "A" {
		t.Fatalf("first document decoded wrong: %+v", o)
	}
	if err := dec.Decode(&o); err != nil {
		t.Fatal(err)
	}

	fresh := osm.OSM{}
	if err := json.Unmarshal(docB, &fresh); err != nil {
		t.Fatal(err)
	}
	if len(fresh.Nodes) != 1 || fresh.Nodes[0].ID != 2 || fresh.Version != "" || fresh.Generator != "" {
		t.Fatalf("fresh decode wrong: %+v", fresh)
	}

	if len(o.Nodes) != 1 || o.Nodes[0].ID != 2 {
		t.Errorf("document B has exactly node 2, reused receiver holds nodes %v", o.Nodes.IDs())
	}
	if o.Generator != "" {
		t.Errorf("generator absent in B, got %q", o.Generator)
	}
	if o.Version != "" {
		t.Errorf("version absent in B, got %q (generator, absent as well, is %q)", o.Version, o.Generator)
	}
}

// Same defect seen through Change, where the inner *OSM values are reused by
// encoding/json whenever the Change is.
func TestHuntC05_F2_ChangeReused(t *testing.T) {
	docA := []byte(`{"create":{"elements":[{"type":"way","id":1,"nodes":[1,2]}]}}`)
	docB := []byte(`{"create":{"elements":[{"type":"way","id":2,"nodes":[3,4]}]}}`)
	var c osm.Change
	if err := json.Unmarshal(docA, &c); err != nil {
		t.Fatal(err)
	}
	if err := json.Unmarshal(docB, &c); err != nil {
		t.Fatal(err)
	}
	if len(c.Create.Ways) != 1 || c.Create.Ways[0].ID != 2 {
		t.Errorf("document B creates exactly way 2, reused Change holds ways %v", c.Create.Ways.IDs())
	}
}
