//go:build linux
// +build linux

package osmpbf

// C06 finding 3: a blob whose zlib data inflates to far more than its declared
// raw_size ("wrong uncompressed size") is inflated completely into memory
// before the size is compared. A 0.9 MB damaged file makes the reader allocate
// gigabytes; in a process with a 1 GiB address-space limit, which reads any
// valid file (blocks are at most 32 MiB), the scan kills the process with
// "fatal error: runtime: out of memory" instead of returning an error.

import (
	"bytes"
	"compress/zlib"
	"context"
	"encoding/binary"
	"fmt"
	"os"
	"os/exec"
	"runtime"
	"strings"
	"syscall"
	"testing"

	"github.com/paulmach/osm/osmpbf/internal/osmpbf"
	"google.golang.org/protobuf/proto"
)

func f3File(t testing.TB, inflated int, declared int32) []byte {
	var out []byte
	add := func(typ string, b *osmpbf.Blob) {
		blob, err := proto.Marshal(b)
		if err != nil {
			t.Fatal(err)
		}
		hdr, _ := proto.Marshal(&osmpbf.BlobHeader{Type: proto.String(typ), Datasize: proto.Int32(int32(len(blob)))})
		sz := make([]byte, 4)
		binary.BigEndian.PutUint32(sz, uint32(len(hdr)))
		out = append(append(append(out, sz...), hdr...), blob...)
	}
	hraw, _ := proto.Marshal(&osmpbf.HeaderBlock{RequiredFeatures: []string{"OsmSchema-V0.6", "DenseNodes"}})
	add("OSMHeader", &osmpbf.Blob{Raw: hraw})

	good, _ := proto.Marshal(&osmpbf.PrimitiveBlock{
		Stringtable: &osmpbf.StringTable{S: []string{""}},
		Primitivegroup: []*osmpbf.PrimitiveGroup{{
			Dense: &osmpbf.DenseNodes{Id: []int64{5}, Lat: []int64{10}, Lon: []int64{20}},
		}},
	})
	add("OSMData", &osmpbf.Blob{Raw: good})

	var zb bytes.Buffer
	w, _ := zlib.NewWriterLevel(&zb, zlib.BestCompression)
	chunk := make([]byte, 1<<20)
	for n := 0; n < inflated; n += len(chunk) {
		w.Write(chunk)
	}
	w.Close()
	add("OSMData", &osmpbf.Blob{ZlibData: zb.Bytes(), RawSize: proto.Int32(declared)})
	return out
}

func TestC06InflateBeyondRawSizeChild(t *testing.T) {
	path := os.Getenv("C06_CHILD_FILE")
	if path == "" {
		t.Skip("helper process")
	}
	// address space already mapped by the runtime + 768 MiB of headroom
	var vm uint64
	if st, err := os.ReadFile("/proc/self/status"); err == nil {
		for _, l := range strings.Split(string(st), "\n") {
			if strings.HasPrefix(l, "VmSize:") {
				fmt.Sscanf(strings.TrimPrefix(l, "VmSize:"), "%d", &vm)
			}
		}
	}
	cur := vm<<10 + 768<<20
	fmt.Printf("RESULT-INFO VmSize=%d kB limit=%d\n", vm, cur)
	lim := syscall.Rlimit{Cur: cur, Max: cur}
	if err := syscall.Setrlimit(syscall.RLIMIT_AS, &lim); err != nil {
		fmt.Println("RESULT setrlimit failed:", err)
		return
	}
	data, err := os.ReadFile(path)
	if err != nil {
		fmt.Println("RESULT read failed:", err)
		return
	}
	s := New(context.Background(), bytes.NewReader(data), 1)
	n := 0
	for s.Scan() {
		n++
	}
	fmt.Printf("RESULT objects=%d err=%v\n", n, s.Err())
	s.Close()
}

func TestC06InflateBeyondRawSize(t *testing.T) {
	dir := t.TempDir()
	run := func(name string, data []byte) string {
		p := dir + "/" + name
		if err := os.WriteFile(p, data, 0o644); err != nil {
			t.Fatal(err)
		}
		cmd := exec.Command(os.Args[0], "-test.run=TestC06InflateBeyondRawSizeChild$", "-test.v")
		cmd.Env = append(os.Environ(), "C06_CHILD_FILE="+p, "GOMAXPROCS=2")
		out, err := cmd.CombinedOutput()
		res := ""
		for _, l := range strings.Split(string(out), "\n") {
			if strings.HasPrefix(l, "RESULT") || strings.HasPrefix(l, "fatal error") || strings.HasPrefix(l, "runtime: out of memory") {
				res += l + "; "
			}
		}
		return fmt.Sprintf("exit=%v %s", err, res)
	}

	// control: same structure, the third blob is an empty zlib stream with raw_size 0;
	// shows that the limited process scans an undamaged file without trouble
	ctl := run("control.pbf", f3File(t, 0, 0))
	if !strings.Contains(ctl, "RESULT objects=1 err=<nil>") {
		t.Fatalf("control under the address-space limit: %s", ctl)
	}

	data := f3File(t, 900<<20, 1000) // 900 MiB of zeros in ~0.9 MB, declared raw_size 1000
	if len(data) > 1<<20 {
		t.Fatalf("file too large: %d", len(data))
	}
	got := run("bomb.pbf", data)
	t.Logf("file of %d bytes, GOARCH=%s: %s", len(data), runtime.GOARCH, got)
	if !strings.Contains(got, "RESULT objects=1 err=") || strings.Contains(got, "err=<nil>") {
		t.Errorf("want: 1 object then an error (raw blob data size out of range / mismatch); got: %s", got)
	}
}
