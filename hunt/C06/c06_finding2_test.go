//go:build cgo
// +build cgo

package osmpbf

// C06 finding 2 (cgo build, the default): corrupt/truncated compressed data is
// accepted when the inflated length happens to equal raw_size; the zlib
// end-of-stream marker and Adler-32 checksum are never required.

import (
	"bytes"
	"compress/zlib"
	"context"
	"encoding/binary"
	"testing"

	"github.com/paulmach/osm"
	"github.com/paulmach/osm/osmpbf/internal/osmpbf"
	"google.golang.org/protobuf/proto"
)

func f2File(t *testing.T, blobs ...*osmpbf.Blob) []byte {
	t.Helper()
	var out []byte
	for i, b := range blobs {
		typ := "OSMData"
		if i == 0 {
			typ = "OSMHeader"
		}
		blob, err := proto.Marshal(b)
		if err != nil {
			t.Fatal(err)
		}
		hdr, err := proto.Marshal(&osmpbf.BlobHeader{Type: proto.String(typ), Datasize: proto.Int32(int32(len(blob)))})
		if err != nil {
			t.Fatal(err)
		}
		sz := make([]byte, 4)
		binary.BigEndian.PutUint32(sz, uint32(len(hdr)))
		out = append(append(append(out, sz...), hdr...), blob...)
	}
	return out
}

func f2Scan(data []byte, procs int) ([]osm.Object, error) {
	s := New(context.Background(), bytes.NewReader(data), procs)
	defer s.Close()
	var objs []osm.Object
	for s.Scan() {
		objs = append(objs, s.Object())
	}
	return objs, s.Err()
}

func TestC06CorruptZlibAccepted(t *testing.T) {
	hraw, _ := proto.Marshal(&osmpbf.HeaderBlock{RequiredFeatures: []string{"OsmSchema-V0.6", "DenseNodes"}})
	header := &osmpbf.Blob{Raw: hraw}

	raw, err := proto.Marshal(&osmpbf.PrimitiveBlock{
		Stringtable: &osmpbf.StringTable{S: []string{""}},
		Primitivegroup: []*osmpbf.PrimitiveGroup{{
			Dense: &osmpbf.DenseNodes{Id: []int64{5}, Lat: []int64{10}, Lon: []int64{20}},
		}},
	})
	if err != nil {
		t.Fatal(err)
	}

	// A stored (level 0) zlib stream: 2 header bytes, 5 bytes block header, the
	// payload, a final empty block (5 bytes) and the Adler-32 (4 bytes).
	var zb bytes.Buffer
	w, _ := zlib.NewWriterLevel(&zb, zlib.NoCompression)
	w.Write(raw)
	w.Close()
	z := zb.Bytes()
	if !bytes.Equal(z[7:7+len(raw)], raw) {
		t.Fatalf("unexpected stream layout")
	}
	size := proto.Int32(int32(len(raw)))

	// control: the intact stream scans fine; a flipped payload bit is caught by the checksum
	if objs, err := f2Scan(f2File(t, header, &osmpbf.Blob{ZlibData: z, RawSize: size}), 1); err != nil || len(objs) != 1 {
		t.Fatalf("control: %v %v", objs, err)
	}

	// (a) zlib data cut at every length after the payload bytes: no end-of-stream, no checksum
	for cut := 7 + len(raw); cut < len(z); cut++ {
		objs, err := f2Scan(f2File(t, header, &osmpbf.Blob{ZlibData: z[:cut], RawSize: size}), 2)
		if err == nil {
			t.Errorf("(a) zlib stream cut at %d of %d bytes: Err()==nil with %d objects; want an error (truncated compressed data)", cut, len(z), len(objs))
		}
	}

	// (b) one payload byte altered (node id delta 5 -> 6, zigzag 10 -> 12) and the
	// 4 checksum bytes lost: the altered object is delivered without any error.
	c := append([]byte(nil), z[:len(z)-4]...)
	i := bytes.Index(c, []byte{0x0a, 0x01, 0x0a}) // DenseNodes.id packed: tag, len 1, zigzag(5)
	if i < 0 {
		t.Fatal("id column not found")
	}
	c[i+2] = 0x0c
	objs, err := f2Scan(f2File(t, header, &osmpbf.Blob{ZlibData: c, RawSize: size}), 2)
	if err == nil {
		t.Errorf("(b) corrupt compressed data (payload byte changed, checksum missing): Err()==nil, delivered %v; the file contains node 5", ids(objs))
	}

	// (c) an empty zlib_data field with raw_size 0 is not a zlib stream at all
	objs, err = f2Scan(f2File(t, header, &osmpbf.Blob{ZlibData: []byte{}, RawSize: proto.Int32(0)}), 2)
	if err == nil {
		t.Errorf("(c) empty zlib_data: Err()==nil, %d objects; want an error", len(objs))
	}
}
