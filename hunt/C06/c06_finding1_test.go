package osmpbf

// C06 finding 1: an unexpected block type at block position 0 is not reported.
// Self-contained: builds the file with proto.Marshal from the format definition.

import (
	"bytes"
	"context"
	"encoding/binary"
	"testing"

	"github.com/paulmach/osm"
	"github.com/paulmach/osm/osmpbf/internal/osmpbf"
	"google.golang.org/protobuf/proto"
)

func f1Block(t *testing.T, typ string, payload proto.Message) []byte {
	t.Helper()
	raw, err := proto.Marshal(payload)
	if err != nil {
		t.Fatal(err)
	}
	blob, err := proto.Marshal(&osmpbf.Blob{Raw: raw})
	if err != nil {
		t.Fatal(err)
	}
	hdr, err := proto.Marshal(&osmpbf.BlobHeader{Type: proto.String(typ), Datasize: proto.Int32(int32(len(blob)))})
	if err != nil {
		t.Fatal(err)
	}
	out := make([]byte, 4)
	binary.BigEndian.PutUint32(out, uint32(len(hdr)))
	return append(append(out, hdr...), blob...)
}

func f1Dense(id int64) *osmpbf.PrimitiveBlock {
	return &osmpbf.PrimitiveBlock{
		Stringtable: &osmpbf.StringTable{S: []string{""}},
		Primitivegroup: []*osmpbf.PrimitiveGroup{{
			Dense: &osmpbf.DenseNodes{Id: []int64{id}, Lat: []int64{10}, Lon: []int64{20}},
		}},
	}
}

func ids(objs []osm.Object) []osm.ObjectID {
	var out []osm.ObjectID
	for _, o := range objs {
		out = append(out, o.ObjectID())
	}
	return out
}

func f1Scan(data []byte, procs int) ([]osm.Object, error) {
	s := New(context.Background(), bytes.NewReader(data), procs)
	defer s.Close()
	var objs []osm.Object
	for s.Scan() {
		objs = append(objs, s.Object())
	}
	return objs, s.Err()
}

// The same damaged block at position 1 is rejected ("unexpected fileblock of
// type Foo"); at position 0 the scan ends in silent success.
func TestC06UnexpectedTypeFirstBlock(t *testing.T) {
	header := &osmpbf.HeaderBlock{RequiredFeatures: []string{"OsmSchema-V0.6", "DenseNodes"}}

	for _, procs := range []int{1, 2, 16} {
		// control: damage at block position 1 is reported
		ctl := append(f1Block(t, "OSMHeader", header), f1Block(t, "Foo", f1Dense(7))...)
		if _, err := f1Scan(ctl, procs); err == nil {
			t.Fatalf("procs=%d control: type Foo at position 1 not reported", procs)
		}

		// (a) first block has an unexpected type (header content, unsupported feature inside)
		bad := &osmpbf.HeaderBlock{RequiredFeatures: []string{"OsmSchema-V0.6", "NoSuchFeature"}}
		data := append(f1Block(t, "Foo", bad), f1Block(t, "OSMData", f1Dense(7))...)
		objs, err := f1Scan(data, procs)
		if err == nil {
			t.Errorf("procs=%d (a): first block of type %q: Err()==nil, %d objects delivered; want an error and 0 objects", procs, "Foo", len(objs))
		}

		// (b) first block of unexpected type whose bytes parse as a PrimitiveBlock:
		// its content is delivered as objects although it is not an OSMData block.
		data = append(f1Block(t, "Foo", f1Dense(42)), f1Block(t, "OSMData", f1Dense(7))...)
		objs, err = f1Scan(data, procs)
		if err == nil || len(objs) != 0 {
			t.Errorf("procs=%d (b): first block of type %q: Err()=%v, objects=%v; want an error and no object", procs, "Foo", err, ids(objs))
		}
	}
}
