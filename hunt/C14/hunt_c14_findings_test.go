package annotate

// Minimal failing tests for the C14 findings. Each is self contained
// (own datasource, no helper from other test files).

import (
	"context"
	"errors"
	"sync/atomic"
	"testing"
	"time"

	"github.com/paulmach/osm"
)

var errF14NotFound = errors.New("f14: not found")

type f14DS struct {
	m     map[osm.RelationID]osm.Relations
	calls int64
}

func (d *f14DS) RelationHistory(ctx context.Context, id osm.RelationID) (osm.Relations, error) {
	atomic.AddInt64(&d.calls, 1)
	if h, ok := d.m[id]; ok {
		return h, nil
	}
	return nil, errF14NotFound
}

func (d *f14DS) NotFound(err error) bool { return err == errF14NotFound }

func f14Rel(id int64, refs ...int64) osm.Relations {
	r := &osm.Relation{ID: osm.RelationID(id), Version: 1}
	for _, ref := range refs {
		r.Members = append(r.Members, osm.Member{Type: osm.TypeRelation, Ref: ref})
	}
	return osm.Relations{r}
}

// f14Ladder builds the graph
//
//	1 -> 2
//	2 -> a1, b1
//	ai -> a(i+1), b(i+1), 2        (i < k)
//	bi -> a(i+1), b(i+1), 2
//	ak -> 2 ; bk -> 2
//
// 2k+2 relations, 6k+1 member references. Every ai/bi lies on a cycle
// through 2 and lists the back reference to 2 LAST.
func f14Ladder(k int) *f14DS {
	a := func(i int) int64 { return int64(100 + 2*i) }
	b := func(i int) int64 { return int64(101 + 2*i) }
	m := map[osm.RelationID]osm.Relations{}
	m[1] = f14Rel(1, 2)
	m[2] = f14Rel(2, a(1), b(1))
	for i := 1; i <= k; i++ {
		if i < k {
			m[osm.RelationID(a(i))] = f14Rel(a(i), a(i+1), b(i+1), 2)
			m[osm.RelationID(b(i))] = f14Rel(b(i), a(i+1), b(i+1), 2)
		} else {
			m[osm.RelationID(a(i))] = f14Rel(a(i), 2)
			m[osm.RelationID(b(i))] = f14Rel(b(i), 2)
		}
	}
	return &f14DS{m: m}
}

// Finding 1a: iteration over an 82-relation cyclic graph does not end
// (history lookups double with every layer: 2^(k+1) lookups).
func TestHuntC14_Finding_CycleBlowup_Next(t *testing.T) {
	// growth of datasource calls for small k, measured
	prev := int64(0)
	for k := 1; k <= 16; k++ {
		ds := f14Ladder(k)
		o := NewChildFirstOrdering(context.Background(), []osm.RelationID{1}, ds)
		n := 0
		for o.Next() {
			n++
		}
		o.Close()
		c := atomic.LoadInt64(&ds.calls)
		t.Logf("k=%2d relations=%3d emitted=%d history lookups=%d (x%.2f)", k, 2*k+2, n, c, float64(c)/float64(max64(prev, 1)))
		prev = c
	}

	ds := f14Ladder(40) // 82 relations
	o := NewChildFirstOrdering(context.Background(), []osm.RelationID{1}, ds)
	done := make(chan int, 1)
	go func() {
		n := 0
		for o.Next() {
			n++
		}
		done <- n
	}()
	select {
	case n := <-done:
		t.Logf("finished, %d emitted, %d lookups", n, atomic.LoadInt64(&ds.calls))
	case <-time.After(10 * time.Second):
		t.Errorf("82 relations, 241 member refs, request [1]: no id emitted and Next still blocked after 10s; %d history lookups so far",
			atomic.LoadInt64(&ds.calls))
		o.done() // leave the goroutine behind; it cannot be stopped (see next test)
	}
}

// Finding 1b: Close() on the same graph does not return: the producer never
// looks at the context while it re-walks the cycle members.
func TestHuntC14_Finding_CycleBlowup_Close(t *testing.T) {
	ds := f14Ladder(40)
	o := NewChildFirstOrdering(context.Background(), []osm.RelationID{1}, ds)
	time.Sleep(10 * time.Millisecond)
	closed := make(chan struct{})
	go func() { o.Close(); close(closed) }()
	select {
	case <-closed:
	case <-time.After(10 * time.Second):
		t.Errorf("Close() still blocked after 10s (%d history lookups so far)", atomic.LoadInt64(&ds.calls))
	}
}

func max64(a, b int64) int64 {
	if a > b {
		return a
	}
	return b
}

// Finding 2: data race on ChildFirstOrdering.err between the producer
// goroutine (order.go:63) and Next/Err (order.go:77,88) when the caller's
// context is cancelled. Run with -race.
func TestHuntC14_Finding_CancelRace(t *testing.T) {
	m := map[osm.RelationID]osm.Relations{}
	ids := []osm.RelationID{}
	for i := int64(1); i <= 4; i++ {
		m[osm.RelationID(i)] = f14Rel(i)
		ids = append(ids, osm.RelationID(i))
	}
	for it := 0; it < 200; it++ {
		ctx, cancel := context.WithCancel(context.Background())
		o := NewChildFirstOrdering(ctx, ids, &f14DS{m: m})
		o.Next()
		o.Next()
		cancel()
		// give the producer the chance to notice the cancellation
		time.Sleep(50 * time.Microsecond)
		if o.Next() {
			t.Fatalf("Next true after cancel")
		}
		if err := o.Err(); err != context.Canceled {
			t.Fatalf("Err = %v", err)
		}
		o.Close()
	}
}

// Finding 3 (borderline: relation id 0): a requested relation with id 0 that
// has a history silently ends the iteration; later ids are never emitted and
// Err() is nil.
func TestHuntC14_Finding_IDZero(t *testing.T) {
	m := map[osm.RelationID]osm.Relations{
		0: f14Rel(0),
		5: f14Rel(5),
	}
	o := NewChildFirstOrdering(context.Background(), []osm.RelationID{0, 5}, &f14DS{m: m})
	defer o.Close()
	var got []osm.RelationID
	for o.Next() {
		got = append(got, o.RelationID())
	}
	if len(got) != 2 || o.Err() != nil {
		t.Errorf("requested [0 5], both with history: emitted %v, Err()=%v", got, o.Err())
	}
}
