package osmxml

// Minimal failing tests for the two C03 findings. Self-contained: no helper
// from the generated hunt is used.

import (
	"bytes"
	"context"
	"encoding/xml"
	"testing"

	"github.com/paulmach/osm"
)

func c03Scan(t *testing.T, doc string) ([]osm.Object, error) {
	t.Helper()
	s := New(context.Background(), bytes.NewReader([]byte(doc)))
	defer s.Close()
	var objs []osm.Object
	for s.Scan() {
		objs = append(objs, s.Object())
	}
	return objs, s.Err()
}

// F1: element names are case sensitive in XML, so <Node> is an unknown
// element. Whole-document decoding ignores it; the scanner lower-cases the
// name, dispatches it as a node and aborts the whole scan.
func TestHuntC03_F1_ScannerUnknownElementDifferingInCase(t *testing.T) {
	const doc = `<osm version="0.6"><Node id="1"/><node id="2"/><way id="3"/></osm>`

	whole := &osm.OSM{}
	if err := xml.Unmarshal([]byte(doc), whole); err != nil {
		t.Fatalf("whole-document decode: %v", err)
	}
	if len(whole.Nodes) != 1 || whole.Nodes[0].ID != 2 || len(whole.Ways) != 1 || whole.Ways[0].ID != 3 {
		t.Fatalf("whole-document decode: unexpected %+v", whole)
	}

	objs, err := c03Scan(t, doc)
	if err != nil {
		t.Fatalf("scanner failed on a document the whole-document decode accepts: %v", err)
	}
	if len(objs) != 2 {
		t.Fatalf("scanner yielded %d objects, whole-document decode has 2", len(objs))
	}
	if n, ok := objs[0].(*osm.Node); !ok || n.ID != 2 {
		t.Errorf("object 0: got %T %v, want node 2", objs[0], objs[0])
	}
	if w, ok := objs[1].(*osm.Way); !ok || w.ID != 3 {
		t.Errorf("object 1: got %T %v, want way 3", objs[1], objs[1])
	}
}

// F2: the scanner descends into unknown elements and yields objects nested
// in them; whole-document decoding ignores an unknown element with all of
// its content.
func TestHuntC03_F2_ScannerDescendsIntoUnknownElement(t *testing.T) {
	const doc = `<osm version="0.6"><extension><node id="1"/></extension><node id="2"/></osm>`

	whole := &osm.OSM{}
	if err := xml.Unmarshal([]byte(doc), whole); err != nil {
		t.Fatalf("whole-document decode: %v", err)
	}
	if len(whole.Nodes) != 1 || whole.Nodes[0].ID != 2 {
		t.Fatalf("whole-document decode: unexpected %+v", whole)
	}

	objs, err := c03Scan(t, doc)
	if err != nil {
		t.Fatalf("scanner: %v", err)
	}
	if len(objs) != len(whole.Nodes) {
		var ids []osm.NodeID
		for _, o := range objs {
			ids = append(ids, o.(*osm.Node).ID)
		}
		t.Fatalf("scanner yielded nodes %v, whole-document decode has only node 2", ids)
	}

	// the containers of osmChange and augmented diffs must still be entered
	const change = `<osmChange><create><node id="1"/></create><x><node id="9"/></x><delete><way id="2"/></delete></osmChange>`
	objs, err = c03Scan(t, change)
	if err != nil || len(objs) != 2 {
		t.Fatalf("osmChange: scanner yielded %d objects (err %v), want 2", len(objs), err)
	}
	const diff = `<osm><action type="modify"><old><node id="1"/></old><new><node id="1"/></new></action><x><node id="9"/></x></osm>`
	objs, err = c03Scan(t, diff)
	if err != nil || len(objs) != 2 {
		t.Fatalf("diff: scanner yielded %d objects (err %v), want 2", len(objs), err)
	}
}
