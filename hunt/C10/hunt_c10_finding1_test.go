package osm_test

import (
	"testing"

	"github.com/paulmach/osm"
)

// A relation identifier must not decode as a node or way identifier.
// ElementID.NodeID / ElementID.WayID / FeatureID.NodeID / FeatureID.WayID are
// documented to panic when the id is not of that kind.
func TestHuntC10Finding1RelationDecodesAsNodeAndWay(t *testing.T) {
	converted := func(f func() int64) (ref int64, ok bool) {
		defer func() {
			if recover() != nil {
				ok = false
			}
		}()
		return f(), true
	}

	e := osm.RelationID(7).ElementID(3) // relation/7:3
	f := osm.RelationID(7).FeatureID()  // relation/7
	if e.Type() != osm.TypeRelation || f.Type() != osm.TypeRelation {
		t.Fatalf("setup: %v %v", e.Type(), f.Type())
	}

	if ref, ok := converted(func() int64 { return int64(e.NodeID()) }); ok {
		t.Errorf("ElementID(relation/7:3).NodeID() = %d, want panic (not a node)", ref)
	}
	if ref, ok := converted(func() int64 { return int64(e.WayID()) }); ok {
		t.Errorf("ElementID(relation/7:3).WayID() = %d, want panic (not a way)", ref)
	}
	if ref, ok := converted(func() int64 { return int64(f.NodeID()) }); ok {
		t.Errorf("FeatureID(relation/7).NodeID() = %d, want panic (not a node)", ref)
	}
	if ref, ok := converted(func() int64 { return int64(f.WayID()) }); ok {
		t.Errorf("FeatureID(relation/7).WayID() = %d, want panic (not a way)", ref)
	}

	// the matching conversions must keep working
	if ref, ok := converted(func() int64 { return int64(e.RelationID()) }); !ok || ref != 7 {
		t.Errorf("ElementID(relation/7:3).RelationID() = %d,%v", ref, ok)
	}
	if ref, ok := converted(func() int64 { return int64(osm.NodeID(7).FeatureID().NodeID()) }); !ok || ref != 7 {
		t.Errorf("FeatureID(node/7).NodeID() = %d,%v", ref, ok)
	}
	if ref, ok := converted(func() int64 { return int64(osm.WayID(7).ElementID(1).WayID()) }); !ok || ref != 7 {
		t.Errorf("ElementID(way/7:1).WayID() = %d,%v", ref, ok)
	}
}
