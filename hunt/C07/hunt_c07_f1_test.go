package osmpbf

import (
	"bytes"
	"context"
	"sync/atomic"
	"testing"
	"time"

	"github.com/paulmach/osm"
)

// F1: the scan is stopped (Close or cancel) before the first Scan/Header call,
// i.e. k = 0 in the property's quantifier. The later Scan must return false
// without reading input, and Err must be the closed / context error.
func TestHuntC07F1StopBeforeFirstScan(t *testing.T) {
	valid := huntBuild(t, true, []int{2, 2, 2}, false)
	garbage := bytes.Repeat([]byte{0x00, 0x00, 0x00, 0x02, 0xff, 0xff}, 4) // blob header of 2 bytes that do not parse

	for _, mode := range []string{"close", "cancel"} {
		stop := func(s *Scanner, cancel func()) {
			if mode == "close" {
				s.Close()
			} else {
				cancel()
			}
		}
		want := osm.ErrScannerClosed
		if mode == "cancel" {
			want = context.Canceled
		}

		// (a) valid file: bytes read by the Scan that follows the stop
		{
			ctx, cancel := context.WithCancel(context.Background())
			r := &huntReader{data: valid.data}
			s := New(ctx, r, 2)
			stop(s, cancel)
			if s.Scan() {
				t.Errorf("%s/valid: Scan true after stop", mode)
			}
			if n := r.read(); n != 0 {
				t.Errorf("%s/valid: Scan after the stop read %d bytes of input, want 0", mode, n)
			}
			if err := s.Err(); err != want {
				t.Errorf("%s/valid: Err = %v, want %v", mode, err, want)
			}
			s.Close()
			cancel()
		}

		// (b) input whose first block does not parse: nothing was recorded
		// before the stop, so Err must report the stop.
		{
			ctx, cancel := context.WithCancel(context.Background())
			s := New(ctx, bytes.NewReader(garbage), 1)
			stop(s, cancel)
			if s.Scan() {
				t.Errorf("%s/garbage: Scan true after stop", mode)
			}
			if err := s.Err(); err != want {
				t.Errorf("%s/garbage: Err = %v, want %v", mode, err, want)
			}
			s.Close()
			cancel()
		}

		// (c) empty input: Err must not be nil, no scan took place
		{
			ctx, cancel := context.WithCancel(context.Background())
			s := New(ctx, bytes.NewReader(nil), 1)
			stop(s, cancel)
			if s.Scan() {
				t.Errorf("%s/empty: Scan true after stop", mode)
			}
			if err := s.Err(); err != want {
				t.Errorf("%s/empty: Err = %v, want %v", mode, err, want)
			}
			s.Close()
			cancel()
		}

		// (d) a reader that does not deliver: Scan after the stop must return
		{
			ctx, cancel := context.WithCancel(context.Background())
			br := &huntBlockingReader{ch: make(chan struct{})}
			s := New(ctx, br, 1)
			stop(s, cancel)
			done := make(chan bool, 1)
			go func() { done <- s.Scan() }()
			select {
			case ok := <-done:
				if ok {
					t.Errorf("%s/blocking: Scan true after stop", mode)
				}
			case <-time.After(2 * time.Second):
				t.Errorf("%s/blocking: Scan after the stop does not return, it waits in Read (reads started: %d)", mode, atomic.LoadInt64(&br.reads))
			}
			close(br.ch)
			cancel()
		}
	}
}
