package osmpbf

import (
	"context"
	"fmt"
	"sync/atomic"
	"testing"
	"time"

	"github.com/paulmach/osm"
)

// F2: the context is cancelled by another goroutine while a Scan is in
// progress. The objects handed out must be a prefix of the file, and Err may
// be nil only if every object was handed out.
func TestHuntC07F2CancelSkipsBlocks(t *testing.T) {
	per := []int{1, 1, 1, 1, 1, 1, 1, 1, 1, 1, 1, 1} // 12 blocks, one object each, ids 1..12
	f := huntBuild(t, true, per, false)
	total := len(f.ids)

	const runs = 6000
	var gaps, nilIncomplete int
	var firstGap, firstNil string

	for run := 0; run < runs; run++ {
		procs := 1 + run%3
		// cancel from the goroutine that reads the input, at the moment the
		// decoder asks for the bytes at offset p (p == len(data): the read
		// that returns io.EOF).
		p := int64(f.blockEnds[run%len(f.blockEnds)])

		ctx, cancel := context.WithCancel(context.Background())
		var fired int32
		r := &huntReader{data: f.data}
		r.hook = func(pos int64) {
			if pos >= p && atomic.CompareAndSwapInt32(&fired, 0, 1) {
				cancel()
			}
		}

		s := New(ctx, r, procs)
		var got []int64
		done := make(chan struct{})
		go func() {
			defer close(done)
			for s.Scan() {
				_, id := huntObjID(s.Object())
				got = append(got, id)
			}
		}()
		select {
		case <-done:
		case <-time.After(10 * time.Second):
			t.Fatalf("run %d: scan loop hangs", run)
		}
		err := s.Err()
		s.Close()
		cancel()

		prefix := len(got) <= total
		for i := 0; prefix && i < len(got); i++ {
			prefix = got[i] == f.ids[i]
		}
		if !prefix {
			gaps++
			if firstGap == "" {
				firstGap = fmt.Sprintf("run %d procs=%d cancel at offset %d of %d: Scan handed out ids %v, file order is %v; Err=%v", run, procs, p, len(f.data), got, f.ids, err)
			}
		}
		if err == nil && len(got) != total {
			nilIncomplete++
			if firstNil == "" {
				firstNil = fmt.Sprintf("run %d procs=%d cancel at offset %d of %d: Err()==nil but only ids %v of %v were handed out", run, procs, p, len(f.data), got, f.ids)
			}
		}
		if gaps+nilIncomplete > 0 {
			break // schedule dependent: the first hit is enough
		}
	}
	if gaps > 0 {
		t.Errorf("objects handed out are not a prefix of the file (blocks skipped): %s", firstGap)
	}
	if nilIncomplete > 0 {
		t.Errorf("Err()==nil after a cancelled, incomplete scan: %s", firstNil)
	}
}

// F2b: same root cause, literal clause "Err is nil only after a complete
// scan". One data block; the worker is held in the user's FilterNode until the
// reader goroutine performs the read that returns io.EOF; that read cancels
// the context (a concurrent goroutine). The worker may then drop the block
// and still forward the io.EOF marker.
func TestHuntC07F2bNilErrAfterCancelledIncompleteScan(t *testing.T) {
	f := huntBuild(t, true, []int{1}, false)

	const runs = 4000
	bad := 0
	first := ""
	for run := 0; run < runs; run++ {
		ctx, cancel := context.WithCancel(context.Background())
		atEOF := make(chan struct{})
		var fired int32
		r := &huntReader{data: f.data}
		r.hook = func(pos int64) {
			if pos >= int64(len(f.data)) && atomic.CompareAndSwapInt32(&fired, 0, 1) {
				cancel()
				close(atEOF)
			}
		}
		s := New(ctx, r, 1)
		s.FilterNode = func(n *osm.Node) bool { <-atEOF; return true }

		n := 0
		done := make(chan struct{})
		go func() {
			defer close(done)
			for s.Scan() {
				n++
			}
		}()
		select {
		case <-done:
		case <-time.After(10 * time.Second):
			t.Fatalf("run %d: scan loop hangs", run)
		}
		err := s.Err()
		s.Close()
		cancel()
		if err == nil && n != 1 {
			bad++
			if first == "" {
				first = fmt.Sprintf("run %d: Scan returned false after %d of 1 objects and Err()==nil (want context.Canceled)", run, n)
			}
		} else if err != nil && err != context.Canceled {
			t.Errorf("run %d: Err = %v", run, err)
		}
		if bad > 0 {
			break // schedule dependent: the first hit is enough
		}
	}
	if bad > 0 {
		t.Errorf("Err()==nil after a cancelled, incomplete scan: %s", first)
	}
}
