package osmpbf

import (
	"bytes"
	"compress/zlib"
	"encoding/binary"
	"errors"
	"io"
	"runtime"
	"strings"
	"sync/atomic"
	"testing"
	"time"

	"github.com/paulmach/osm"
	"github.com/paulmach/osm/osmpbf/internal/osmpbf"
	"google.golang.org/protobuf/proto"
)

// Shared helpers of the C07 hunt tests (hunt_c07_*_test.go).
// ---------------------------------------------------------------------------
// file builder (from the format definition, no library code)

type huntFile struct {
	data      []byte
	ids       []int64 // expected object ids in file order (oracle)
	types     []osm.Type
	maxBlock  int   // largest file block (4 + header + blob) in bytes
	blockEnds []int // offset of the end of each file block
}

func huntFrame(t testing.TB, typ string, payload []byte, zl bool) []byte {
	blob := &osmpbf.Blob{}
	if zl {
		var b bytes.Buffer
		w := zlib.NewWriter(&b)
		w.Write(payload)
		w.Close()
		blob.ZlibData = b.Bytes()
		blob.RawSize = proto.Int32(int32(len(payload)))
	} else {
		blob.Raw = payload
	}
	bb, err := proto.Marshal(blob)
	if err != nil {
		t.Fatal(err)
	}
	bh, err := proto.Marshal(&osmpbf.BlobHeader{Type: proto.String(typ), Datasize: proto.Int32(int32(len(bb)))})
	if err != nil {
		t.Fatal(err)
	}
	out := make([]byte, 4, 4+len(bh)+len(bb))
	binary.BigEndian.PutUint32(out, uint32(len(bh)))
	out = append(out, bh...)
	out = append(out, bb...)
	return out
}

func huntHeaderBlock(t testing.TB, zl bool) []byte {
	hb, err := proto.Marshal(&osmpbf.HeaderBlock{RequiredFeatures: []string{"OsmSchema-V0.6", "DenseNodes"}})
	if err != nil {
		t.Fatal(err)
	}
	return huntFrame(t, "OSMHeader", hb, zl)
}

// kind: 0 dense nodes, 1 ways, 2 relations
func huntDataBlock(t testing.TB, kind int, firstID int64, count int, zl bool) []byte {
	pb := &osmpbf.PrimitiveBlock{
		Stringtable: &osmpbf.StringTable{S: []string{"", "k", "v"}},
	}
	g := &osmpbf.PrimitiveGroup{}
	switch kind {
	case 0:
		d := &osmpbf.DenseNodes{}
		for i := 0; i < count; i++ {
			if i == 0 {
				d.Id = append(d.Id, firstID)
			} else {
				d.Id = append(d.Id, 1)
			}
			d.Lat = append(d.Lat, 1)
			d.Lon = append(d.Lon, 1)
		}
		g.Dense = d
	case 1:
		for i := 0; i < count; i++ {
			g.Ways = append(g.Ways, &osmpbf.Way{Id: proto.Int64(firstID + int64(i)), Refs: []int64{1, 1, 1}, Keys: []uint32{1}, Vals: []uint32{2}})
		}
	case 2:
		for i := 0; i < count; i++ {
			g.Relations = append(g.Relations, &osmpbf.Relation{Id: proto.Int64(firstID + int64(i)),
				RolesSid: []int32{1}, Memids: []int64{5}, Types: []osmpbf.Relation_MemberType{osmpbf.Relation_NODE}})
		}
	}
	pb.Primitivegroup = []*osmpbf.PrimitiveGroup{g}
	b, err := proto.Marshal(pb)
	if err != nil {
		t.Fatal(err)
	}
	return huntFrame(t, "OSMData", b, zl)
}

// huntBuild builds a file: optional header, then blocks with per[i] objects.
func huntBuild(t testing.TB, header bool, per []int, zl bool) *huntFile {
	f := &huntFile{}
	add := func(b []byte) {
		f.data = append(f.data, b...)
		if len(b) > f.maxBlock {
			f.maxBlock = len(b)
		}
		f.blockEnds = append(f.blockEnds, len(f.data))
	}
	if header {
		add(huntHeaderBlock(t, zl))
	}
	id := int64(1)
	for i, c := range per {
		kind := i % 3
		add(huntDataBlock(t, kind, id, c, zl))
		for j := 0; j < c; j++ {
			f.ids = append(f.ids, id+int64(j))
			f.types = append(f.types, []osm.Type{osm.TypeNode, osm.TypeWay, osm.TypeRelation}[kind])
		}
		id += int64(c)
	}
	return f
}

// ---------------------------------------------------------------------------
// instrumented reader

type huntReader struct {
	data  []byte
	pos   int64 // atomic
	chunk int
	// hook is called (on the goroutine doing the Read) before each Read with
	// the number of bytes handed out so far.
	hook func(pos int64)
}

func (r *huntReader) Read(p []byte) (int, error) {
	pos := atomic.LoadInt64(&r.pos)
	if r.hook != nil {
		r.hook(pos)
	}
	if int(pos) >= len(r.data) {
		return 0, io.EOF
	}
	n := len(p)
	if r.chunk > 0 && n > r.chunk {
		n = r.chunk
	}
	n = copy(p[:n], r.data[pos:])
	atomic.AddInt64(&r.pos, int64(n))
	return n, nil
}

func (r *huntReader) read() int64 { return atomic.LoadInt64(&r.pos) }

// huntGoroutines returns the stacks of goroutines that run osmpbf frames
// other than the test functions themselves.
func huntGoroutines() []string {
	buf := make([]byte, 1<<20)
	buf = buf[:runtime.Stack(buf, true)]
	var out []string
	for _, g := range strings.Split(string(buf), "\n\n") {
		if (strings.Contains(g, "osmpbf.(*decoder)") || strings.Contains(g, "osmpbf.(*dataDecoder)")) &&
			!strings.Contains(g, "testing.tRunner") && !strings.Contains(g, "runtime.goexit1") {
			out = append(out, g)
		}
	}
	return out
}

func huntWaitNoGoroutines(d time.Duration) []string {
	deadline := time.Now().Add(d)
	for {
		gs := huntGoroutines()
		if len(gs) == 0 || time.Now().After(deadline) {
			return gs
		}
		time.Sleep(time.Millisecond)
	}
}

func huntObjID(o osm.Object) (osm.Type, int64) {
	switch v := o.(type) {
	case *osm.Node:
		return osm.TypeNode, int64(v.ID)
	case *osm.Way:
		return osm.TypeWay, int64(v.ID)
	case *osm.Relation:
		return osm.TypeRelation, int64(v.ID)
	}
	return "", -1
}

// huntWithDeadline runs f and fails if it does not return in time.
func huntWithDeadline(t *testing.T, what string, d time.Duration, f func()) bool {
	done := make(chan struct{})
	go func() { defer close(done); f() }()
	select {
	case <-done:
		return true
	case <-time.After(d):
		buf := make([]byte, 1<<16)
		buf = buf[:runtime.Stack(buf, true)]
		t.Errorf("%s: did not return within %v\n%s", what, d, buf)
		return false
	}
}

// a reader that never delivers: Close/cancel before the first Scan must make
// Scan return false without touching it.
type huntBlockingReader struct {
	reads int64
	ch    chan struct{}
}

func (b *huntBlockingReader) Read(p []byte) (int, error) {
	atomic.AddInt64(&b.reads, 1)
	<-b.ch
	return 0, errors.New("released")
}
