package osmapi

// Minimal reproduction for finding C20-1: Map and Notes send a bbox rounded
// to 6 decimals instead of the bounds they were given. OSM coordinates have
// 7 decimals, so the server answers for a different box.

import (
	"context"
	"fmt"
	"net/http"
	"net/http/httptest"
	"strconv"
	"strings"
	"testing"

	"github.com/paulmach/osm"
)

func TestHuntC20_Finding_BBoxSentIsNotTheArgument(t *testing.T) {
	var bbox string
	ts := httptest.NewServer(http.HandlerFunc(func(w http.ResponseWriter, r *http.Request) {
		bbox = r.URL.Query().Get("bbox")
		w.Write([]byte("<osm></osm>"))
	}))
	defer ts.Close()
	ds := &Datasource{BaseURL: ts.URL, Client: &http.Client{}}
	ctx := context.Background()

	b := &osm.Bounds{MinLon: 13.3777776, MinLat: 52.5162746, MaxLon: 13.3777779, MaxLat: 52.5162749}
	want := []float64{b.MinLon, b.MinLat, b.MaxLon, b.MaxLat} // bbox=left,bottom,right,top

	check := func(name string) {
		parts := strings.Split(bbox, ",")
		if len(parts) != 4 {
			t.Fatalf("%s: bbox %q", name, bbox)
		}
		for i, p := range parts {
			f, err := strconv.ParseFloat(p, 64)
			if err != nil {
				t.Fatalf("%s: bbox %q: %v", name, bbox, err)
			}
			if f != want[i] {
				t.Errorf("%s: bbox=%s, part %d is %v but the argument is %v", name, bbox, i, f, want[i])
			}
		}
	}

	if _, err := ds.Map(ctx, b); err != nil {
		t.Fatal(err)
	}
	check("Map")

	if _, err := ds.Notes(ctx, b); err != nil {
		t.Fatal(err)
	}
	check("Notes")
}

// The consequence end to end: a server holding one node that lies inside the
// requested bounds; the server filters by the bbox it receives, as the api does.
func TestHuntC20_Finding_BBoxLosesElementInsideBounds(t *testing.T) {
	const nodeLon, nodeLat = 13.3777777, 52.5162747
	ts := httptest.NewServer(http.HandlerFunc(func(w http.ResponseWriter, r *http.Request) {
		p := strings.Split(r.URL.Query().Get("bbox"), ",")
		if len(p) != 4 {
			w.WriteHeader(400)
			return
		}
		var v [4]float64
		for i := range p {
			v[i], _ = strconv.ParseFloat(p[i], 64)
		}
		fmt.Fprint(w, `<osm version="0.6">`)
		if v[0] <= nodeLon && nodeLon <= v[2] && v[1] <= nodeLat && nodeLat <= v[3] {
			fmt.Fprintf(w, `<node id="1" version="1" lat="%.7f" lon="%.7f"/>`, nodeLat, nodeLon)
		}
		fmt.Fprint(w, `</osm>`)
	}))
	defer ts.Close()
	ds := &Datasource{BaseURL: ts.URL, Client: &http.Client{}}

	// the node is strictly inside these bounds
	b := &osm.Bounds{MinLon: 13.3777776, MinLat: 52.5162746, MaxLon: 13.39, MaxLat: 52.52}
	o, err := ds.Map(context.Background(), b)
	if err != nil {
		t.Fatal(err)
	}
	if len(o.Nodes) != 1 {
		t.Errorf("Map(%+v) returned %d nodes, the node at %v,%v inside the bounds is missing", *b, len(o.Nodes), nodeLon, nodeLat)
	}
}
