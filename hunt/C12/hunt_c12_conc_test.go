package annotate

import (
	"context"
	"sync"
	"testing"
	"time"

	"github.com/paulmach/osm"
)

// NOT a C12 finding (concurrent use of one datasource is outside the
// property's quantifier); kept as an observation. Two goroutines annotate
// their own deep copies of a way against one shared osm.HistoryDatasource whose
// histories are not yet in version order; the library sorts the shared slices
// in place (annotate/datasource.go nodesToChildList).
func TestHuntC12ObservationSharedDatasourceConcurrent(t *testing.T) {
	ts := time.Date(2016, 1, 1, 0, 0, 0, 0, time.UTC)
	ds := &osm.HistoryDatasource{Nodes: map[osm.NodeID]osm.Nodes{}}
	w := &osm.Way{ID: 1, Version: 1, Visible: true, Timestamp: ts}
	for n := 1; n <= 5; n++ {
		id := osm.NodeID(n)
		w.Nodes = append(w.Nodes, osm.WayNode{ID: id})
		var h osm.Nodes
		for v := 30; v >= 1; v-- {
			h = append(h, &osm.Node{ID: id, Version: v, Visible: true, Timestamp: ts.Add(time.Duration(v-2) * time.Hour), Lat: float64(v)})
		}
		ds.Nodes[id] = h
	}
	var wg sync.WaitGroup
	for g := 0; g < 4; g++ {
		wg.Add(1)
		go func() {
			defer wg.Done()
			_ = Ways(context.Background(), osm.Ways{cpWay(w)}, ds)
		}()
	}
	wg.Wait()
}
