package osmpbf

// Self-contained failing tests for the C01 findings (no helper from any other
// test file is used). Files are built with proto.Marshal from the generated
// message types, or from literal bytes where the wire layout itself matters.

import (
	"bytes"
	"context"
	"encoding/binary"
	"testing"
	"time"

	"github.com/paulmach/osm"
	"github.com/paulmach/osm/osmpbf/internal/osmpbf"
	"google.golang.org/protobuf/proto"
)

func fc01Block(t *testing.T, typ string, payload []byte) []byte {
	t.Helper()
	blob, err := proto.Marshal(&osmpbf.Blob{Raw: payload})
	if err != nil {
		t.Fatal(err)
	}
	hdr, err := proto.Marshal(&osmpbf.BlobHeader{Type: proto.String(typ), Datasize: proto.Int32(int32(len(blob)))})
	if err != nil {
		t.Fatal(err)
	}
	out := make([]byte, 4)
	binary.BigEndian.PutUint32(out, uint32(len(hdr)))
	return append(append(out, hdr...), blob...)
}

func fc01Marshal(t *testing.T, m proto.Message) []byte {
	t.Helper()
	b, err := proto.Marshal(m)
	if err != nil {
		t.Fatal(err)
	}
	return b
}

func fc01Header(t *testing.T, features ...string) []byte {
	return fc01Block(t, "OSMHeader", fc01Marshal(t, &osmpbf.HeaderBlock{
		RequiredFeatures: features,
		Writingprogram:   proto.String("hunt"),
	}))
}

func fc01Scan(t *testing.T, file []byte) ([]osm.Object, error) {
	t.Helper()
	s := New(context.Background(), bytes.NewReader(file), 1)
	defer s.Close()
	var objs []osm.Object
	for s.Scan() {
		objs = append(objs, s.Object())
	}
	return objs, s.Err()
}

// F1: Info.timestamp / DenseInfo.timestamp are int64 milliseconds (times
// date_granularity); values after 2262-04-11T23:47:16Z or before
// 1677-09-21T00:12:44Z come out as a wrapped, wrong instant.
func TestHuntC01FarTimestamp(t *testing.T) {
	const secs = 10000000000 // 2286-11-20T17:46:40Z, date_granularity default 1000 ms
	want := time.Unix(secs, 0).UTC()

	block := &osmpbf.PrimitiveBlock{
		Stringtable: &osmpbf.StringTable{S: []string{""}},
		Primitivegroup: []*osmpbf.PrimitiveGroup{
			{Dense: &osmpbf.DenseNodes{
				Id: []int64{1}, Lat: []int64{0}, Lon: []int64{0},
				Denseinfo: &osmpbf.DenseInfo{Timestamp: []int64{secs}},
			}},
			{Ways: []*osmpbf.Way{{Id: proto.Int64(2), Info: &osmpbf.Info{Timestamp: proto.Int64(secs)}}}},
			{Relations: []*osmpbf.Relation{{Id: proto.Int64(3), Info: &osmpbf.Info{Timestamp: proto.Int64(secs)}}}},
		},
	}
	file := append(fc01Header(t, "OsmSchema-V0.6", "DenseNodes"), fc01Block(t, "OSMData", fc01Marshal(t, block))...)

	objs, err := fc01Scan(t, file)
	if err != nil {
		t.Fatal(err)
	}
	if len(objs) != 3 {
		t.Fatalf("got %d objects, want 3", len(objs))
	}
	if got := objs[0].(*osm.Node).Timestamp; !got.Equal(want) {
		t.Errorf("node timestamp: got %v want %v", got, want)
	}
	if got := objs[1].(*osm.Way).Timestamp; !got.Equal(want) {
		t.Errorf("way timestamp: got %v want %v", got, want)
	}
	if got := objs[2].(*osm.Relation).Timestamp; !got.Equal(want) {
		t.Errorf("relation timestamp: got %v want %v", got, want)
	}
}

// F2: Header() after the scan reached the end of the input returns the
// header together with io.EOF.
func TestHuntC01HeaderAfterScan(t *testing.T) {
	block := &osmpbf.PrimitiveBlock{
		Stringtable:    &osmpbf.StringTable{S: []string{""}},
		Primitivegroup: []*osmpbf.PrimitiveGroup{{Ways: []*osmpbf.Way{{Id: proto.Int64(2)}}}},
	}
	file := append(fc01Header(t, "OsmSchema-V0.6", "DenseNodes"), fc01Block(t, "OSMData", fc01Marshal(t, block))...)

	s := New(context.Background(), bytes.NewReader(file), 1)
	defer s.Close()
	n := 0
	for s.Scan() {
		n++
	}
	if err := s.Err(); err != nil || n != 1 {
		t.Fatalf("scan: %d objects, err %v", n, err)
	}
	h, err := s.Header()
	if err != nil {
		t.Errorf("Header() after a clean scan: unexpected error %v", err)
	}
	if h == nil || h.WritingProgram != "hunt" || len(h.RequiredFeatures) != 2 {
		t.Errorf("Header() after a clean scan: got %+v", h)
	}
}

// F3: plain Node messages (PrimitiveGroup.nodes, field 1) are refused.
func TestHuntC01PlainNodes(t *testing.T) {
	block := &osmpbf.PrimitiveBlock{
		Stringtable: &osmpbf.StringTable{S: []string{"", "amenity", "cafe", "alice"}},
		Primitivegroup: []*osmpbf.PrimitiveGroup{{Nodes: []*osmpbf.Node{
			{
				Id: proto.Int64(17), Lat: proto.Int64(515000000), Lon: proto.Int64(-1230000),
				Keys: []uint32{1}, Vals: []uint32{2},
				Info: &osmpbf.Info{Version: proto.Int32(3), Timestamp: proto.Int64(1400000000), Changeset: proto.Int64(55),
					Uid: proto.Int32(42), UserSid: proto.Uint32(3)},
			},
			{Id: proto.Int64(18), Lat: proto.Int64(-100), Lon: proto.Int64(200)},
		}}},
	}
	// no DenseNodes feature: the file does not use dense nodes
	file := append(fc01Header(t, "OsmSchema-V0.6"), fc01Block(t, "OSMData", fc01Marshal(t, block))...)

	objs, err := fc01Scan(t, file)
	if err != nil {
		t.Fatalf("scan error: %v", err)
	}
	if len(objs) != 2 {
		t.Fatalf("got %d objects, want 2", len(objs))
	}
	n := objs[0].(*osm.Node)
	if n.ID != 17 || n.Version != 3 || n.ChangesetID != 55 || n.UserID != 42 || n.User != "alice" || !n.Visible ||
		!n.Timestamp.Equal(time.Unix(1400000000, 0)) || len(n.Tags) != 1 || n.Tags[0] != (osm.Tag{Key: "amenity", Value: "cafe"}) ||
		n.Lat < 51.5-1e-10 || n.Lat > 51.5+1e-10 || n.Lon < -0.123-1e-10 || n.Lon > -0.123+1e-10 {
		t.Errorf("node 17: got %+v", n)
	}
	n = objs[1].(*osm.Node)
	if n.ID != 18 || n.Version != 0 || n.User != "" || !n.Visible || len(n.Tags) != 0 ||
		n.Lat < -0.00001-1e-10 || n.Lat > -0.00001+1e-10 || n.Lon < 0.00002-1e-10 || n.Lon > 0.00002+1e-10 {
		t.Errorf("node 18: got %+v", n)
	}
}

// F4: a packed repeated field whose values are spread over two records of
// the same message (legal protobuf: the payloads are to be concatenated).
func TestHuntC01SplitPackedField(t *testing.T) {
	// Way{id:7, refs:[5,6,8]} with refs (field 8, sint64, delta coded 5,+1,+2)
	// written as two records: [5,+1] and [+2].
	way := []byte{
		0x08, 0x07, // id = 7
		0x42, 0x02, 0x0a, 0x02, // refs: zigzag(5), zigzag(1)
		0x42, 0x01, 0x04, // refs: zigzag(2)
	}
	// DenseNodes{id:[1,2,3], lat:[0,0,0], lon:[0,0,0]} with id split [1,+1] and [+1].
	dense := []byte{
		0x0a, 0x02, 0x02, 0x02, // id: zigzag(1), zigzag(1)
		0x0a, 0x01, 0x02, // id: zigzag(1)
		0x42, 0x03, 0x00, 0x00, 0x00, // lat
		0x4a, 0x03, 0x00, 0x00, 0x00, // lon
	}
	group1 := append([]byte{0x1a, byte(len(way))}, way...)     // PrimitiveGroup.ways
	group2 := append([]byte{0x12, byte(len(dense))}, dense...) // PrimitiveGroup.dense
	block := []byte{0x0a, 0x02, 0x0a, 0x00}                    // stringtable {s: [""]}
	block = append(block, append([]byte{0x12, byte(len(group1))}, group1...)...)
	block = append(block, append([]byte{0x12, byte(len(group2))}, group2...)...)

	// the bytes mean what is claimed: the reference protobuf decoder agrees
	var pb osmpbf.PrimitiveBlock
	if err := proto.Unmarshal(block, &pb); err != nil {
		t.Fatal(err)
	}
	if r := pb.Primitivegroup[0].Ways[0].Refs; len(r) != 3 || r[0] != 5 || r[1] != 1 || r[2] != 2 {
		t.Fatalf("test input is wrong: refs %v", r)
	}
	if ids := pb.Primitivegroup[1].Dense.Id; len(ids) != 3 {
		t.Fatalf("test input is wrong: ids %v", ids)
	}

	file := append(fc01Header(t, "OsmSchema-V0.6", "DenseNodes"), fc01Block(t, "OSMData", block)...)
	objs, err := fc01Scan(t, file)
	if err != nil {
		t.Fatalf("scan error: %v", err)
	}
	if len(objs) != 4 {
		t.Errorf("got %d objects, want 4 (way 7, nodes 1 2 3)", len(objs))
	}
	w, ok := objs[0].(*osm.Way)
	if !ok || len(w.Nodes) != 3 || w.Nodes[0].ID != 5 || w.Nodes[1].ID != 6 || w.Nodes[2].ID != 8 {
		t.Errorf("way refs: got %+v want [5 6 8]", objs[0])
	}
	for i, o := range objs[1:] {
		if n, ok := o.(*osm.Node); !ok || n.ID != osm.NodeID(i+1) {
			t.Errorf("dense node %d: got %+v want id %d", i, o, i+1)
		}
	}
}
