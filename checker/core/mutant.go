package core

import (
	"fmt"
	"os"
	"path/filepath"
	"strings"
)

// Mutant is one source edit of the sensitivity suite: in File (relative to the
// repository root) the N-th (1-based, default 1) occurrence of Find is replaced
// by Replace. The edited tree must still type-check and the property's rules
// must report a violation of rule ExpectRule whose construct contains
// ExpectConstruct.
type Mutant struct {
	Name            string
	File            string
	Find            string
	Replace         string
	Nth             int
	ExpectRule      string // e.g. "P3" (suffix of the rule id); empty = any rule of the property
	ExpectConstruct string
}

// Overlay builds the overlay for a mutant; ok=false when the anchor text is absent.
func (m *Mutant) Overlay(root string) (map[string][]byte, bool, error) {
	path := filepath.Join(root, m.File)
	src, err := os.ReadFile(path)
	if err != nil {
		return nil, false, err
	}
	s := string(src)
	nth := m.Nth
	if nth <= 0 {
		nth = 1
	}
	idx := -1
	from := 0
	for k := 0; k < nth; k++ {
		i := strings.Index(s[from:], m.Find)
		if i < 0 {
			return nil, false, nil
		}
		idx = from + i
		from = idx + len(m.Find)
	}
	out := s[:idx] + m.Replace + s[idx+len(m.Find):]
	if out == s {
		return nil, false, fmt.Errorf("mutant %s does not change the file", m.Name)
	}
	return map[string][]byte{path: []byte(out)}, true, nil
}
