// Package core holds the loader, the obligation model, evidence and
// known-findings plumbing shared by all rules.
package core

import (
	"fmt"
	"go/ast"
	"go/token"
	"go/types"
	"os"
	"path/filepath"
	"sort"
	"strings"

	"golang.org/x/tools/go/callgraph"
	"golang.org/x/tools/go/callgraph/cha"
	"golang.org/x/tools/go/callgraph/vta"
	"golang.org/x/tools/go/packages"
	"golang.org/x/tools/go/ssa"
	"golang.org/x/tools/go/ssa/ssautil"
)

// ModulePath is the import path of the analysed repository.
const ModulePath = "github.com/paulmach/osm"

// BuildConfig is one row of the build-config matrix.
type BuildConfig struct {
	Name string
	Env  []string
}

// Configs returns the build configurations for a tier.
func Configs(tier string) []BuildConfig {
	def := BuildConfig{Name: "default(cgo)", Env: []string{"CGO_ENABLED=1"}}
	if tier != "thorough" {
		return []BuildConfig{def}
	}
	return []BuildConfig{
		def,
		{Name: "nocgo", Env: []string{"CGO_ENABLED=0"}},
		{Name: "386", Env: []string{"CGO_ENABLED=0", "GOARCH=386"}},
	}
}

// Program is the loaded, type-checked repository.
type Program struct {
	Root   string
	Config BuildConfig
	Fset   *token.FileSet
	All    []*packages.Package          // repository packages
	ByPath map[string]*packages.Package // every loaded package by import path

	ssaProg *ssa.Program
	ssaPkgs map[*packages.Package]*ssa.Package
	cg      *callgraph.Graph
	parents map[*ast.File]map[ast.Node]ast.Node
}

// Load type-checks ./... of root under the given config. overlay maps
// absolute file names to replacement contents (used by the sensitivity suite).
func Load(root string, bc BuildConfig, overlay map[string][]byte) (*Program, error) {
	os.Unsetenv("GOWORK")
	env := []string{}
	for _, kv := range os.Environ() {
		k := kv
		if i := strings.IndexByte(kv, '='); i >= 0 {
			k = kv[:i]
		}
		switch k {
		case "GOFLAGS", "GOPROXY", "GOSUMDB", "GOWORK", "GOTOOLCHAIN", "CGO_ENABLED", "GOARCH", "GOOS":
			continue
		}
		env = append(env, kv)
	}
	env = append(env, "GOFLAGS=-mod=readonly", "GOPROXY=off", "GOSUMDB=off", "GOWORK=off", "GOTOOLCHAIN=local")
	env = append(env, bc.Env...)
	cfg := &packages.Config{
		Mode:    packages.LoadAllSyntax,
		Dir:     root,
		Env:     env,
		Tests:   false,
		Overlay: overlay,
	}
	pkgs, err := packages.Load(cfg, "./...")
	if err != nil {
		return nil, fmt.Errorf("load: %v", err)
	}
	p := &Program{Root: root, Config: bc, ByPath: map[string]*packages.Package{}, parents: map[*ast.File]map[ast.Node]ast.Node{}}
	var terrs []string
	packages.Visit(pkgs, nil, func(pk *packages.Package) {
		p.ByPath[pk.PkgPath] = pk
		if strings.HasPrefix(pk.PkgPath, ModulePath) {
			for _, e := range pk.Errors {
				terrs = append(terrs, e.Error())
			}
		}
	})
	for _, pk := range pkgs {
		if pk.Fset != nil {
			p.Fset = pk.Fset
		}
		p.All = append(p.All, pk)
	}
	sort.Slice(p.All, func(i, j int) bool { return p.All[i].PkgPath < p.All[j].PkgPath })
	if len(terrs) > 0 {
		return nil, fmt.Errorf("type errors in repository (%d): %s", len(terrs), strings.Join(terrs[:min(len(terrs), 5)], "; "))
	}
	if len(p.All) < 12 {
		return nil, fmt.Errorf("only %d repository packages loaded (expected >= 12)", len(p.All))
	}
	return p, nil
}

// Pkg returns the repository package with the given path relative to the
// module root ("" for the root package), or nil.
func (p *Program) Pkg(rel string) *packages.Package {
	path := ModulePath
	if rel != "" {
		path += "/" + rel
	}
	return p.ByPath[path]
}

// Rel returns file:line relative to the repository root.
func (p *Program) Rel(pos token.Pos) string {
	if !pos.IsValid() {
		return "-"
	}
	ps := p.Fset.Position(pos)
	f := ps.Filename
	if r, err := filepath.Rel(p.Root, f); err == nil && !strings.HasPrefix(r, "..") {
		f = r
	}
	return fmt.Sprintf("%s:%d", f, ps.Line)
}

// SSA builds (once) the SSA form of the whole program.
func (p *Program) SSA() *ssa.Program {
	if p.ssaProg == nil {
		var roots []*packages.Package
		roots = append(roots, p.All...)
		prog, spkgs := ssautil.AllPackages(roots, ssa.InstantiateGenerics)
		prog.Build()
		p.ssaProg = prog
		p.ssaPkgs = map[*packages.Package]*ssa.Package{}
		for i, pk := range roots {
			p.ssaPkgs[pk] = spkgs[i]
		}
	}
	return p.ssaProg
}

// SSAPkg returns the SSA package of a repository package.
func (p *Program) SSAPkg(pk *packages.Package) *ssa.Package {
	p.SSA()
	return p.ssaPkgs[pk]
}

// SSAFunc returns the SSA function for a types.Func.
func (p *Program) SSAFunc(fn *types.Func) *ssa.Function {
	if fn == nil {
		return nil
	}
	return p.SSA().FuncValue(fn)
}

// CallGraph builds (once) the VTA-refined call graph of the whole program.
func (p *Program) CallGraph() *callgraph.Graph {
	if p.cg == nil {
		prog := p.SSA()
		p.cg = vta.CallGraph(ssautil.AllFunctions(prog), cha.CallGraph(prog))
	}
	return p.cg
}

// Parent returns the parent map of a file.
func (p *Program) Parents(f *ast.File) map[ast.Node]ast.Node {
	if m, ok := p.parents[f]; ok {
		return m
	}
	m := map[ast.Node]ast.Node{}
	var stack []ast.Node
	ast.Inspect(f, func(n ast.Node) bool {
		if n == nil {
			stack = stack[:len(stack)-1]
			return true
		}
		if len(stack) > 0 {
			m[n] = stack[len(stack)-1]
		}
		stack = append(stack, n)
		return true
	})
	p.parents[f] = m
	return m
}

// FileOf returns the syntax file containing pos.
func (p *Program) FileOf(pk *packages.Package, pos token.Pos) *ast.File {
	for _, f := range pk.Syntax {
		if f.Pos() <= pos && pos <= f.End() {
			return f
		}
	}
	return nil
}

// IsRepoFile reports whether pos lies in a non-generated, non-test file of the repository.
func (p *Program) InRepo(pos token.Pos) bool {
	if !pos.IsValid() {
		return false
	}
	return strings.HasPrefix(p.Fset.Position(pos).Filename, p.Root+string(filepath.Separator))
}
