package core

import (
	"fmt"
	"go/token"
	"runtime/debug"
	"sort"
	"strings"
)

// Status of an obligation.
const (
	Discharged = "discharged"
	Violated   = "violated"
	Undecided  = "undecided"
)

// Obligation is one thing a rule had to establish about one construct.
type Obligation struct {
	Rule      string `json:"rule"`      // e.g. C07.P3
	Construct string `json:"construct"` // stable key: rule + construct, never a line
	Pos       string `json:"pos"`       // file:line (diagnostic only)
	Status    string `json:"status"`
	Detail    string `json:"detail"`            // proof sketch or failure
	Trivial   bool   `json:"trivial,omitempty"` // discharged by a constant / by absence
	Config    string `json:"config,omitempty"`
}

// Key identifies an obligation independent of position.
func (o *Obligation) Key() string { return o.Rule + " " + o.Construct }

// Property is the set of rules for one property id.
type Property struct {
	ID          string
	Title       string
	Explanation string   // what a PASS means and what it does not (goes into evidence)
	Assumptions []string // trusted base
	Rules       []*Rule
	Mutants     []Mutant
	Benign      []Mutant // behaviour-preserving overlay edits: the rules must stay silent on each (ExpectRule/ExpectConstruct unused)
	NeedSSA     bool
	LevelText   string // MANIFEST level_claimed.text
	LevelNote   string // MANIFEST level_note
	Technique   string // MANIFEST technique
	DesignRef   string
	Exhaustive  bool // the rules enumerate a finite abstract domain completely (evidence coverage.exhaustive)
}

// Rule is a repository-specific rule with an instance floor.
type Rule struct {
	ID    string // e.g. "P3"
	Doc   string
	Floor int // minimum number of obligations confirmed by hand on the pinned tree
	Run   func(r *R)
}

// R is the handle a rule uses to emit obligations.
type R struct {
	P      *Program
	PropID string
	RuleID string
	Tier   string
	Obls   []Obligation
	Stats  map[string]int
	seen   map[string]int
}

func (r *R) add(status, construct string, pos token.Pos, trivial bool, format string, args ...interface{}) {
	key := construct
	if r.seen == nil {
		r.seen = map[string]int{}
	}
	r.seen[key]++
	if n := r.seen[key]; n > 1 {
		construct = fmt.Sprintf("%s#%d", construct, n)
	}
	r.Obls = append(r.Obls, Obligation{
		Rule: r.PropID + "." + r.RuleID, Construct: construct, Pos: r.P.Rel(pos), Status: status,
		Detail: fmt.Sprintf(format, args...), Trivial: trivial, Config: r.P.Config.Name,
	})
}

// OK records a discharged obligation with its proof sketch.
func (r *R) OK(construct string, pos token.Pos, format string, args ...interface{}) {
	r.add(Discharged, construct, pos, false, format, args...)
}

// OKTrivial records an obligation discharged by a constant fact or by absence.
func (r *R) OKTrivial(construct string, pos token.Pos, format string, args ...interface{}) {
	r.add(Discharged, construct, pos, true, format, args...)
}

// Bad records a violated obligation.
func (r *R) Bad(construct string, pos token.Pos, format string, args ...interface{}) {
	r.add(Violated, construct, pos, false, format, args...)
}

// Unknown records an obligation the rule could not decide (fails the check).
func (r *R) Unknown(construct string, pos token.Pos, format string, args ...interface{}) {
	r.add(Undecided, construct, pos, false, format, args...)
}

// Check is OK or Bad depending on cond.
func (r *R) Check(cond bool, construct string, pos token.Pos, okFmt, badFmt string) {
	if cond {
		r.OK(construct, pos, "%s", okFmt)
	} else {
		r.Bad(construct, pos, "%s", badFmt)
	}
}

// Anchor reports an anchor that no longer resolves.
func (r *R) Anchor(name string) {
	r.add(Violated, "anchor:"+name, token.NoPos, false, "UNRESOLVED-ANCHOR %s: the mechanism this rule is keyed on was not found; the rule cannot vouch for the property", name)
}

// Stat counts things analysed (functions, call sites, paths ...).
func (r *R) Stat(name string, n int) {
	if r.Stats == nil {
		r.Stats = map[string]int{}
	}
	r.Stats[name] += n
}

// RunProperty runs every rule of prop on p and returns the obligations.
func RunProperty(p *Program, prop *Property, tier string) ([]Obligation, map[string]int) {
	var all []Obligation
	stats := map[string]int{}
	for _, rule := range prop.Rules {
		r := &R{P: p, PropID: prop.ID, RuleID: rule.ID, Tier: tier}
		func() {
			defer func() {
				if e := recover(); e != nil {
					st := string(debug.Stack())
					// keep the frames of the rule only
					lines := strings.Split(st, "\n")
					if len(lines) > 24 {
						lines = lines[:24]
					}
					r.Unknown("rule-panic", token.NoPos, "rule panicked (unexpected code shape): %v | %s", e, strings.Join(lines, " | "))
				}
			}()
			rule.Run(r)
		}()
		n := 0
		for _, o := range r.Obls {
			if !strings.HasPrefix(o.Construct, "anchor:") {
				n++
			}
		}
		if n < rule.Floor {
			r.add(Violated, "instance-floor", token.NoPos, false,
				"rule matched %d instance(s), fewer than the %d confirmed by hand on the pinned tree: the construct the rule is about is gone or no longer recognised", n, rule.Floor)
		}
		all = append(all, r.Obls...)
		for k, v := range r.Stats {
			stats[k] += v
		}
		stats["rules"]++
	}
	return all, stats
}

// SortObls orders obligations by rule then position (numerically) then construct.
func SortObls(obls []Obligation) {
	sort.SliceStable(obls, func(i, j int) bool {
		a, b := obls[i], obls[j]
		if a.Rule != b.Rule {
			return a.Rule < b.Rule
		}
		fa, la := splitPos(a.Pos)
		fb, lb := splitPos(b.Pos)
		if fa != fb {
			return fa < fb
		}
		if la != lb {
			return la < lb
		}
		return a.Construct < b.Construct
	})
}

func splitPos(s string) (string, int) {
	i := strings.LastIndexByte(s, ':')
	if i < 0 {
		return s, 0
	}
	n := 0
	fmt.Sscanf(s[i+1:], "%d", &n)
	return s[:i], n
}
