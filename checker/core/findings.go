package core

import (
	"bufio"
	"encoding/json"
	"os"
	"strings"
)

// Finding is one line of known_findings.jsonl.
type Finding struct {
	Status    string `json:"status"` // "known" or "fixed"
	Property  string `json:"property"`
	Rule      string `json:"rule"`
	Construct string `json:"construct"`
	What      string `json:"what"`
	Commit    string `json:"commit,omitempty"`
}

// LoadFindings reads the committed known-findings file (never written at run time).
func LoadFindings(path string) ([]Finding, error) {
	f, err := os.Open(path)
	if err != nil {
		if os.IsNotExist(err) {
			return nil, nil
		}
		return nil, err
	}
	defer f.Close()
	var out []Finding
	sc := bufio.NewScanner(f)
	sc.Buffer(make([]byte, 1<<20), 1<<20)
	for sc.Scan() {
		line := strings.TrimSpace(sc.Text())
		if line == "" || strings.HasPrefix(line, "#") || strings.HasPrefix(line, "fixed:") {
			continue
		}
		var fd Finding
		if err := json.Unmarshal([]byte(line), &fd); err != nil {
			return nil, err
		}
		out = append(out, fd)
	}
	return out, sc.Err()
}

// MatchKnown returns the known (not fixed) finding matching an obligation, if any.
func MatchKnown(fs []Finding, prop string, o *Obligation) *Finding {
	for i := range fs {
		f := &fs[i]
		if f.Status == "known" && f.Property == prop && f.Rule == o.Rule && f.Construct == o.Construct {
			return f
		}
	}
	return nil
}
