package rules

import (
	"fmt"
	"go/ast"
	"go/token"
	"go/types"

	"osmcheck/core"
)

// c09LitField returns the value given to field f in a keyed composite literal (nil when absent).
func c09LitField(info *types.Info, cl *ast.CompositeLit, f *types.Var) ast.Expr {
	for _, e := range cl.Elts {
		if kv, ok := e.(*ast.KeyValueExpr); ok {
			if id, ok := kv.Key.(*ast.Ident); ok && info.Uses[id] == f {
				return kv.Value
			}
		}
	}
	return nil
}

// c09Lits lists the composite literals of named type nt inside node n.
func c09Lits(info *types.Info, n ast.Node, nt *types.Named) []*ast.CompositeLit {
	var out []*ast.CompositeLit
	if n == nil {
		return nil
	}
	ast.Inspect(n, func(x ast.Node) bool {
		switch y := x.(type) {
		case *ast.FuncLit:
			return false
		case *ast.CompositeLit:
			if t, ok := info.TypeOf(y).(*types.Named); ok && t == nt {
				out = append(out, y)
			}
		}
		return true
	})
	return out
}

// c09AllDefs is pbfModel.allDefs (kept under this name for the C09 rules).
func c09AllDefs(m *pbfModel, e ast.Expr, seen map[types.Object]bool, leaf func(o pbfOrigin) bool) bool {
	return m.allDefs(e, seen, leaf)
}

// c09LoadsCounter lists the reads of the byte counter inside node n (the `+=` increment itself is not a load).
func c09LoadsCounter(m *pbfModel, n ast.Node, counter *types.Var) []ast.Expr {
	var out []ast.Expr
	if n == nil {
		return nil
	}
	if as, ok := n.(*ast.AssignStmt); ok {
		for _, l := range as.Lhs {
			if fieldOf(m.info, l) == counter {
				return nil
			}
		}
	}
	ast.Inspect(n, func(x ast.Node) bool {
		switch y := x.(type) {
		case *ast.FuncLit:
			return false
		case *ast.SelectorExpr:
			if fieldOf(m.info, y) == counter && namedPath(selRecv(m.info, y)) == namedPath(m.decoderT) {
				out = append(out, y)
			}
		}
		return true
	})
	return out
}

// c09B2: on every path of the reader goroutine (through helpers): inside its read loop the byte counter is loaded
// before the block is read, never after; a pair is only sent in an iteration that read a block; the data pair's offset
// is (only) such a load and its blob (only) a result of the block reader; before the loop a block is only sent with
// offset 0.
func c09B2(r *core.R) {
	m := modelOrAnchor(r)
	if m == nil {
		return
	}
	f := c09Resolve(r, m)
	if f == nil {
		return
	}
	info := m.info
	g := m.goOf("reader")
	if g == nil {
		r.Anchor("reader goroutine")
		return
	}
	p := &c02Pipe{m: m, info: info, in: f.in, out: f.out, queue: f.queue, ops: m.chanOps()}
	loop := p.mainLoop(g, f.in)
	if loop == nil {
		r.Anchor("reader loop")
		return
	}
	cCap, cRestart := "capture@"+g.unit.name, "restart@"+g.unit.name
	isCounterLoad := func(o pbfOrigin) bool {
		return o.kind == "assign" && o.e != nil && fieldOf(info, o.e) == f.counter
	}
	var isBlobResult func(o pbfOrigin) bool
	isBlobResult = func(o pbfOrigin) bool {
		if o.kind == "result" {
			// a result of the block reader (the blob itself, or a struct that carries it)
			call, ok := ast.Unparen(o.e).(*ast.CallExpr)
			return ok && callee(info, call) == f.blockReader.Obj
		}
		if o.kind == "assign" && o.e != nil {
			if isNilIdent(o.e) {
				return true // "no block": nothing is sent for it
			}
			// the blob field of a struct value that is a result of the block reader
			if base, fld := m.structLocalField(o.e); base != nil && namedPath(fld.Type()) == namedPath(f.blobIn.Type()) {
				return c09AllDefs(m, base, map[types.Object]bool{}, isBlobResult)
			}
		}
		return false
	}
	const (
		captured = 1 << iota
		read
		inLoop
	)
	var capV, restartV []c02Viol
	nData, nRestart, nReads := 0, 0, 0
	var capPos token.Pos
	seenBuild := map[ast.Node]bool{}
	var checkBuild func(st int, b c09Build)
	checkLits := func(st int, n ast.Node, fi *FuncInfo) {
		for _, b := range c09Builds(m, f, n, fi) {
			checkBuild(st, b)
		}
	}
	checkBuild = func(st int, b c09Build) {
		if seenBuild[b.src] {
			return
		}
		seenBuild[b.src] = true
		{
			blob, off := b.blob, b.off
			okBlob := c09AllDefs(m, blob, map[types.Object]bool{}, isBlobResult)
			if st&inLoop != 0 {
				nData++
				switch {
				case off == nil:
					capV = append(capV, c02Viol{b.pos, fmt.Sprintf("the data pair `%s` has no offset taken from a captured counter value: blocks would all report offset 0", src(r.P.Fset, b.src))})
				case !c09AllDefs(m, off, map[types.Object]bool{}, isCounterLoad):
					capV = append(capV, c02Viol{b.pos, fmt.Sprintf("the offset of a data pair (`%s`) is not (only) a load of the byte counter %s", src(r.P.Fset, off), f.counter.Name())})
				}
				if !okBlob {
					capV = append(capV, c02Viol{b.pos, "the pair does not carry the blob returned by the block read"})
				}
			} else {
				nRestart++
				if off != nil {
					if v, ok := constInt(info, off); !ok || v != 0 {
						restartV = append(restartV, c02Viol{b.pos, fmt.Sprintf("`%s`: the first block of a resumed scan starts at offset 0 relative to the reader's start; any other value shifts every resume point", src(r.P.Fset, b.src))})
					}
				}
				if !okBlob {
					restartV = append(restartV, c02Viol{b.pos, "the pair sent before the loop does not carry the blob returned by the block read"})
				}
			}
		}
	}
	emit := func(st int, snd *ast.SendStmt, fi *FuncInfo) {
		pos := snd.Pos()
		// pairs built elsewhere (in the spawner, handed over through a parameter or a pointer) are judged where they are sent
		for _, sb := range c09SentBuilds(m, f, snd.Value, fi, map[types.Object]bool{}, 0) {
			checkBuild(st, sb.c09Build)
		}
		if st&inLoop != 0 && st&read == 0 {
			capV = append(capV, c02Viol{pos, "a pair is sent in an iteration of the read loop that did not read a block: its offset is the counter value after a block read earlier, so resuming there skips that block's objects"})
		}
	}
	t := m.newTracer()
	t.inlineOnly(m, func(u *unit) bool {
		return m.hasChanOp(u) || u.fi == f.blockReader || unitReadsField(m, u, f.counter) || len(c09Lits(info, u.body, f.inPairT)) > 0 || unitReadsField(m, u, f.blobIn)
	})
	inl := t.NoInline
	t.NoInline = func(fn *types.Func) bool { return fn == f.blockReader.Obj || inl(fn) }
	t.Event = func(st int, ev *pbfEvent) int {
		switch ev.kind {
		case "head":
			if ev.n == ast.Node(loop) {
				return inLoop
			}
		case "call":
			if ev.calleeIs(info, f.blockReader.Obj) {
				nReads++
				if st&inLoop != 0 && st&captured == 0 {
					capV = append(capV, c02Viol{ev.n.Pos(), "a block is read in the loop before the counter value at its start was captured"})
				}
				return st | read
			}
		case "comm":
			if s := p.sendClause(p.selectOf(ev), f.in); s != nil {
				checkLits(st, s, ev.fi)
				emit(st, s, ev.fi)
			}
		case "node", "return":
			if ev.n == nil {
				return st
			}
			if len(c09LoadsCounter(m, ev.n, f.counter)) > 0 {
				if st&read != 0 && st&inLoop != 0 {
					capV = append(capV, c02Viol{ev.n.Pos(), "the counter is captured after the block has been read: the pair would carry the offset of the NEXT block, so resuming there skips this block's objects"})
				}
				capPos = ev.n.Pos()
				st |= captured
			}
			checkLits(st, ev.n, ev.fi)
			if s, ok := ev.n.(*ast.SendStmt); ok && m.chanClass(nil, s.Chan) == f.in {
				emit(st, s, ev.fi)
			}
		}
		return st
	}
	t.Run(g.unit.fi, g.unit.body, 0)
	if nData == 0 {
		capV = append(capV, c02Viol{loop.Pos(), "no data pair carrying the blob is built in the reader loop"})
	}
	if nReads == 0 {
		capV = append(capV, c02Viol{loop.Pos(), "the reader never calls the block reader"})
	}
	if nRestart == 0 {
		restartV = append(restartV, c02Viol{g.unit.body.Pos(), "no dispatch of the block read before the loop"})
	}
	pos := loop.Pos()
	if capPos.IsValid() {
		pos = capPos
	}
	c02Report(r, cCap, pos, capV, t.incomplete, fmt.Sprintf("on every path the reader loads %s before the block read of the same iteration; the data pair carries that value and the blob the read returned; every pair sent in the loop follows a read in the same iteration", f.counter.Name()))
	c02Report(r, cRestart, g.unit.body.Pos(), restartV, t.incomplete, "the block read before the loop is dispatched with offset 0 (relative to where the reader started)")
	// no other writer of the counter between capture and read: the block reader is the only writer (B1) and runs in this goroutine
	r.OKTrivial("single-writer@"+f.counter.Name(), f.counter.Pos(), "the counter is written only by the block reader (B1), which after spawning runs only in the reader goroutine (C07.P4)")
}

// unitReadsField reports whether unit u mentions field f.
func unitReadsField(m *pbfModel, u *unit, f *types.Var) bool {
	found := false
	m.walkUnit(u, func(n ast.Node) bool {
		if sel, ok := n.(*ast.SelectorExpr); ok && fieldOf(m.info, sel) == f {
			found = true
		}
		return !found
	})
	return found
}

// c09B3: the worker emits the offset of the pair it received next to the objects decoded from that pair's blob.
func c09B3(r *core.R) {
	m := modelOrAnchor(r)
	if m == nil {
		return
	}
	f := c09Resolve(r, m)
	if f == nil {
		return
	}
	info := m.info
	g := m.goOf("worker")
	entry := m.decodeEntry()
	if g == nil || entry == nil {
		r.Anchor("worker goroutine / decode entry")
		return
	}
	c := "transport@" + g.unit.name
	// the received pair: range key over the input class (or variable received from it), and parameters bound to it
	isRecvPair := func(o types.Object) bool { return c09RecvPair(m, o, f.in, map[types.Object]bool{}) }
	// literals of the output pair type that carry objects, anywhere the worker role reaches
	n := 0
	m.deepWalk(g.unit, func(s *pbfSite, x ast.Node) bool {
		cl, ok := x.(*ast.CompositeLit)
		if !ok {
			return true
		}
		if t, ok := info.TypeOf(cl).(*types.Named); !ok || t != f.outPairT {
			return true
		}
		objs := c09LitField(info, cl, f.objsOut)
		if objs == nil {
			return true
		}
		n++
		off := c09LitField(info, cl, f.pairOffsetOut)
		var pairObj types.Object
		okOff := off != nil && c09AllDefs(m, off, map[types.Object]bool{}, func(o pbfOrigin) bool {
			if o.kind != "assign" || o.e == nil || fieldOf(info, o.e) != f.pairOffsetIn {
				return false
			}
			po := rootObj(info, o.e)
			if po == nil || !isRecvPair(po) || (pairObj != nil && pairObj != po) {
				return false
			}
			pairObj = po
			return true
		})
		// objects: only results of the decode entry applied to the same pair's blob
		okObj := pairObj != nil && c09AllDefs(m, objs, map[types.Object]bool{}, func(o pbfOrigin) bool {
			if o.kind != "result" || o.idx != 0 {
				return false
			}
			call, ok := ast.Unparen(o.e).(*ast.CallExpr)
			if !ok || callee(info, call) != entry.Obj || len(call.Args) != 1 {
				return false
			}
			return fieldOf(info, call.Args[0]) == f.blobIn && rootObj(info, call.Args[0]) == pairObj
		})
		switch {
		case !okOff:
			r.Bad(c, cl.Pos(), "`%s` does not copy the offset of the pair it received: the consumer would report a wrong (zero) position for this block", src(r.P.Fset, cl))
		case !okObj:
			r.Bad(c, cl.Pos(), "the objects in the emitted pair are not (only) the decoding of the received pair's blob")
		default:
			r.OK(c, cl.Pos(), "the emitted pair carries %s.%s together with the objects decoded from %s.%s", pairObj.Name(), f.pairOffsetIn.Name(), pairObj.Name(), f.blobIn.Name())
		}
		return true
	})
	if n == 0 {
		r.Bad(c, g.stmt.Pos(), "the worker builds no pair carrying decoded objects")
	}
}

// c09RecvPair: o is the variable that holds a pair received from channel class cls (range key, `v := <-ch`, select
// receive), or a parameter bound to such a variable at every call.
func c09RecvPair(m *pbfModel, o types.Object, cls string, seen map[types.Object]bool) bool {
	if o == nil || seen[o] {
		return false
	}
	seen[o] = true
	defer delete(seen, o)
	defs := m.defsOf(o)
	if len(defs) == 0 {
		return false
	}
	for _, d := range defs {
		switch d.kind {
		case "zero":
			// `var p T` followed by a receive into p
			if len(defs) == 1 {
				return false
			}
		case "range-key", "recv":
			if (d.kind == "recv" && d.idx != 0) || m.chanClass(nil, d.e) != cls {
				return false
			}
		case "result":
			// the pair handed back by a helper that received it
			call, _ := ast.Unparen(d.e).(*ast.CallExpr)
			if call == nil {
				return false
			}
			fn := callee(m.info, call)
			if fn == nil || m.funcs[fn] == nil {
				return false
			}
			rets := m.returnsOf(m.funcs[fn], d.idx)
			if len(rets) == 0 {
				return false
			}
			for _, ret := range rets {
				if ret == nil || (!pbfIsZeroLit(ret) && !c09RecvPair(m, objOf(m.info, ret), cls, seen)) {
					return false
				}
			}
		case "arg", "assign":
			if ue, ok := ast.Unparen(d.e).(*ast.UnaryExpr); ok && ue.Op == token.ARROW {
				if m.chanClass(nil, ue.X) != cls {
					return false
				}
				continue
			}
			if !c09RecvPair(m, objOf(m.info, d.e), cls, seen) {
				return false
			}
		default:
			return false
		}
	}
	return true
}
