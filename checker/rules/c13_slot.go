package rules

import "go/types"

// c13Slot is one loop-carried value of a history scan: a carried variable, or one field of a struct-valued carried
// variable (scan state kept in a struct instead of parallel locals).
type c13Slot struct {
	name  string
	typ   types.Type
	in    *c13Term // value at the start of an iteration
	pre   *c13Term // value before the loop
	after *c13Term // value after the loop
	out   func(it *c13Iter) *c13Term
}

func (s *c13Slot) Name() string { return s.name }

// slots lists the carried values of loop l except the counter of a counted loop.
func (m *c13Model) slots(l *c13Loop, counter types.Object) []*c13Slot {
	x := m.x
	var out []*c13Slot
	for _, w := range l.vars {
		if w == counter {
			continue
		}
		w := w
		in, after := x.loopVar(c13OpLoopIn, l, w), x.loopVar(c13OpLoopOut, l, w)
		st, isStruct := w.Type().Underlying().(*types.Struct)
		if !isStruct || st.NumFields() == 0 || st.NumFields() > 16 {
			out = append(out, &c13Slot{name: w.Name(), typ: w.Type(), in: in, pre: l.pre[w], after: after,
				out: func(it *c13Iter) *c13Term { return it.out[w] }})
			continue
		}
		// field by field, matching loopVal
		pick := func(v *c13Term, f *types.Var) *c13Term {
			if v == nil {
				return nil
			}
			if v.op == c13OpLit && v.keys != nil {
				for i, kf := range v.keys {
					if kf == f {
						return v.args[i]
					}
				}
				return x.zero(f.Type())
			}
			return x.field(v, f, 0)
		}
		for i := 0; i < st.NumFields(); i++ {
			f := st.Field(i)
			out = append(out, &c13Slot{name: w.Name() + "." + f.Name(), typ: f.Type(), in: x.field(in, f, 0), pre: pick(l.pre[w], f), after: x.field(after, f, 0),
				out: func(it *c13Iter) *c13Term { return pick(it.out[w], f) }})
		}
	}
	return out
}
