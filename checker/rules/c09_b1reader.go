package rules

import (
	"go/ast"
	"go/types"

	"osmcheck/core"
)

// c09ReaderConsumption: the byte counter is only right if everything consumed from the input stream is accounted for.
// The increment (B1) accounts for the io.ReadFull calls; so every use of the decoder's input reader must be the source
// argument of an io.ReadFull, or the reader handed on to a parameter that is used the same way. Any other use
// (io.CopyN to skip a payload, Read, wrapping it in a buffered reader) consumes bytes the counter never sees.
func c09ReaderConsumption(r *core.R, m *pbfModel) {
	info := m.info
	var rField *types.Var
	st, _ := m.decoderT.Underlying().(*types.Struct)
	for i := 0; st != nil && i < st.NumFields(); i++ {
		if namedPath(st.Field(i).Type()) == "io.Reader" {
			rField = st.Field(i)
		}
	}
	if rField == nil {
		r.Anchor("decoder field of type io.Reader")
		return
	}
	type item struct {
		o  types.Object // nil: the field itself
		fi *FuncInfo
	}
	seen := map[types.Object]bool{}
	work := []item{{}}
	nUses := 0
	var bad []c02Viol
	classify := func(e ast.Expr, par map[ast.Node]ast.Node) {
		nUses++
		var x ast.Node = e
		for {
			if pe, ok := par[x].(*ast.ParenExpr); ok {
				x = pe
				continue
			}
			break
		}
		switch p := par[x].(type) {
		case *ast.CallExpr:
			fn := callee(info, p)
			idx := -1
			for i, a := range p.Args {
				if ast.Node(a) == x {
					idx = i
				}
			}
			switch {
			case idx < 0:
			case idx == 0 && func() bool { _, ok := pbfFullRead(info, p); return ok }():
				return
			case fn != nil && m.funcs[fn] != nil:
				tf := m.funcs[fn]
				pi := 0
				for _, fld := range tf.Decl.Type.Params.List {
					for _, nm := range fld.Names {
						if pi == idx && !seen[info.Defs[nm]] {
							seen[info.Defs[nm]] = true
							work = append(work, item{info.Defs[nm], tf})
						}
						pi++
					}
				}
				return
			}
			name := "a function value"
			if fn != nil {
				name = fn.FullName()
			}
			bad = append(bad, c02Viol{e.Pos(), "the input reader is passed to " + name + " at " + r.P.Rel(e.Pos())})
			return
		case *ast.KeyValueExpr, *ast.Field, *ast.ValueSpec:
			return
		case *ast.SelectorExpr:
			bad = append(bad, c02Viol{e.Pos(), "a method of the input reader is used directly at " + r.P.Rel(e.Pos())})
			return
		}
		bad = append(bad, c02Viol{e.Pos(), "the input reader is used at " + r.P.Rel(e.Pos()) + " other than as the source of an io.ReadFull"})
	}
	for len(work) > 0 {
		it := work[len(work)-1]
		work = work[:len(work)-1]
		if it.o == nil {
			for _, u := range m.sortedUnits() {
				par := parentsOf(r.P, u.fi)
				m.walkUnit(u, func(n ast.Node) bool {
					if sel, ok := n.(*ast.SelectorExpr); ok && fieldOf(info, sel) == rField {
						if as, ok := par[sel].(*ast.AssignStmt); ok {
							for _, l := range as.Lhs {
								if l == ast.Expr(sel) {
									return true // the field being set
								}
							}
						}
						classify(sel, par)
					}
					return true
				})
			}
			continue
		}
		par := parentsOf(r.P, it.fi)
		ast.Inspect(it.fi.Decl.Body, func(n ast.Node) bool {
			if id, ok := n.(*ast.Ident); ok && info.Uses[id] == it.o {
				classify(id, par)
			}
			return true
		})
	}
	c := "reader-consumption@" + rField.Name()
	if nUses == 0 {
		r.Anchor("use of the decoder's input reader")
		return
	}
	c02Report(r, c, rField.Pos(), bad, nil, "every use of the input reader is the source of an io.ReadFull (directly or through a parameter): nothing is consumed that the byte counter does not account for")
	if len(bad) > 0 {
		_ = bad
	}
}
