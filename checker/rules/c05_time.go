package rules

import (
	"go/types"

	"osmcheck/core"
)

// c05J8: times in the JSON documents keep their sub-second part. For every MarshalJSON method of package osm,
// explored with its receiver set: a time handed to the codec is the marshalled value's own time (moving it to another
// zone keeps the instant; Truncate / Round do not); a time formatted by hand and written out uses a layout with
// fractional seconds that its reader parses - time.Time's own unmarshaler (RFC 3339 with nanoseconds) unless the type
// declares its own UnmarshalJSON, which must then parse with the same layout. (The XML twin is C04.X8 / X5.)
func c05J8(r *core.R) {
	c03Init(r)
	pk := c03OsmPkg(r.P)
	cx := c05NewCodec(r.P)
	n := 0
	var v c04Verdicts
	for _, fi := range allFuncs(pk) {
		sig := fi.Obj.Type().(*types.Signature)
		if fi.Obj.Name() != "MarshalJSON" || sig.Recv() == nil {
			continue
		}
		root := c05FuncLabel(fi)
		c := "time@" + root
		x, paths := cx.run(fi, c05Scen{Tag: "times"})
		rt := c03Deref(sig.Recv().Type())
		var layouts []string
		custom := false
		readerKnown := false
		reader := func() {
			if readerKnown {
				return
			}
			readerKnown = true
			layouts, custom, _ = c04ReaderLayouts(r.P, rt, "UnmarshalJSON", func(ufi *FuncInfo) []*c03Path {
				_, ps := cx.run(ufi, c05Scen{Tag: "time reader"})
				return ps
			})
		}
		touched := false
		for _, pa := range paths {
			var sinks []*c03V
			for _, op := range cx.ops(pa) {
				if op.dir != "marshal" {
					continue
				}
				sinks = append(sinks, op.operand)
				if !c04IsTimeType(op.t) {
					continue
				}
				touched = true
				lossy, unk := c04TimeProvenance(op.operand, 0)
				switch {
				case lossy != "":
					v.bad(c, op.ev.Node.Pos(), "`%s` hands the codec %s instead of the time itself: the rounded-off part (sub-seconds) of the time is lost on marshalling, so the library's own output does not give the value back", src(r.P.Fset, op.ev.Call), lossy)
				case unk != "":
					v.unknown(c, op.ev.Node.Pos(), "`%s` hands the codec a time that is %s", src(r.P.Fset, op.ev.Call), unk)
				default:
					v.ok(c, op.ev.Node.Pos(), "`%s` hands the codec the value's own time: it is written by time.Time's marshaler (RFC 3339 with nanoseconds), which its unmarshaler reads back without loss", src(r.P.Fset, op.ev.Call))
				}
			}
			if pa.End == "return" && len(pa.Ret) > 0 {
				sinks = append(sinks, pa.Ret[0])
			}
			for _, tf := range c04TimeFormats(pa) {
				flows := false
				for _, s := range sinks {
					if c04Reaches(s, tf.result.Key) {
						flows = true
					}
				}
				if !flows {
					continue
				}
				touched = true
				reader()
				what := "the time `" + src(r.P.Fset, tf.ev.Call) + "` written by " + root
				status, msg := c04JudgeLayout(tf, layouts, custom, true, what)
				v.put(status, c, tf.ev.Node.Pos(), "%s", msg)
			}
		}
		if touched {
			n++
			if x.Aborted != "" {
				v.unknown(c, fi.Decl.Pos(), "%s could not be explored completely: %s", root, x.Aborted)
			}
		}
	}
	v.emit(r)
	r.Stat("json_marshalers_writing_times", n)
	if n == 0 {
		r.Anchor("a MarshalJSON method of package osm that writes a time (Date.MarshalJSON)")
	}
}
