package rules

import (
	"strings"

	"osmcheck/core"
)

// Further behaviour-preserving variants of annotate/change.go that change how state is passed around: the action
// list through a pointer, the invariant arguments through a receiver, empty slices skipped. The replacement texts
// are derived from the pinned source blocks by textual substitution.

// c13SrcCallsAndAddUpdate spans the modify/delete calls of Change, the end of Change and the whole of addUpdate.
const c13SrcCallsAndAddUpdate = c13SrcModDel + "}\n\n" + c13SrcAddUpdate

func c13Sub(s string, pairs ...string) string { return strings.NewReplacer(pairs...).Replace(s) }

var c13Benign2 = []core.Mutant{
	{Name: "action-list-through-pointer", File: c13Chg, Find: c13SrcCallsAndAddUpdate,
		Replace: `	if err := addUpdate(ctx, &actions, change.Modify, osm.ActionModify, ds, ignoreMissing); err != nil {
		return nil, err
	}

	if err := addUpdate(ctx, &actions, change.Delete, osm.ActionDelete, ds, ignoreMissing); err != nil {
		return nil, err
	}

	return &osm.Diff{Actions: actions}, nil
}

` + c13Sub(c13SrcAddUpdate,
			"\tactions []osm.Action,\n", "\tactions *[]osm.Action,\n",
			") ([]osm.Action, error) {", ") error {",
			"actions = append(actions,", "*actions = append(*actions,",
			"return nil, e", "return e",
			"return actions, nil", "return nil")},
	{Name: "invariant-arguments-in-receiver", File: c13Chg, Find: c13SrcCallsAndAddUpdate,
		Replace: `	a := &annotator{ctx: ctx, ds: ds, ignoreMissing: ignoreMissing}
	actions, err := a.addUpdate(actions, change.Modify, osm.ActionModify)
	if err != nil {
		return nil, err
	}

	actions, err = a.addUpdate(actions, change.Delete, osm.ActionDelete)
	if err != nil {
		return nil, err
	}

	return &osm.Diff{Actions: actions}, nil
}

type annotator struct {
	ctx           context.Context
	ds            osm.HistoryDatasourcer
	ignoreMissing bool
}

` + c13Sub(c13SrcAddUpdate,
			"func addUpdate(\n\tctx context.Context,\n", "func (a *annotator) addUpdate(\n",
			"\tds osm.HistoryDatasourcer,\n\tignoreMissing bool,\n) (", ") (",
			"(ctx, ", "(a.ctx, ",
			", ds, ignoreMissing)", ", a.ds, a.ignoreMissing)",
			"checkErr(ds, ignoreMissing,", "checkErr(a.ds, a.ignoreMissing,")},
	{Name: "skip-empty-slices", File: c13Chg, Find: c13SrcAddUpdate,
		Replace: c13Sub(c13SrcAddUpdate,
			"\tcurrentVisible := true\n", "\tif len(o.Nodes) == 0 && len(o.Ways) == 0 && len(o.Relations) == 0 {\n\t\treturn actions, nil\n\t}\n\n\tcurrentVisible := true\n")},
}

// c13AllBenign is the robustness suite of C13.
func c13AllBenign() []core.Mutant {
	return append(append(c13Benign8[:len(c13Benign8):len(c13Benign8)], c13Benign8b...), append(append(append([]core.Mutant(nil), c13Benign...), c13Benign2...), append(append(append([]core.Mutant(nil), c13Benign3...), c13Benign4...), append(append(append([]core.Mutant(nil), c13Benign5...), c13Benign5b...), append(append(append([]core.Mutant(nil), c13Benign5c...), c13Benign5d...), c13Benign5e...)...)...)...)...)
}

// c13Benign3: the creates appended by a helper that receives the address of the action list.
var c13Benign3 = []core.Mutant{
	{Name: "section-actions-collected-then-concatenated", File: c13Chg, Find: c13SrcAddUpdate,
		Replace: c13Sub(c13SrcAddUpdate,
			"actions = append(actions,", "added = append(added,",
			"\tcurrentVisible := true\n", "\tvar added []osm.Action\n\tcurrentVisible := true\n",
			"\treturn actions, nil\n}", "\treturn append(actions, added...), nil\n}")},
	{Name: "node-loop-unswitched-on-option", File: c13Chg, Find: c13SrcNodeLoop,
		Replace: "\tif ignoreMissing {\n" + c13SrcNodeLoop + "\t} else {\n" + c13SrcNodeLoop + "\t}\n"},
	{Name: "creates-pushed-through-helper-pointer", File: c13Chg, Find: c13SrcFromCreate,
		Replace: c13Sub(c13SrcFromCreate,
			"\t\t\tactions = append(actions, osm.Action{\n\t\t\t\tType: osm.ActionCreate,", "\t\t\tpush(&actions, osm.Action{\n\t\t\t\tType: osm.ActionCreate,") +
			"\nfunc push(list *[]osm.Action, a osm.Action) {\n\t*list = append(*list, a)\n}\n"},
}

// c13Benign4: the three scans merged into one function working on indices, the version read through a closure.
var c13Benign4 = []core.Mutant{
	{Name: "searches-merged-into-index-helper", File: c13Chg, Find: c13SrcFindNode + "\n" + c13SrcFindWay + "\n" + c13SrcFindRel,
		Replace: `func findPreviousNode(ctx context.Context, n *osm.Node, ds osm.HistoryDatasourcer, ignoreMissing bool) (*osm.Node, error) {
	nodes, err := ds.NodeHistory(ctx, n.ID)
	if err != nil {
		return nil, err
	}
	loc := previousIndex(len(nodes), n.Version, func(i int) int { return nodes[i].Version })
	if loc == -1 {
		return nil, missingErr(ignoreMissing, n.FeatureID())
	}
	return nodes[loc], nil
}

func findPreviousWay(ctx context.Context, w *osm.Way, ds osm.HistoryDatasourcer, ignoreMissing bool) (*osm.Way, error) {
	ways, err := ds.WayHistory(ctx, w.ID)
	if err != nil {
		return nil, err
	}
	loc := previousIndex(len(ways), w.Version, func(i int) int { return ways[i].Version })
	if loc == -1 {
		return nil, missingErr(ignoreMissing, w.FeatureID())
	}
	return ways[loc], nil
}

func findPreviousRelation(ctx context.Context, r *osm.Relation, ds osm.HistoryDatasourcer, ignoreMissing bool) (*osm.Relation, error) {
	relations, err := ds.RelationHistory(ctx, r.ID)
	if err != nil {
		return nil, err
	}
	loc := previousIndex(len(relations), r.Version, func(i int) int { return relations[i].Version })
	if loc == -1 {
		return nil, missingErr(ignoreMissing, r.FeatureID())
	}
	return relations[loc], nil
}

func previousIndex(n int, own int, version func(i int) int) int {
	loc, max := -1, -1
	for i := 0; i < n; i++ {
		if v := version(i); v < own && v > max {
			max = v
			loc = i
		}
	}
	return loc
}

func missingErr(ignoreMissing bool, id osm.FeatureID) error {
	if ignoreMissing {
		return nil
	}
	return &NoVisibleChildError{ID: id}
}
`},
}
