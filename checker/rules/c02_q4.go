package rules

import (
	"go/ast"
	"go/token"
	"go/types"
	"strings"

	"osmcheck/core"
)

func identOf(e ast.Expr) *ast.Ident {
	id, _ := ast.Unparen(e).(*ast.Ident)
	if id == nil {
		return &ast.Ident{}
	}
	return id
}

func unitWritesField(m *pbfModel, u *unit, f *types.Var) bool {
	w := false
	m.walkUnit(u, func(x ast.Node) bool {
		if as, ok := x.(*ast.AssignStmt); ok {
			for _, l := range as.Lhs {
				if usesField(m.info, l, f) {
					w = true
				}
			}
		}
		return true
	})
	return w
}

func c02Q4(r *core.R) {
	m := modelOrAnchor(r)
	if m == nil {
		return
	}
	info := m.info
	c02ScratchBuffers(r, m)
	// no UnmarshalOptions, no unsafe in the package
	nopt := 0
	var optPos token.Pos
	for _, f := range m.pk.Syntax {
		if isGenerated(r.P, f.Pos()) {
			continue
		}
		ast.Inspect(f, func(n ast.Node) bool {
			if cl, ok := n.(*ast.CompositeLit); ok && namedPath(info.TypeOf(cl)) == "google.golang.org/protobuf/proto.UnmarshalOptions" {
				nopt++
				optPos = cl.Pos()
			}
			return true
		})
	}
	if nopt > 0 {
		r.Bad("UnmarshalOptions@osmpbf", optPos, "proto.UnmarshalOptions is used: non-default options (Merge, aliasing resolvers) void the assumption that unmarshalling copies out of the reused scratch buffer")
	} else {
		r.OKTrivial("UnmarshalOptions@osmpbf", token.NoPos, "no proto.UnmarshalOptions literal in package osmpbf")
	}
	usesUnsafe := false
	for _, f := range m.pk.Syntax {
		if isGenerated(r.P, f.Pos()) {
			continue
		}
		for _, im := range f.Imports {
			if strings.Trim(im.Path.Value, `"`) == "unsafe" {
				usesUnsafe = true
			}
		}
	}
	if usesUnsafe {
		r.Bad("unsafe@osmpbf", token.NoPos, "package osmpbf imports unsafe: type-based ownership arguments no longer hold")
	} else {
		r.OKTrivial("unsafe@osmpbf", token.NoPos, "package osmpbf (hand-written files) does not import unsafe")
	}
}

func c02Q5(r *core.R) {
	m := modelOrAnchor(r)
	if m == nil {
		return
	}
	pbfRoleSeparation(r, m, true)
	// per-worker decoder fields: every access is rooted in the receiver of a method of that type (or the spawner's local)
	info := m.info
	dd := namedPath(m.ddT)
	perField := map[*types.Var][2]int{}
	var order []*types.Var
	for _, u := range m.sortedUnits() {
		m.walkUnit(u, func(n ast.Node) bool {
			sel, ok := n.(*ast.SelectorExpr)
			if !ok {
				return true
			}
			s := info.Selections[sel]
			if s == nil || s.Kind() != types.FieldVal || namedPath(s.Recv()) != dd {
				return true
			}
			f := s.Obj().(*types.Var)
			if _, ok := perField[f]; !ok {
				order = append(order, f)
			}
			cnt := perField[f]
			cnt[0]++
			root := rootObj(info, sel.X)
			// the access is rooted in a value of the per-worker decoder type that the function was handed by its
			// (worker-only) caller: the receiver or a parameter of the declaration that holds the code, or a local
			// that only ever holds such a value (`d := dec`)
			okRoot := root != nil && namedPath(root.Type()) == dd && c02OwnedRoot(m, u, root, map[types.Object]bool{})
			if !okRoot || !(u.roles["worker"] && len(u.roles) == 1) {
				cnt[1]++
			}
			perField[f] = cnt
			return true
		})
	}
	for _, f := range order {
		cnt := perField[f]
		c := "field " + m.ddT.Obj().Name() + "." + f.Name()
		if cnt[1] == 0 {
			r.OK(c, f.Pos(), "%d accesses, all rooted in the receiver or a parameter of worker-only functions: private to the worker that owns the decoder value (Q2)", cnt[0])
		} else {
			r.Bad(c, f.Pos(), "%d of %d accesses are not rooted in the receiver / a parameter of a worker-only function: the field can be reached from another goroutine", cnt[1], cnt[0])
		}
	}
}

// c02OwnedRoot: root is the receiver or a parameter of the declaration whose body unit u executes, or a local of it
// whose every definition is such a value.
func c02OwnedRoot(m *pbfModel, u *unit, root types.Object, seen map[types.Object]bool) bool {
	if seen[root] {
		return false
	}
	seen[root] = true
	decl := u.fi.Decl
	if u.body != decl.Body {
		return false // a closure of the spawner: the per-worker value is checked by Q2
	}
	if decl.Recv != nil {
		for _, fld := range decl.Recv.List {
			for _, nm := range fld.Names {
				if m.info.Defs[nm] == root {
					return true
				}
			}
		}
	}
	if c01ParamIndex(m.info, u.fi, root) >= 0 {
		return true
	}
	defs := m.defsOf(root)
	if len(defs) == 0 {
		return false
	}
	for _, d := range defs {
		if d.kind != "assign" {
			return false
		}
		ro := rootObj(m.info, d.e)
		if ro == nil || objOf(m.info, d.e) != ro || !c02OwnedRoot(m, u, ro, seen) {
			return false
		}
	}
	return true
}
