package rules

import (
	"fmt"
	"go/ast"
	"go/token"
	"go/types"
	"strings"

	"osmcheck/core"
)

func identOf(e ast.Expr) *ast.Ident {
	id, _ := ast.Unparen(e).(*ast.Ident)
	if id == nil {
		return &ast.Ident{}
	}
	return id
}

func unitWritesField(m *pbfModel, u *unit, f *types.Var) bool {
	w := false
	m.walkUnit(u, func(x ast.Node) bool {
		if as, ok := x.(*ast.AssignStmt); ok {
			for _, l := range as.Lhs {
				if usesField(m.info, l, f) {
					w = true
				}
			}
		}
		return true
	})
	return w
}

func c02Q4(r *core.R) {
	m := modelOrAnchor(r)
	if m == nil {
		return
	}
	info := m.info
	// scratch buffers of the spawner
	var bufs []types.Object
	ast.Inspect(m.start.Decl.Body, func(n ast.Node) bool {
		as, ok := n.(*ast.AssignStmt)
		if !ok || len(as.Lhs) != 1 || len(as.Rhs) != 1 {
			return true
		}
		call, ok := as.Rhs[0].(*ast.CallExpr)
		if !ok || builtinName(info, call) != "make" {
			return true
		}
		if sl, ok := info.TypeOf(call.Args[0]).Underlying().(*types.Slice); ok && types.Identical(sl.Elem(), types.Typ[types.Byte]) {
			bufs = append(bufs, objOf(info, as.Lhs[0]))
		}
		return true
	})
	if len(bufs) < 3 {
		r.Anchor("reader scratch buffers (make([]byte, K)) in the spawner")
	}
	// track each buffer through in-package parameters
	type key struct {
		o  types.Object
		fn *FuncInfo
	}
	seen := map[types.Object]bool{}
	var work []key
	for _, b := range bufs {
		work = append(work, key{b, m.start})
	}
	for len(work) > 0 {
		k := work[len(work)-1]
		work = work[:len(work)-1]
		if seen[k.o] {
			continue
		}
		seen[k.o] = true
		par := parentsOf(r.P, k.fn)
		c := "buf@" + k.fn.Name() + " " + k.o.Name()
		bad := ""
		var bpos token.Pos
		nuse := 0
		ast.Inspect(k.fn.Decl, func(n ast.Node) bool {
			id, ok := n.(*ast.Ident)
			if !ok || info.Uses[id] != k.o {
				return true
			}
			nuse++
			// climb through slice expressions of the buffer itself
			var e ast.Node = id
			for {
				if se, ok := par[e].(*ast.SliceExpr); ok && se.X == e {
					e = se
					continue
				}
				if pe, ok := par[e].(*ast.ParenExpr); ok {
					e = pe
					continue
				}
				break
			}
			switch p := par[e].(type) {
			case *ast.CallExpr:
				if p.Fun == e {
					return true
				}
				if bn := builtinName(info, p); bn == "len" || bn == "cap" {
					return true
				}
				fn := callee(info, p)
				switch {
				case isPkgFunc(fn, "io", "ReadFull"), isPkgFunc(fn, "google.golang.org/protobuf/proto", "Unmarshal"):
					return true
				case fn != nil && fn.Name() == "Uint32" && fn.Pkg() != nil && fn.Pkg().Path() == "encoding/binary":
					return true
				case fn != nil && fn.Pkg() == m.pk.Types:
					tf := findFunc(m.pk, funcName(fn))
					if tf == nil {
						bad, bpos = "passed to "+fn.Name(), id.Pos()
						return true
					}
					idx := -1
					for i, a := range p.Args {
						if a == e {
							idx = i
						}
					}
					pi := 0
					for _, fld := range tf.Decl.Type.Params.List {
						for _, nm := range fld.Names {
							if pi == idx {
								work = append(work, key{info.Defs[nm], tf})
							}
							pi++
						}
					}
					return true
				default:
					name := "a function value"
					if fn != nil {
						name = fn.FullName()
					}
					bad, bpos = "passed to "+name+", which may retain it", id.Pos()
				}
			case *ast.AssignStmt:
				// buf = buf[:n] (re-slice of itself) is fine
				for i, rh := range p.Rhs {
					if rh == e {
						if i < len(p.Lhs) && objOf(info, p.Lhs[i]) == k.o {
							return true
						}
						bad, bpos = "assigned to `"+src(r.P.Fset, p.Lhs[min(i, len(p.Lhs)-1)])+"`", id.Pos()
					}
				}
				for _, l := range p.Lhs {
					if l == e {
						return true // target of the re-slice
					}
				}
			case *ast.Field:
				return true // parameter declaration
			default:
				bad, bpos = fmt.Sprintf("used in %T", p), id.Pos()
			}
			return true
		})
		if bad != "" {
			r.Bad(c, bpos, "scratch buffer %s is %s: it is overwritten by the next block while that reference is still alive, corrupting blocks already dispatched", k.o.Name(), bad)
		} else {
			r.OK(c, k.o.Pos(), "%d uses: only io.ReadFull, binary.BigEndian.Uint32, proto.Unmarshal, len, self re-slice, or passing on to a tracked parameter", nuse)
		}
	}
	// no UnmarshalOptions, no unsafe in the package
	nopt := 0
	var optPos token.Pos
	for _, f := range m.pk.Syntax {
		if isGenerated(r.P, f.Pos()) {
			continue
		}
		ast.Inspect(f, func(n ast.Node) bool {
			if cl, ok := n.(*ast.CompositeLit); ok && namedPath(info.TypeOf(cl)) == "google.golang.org/protobuf/proto.UnmarshalOptions" {
				nopt++
				optPos = cl.Pos()
			}
			return true
		})
	}
	if nopt > 0 {
		r.Bad("UnmarshalOptions@osmpbf", optPos, "proto.UnmarshalOptions is used: non-default options (Merge, aliasing resolvers) void the assumption that unmarshalling copies out of the reused scratch buffer")
	} else {
		r.OKTrivial("UnmarshalOptions@osmpbf", token.NoPos, "no proto.UnmarshalOptions literal in package osmpbf")
	}
	usesUnsafe := false
	for _, f := range m.pk.Syntax {
		if isGenerated(r.P, f.Pos()) {
			continue
		}
		for _, im := range f.Imports {
			if strings.Trim(im.Path.Value, `"`) == "unsafe" {
				usesUnsafe = true
			}
		}
	}
	if usesUnsafe {
		r.Bad("unsafe@osmpbf", token.NoPos, "package osmpbf imports unsafe: type-based ownership arguments no longer hold")
	} else {
		r.OKTrivial("unsafe@osmpbf", token.NoPos, "package osmpbf (hand-written files) does not import unsafe")
	}
}

func c02Q5(r *core.R) {
	m := modelOrAnchor(r)
	if m == nil {
		return
	}
	pbfRoleSeparation(r, m, true)
	// per-worker decoder fields: every access is rooted in the receiver of a method of that type (or the spawner's local)
	info := m.info
	dd := namedPath(m.ddT)
	perField := map[*types.Var][2]int{}
	var order []*types.Var
	for _, u := range m.sortedUnits() {
		m.walkUnit(u, func(n ast.Node) bool {
			sel, ok := n.(*ast.SelectorExpr)
			if !ok {
				return true
			}
			s := info.Selections[sel]
			if s == nil || s.Kind() != types.FieldVal || namedPath(s.Recv()) != dd {
				return true
			}
			f := s.Obj().(*types.Var)
			if _, ok := perField[f]; !ok {
				order = append(order, f)
			}
			cnt := perField[f]
			cnt[0]++
			root := rootObj(info, sel.X)
			// the access is rooted in a value of the per-worker decoder type that the function was handed by its
			// (worker-only) caller: the receiver or a parameter of the declaration that holds the code, or a local
			// that only ever holds such a value (`d := dec`)
			okRoot := root != nil && namedPath(root.Type()) == dd && c02OwnedRoot(m, u, root, map[types.Object]bool{})
			if !okRoot || !(u.roles["worker"] && len(u.roles) == 1) {
				cnt[1]++
			}
			perField[f] = cnt
			return true
		})
	}
	for _, f := range order {
		cnt := perField[f]
		c := "field " + m.ddT.Obj().Name() + "." + f.Name()
		if cnt[1] == 0 {
			r.OK(c, f.Pos(), "%d accesses, all rooted in the receiver or a parameter of worker-only functions: private to the worker that owns the decoder value (Q2)", cnt[0])
		} else {
			r.Bad(c, f.Pos(), "%d of %d accesses are not rooted in the receiver / a parameter of a worker-only function: the field can be reached from another goroutine", cnt[1], cnt[0])
		}
	}
}

// c02OwnedRoot: root is the receiver or a parameter of the declaration whose body unit u executes, or a local of it
// whose every definition is such a value.
func c02OwnedRoot(m *pbfModel, u *unit, root types.Object, seen map[types.Object]bool) bool {
	if seen[root] {
		return false
	}
	seen[root] = true
	decl := u.fi.Decl
	if u.body != decl.Body {
		return false // a closure of the spawner: the per-worker value is checked by Q2
	}
	if decl.Recv != nil {
		for _, fld := range decl.Recv.List {
			for _, nm := range fld.Names {
				if m.info.Defs[nm] == root {
					return true
				}
			}
		}
	}
	if c01ParamIndex(m.info, u.fi, root) >= 0 {
		return true
	}
	defs := m.defsOf(root)
	if len(defs) == 0 {
		return false
	}
	for _, d := range defs {
		if d.kind != "assign" {
			return false
		}
		ro := rootObj(m.info, d.e)
		if ro == nil || objOf(m.info, d.e) != ro || !c02OwnedRoot(m, u, ro, seen) {
			return false
		}
	}
	return true
}
