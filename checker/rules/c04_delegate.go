package rules

import (
	"go/types"

	"osmcheck/core"
)

// c04StartOverrideOf observes which element name a MarshalXML method writes for its value: the name it was handed
// (the field tag supplied by encoding/xml) or a constant it forces.
func c04StartOverrideOf(p *core.Program, fi *FuncInfo, handed string) c03StartOverride {
	ov := c04StartOverrideRun(p, fi, "")
	if ov.Unknown == "" || handed == "" {
		return ov
	}
	// what is written depends on the name handed in (a method that renames only the start element encoding/xml
	// derives from the Go type name): observe it for the name this caller hands in
	hv := c04StartOverrideRun(p, fi, handed)
	if hv.Unknown == "" && hv.Forced == handed {
		return c03StartOverride{Passes: true}
	}
	return hv
}

func c04StartOverrideRun(p *core.Program, fi *FuncInfo, handed string) c03StartOverride {
	var ov c03StartOverride
	for _, root := range c04Roots(p) {
		if root.fi.Obj != fi.Obj {
			continue
		}
		root.handed = handed
		trs, ab := c04Run(p, root, c04AllSet, "start override")
		if ab != "" {
			ov.Unknown = ab
			return ov
		}
		for _, tr := range trs {
			var names []c04Name
			for _, t := range tr.rootTokens() {
				names = append(names, t.name)
			}
			for _, em := range tr.emits {
				if len(em.open) == 0 && em.tmpl != nil {
					names = append(names, *em.tmpl)
				}
			}
			for _, n := range names {
				switch n.kind {
				case "const":
					if ov.Forced != "" && ov.Forced != n.s {
						ov.Unknown = "writes different element names on different paths"
					}
					ov.Forced = n.s
				case "pass":
					ov.Passes = true
				default:
					ov.Unknown = "the element name it writes cannot be resolved (" + n.String() + ")"
				}
			}
		}
		if ov.Forced != "" && ov.Passes {
			ov.Unknown = "writes the handed name on some paths and <" + ov.Forced + "> on others"
		}
		return ov
	}
	ov.Unknown = "MarshalXML does not have (encoder, start) parameters"
	return ov
}

// ---- delegation to the default encoding ---------------------------------------------------------------------

// c04SelfDelegation: the emission encodes the marshalled value as a whole, converted to another type. That is the
// idiom `type plain T; return e.EncodeElement(plain(v), start)`: encoding/xml encodes the fields of T by their tags
// (identical underlying types have identical fields and tags) and, the new type having no methods, does not call
// MarshalXML again. self = the emission has that form; why != "" = it is not a faithful delegation.
func c04SelfDelegation(root *c04Root, em c04Emit) (self bool, st types.Type, why string) {
	if em.ev == nil || em.ev.Call == nil || len(em.ev.Call.Args) == 0 {
		return false, nil, ""
	}
	val := em.val
	if (val.K == c03KAddr || val.K == c03KPtr) && len(em.ev.Deref) > 0 && em.ev.Deref[0] != nil {
		val = em.ev.Deref[0] // (*plain)(&v): the pointee at the time of the call
	}
	pth, ok := c04RecvPath(root, val)
	if !ok || len(pth) != 0 {
		return false, nil, ""
	}
	fi := root.fi
	if em.ev.Frame != nil && em.ev.Frame.fi != nil {
		fi = em.ev.Frame.fi
	}
	st = c03Deref(fi.Pkg.TypesInfo.TypeOf(em.ev.Call.Args[0]))
	if st == nil {
		return true, nil, "the static type of the encoded value is unknown"
	}
	nt, isNamed := st.(*types.Named)
	switch {
	case types.Identical(st, root.T):
		return true, st, "the value is encoded as a " + c03Short(st) + " again" + c04Broken + ": encoding/xml calls " + root.name + " for it, which never ends"
	case !isNamed:
		return true, st, "the value is converted to the unnamed type " + c03Short(st)
	case types.IdenticalIgnoreTags(nt.Underlying(), root.T.Underlying()) && !types.Identical(nt.Underlying(), root.T.Underlying()):
		return true, st, c03Short(st) + " has the fields of " + c03Short(root.T) + " but other struct tags" + c04Broken + ": the value is written under the names of the one and read back under the names of the other"
	case !types.Identical(nt.Underlying(), root.T.Underlying()):
		return true, st, c03Short(st) + " does not have the fields and tags of " + c03Short(root.T)
	case types.NewMethodSet(types.NewPointer(nt)).Len() > 0:
		return true, st, c03Short(st) + " has methods: whether encoding/xml uses one of them instead of the tags is not followed"
	}
	return true, st, ""
}

// c04Broken marks a reason of c04SelfDelegation that is a defect, not an unmodelled form.
const c04Broken = " (defect)"

// c04Delegates: on every path with every field set the method writes nothing but one delegated emission under the
// start element it was handed (possibly renamed, attributes untouched). st is the type delegated to.
func c04Delegates(p *core.Program, root *c04Root) (st types.Type, ok bool) {
	trs, ab := c04Run(p, root, c04AllSet, "delegation")
	if ab != "" || len(trs) == 0 {
		return nil, false
	}
	for _, tr := range trs {
		if tr.path.End != "return" || len(tr.tokens) > 0 || len(tr.other) > 0 || len(tr.emits) != 1 {
			return nil, false
		}
		em := tr.emits[0]
		self, t, why := c04SelfDelegation(root, em)
		if !self || why != "" || em.method != "EncodeElement" || len(em.ev.Args) != 2 {
			return nil, false
		}
		if as, unk := c04AttrsOf(tr, root, em.ev.Args[1]); len(as) > 0 || unk != "" {
			return nil, false
		}
		st = t
	}
	return st, true
}
