package rules

import (
	"fmt"
	"go/ast"
	"go/token"
	"go/types"

	"golang.org/x/tools/go/cfg"

	"osmcheck/core"
)

// c09HeaderTest evaluates a guard atom as a test of "the first block is an OSMHeader block": `H.GetType() == "OSMHeader"`
// (either operand order, `!=` negated, H the header returned by the spawner's synchronous first read), or a boolean
// local whose single definition is such a test. It returns triT when the atom being true means "is a header", triF when
// it means "is not a header", triU when it is something else.
func c09HeaderTest(m *pbfModel, e ast.Expr, firstHdr types.Object, depth int) tri {
	info := m.info
	e = ast.Unparen(e)
	if id, ok := e.(*ast.Ident); ok && depth < 4 {
		// a boolean local or parameter: every definition (assignment, argument at every call / go statement) must be
		// a header test of the same polarity
		if o, ok := objOf(info, id).(*types.Var); ok && !o.IsField() {
			defs := m.defsOf(o)
			v := tri(-1)
			for _, d := range defs {
				if (d.kind != "assign" && d.kind != "arg") || d.e == nil {
					return triU
				}
				dv := evalTriPolarity(d.e, func(a ast.Expr) tri { return c09HeaderTest(m, a, firstHdr, depth+1) })
				if dv == triU || (v != tri(-1) && v != dv) {
					return triU
				}
				v = dv
			}
			if v != tri(-1) {
				return v
			}
		}
		return triU
	}
	l, op, r, ok := cmpNorm(e)
	if !ok || (op != token.EQL && op != token.NEQ) {
		return triU
	}
	isGetType := func(x ast.Expr) bool {
		call, ok := ast.Unparen(x).(*ast.CallExpr)
		if !ok {
			return false
		}
		fn := callee(info, call)
		sel, ok2 := call.Fun.(*ast.SelectorExpr)
		return fn != nil && ok2 && fn.Name() == "GetType" && c09FirstValue(m, rootObj(info, sel.X), firstHdr)
	}
	// the type of the first block kept in a field of the struct the block reader returns (`first.kind`): every value
	// the field is given is a GetType() call
	isTypeField := func(x ast.Expr) bool {
		base, fld := m.structLocalField(x)
		if base == nil || !c09FirstValue(m, objOf(info, base), firstHdr) {
			return false
		}
		inits, ok := m.fieldInits(base, 0, fld, map[types.Object]bool{}, 0)
		if !ok || len(inits) == 0 {
			return false
		}
		for _, in := range inits {
			call, isCall := ast.Unparen(in).(*ast.CallExpr)
			if !isCall || callee(info, call) == nil || callee(info, call).Name() != "GetType" {
				return false
			}
		}
		return true
	}
	isGetTypeOld := isGetType
	isGetType = func(x ast.Expr) bool { return isGetTypeOld(x) || isTypeField(x) }
	isHeaderConst := func(x ast.Expr) bool {
		s, ok := constString(info, x)
		return ok && s == "OSMHeader"
	}
	if !(isGetType(l) && isHeaderConst(r)) && !(isGetType(r) && isHeaderConst(l)) {
		// `X != nil` / `X == nil` where X carries the first block's blob exactly when the block is not a header
		var x ast.Expr
		switch {
		case isNilIdent(r):
			x = l
		case isNilIdent(l):
			x = r
		}
		if x != nil {
			if o, ok := objOf(info, x).(*types.Var); ok && !o.IsField() && c09NilCarrier(m, o, firstHdr, depth) {
				if op == token.NEQ {
					return triF // non-nil: the first block is not a header
				}
				return triT
			}
		}
		return triU
	}
	if op == token.EQL {
		return triT
	}
	return triF
}

// evalTriPolarity evaluates the polarity of a (possibly negated) single atom: !A flips; conjunctions/disjunctions are not
// a single test and give triU.
func evalTriPolarity(e ast.Expr, atom func(ast.Expr) tri) tri {
	e = ast.Unparen(e)
	if ue, ok := e.(*ast.UnaryExpr); ok && ue.Op == token.NOT {
		return triNot(evalTriPolarity(ue.X, atom))
	}
	return atom(e)
}

// c09GuardsAt returns the atomic facts that control node n in function body (CFG-based, any surface form), each
// classified as a header test; other==true when some controlling fact is not a header test.
func c09GuardsAt(m *pbfModel, fi *FuncInfo, body *ast.BlockStmt, pos token.Pos, firstHdr types.Object) (isHeader, notHeader, other bool) {
	c := m.cfgOf(body)
	target, _ := blockOf(c.g, pos)
	for _, ft := range m.view.factsAt(fi, body, pos) {
		// a guard whose other branch leaves the function for good (an early `return err`) does not decide whether the
		// block is dispatched in a scan that goes on: the other branch never rejoins the code after pos
		if ft.at != nil && target != nil && len(ft.at.Succs) == 2 {
			after := reachableFrom([]*cfg.Block{target}, nil)
			for _, succ := range ft.at.Succs {
				opp := reachableFrom([]*cfg.Block{succ}, func(x *cfg.Block) bool { return x == ft.at })
				if opp[target] {
					continue
				}
				rejoins := false
				for b := range opp {
					if after[b] {
						rejoins = true
					}
				}
				if !rejoins {
					ft.at = nil // marks an abort guard
				}
			}
			if ft.at == nil {
				continue
			}
		}
		v := evalTriPolarity(ft.expr, func(a ast.Expr) tri { return c09HeaderTest(m, a, firstHdr, 0) })
		if !ft.val {
			v = triNot(v)
		}
		switch v {
		case triT:
			isHeader = true
		case triF:
			notHeader = true
		default:
			other = true
		}
	}
	return
}

// c09B6: a first block that is not a header is dispatched to the workers (under exactly that condition), and the first
// block is decoded as a header only when it is one.
func c09B6(r *core.R) {
	m := modelOrAnchor(r)
	if m == nil {
		return
	}
	f := c09Resolve(r, m)
	if f == nil {
		return
	}
	info := m.info
	// the synchronous first read of the spawner
	var firstBlob, firstHdr types.Object
	ast.Inspect(m.start.Decl.Body, func(n ast.Node) bool {
		switch s := n.(type) {
		case *ast.FuncLit:
			return false
		case *ast.AssignStmt:
			if len(s.Rhs) == 1 && firstBlob == nil {
				if call, ok := s.Rhs[0].(*ast.CallExpr); ok && callee(info, call) == f.blockReader.Obj {
					// the results that describe the block: (header, blob, err) or (block struct, err)
					c09FirstSet = map[types.Object]bool{}
					for _, l := range s.Lhs {
						if o := objOf(info, l); o != nil && !pbfIsError(o.Type()) {
							c09FirstSet[o] = true
							if firstHdr == nil {
								firstHdr = o
							}
							firstBlob = o
						}
					}
				}
			}
		}
		return true
	})
	if firstBlob == nil || firstHdr == nil {
		r.Anchor("synchronous read of the first block in the spawner")
		return
	}
	// header decoded only for a header block
	c := "header-only-if-header@" + m.start.Name()
	var hdrCall *ast.CallExpr
	ast.Inspect(m.start.Decl.Body, func(n ast.Node) bool {
		if _, ok := n.(*ast.FuncLit); ok {
			return false
		}
		if call, ok := n.(*ast.CallExpr); ok {
			if fn := callee(info, call); fn != nil && fn.Pkg() == m.pk.Types {
				sig := fn.Type().(*types.Signature)
				if sig.Results().Len() == 2 && namedPath(sig.Results().At(0).Type()) == core.ModulePath+"/osmpbf.Header" {
					hdrCall = call
				}
			}
		}
		return true
	})
	if hdrCall == nil {
		r.Anchor("header decoding call in the spawner")
	} else {
		isH, _, _ := c09GuardsAt(m, m.start, m.start.Decl.Body, hdrCall.Pos(), firstHdr)
		r.Check(isH && len(hdrCall.Args) == 1 && c09FirstExpr(m, hdrCall.Args[0]), c, hdrCall.Pos(),
			"the first block is decoded as a header only under `GetType() == \"OSMHeader\"`",
			"the first block is decoded as a header without testing its type: a scan resumed at a data block fails or misreads it")
	}
	// dispatch of a non-header first block: a send, before the reader's loop, of a pair carrying the first blob,
	// controlled by exactly the "not a header" test
	g := m.goOf("reader")
	if g == nil {
		r.Anchor("reader goroutine")
		return
	}
	c = "dispatch-first-data-block@" + g.unit.name
	found, why := false, ""
	m.deepWalk(g.unit, func(s *pbfSite, n ast.Node) bool {
		snd, ok := n.(*ast.SendStmt)
		if !ok || m.chanClass(nil, snd.Chan) != f.in {
			return true
		}
		carries := false
		for _, b := range c09CarriedBlobs(m, f, snd.Value, map[types.Object]bool{}) {
			if c09FirstExpr(m, b) {
				carries = true
			}
		}
		// the pair may have been built elsewhere (in the spawner) and handed over through a parameter / pointer
		for _, sb := range c09SentBuilds(m, f, snd.Value, s.unit().fi, map[types.Object]bool{}, 0) {
			if c09FirstExpr(m, sb.blob) {
				carries = true
			}
		}
		if !carries {
			return true
		}
		// the conditions that control the send: in its own function and, for a send in a helper, at every call on
		// the chain from the goroutine body (what the caller tested holds in the callee)
		notH, other := false, false
		for i, fr := range s.frames {
			at := fr.link
			if i == len(s.frames)-1 {
				at = snd
			}
			if fr.deferred {
				other = true
			}
			_, nh, ot := c09GuardsAt(m, fr.u.fi, fr.body, at.Pos(), firstHdr)
			notH, other = notH || nh, other || ot
		}
		switch {
		case !notH:
			why = "the send of the first block is not under the test `GetType() != \"OSMHeader\"`"
		case other:
			why = "the send of the first block depends on a condition other than the block's type"
		default:
			found = true
		}
		return true
	})
	if found {
		r.OK(c, g.unit.body.Pos(), "when (and only depending on whether) the first block is not a header its blob is sent to the workers before the loop starts")
	} else {
		if why == "" {
			why = fmt.Sprintf("no send of a pair carrying `%s` under `GetType() != \"OSMHeader\"`", firstBlob.Name())
		}
		r.Bad(c, g.unit.body.Pos(), "a first block that is not a header is not (always) dispatched (%s): resuming at a data block loses that block's objects", why)
	}
}

// c09FirstValue reports whether variable o holds, when the reader goroutine starts, the value the spawner's synchronous
// first read stored in first: o is that variable (captured by a closure), or a parameter bound to it at the go
// statement / call; later re-assignments of o from further block reads (in the read loop) are allowed, as they are for
// the captured variable itself.
func c09FirstValue(m *pbfModel, o, first types.Object) bool {
	if o == nil || first == nil {
		return false
	}
	if o == first || c09FirstSet[o] {
		return true
	}
	defs := m.defsOf(o)
	bound := false
	for _, d := range defs {
		switch d.kind {
		case "arg":
			if d.e == nil || !c09FirstValue(m, objOf(m.info, d.e), first) {
				return false
			}
			bound = true
		case "zero":
			// `var first *Blob`: nil until assigned
		case "assign":
			if isNilIdent(d.e) {
				continue
			}
			if d.e == nil || !c09FirstExprOf(m, d.e, first) {
				return false
			}
			bound = true
		case "result":
			// re-assigned from a later block read, like the captured variable
			ok := false
			var firstDefs []pbfOrigin
			firstDefs = append(firstDefs, m.defsOf(first)...)
			for k := range c09FirstSet {
				if k != first {
					firstDefs = append(firstDefs, m.defsOf(k)...)
				}
			}
			for _, fd := range firstDefs {
				if fd.kind == "result" && fd.idx == d.idx {
					if c1, ok1 := ast.Unparen(fd.e).(*ast.CallExpr); ok1 {
						if c2, ok2 := ast.Unparen(d.e).(*ast.CallExpr); ok2 && callee(m.info, c1) == callee(m.info, c2) {
							ok = true
						}
					}
				}
			}
			if !ok {
				return false
			}
		default:
			return false
		}
	}
	return bound
}

// c09NilCarrier reports whether pointer variable o is non-nil exactly when the first block is not a header: following
// parameters to the argument at every call / go statement, it ends in a variable whose definitions are the zero value
// / nil and one or more assignments of a value, each controlled by exactly the "not a header" test (so that a nil test
// of o in the callee stands for the header test made at the call site).
func c09NilCarrier(m *pbfModel, o *types.Var, firstHdr types.Object, depth int) bool {
	if depth > 4 {
		return false
	}
	defs := m.defsOf(o)
	if len(defs) == 0 {
		return false
	}
	// two spellings: (A) nil by default, a value assigned only under the not-a-header test; (B) the value assigned
	// unconditionally, then cleared (set to nil) under exactly the is-a-header test
	assigned := false
	var guardedVals, plainVals, headerClears []pbfOrigin
	for _, d := range defs {
		switch d.kind {
		case "zero":
		case "arg":
			ao, ok := objOf(m.info, d.e).(*types.Var)
			if !ok || ao.IsField() || !c09NilCarrier(m, ao, firstHdr, depth+1) {
				return false
			}
			assigned = true
		case "assign":
			isH, notH, other := c09GuardsAt(m, d.fi, d.fi.Decl.Body, d.stmt.Pos(), firstHdr)
			switch {
			case isNilIdent(d.e):
				if isH && !other && !notH {
					headerClears = append(headerClears, d)
				}
				// (other nil assignments only make the carrier nil more often: the dispatch guard then fails the
				// "only depending on the type" test through the value assignments below)
			case notH && !other && !isH:
				guardedVals = append(guardedVals, d)
			case !isH && !notH && !other:
				plainVals = append(plainVals, d)
			default:
				return false
			}
		default:
			return false
		}
	}
	switch {
	case len(plainVals) == 0 && len(guardedVals) > 0:
		assigned = true
	case len(plainVals) > 0 && len(guardedVals) == 0 && len(headerClears) > 0:
		// every clear comes after the value assignments (same function, later position)
		for _, v := range plainVals {
			for _, c := range headerClears {
				if c.fi != v.fi || c.stmt.Pos() < v.stmt.Pos() {
					return false
				}
			}
		}
		assigned = true
	case len(plainVals) > 0:
		return false
	}
	return assigned
}

// c09FirstSet holds the variables that receive the results of the spawner's synchronous first block read.
var c09FirstSet map[types.Object]bool

// c09FirstExpr reports whether expression e denotes (part of) the first block read by the spawner: one of the result
// variables, a field of a result struct, or a variable / parameter that carries such a value.
func c09FirstExpr(m *pbfModel, e ast.Expr) bool { return c09FirstExprOf(m, e, nil) }

func c09FirstExprOf(m *pbfModel, e ast.Expr, first types.Object) bool {
	e = ast.Unparen(e)
	if base, _ := m.structLocalField(e); base != nil {
		e = base
	}
	o := objOf(m.info, e)
	if o == nil {
		return false
	}
	if first == nil {
		for k := range c09FirstSet {
			first = k
			break
		}
	}
	return c09FirstValue(m, o, first)
}
