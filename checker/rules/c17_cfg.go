package rules

import (
	"fmt"
	"go/ast"
	"go/token"
	"go/types"
	"strings"

	"golang.org/x/tools/go/cfg"
	"golang.org/x/tools/go/packages"

	"osmcheck/core"
)

// Shared machinery of C17.G3/G5/G6. Everything here decides on the control-flow graph and on objects, never on
// the surface form of a statement:
//   - c17Fn.cond       the boolean condition that terminates a CFG block (if / for / tagless switch; for a tagged
//                      switch the synthesised `tag == value`);
//   - c17Fn.factsAt    atomic facts known at a block, looking through `!`, `&&`, `||`, boolean locals assigned once
//                      (`boring := !pred(x); if boring {…}`) and predicate helpers (`func (c) skip(m) bool { return E }`);
//   - c17Pkg.eval      three-valued evaluation of a condition under a valuation of an option bit (finite domain);
//   - c17Fn.region     the blocks executed only on one side of a branch and what the other side skips;
//   - c17Pkg.effects   the visible effects of a set of CFG nodes, followed into same-package callees.

type c17CallSite struct {
	fn   *c17Fn
	call *ast.CallExpr
}

type c17Pkg struct {
	p       *core.Program
	pk      *packages.Package
	info    *types.Info
	fset    *token.FileSet
	list    []*c17Fn
	fns     map[*types.Func]*c17Fn
	calls   map[*types.Func][]c17CallSite // static call sites of same-package functions
	refs    map[*types.Func]int           // identifier uses of a function object (calls and values)
	inits   map[types.Object]ast.Expr     // memo of singleInit
	noIni   map[types.Object]bool
	polyMem map[*c17Fn]int  // memo of polygonOnly
	busy    map[*c17Fn]bool // functions whose result is being evaluated (recursion cut)
}

type c17Fn struct {
	*FuncInfo
	a     *c17Pkg
	g     *cfg.CFG
	dom   map[*cfg.Block]map[*cfg.Block]bool
	par   map[ast.Node]ast.Node
	conds map[*cfg.Block]ast.Expr
}

func c17NewPkg(p *core.Program, pk *packages.Package) *c17Pkg {
	a := &c17Pkg{p: p, pk: pk, info: pk.TypesInfo, fset: p.Fset, fns: map[*types.Func]*c17Fn{},
		calls: map[*types.Func][]c17CallSite{}, refs: map[*types.Func]int{}, inits: map[types.Object]ast.Expr{}, noIni: map[types.Object]bool{}, polyMem: map[*c17Fn]int{}}
	for _, fi := range allFuncs(pk) {
		fn := &c17Fn{FuncInfo: fi, a: a}
		a.list = append(a.list, fn)
		a.fns[fi.Obj] = fn
	}
	for _, fn := range a.list {
		ast.Inspect(fn.Decl.Body, func(n ast.Node) bool {
			if call, ok := n.(*ast.CallExpr); ok {
				if c := callee(a.info, call); c != nil && a.fns[c] != nil {
					a.calls[c] = append(a.calls[c], c17CallSite{fn: fn, call: call})
				}
			}
			return true
		})
	}
	for _, o := range a.info.Uses {
		if f, ok := o.(*types.Func); ok && a.fns[f] != nil {
			a.refs[f]++
		}
	}
	return a
}

func (fn *c17Fn) graph() *cfg.CFG {
	if fn.g == nil {
		fn.g = newCFG(fn.a.info, fn.Decl.Body)
		fn.dom = dominators(fn.g)
		fn.par = parentsOf(fn.a.p, fn.FuncInfo)
		fn.conds = map[*cfg.Block]ast.Expr{}
	}
	return fn.g
}

func (fn *c17Fn) parents() map[ast.Node]ast.Node { fn.graph(); return fn.par }

// blockAt returns the live block containing pos (nil when pos is in dead code or inside a function literal's
// own control flow, which is attributed to the statement creating the literal).
func (fn *c17Fn) blockAt(pos token.Pos) *cfg.Block {
	b, _ := blockOf(fn.graph(), pos)
	if b == nil || !b.Live {
		return nil
	}
	return b
}

func c17IsBool(t types.Type) bool {
	if t == nil {
		return false
	}
	bt, ok := t.Underlying().(*types.Basic)
	return ok && bt.Info()&types.IsBoolean != 0
}

// cond returns the condition deciding between the two successors of b (Succs[0] when it holds), or nil for
// blocks that do not branch on an expression (range heads, type-switch cases, select).
func (fn *c17Fn) cond(b *cfg.Block) ast.Expr {
	fn.graph()
	if e, ok := fn.conds[b]; ok {
		return e
	}
	var out ast.Expr
	if len(b.Succs) == 2 && len(b.Nodes) > 0 {
		if e, ok := b.Nodes[len(b.Nodes)-1].(ast.Expr); ok {
			if cc, isCase := fn.par[e].(*ast.CaseClause); isCase {
				// a case value of an expression switch: the cfg holds "one half of tag == value"
				if blk, ok := fn.par[cc].(*ast.BlockStmt); ok {
					if sw, ok := fn.par[blk].(*ast.SwitchStmt); ok {
						if sw.Tag != nil {
							out = &ast.BinaryExpr{X: sw.Tag, Op: token.EQL, Y: e, OpPos: e.Pos()}
						} else {
							out = e
						}
					}
				}
			} else if c17IsBool(fn.a.info.TypeOf(e)) {
				switch p := fn.par[e].(type) {
				case *ast.IfStmt:
					if p.Cond == e {
						out = e
					}
				case *ast.ForStmt:
					if p.Cond == e {
						out = e
					}
				}
			}
		}
	}
	fn.conds[b] = out
	return out
}

// c17Callee resolves the static callee also for call expressions synthesised by substitution.
func c17Callee(info *types.Info, call *ast.CallExpr) *types.Func {
	if f := callee(info, call); f != nil {
		return f
	}
	switch x := ast.Unparen(call.Fun).(type) {
	case *ast.SelectorExpr:
		f, _ := info.Uses[x.Sel].(*types.Func)
		return f
	case *ast.Ident:
		f, _ := info.Uses[x].(*types.Func)
		return f
	}
	return nil
}

// c17FieldOf is fieldOf that also works on synthesised selectors.
func c17FieldOf(info *types.Info, e ast.Expr) *types.Var {
	sel, ok := ast.Unparen(e).(*ast.SelectorExpr)
	if !ok {
		return nil
	}
	return selField(info, sel)
}

// singleInit returns the only value ever held by local variable o in its function (`o := E` or `var o = E`
// and no other assignment), nil when o is assigned more than once (a `var o T` counts: it assigns the zero
// value), by a multi-value assignment, has its address taken, or is not a local.
func (a *c17Pkg) singleInit(fn *c17Fn, o types.Object) ast.Expr {
	if e, ok := a.inits[o]; ok {
		return e
	}
	if a.noIni[o] {
		return nil
	}
	v, ok := o.(*types.Var)
	if !ok || v.IsField() || !(o.Pos() > fn.Decl.Body.Pos() && o.Pos() < fn.Decl.Body.End()) {
		a.noIni[o] = true
		return nil
	}
	var init ast.Expr
	n := 0
	ast.Inspect(fn.Decl.Body, func(x ast.Node) bool {
		switch s := x.(type) {
		case *ast.AssignStmt:
			for i, l := range s.Lhs {
				if id, ok := ast.Unparen(l).(*ast.Ident); ok && objOf(a.info, id) == o {
					n++
					if len(s.Lhs) == len(s.Rhs) && (s.Tok == token.DEFINE || s.Tok == token.ASSIGN) {
						init = s.Rhs[i]
					} else {
						n += 2
					}
				}
			}
		case *ast.ValueSpec:
			for i, id := range s.Names {
				if a.info.Defs[id] == o {
					n++ // without a value the variable holds its zero value first
					if len(s.Values) == len(s.Names) {
						init = s.Values[i]
					}
				}
			}
		case *ast.IncDecStmt:
			if id, ok := ast.Unparen(s.X).(*ast.Ident); ok && objOf(a.info, id) == o {
				n += 2
			}
		case *ast.RangeStmt:
			if (s.Key != nil && objOf(a.info, s.Key) == o) || (s.Value != nil && objOf(a.info, s.Value) == o) {
				n += 2
			}
		case *ast.UnaryExpr:
			if s.Op == token.AND {
				if id, ok := ast.Unparen(s.X).(*ast.Ident); ok && objOf(a.info, id) == o {
					n += 2 // address taken: may be written elsewhere
				}
			}
		}
		return true
	})
	if n != 1 || init == nil {
		a.noIni[o] = true
		return nil
	}
	a.inits[o] = init
	return init
}

// resolve follows locals that are assigned exactly once (`id := way.ID`) to the expression they stand for.
func (a *c17Pkg) resolve(fn *c17Fn, e ast.Expr) ast.Expr {
	for i := 0; i < 4; i++ {
		id, ok := ast.Unparen(e).(*ast.Ident)
		if !ok {
			return e
		}
		o := objOf(a.info, id)
		if o == nil {
			return e
		}
		init := a.singleInit(fn, o)
		if init == nil {
			return e
		}
		e = init
	}
	return e
}

// resolveAlias follows only pure aliases (`w := way`): the result is the variable the identifier stands for.
func (a *c17Pkg) resolveAlias(fn *c17Fn, e ast.Expr) ast.Expr {
	for i := 0; i < 4; i++ {
		id, ok := stripDerefParen(e).(*ast.Ident)
		if !ok {
			return e
		}
		o := objOf(a.info, id)
		if o == nil {
			return e
		}
		init := a.singleInit(fn, o)
		if init == nil {
			return e
		}
		if _, isID := stripDerefParen(init).(*ast.Ident); !isID {
			return e
		}
		e = init
	}
	return e
}

// c17Subst rebuilds e with the identifiers denoting the given objects replaced (parameters by arguments).
// Untouched sub-trees are shared, so type information of the leaves stays available.
func c17Subst(info *types.Info, e ast.Expr, m map[types.Object]ast.Expr) ast.Expr {
	if len(m) == 0 {
		return e
	}
	switch x := e.(type) {
	case *ast.Ident:
		if o := info.Uses[x]; o != nil {
			if r, ok := m[o]; ok && r != nil {
				if id, isID := ast.Unparen(r).(*ast.Ident); isID {
					return id
				}
				return &ast.ParenExpr{X: r}
			}
		}
	case *ast.ParenExpr:
		if r := c17Subst(info, x.X, m); r != x.X {
			return &ast.ParenExpr{X: r}
		}
	case *ast.SelectorExpr:
		if r := c17Subst(info, x.X, m); r != x.X {
			return &ast.SelectorExpr{X: r, Sel: x.Sel}
		}
	case *ast.StarExpr:
		if r := c17Subst(info, x.X, m); r != x.X {
			return &ast.StarExpr{X: r}
		}
	case *ast.IndexExpr:
		rx, ri := c17Subst(info, x.X, m), c17Subst(info, x.Index, m)
		if rx != x.X || ri != x.Index {
			return &ast.IndexExpr{X: rx, Index: ri, Lbrack: x.Lbrack, Rbrack: x.Rbrack}
		}
	case *ast.UnaryExpr:
		if r := c17Subst(info, x.X, m); r != x.X {
			return &ast.UnaryExpr{Op: x.Op, X: r, OpPos: x.OpPos}
		}
	case *ast.BinaryExpr:
		rx, ry := c17Subst(info, x.X, m), c17Subst(info, x.Y, m)
		if rx != x.X || ry != x.Y {
			return &ast.BinaryExpr{X: rx, Op: x.Op, Y: ry, OpPos: x.OpPos}
		}
	case *ast.CallExpr:
		changed := false
		fun := c17Subst(info, x.Fun, m)
		if fun != x.Fun {
			changed = true
		}
		args := make([]ast.Expr, len(x.Args))
		for i, arg := range x.Args {
			args[i] = c17Subst(info, arg, m)
			if args[i] != arg {
				changed = true
			}
		}
		if changed {
			return &ast.CallExpr{Fun: fun, Args: args, Lparen: x.Lparen, Rparen: x.Rparen, Ellipsis: x.Ellipsis}
		}
	}
	return e
}

// predicate returns the helper called by `call` when it is a predicate helper: a function of the package whose
// body is a single `return E` with a boolean result, together with E rewritten into the caller's terms
// (parameters and receiver replaced by the arguments).
func (a *c17Pkg) predicate(call *ast.CallExpr) (*c17Fn, ast.Expr) {
	f := c17Callee(a.info, call)
	if f == nil {
		return nil, nil
	}
	h := a.fns[f]
	if h == nil {
		return nil, nil
	}
	ret := singleReturnExpr(h.FuncInfo)
	if ret == nil || !c17IsBool(a.info.TypeOf(ret)) {
		return nil, nil
	}
	m := map[types.Object]ast.Expr{}
	sig := f.Type().(*types.Signature)
	if sig.Variadic() {
		return nil, nil
	}
	for i := 0; i < sig.Params().Len() && i < len(call.Args); i++ {
		m[sig.Params().At(i)] = call.Args[i]
	}
	if h.Decl.Recv != nil && len(h.Decl.Recv.List) == 1 && len(h.Decl.Recv.List[0].Names) == 1 {
		if sel, ok := ast.Unparen(call.Fun).(*ast.SelectorExpr); ok {
			m[a.info.Defs[h.Decl.Recv.List[0].Names[0]]] = sel.X
		}
	}
	return h, c17Subst(a.info, ret, m)
}

// split decomposes "e is val" into atomic facts; see the file comment.
func (fn *c17Fn) split(e ast.Expr, val bool, at *cfg.Block, out *[]guardFact, depth int) {
	a := fn.a
	e = ast.Unparen(e)
	switch x := e.(type) {
	case *ast.UnaryExpr:
		if x.Op == token.NOT {
			fn.split(x.X, !val, at, out, depth)
			return
		}
	case *ast.BinaryExpr:
		if (x.Op == token.LAND && val) || (x.Op == token.LOR && !val) {
			fn.split(x.X, val, at, out, depth)
			fn.split(x.Y, val, at, out, depth)
			return
		}
	case *ast.Ident:
		if depth < 4 {
			if o := objOf(a.info, x); o != nil && c17IsBool(o.Type()) {
				if init := a.singleInit(fn, o); init != nil {
					fn.split(init, val, at, out, depth+1)
				}
			}
		}
	case *ast.CallExpr:
		if depth < 4 {
			if _, ret := a.predicate(x); ret != nil {
				fn.split(ret, val, at, out, depth+1)
			}
		}
	}
	*out = append(*out, guardFact{expr: e, val: val, at: at})
}

// factsAt returns the atomic facts established by the branch conditions controlling block target.
func (fn *c17Fn) factsAt(target *cfg.Block) []guardFact {
	g := fn.graph()
	var out []guardFact
	for _, b := range g.Blocks {
		if !b.Live || b == target || !fn.dom[target][b] {
			continue
		}
		c := fn.cond(b)
		if c == nil {
			continue
		}
		viaT := reachableFrom([]*cfg.Block{b.Succs[0]}, func(x *cfg.Block) bool { return x == b })[target]
		viaF := reachableFrom([]*cfg.Block{b.Succs[1]}, func(x *cfg.Block) bool { return x == b })[target]
		switch {
		case viaT && !viaF:
			fn.split(c, true, b, &out, 0)
		case viaF && !viaT:
			fn.split(c, false, b, &out, 0)
		}
	}
	return out
}

// ---- finite-domain evaluation -------------------------------------------------------------------------

// c17Val is a valuation: the option field has value set; objects in proxy carry the option (+1) or its negation
// (-1); with nodeMember every `<osm.Member>.Type` equals osm.TypeNode.
type c17Val struct {
	opt        *types.Var
	set        bool
	proxy      map[types.Object]int
	nodeMember bool
	memberType string // when not "": every `<osm.Member>.Type` has this value ("node", "way", "relation", …)
}

func c17TriOf(b bool) tri {
	if b {
		return triT
	}
	return triF
}

func (a *c17Pkg) eval(fn *c17Fn, e ast.Expr, v c17Val, depth int) tri {
	return evalTri(e, func(x ast.Expr) tri { return a.evalAtom(fn, x, v, depth) })
}

func (a *c17Pkg) evalAtom(fn *c17Fn, e ast.Expr, v c17Val, depth int) tri {
	e = ast.Unparen(e)
	if f := c17FieldOf(a.info, e); f != nil && f == v.opt {
		return c17TriOf(v.set)
	}
	switch x := e.(type) {
	case *ast.Ident:
		o := objOf(a.info, x)
		if o == nil {
			return triU
		}
		if pol, ok := v.proxy[o]; ok {
			return c17TriOf(v.set == (pol > 0))
		}
		if tv, ok := a.info.Types[x]; ok && tv.Value != nil && c17IsBool(tv.Type) {
			return c17TriOf(tv.Value.String() == "true")
		}
		if depth < 4 && fn != nil && c17IsBool(o.Type()) {
			if init := a.singleInit(fn, o); init != nil {
				return a.eval(fn, init, v, depth+1)
			}
			if h, idx, n := a.tupleInit(fn, o); h != nil {
				return a.evalResult(h, idx, n, v, depth+1)
			}
		}
	case *ast.CallExpr:
		if depth < 4 {
			if _, ret := a.predicate(x); ret != nil {
				return a.eval(fn, ret, v, depth+1)
			}
			if h := a.fns[c17Callee(a.info, x)]; h != nil {
				return a.evalResult(h, 0, 1, v, depth+1)
			}
		}
	case *ast.BinaryExpr:
		if (x.Op == token.EQL || x.Op == token.NEQ) && depth < 4 {
			// comparison of a boolean with a constant (`switch opt { case true: … }` is held as `opt == true`)
			for _, pair := range [][2]ast.Expr{{x.X, x.Y}, {x.Y, x.X}} {
				if tv, ok := a.info.Types[ast.Unparen(pair[1])]; ok && tv.Value != nil && c17IsBool(tv.Type) {
					if t := a.eval(fn, pair[0], v, depth+1); t != triU {
						want := tv.Value.String() == "true"
						return c17TriOf(((t == triT) == want) == (x.Op == token.EQL))
					}
				}
			}
		}
		if (x.Op == token.EQL || x.Op == token.NEQ) && depth < 4 {
			// `x == nil` / `x != nil` where x comes from a helper whose result is nil on some paths only
			for _, pair := range [][2]ast.Expr{{x.X, x.Y}, {x.Y, x.X}} {
				if tv, ok := a.info.Types[ast.Unparen(pair[1])]; ok && tv.IsNil() {
					if t := a.nilOf(fn, pair[0], v, depth+1); t != triU {
						return c17TriOf((t == triT) == (x.Op == token.EQL))
					}
				}
			}
		}
		want := v.memberType
		if v.nodeMember {
			want, _ = a.typeNodeValue()
		}
		if want != "" && (x.Op == token.EQL || x.Op == token.NEQ) {
			for _, pair := range [][2]ast.Expr{{x.X, x.Y}, {x.Y, x.X}} {
				if !a.isMemberType(pair[0]) {
					continue
				}
				s, ok := constString(a.info, ast.Unparen(pair[1]))
				if !ok {
					continue
				}
				return c17TriOf((s == want) == (x.Op == token.EQL))
			}
		}
	}
	return triU
}

// isMemberType: e is `<x>.Type` with x an osm.Member.
func (a *c17Pkg) isMemberType(e ast.Expr) bool {
	e = ast.Unparen(e)
	f := c17FieldOf(a.info, e)
	if f == nil || namedPath(f.Type()) != core.ModulePath+".Type" {
		return false
	}
	sel := e.(*ast.SelectorExpr)
	t := a.info.TypeOf(sel.X)
	if t == nil {
		// synthesised receiver: the field's parent struct decides
		return f.Pkg() != nil && f.Pkg().Path() == core.ModulePath && c17FieldOwner(a.p, f) == "Member"
	}
	return namedPath(t) == core.ModulePath+".Member"
}

func c17FieldOwner(p *core.Program, f *types.Var) string {
	pk := p.Pkg("")
	if pk == nil {
		return ""
	}
	for _, name := range pk.Types.Scope().Names() {
		if tn, ok := pk.Types.Scope().Lookup(name).(*types.TypeName); ok {
			if st, ok := tn.Type().Underlying().(*types.Struct); ok {
				for i := 0; i < st.NumFields(); i++ {
					if st.Field(i) == f {
						return name
					}
				}
			}
		}
	}
	return ""
}

func (a *c17Pkg) typeNodeValue() (string, bool) {
	pk := a.p.Pkg("")
	if pk == nil {
		return "", false
	}
	c, ok := pk.Types.Scope().Lookup("TypeNode").(*types.Const)
	if !ok {
		return "", false
	}
	s := c.Val().ExactString()
	if len(s) >= 2 && s[0] == '"' {
		return s[1 : len(s)-1], true
	}
	return "", false
}

// succsUnder lists the successors of branching block b that are feasible under valuation v.
func (a *c17Pkg) succsUnder(fn *c17Fn, b *cfg.Block, v c17Val) (t, f bool) {
	c := fn.cond(b)
	if c == nil {
		return true, true
	}
	switch a.eval(fn, c, v, 0) {
	case triT:
		return true, false
	case triF:
		return false, true
	}
	return true, true
}

// reachUnder returns the blocks of fn reachable from its entry when every branch follows only the successors
// feasible under v.
func (a *c17Pkg) reachUnder(fn *c17Fn, v c17Val) map[*cfg.Block]bool {
	g := fn.graph()
	seen := map[*cfg.Block]bool{}
	work := []*cfg.Block{g.Blocks[0]}
	for len(work) > 0 {
		b := work[len(work)-1]
		work = work[:len(work)-1]
		if seen[b] {
			continue
		}
		seen[b] = true
		if len(b.Succs) == 2 {
			t, f := a.succsUnder(fn, b, v)
			if t {
				work = append(work, b.Succs[0])
			}
			if f {
				work = append(work, b.Succs[1])
			}
			continue
		}
		work = append(work, b.Succs...)
	}
	return seen
}

// ---- regions ---------------------------------------------------------------------------------------------

// c17Region describes a branch at block b where one successor (dS) is taken on the "subtracting" side of an
// option and the other (aS) otherwise: only = the blocks executed only on the subtracting side; skipped = the
// blocks the subtracting side can bypass although the other side may execute them.
type c17Region struct {
	b, dS, aS *cfg.Block
	only      map[*cfg.Block]bool
	skipped   map[*cfg.Block]bool
}

// region computes the regions of the branch at b. feas, when non-nil, restricts the walk on the subtracting side to
// the successors feasible under a valuation (blocks of `only` that cannot be reached that way contribute no exits).
func (fn *c17Fn) region(b, dS, aS *cfg.Block, feas func(x *cfg.Block) (t, f bool)) *c17Region {
	stop := func(x *cfg.Block) bool { return x == b }
	ra := func(x *cfg.Block) map[*cfg.Block]bool {
		m := reachableFrom([]*cfg.Block{x}, stop)
		delete(m, b)
		return m
	}
	rD, rA := ra(dS), ra(aS)
	rg := &c17Region{b: b, dS: dS, aS: aS, only: map[*cfg.Block]bool{}, skipped: map[*cfg.Block]bool{}}
	for x := range rD {
		if !rA[x] {
			rg.only[x] = true
		}
	}
	addSkipped := func(t *cfg.Block) {
		var rt map[*cfg.Block]bool
		if t != nil {
			rt = ra(t)
		}
		for x := range rA {
			if !rt[x] {
				rg.skipped[x] = true
			}
		}
	}
	if !rg.only[dS] {
		addSkipped(dS)
		return rg
	}
	// walk the exclusive region along feasible edges and collect what each way out of it bypasses
	seen := map[*cfg.Block]bool{}
	work := []*cfg.Block{dS}
	for len(work) > 0 {
		x := work[len(work)-1]
		work = work[:len(work)-1]
		if seen[x] {
			continue
		}
		seen[x] = true
		if len(x.Succs) == 0 {
			addSkipped(nil) // return / panic: everything the other side does is skipped
		}
		for i, s := range x.Succs {
			if feas != nil && len(x.Succs) == 2 {
				t, f := feas(x)
				if (i == 0 && !t) || (i == 1 && !f) {
					continue
				}
			}
			switch {
			case s == b:
			case rg.only[s]:
				work = append(work, s)
			default:
				addSkipped(s)
			}
		}
	}
	if feas != nil {
		for x := range rg.only {
			if !seen[x] {
				delete(rg.only, x)
			}
		}
	}
	return rg
}

// nodesOf lists the CFG nodes of a block set, leaving out the condition of `except` (it is evaluated on both sides).
func c17NodesOf(blocks map[*cfg.Block]bool) []ast.Node {
	var out []ast.Node
	for b := range blocks {
		out = append(out, b.Nodes...)
	}
	return out
}

func c17InNodes(nodes []ast.Node) func(token.Pos) bool {
	return func(p token.Pos) bool {
		for _, n := range nodes {
			if n.Pos() <= p && p < n.End() {
				return true
			}
		}
		return false
	}
}

// ---- effects -----------------------------------------------------------------------------------------------

// c17Allow accepts an assignment target as one of the effects a role may subtract.
type c17Allow func(lhs ast.Expr, as *ast.AssignStmt, i int) bool

type c17Scope struct {
	fn      *c17Fn
	in      func(token.Pos) bool    // lexically inside the region
	paramOK func(p *types.Var) bool // writes through this parameter are invisible outside the region (callee side)
}

// isResult reports whether o is a named result of fn.
func (fn *c17Fn) isResult(o types.Object) bool {
	res := fn.Obj.Type().(*types.Signature).Results()
	for i := 0; i < res.Len(); i++ {
		if res.At(i) == o {
			return true
		}
	}
	return false
}

func (fn *c17Fn) isParam(o types.Object) bool {
	sig := fn.Obj.Type().(*types.Signature)
	for i := 0; i < sig.Params().Len(); i++ {
		if sig.Params().At(i) == o {
			return true
		}
	}
	return sig.Recv() != nil && sig.Recv() == o
}

// local reports whether assigning the variable o inside the region is invisible outside it: o is declared in
// the region, or every read of o lies in the region.
func (sc *c17Scope) local(o types.Object) bool {
	v, ok := o.(*types.Var)
	if !ok || v.IsField() {
		return false
	}
	fn := sc.fn
	if !(o.Pos() >= fn.Decl.Pos() && o.Pos() < fn.Decl.End()) || fn.isResult(o) {
		return false
	}
	if sc.in(o.Pos()) {
		return true
	}
	info := fn.a.info
	par := fn.parents()
	all := true
	ast.Inspect(fn.Decl.Body, func(n ast.Node) bool {
		id, ok := n.(*ast.Ident)
		if !ok || info.Uses[id] != o || !all {
			return all
		}
		if as, ok := par[id].(*ast.AssignStmt); ok && as.Tok == token.ASSIGN {
			for _, l := range as.Lhs {
				if l == ast.Expr(id) {
					return true // a plain write, not a read
				}
			}
		}
		if !sc.in(id.Pos()) {
			all = false
		}
		return all
	})
	return all
}

// fresh reports whether local o only ever holds memory allocated by its own initialisers.
func (sc *c17Scope) fresh(o types.Object) bool {
	info := sc.fn.a.info
	ok := true
	n := 0
	isFresh := func(e ast.Expr) bool {
		e = ast.Unparen(e)
		if tv, has := info.Types[e]; has && tv.IsNil() {
			return true
		}
		switch x := e.(type) {
		case *ast.CompositeLit:
			return true
		case *ast.UnaryExpr:
			if x.Op == token.AND {
				_, isLit := ast.Unparen(x.X).(*ast.CompositeLit)
				return isLit
			}
		case *ast.CallExpr:
			b := builtinName(info, x)
			return b == "make" || b == "new"
		}
		return false
	}
	ast.Inspect(sc.fn.Decl.Body, func(x ast.Node) bool {
		switch s := x.(type) {
		case *ast.AssignStmt:
			for i, l := range s.Lhs {
				if id, isID := ast.Unparen(l).(*ast.Ident); isID && objOf(info, id) == o {
					n++
					if len(s.Lhs) != len(s.Rhs) || !isFresh(s.Rhs[i]) {
						ok = false
					}
				}
			}
		case *ast.ValueSpec:
			for i, id := range s.Names {
				if info.Defs[id] == o {
					n++
					if len(s.Values) == len(s.Names) && !isFresh(s.Values[i]) {
						ok = false
					}
				}
			}
		}
		return true
	})
	return ok && n > 0
}

// refOK reports whether a write *through* root (root.f = …, root[k] = …) is invisible outside the region.
func (sc *c17Scope) refOK(root types.Object) bool {
	if root == nil {
		return false
	}
	if v, ok := root.(*types.Var); ok && sc.fn.isParam(v) {
		return sc.paramOK != nil && sc.paramOK(v)
	}
	if !sc.local(root) {
		return false
	}
	if _, isMap := root.Type().Underlying().(*types.Map); isMap {
		return true
	}
	return sc.fresh(root)
}

// effects returns the first effect of the nodes that is neither allowed nor confined to the region (bad) and
// the first call whose effects the rule cannot see (unknown). Calls to functions of the package are followed.
func (a *c17Pkg) effects(sc *c17Scope, nodes []ast.Node, allow c17Allow, depth int, seen map[*types.Func]bool) (bad, unknown string) {
	info := a.info
	where := func(n ast.Node) string {
		p := a.fset.Position(n.Pos())
		return fmt.Sprintf("%s:%d", p.Filename[strings.LastIndexByte(p.Filename, '/')+1:], p.Line)
	}
	for _, nd := range nodes {
		ast.Inspect(nd, func(n ast.Node) bool {
			if bad != "" {
				return false
			}
			switch x := n.(type) {
			case *ast.AssignStmt:
				if len(x.Rhs) == 1 {
					if ta, ok := ast.Unparen(x.Rhs[0]).(*ast.TypeAssertExpr); ok && ta.Type == nil {
						return true // `v := x.(type)` binds a per-clause local
					}
				}
				for i, l := range x.Lhs {
					l = ast.Unparen(l)
					if id, ok := l.(*ast.Ident); ok {
						if id.Name == "_" {
							continue
						}
						if o := objOf(info, id); o != nil && sc.local(o) {
							continue
						}
						if allow != nil && allow(l, x, i) {
							continue
						}
						bad = fmt.Sprintf("`%s` (%s)", src(a.fset, x), where(x))
						return false
					}
					if allow != nil && allow(l, x, i) {
						continue
					}
					if sc.refOK(rootObj(info, l)) {
						continue
					}
					bad = fmt.Sprintf("`%s` (%s)", src(a.fset, x), where(x))
					return false
				}
			case *ast.IncDecStmt:
				if id, ok := ast.Unparen(x.X).(*ast.Ident); ok {
					if o := objOf(info, id); o != nil && sc.local(o) {
						return true
					}
				} else if sc.refOK(rootObj(info, x.X)) {
					return true
				}
				bad = fmt.Sprintf("`%s` (%s)", src(a.fset, x), where(x))
			case *ast.GoStmt, *ast.SendStmt, *ast.DeferStmt:
				bad = fmt.Sprintf("`%s` (%s)", src(a.fset, x), where(x))
			case *ast.CallExpr:
				if c17PureCall(info, x) || c17PureStd(info, x) {
					return true
				}
				f := callee(info, x)
				h := a.fns[f]
				if f == nil || h == nil || depth <= 0 {
					if unknown == "" {
						unknown = fmt.Sprintf("call `%s` (%s) whose effects are not known to the rule", src(a.fset, x), where(x))
					}
					return true
				}
				if seen[f] {
					return true
				}
				seen[f] = true
				csc := &c17Scope{fn: h, in: func(p token.Pos) bool { return p >= h.Decl.Pos() && p < h.Decl.End() }}
				csc.paramOK = func(p *types.Var) bool {
					arg := argForParam(info, h.FuncInfo, x, p)
					if arg == nil {
						return false
					}
					return sc.refOK(rootObj(info, arg))
				}
				var body []ast.Node
				for _, st := range h.Decl.Body.List {
					body = append(body, st)
				}
				b2, u2 := a.effects(csc, body, allow, depth-1, seen)
				if b2 != "" {
					bad = b2 + " in " + h.Name()
				}
				if u2 != "" && unknown == "" {
					unknown = u2
				}
			}
			return true
		})
		if bad != "" {
			return
		}
	}
	return
}

// c17PureStd: functions of standard-library packages without visible effects (formatting and arithmetic helpers).
func c17PureStd(info *types.Info, call *ast.CallExpr) bool {
	f := callee(info, call)
	if f == nil || f.Pkg() == nil {
		return false
	}
	switch f.Pkg().Path() {
	case "strconv", "strings", "math", "unicode", "unicode/utf8", "errors", "path":
		return true
	}
	return false
}

// c17SkipReturns checks that every return statement among the nodes only leaves: it returns nothing, nil/zero
// constants, or a parameter of the function (the unchanged argument).
func (a *c17Pkg) skipReturns(fn *c17Fn, nodes []ast.Node) string {
	for _, n := range nodes {
		ret, ok := n.(*ast.ReturnStmt)
		if !ok {
			continue
		}
		for _, res := range ret.Results {
			res = ast.Unparen(res)
			if tv, ok := a.info.Types[res]; ok && (tv.IsNil() || tv.Value != nil) {
				continue
			}
			if o, ok := objOf(a.info, res).(*types.Var); ok && fn.isParam(o) {
				continue
			}
			return fmt.Sprintf("`%s`", src(a.fset, ret))
		}
	}
	return ""
}

// unrefd reports whether every use of function f in the package is a static call (so its call sites are all known).
func (a *c17Pkg) onlyCalled(f *types.Func) bool {
	return !f.Exported() && len(a.calls[f]) > 0 && a.refs[f] == len(a.calls[f])
}
