package rules

import (
	"go/ast"
	"go/token"
	"go/types"

	"golang.org/x/tools/go/cfg"
)

// C08.O3, single error exit. A decoding loop may be written `for err == nil && msg.Next() { switch { case ...: err =
// ... } }; if err != nil { return err }; return msg.Err()`: a case reports an error by assigning the loop's error
// variable instead of returning. The helpers below follow paths on which such a variable is known to be non-nil.

// c08ErrAssign: node n assigns a certainly non-nil error to a plain variable; it returns the variable.
func c08ErrAssign(info *types.Info, f *c01Fn, n ast.Node) types.Object {
	as, ok := n.(*ast.AssignStmt)
	if !ok || (as.Tok != token.ASSIGN && as.Tok != token.DEFINE) || len(as.Lhs) != len(as.Rhs) {
		return nil
	}
	for i, l := range as.Lhs {
		o := objOf(info, l)
		if o == nil || !isErrorType(o.Type()) {
			continue
		}
		if c01IsErrNonNilExpr(info, as.Rhs[i], f.factsAtPos(as.Pos())) {
			return o
		}
	}
	return nil
}

// c08Assigns: node n assigns variable o.
func c08Assigns(info *types.Info, n ast.Node, o types.Object) bool {
	hit := false
	ast.Inspect(n, func(y ast.Node) bool {
		if _, isLit := y.(*ast.FuncLit); isLit {
			return false
		}
		if as, ok := y.(*ast.AssignStmt); ok {
			for _, l := range as.Lhs {
				if objOf(info, l) == o {
					hit = true
				}
			}
		}
		return !hit
	})
	return hit
}

// c08CondKnowing evaluates a branch condition knowing that error variable e is non-nil.
func c08CondKnowing(info *types.Info, cond ast.Expr, e types.Object) c01Tri {
	if cond == nil || e == nil {
		return c01U
	}
	return c01Eval(info, cond, func(a ast.Expr) c01Tri {
		x, neq, ok := c01NilCmp(a)
		if !ok || objOf(info, x) != e {
			return c01U
		}
		return c01Bool(neq) // e != nil is true, e == nil is false
	})
}

// c08ReturnsErrFrom: from node index i of block b, with e known non-nil, every path ends in a return statement whose
// last result is e (or another certainly non-nil error) before e is assigned again.
func c08ReturnsErrFrom(info *types.Info, f *c01Fn, b *cfg.Block, i int, e types.Object) bool {
	type st struct {
		b *cfg.Block
		i int
	}
	seen := map[*cfg.Block]bool{}
	work := []st{{b, i}}
	for len(work) > 0 {
		cur := work[len(work)-1]
		work = work[:len(work)-1]
		returned := false
		for j := cur.i; j < len(cur.b.Nodes); j++ {
			n := cur.b.Nodes[j]
			if ret, ok := n.(*ast.ReturnStmt); ok {
				if len(ret.Results) == 0 {
					return false
				}
				last := ast.Unparen(ret.Results[len(ret.Results)-1])
				if objOf(info, last) != e && !c01IsErrNonNilExpr(info, last, f.factsAtPos(ret.Pos())) {
					return false
				}
				returned = true
				break
			}
			if c08Assigns(info, n, e) {
				return false
			}
		}
		if returned {
			continue
		}
		if len(cur.b.Succs) == 0 {
			return false // falls off the end or panics without returning the error
		}
		v := c01U
		if len(cur.b.Succs) == 2 {
			v = c08CondKnowing(info, f.condOf(cur.b), e)
		}
		for si, nb := range cur.b.Succs {
			if (si == 0 && v == c01F) || (si == 1 && v == c01T) {
				continue
			}
			if !seen[nb] {
				seen[nb] = true
				work = append(work, st{nb, 0})
			}
		}
	}
	return true
}
