package rules

import (
	"go/ast"
	"go/token"
	"go/types"
)

// Scratch buffers (N5).
//
// `var scratch []T` declared before the loop, `buf := scratch[:0]` at the start of an iteration, `buf = append(buf, x)`,
// `dst = append(dst, buf...)`, `scratch = buf` at its end: the store into scratch keeps the last iteration's header, but
// what an iteration left there is never observed. Only its capacity is reused. This holds when
//   - scratch is a local slice of the loop's function whose address is not taken and that no literal captures,
//   - every mention of scratch is an assignment to it or the operand of an empty view scratch[:0],
//   - what is assigned to it is nil, fresh, an empty view of itself, or one of its views,
//   - a view (a local defined only by `v := scratch[:0]` and `v = append(v, ...)`) is only appended to, measured, read
//     element-wise, ranged over, copied out by value (`append(dst, v...)`, `copy(dst, v)`), or stored back in scratch.
// A view that is stored anywhere else, sliced, passed on or returned may alias the buffer into a result; the store is
// then judged like any other.

func (ef *c12Effects) scratchOnly(e *c12Effect) bool {
	if e.inLoop == nil {
		return false
	}
	f := e.fn
	info := f.info()
	body := f.fi.Decl.Body
	par := parentsOf(ef.r.P, f.fi)
	v, ok := e.root.(*types.Var)
	if !ok || c12IsPkgVar(v) || c12ParamPos(info, f.fi.Decl, v) >= 0 {
		return false
	}
	if _, isSlice := v.Type().Underlying().(*types.Slice); !isSlice {
		return false
	}
	if _, plain := ast.Unparen(e.lhs).(*ast.Ident); !plain {
		return false
	}
	isEmptyViewOf := func(x ast.Expr, o types.Object) bool {
		se, ok := c12StripConv(info, x).(*ast.SliceExpr)
		if !ok || se.High == nil || se.Slice3 || objOf(info, stripDerefParen(se.X)) != o {
			return false
		}
		z, isConst := constInt(info, se.High)
		return isConst && z == 0
	}
	// the views of the buffer
	views := map[types.Object]bool{}
	ast.Inspect(body, func(n ast.Node) bool {
		as, ok := n.(*ast.AssignStmt)
		if !ok || len(as.Lhs) != len(as.Rhs) {
			return true
		}
		for i, l := range as.Lhs {
			if o := objOf(info, l); o != nil && o != types.Object(v) && isEmptyViewOf(as.Rhs[i], v) {
				views[o] = true
			}
		}
		return true
	})
	okAll := true
	fail := func() bool { okAll = false; return false }
	ast.Inspect(body, func(n ast.Node) bool {
		if !okAll {
			return false
		}
		if lit, isLit := n.(*ast.FuncLit); isLit {
			if usesObj(info, lit, v) {
				return fail()
			}
			for w := range views {
				if usesObj(info, lit, w) {
					return fail()
				}
			}
			return false
		}
		id, ok := n.(*ast.Ident)
		if !ok {
			return true
		}
		o := info.Uses[id]
		if o == nil {
			o = info.Defs[id]
		}
		isBuf, isView := o == types.Object(v), views[o]
		if !isBuf && !isView {
			return true
		}
		p := par[id]
		for {
			if pe, ok := p.(*ast.ParenExpr); ok {
				p = par[pe]
				continue
			}
			break
		}
		switch x := p.(type) {
		case *ast.ValueSpec:
			return true // var scratch []T
		case *ast.AssignStmt:
			for i, l := range x.Lhs {
				if ast.Unparen(l) != ast.Expr(id) {
					continue
				}
				if len(x.Lhs) != len(x.Rhs) {
					return fail()
				}
				rhs := c12StripConv(info, x.Rhs[i])
				switch {
				case isBuf && (c12IsFreshOrConst(info, rhs) || isEmptyViewOf(rhs, v) || views[objOf(info, rhs)]):
				case isView && isEmptyViewOf(rhs, v):
				case isView && c12SelfAppend(info, rhs, o):
				default:
					return fail()
				}
				return true
			}
			// on the right-hand side: `scratch = view` only
			for i, r := range x.Rhs {
				if ast.Unparen(r) == ast.Expr(id) && isView && i < len(x.Lhs) && objOf(info, x.Lhs[i]) == types.Object(v) && x.Tok == token.ASSIGN {
					return true
				}
			}
			return fail()
		case *ast.SliceExpr:
			if x.X == ast.Expr(id) || ast.Unparen(x.X) == ast.Expr(id) {
				if isBuf && isEmptyViewOf(x, v) {
					return true
				}
			}
			return fail()
		case *ast.IndexExpr:
			if isView && ast.Unparen(x.X) == ast.Expr(id) {
				if ue, ok := par[x].(*ast.UnaryExpr); ok && ue.Op == token.AND {
					return fail()
				}
				if as, ok := par[x].(*ast.AssignStmt); ok {
					for _, l := range as.Lhs {
						if l == ast.Expr(x) {
							return true // element store into the scratch view
						}
					}
				}
				return true
			}
			return fail()
		case *ast.RangeStmt:
			if isView && ast.Unparen(x.X) == ast.Expr(id) {
				return true
			}
			return fail()
		case *ast.CallExpr:
			if !isView {
				return fail()
			}
			switch builtinName(info, x) {
			case "len", "cap":
				return true
			case "append":
				// first argument: only as `view = append(view, ...)` (checked at the assignment); spread: append(dst, view...)
				if len(x.Args) > 0 && ast.Unparen(x.Args[0]) == ast.Expr(id) {
					if as, ok := par[x].(*ast.AssignStmt); ok && len(as.Lhs) == 1 && objOf(info, as.Lhs[0]) == o {
						return true
					}
					return fail()
				}
				if x.Ellipsis.IsValid() && len(x.Args) == 2 && ast.Unparen(x.Args[1]) == ast.Expr(id) {
					return true
				}
				return fail()
			case "copy":
				if len(x.Args) == 2 && ast.Unparen(x.Args[1]) == ast.Expr(id) {
					return true
				}
			}
			return fail()
		}
		return fail()
	})
	return okAll
}

// c12SelfAppend: x is append(o, ...) and no other argument mentions o.
func c12SelfAppend(info *types.Info, x ast.Expr, o types.Object) bool {
	call, ok := ast.Unparen(x).(*ast.CallExpr)
	if !ok || builtinName(info, call) != "append" || len(call.Args) == 0 || objOf(info, call.Args[0]) != o {
		return false
	}
	for _, a := range call.Args[1:] {
		if usesObj(info, a, o) {
			return false
		}
	}
	return true
}
