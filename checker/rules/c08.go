package rules

import (
	"fmt"
	"go/ast"
	"go/token"
	"go/types"
	"reflect"
	"strings"

	"golang.org/x/tools/go/cfg"

	"osmcheck/core"
)

func init() {
	register(&core.Property{
		ID:    "C08",
		Title: "PBF skip flags and filters select an unmodified subsequence",
		Explanation: "Structural necessary conditions, decided on every path of the group/dense decoding functions: " +
			"(O1) ownership typestate: an element pointer that has been appended to the block's object slice is never written through again (directly, by re-slicing its slices, or by a callee that writes through its parameter) until the variable has been re-pointed at a fresh allocation — checked as a may-escaped dataflow fixpoint over the CFG, loop heads included; " +
			"(O2) a rejected element is reset by assigning a complete struct literal, and the only things carried over are [:0] re-slices of slices of that same (still owned) element; " +
			"(O3) the group field numbers 2/3/4 (dense, ways, relations in the descriptor) are guarded by SkipNodes/SkipWays/SkipRelations respectively, each decodes into the element type of its kind, applies that kind's filter to the decoded element after decoding and before appending, and a skipped field is passed over with Skip(); " +
			"(O4) skip flags and filters are never written inside the package; " +
			"(O5) slices of element parts (tags, way nodes, members) kept for reuse are only ever re-sliced to [:0], extended by append of whole elements, or replaced by a zeroed make, so stale contents of a rejected element cannot reappear in a later one. " +
			"NOT decided: value equality with the unfiltered scan (needs C01), what user filters do with the element they are handed.",
		Assumptions: []string{"go/types, go/cfg (x/tools v0.29.0)", "append on the block's object slice stores the pointer (no copy of the element)", "user filter functions do not retain or mutate rejected elements"},
		LevelText:   "Structural necessary conditions of 'returned objects are never modified afterwards although rejected memory is reused' and of the skip/filter selection: a may-escaped typestate analysis over the decoding functions' CFGs plus the flag/kind/filter wiring table.",
		LevelNote:   "Trusts the type checker and go/cfg; callee write effects are summarised syntactically inside package osmpbf; user callbacks are assumed not to mutate.",
		Technique:   "typestate (owned/escaped) abstract interpretation over go/cfg with callee write summaries + descriptor-keyed wiring table",
		DesignRef:   "DESIGN.md §5 C08",
		Rules: []*core.Rule{
			{ID: "O1", Floor: 3, Doc: "no write through an element after it was appended to the object slice", Run: c08O1},
			{ID: "O2", Floor: 3, Doc: "rejected elements are fully reset; only [:0] re-slices of owned slices survive", Run: c08O2},
			{ID: "O3", Floor: 8, Doc: "skip flag, decoded kind and filter agree per group field; skipped fields are passed over", Run: c08O3},
			{ID: "O4", Floor: 6, Doc: "flags and filters are read-only inside the package", Run: c08O4},
			{ID: "O5", Floor: 8, Doc: "reused element storage is never re-exposed: element slices are only re-sliced to [:0], grown by append of whole elements, or replaced by make", Run: c08O5},
		},
		Mutants: []core.Mutant{
			{Name: "way-not-renewed-after-append", File: "osmpbf/decode_data.go", Find: "\t\t\t\tdec.q = append(dec.q, way)\n\t\t\t\tway = &osm.Way{Visible: true}\n", Replace: "\t\t\t\tdec.q = append(dec.q, way)\n", ExpectRule: "O1", ExpectConstruct: "way"},
			{Name: "relation-renewed-before-append-only", File: "osmpbf/decode_data.go", Find: "\t\t\t\tdec.q = append(dec.q, relation)\n\t\t\t\trelation = &osm.Relation{Visible: true}\n", Replace: "\t\t\t\tdec.q = append(dec.q, relation)\n\t\t\t\trelation.Tags = relation.Tags[:0]\n\t\t\t\trelation = &osm.Relation{Visible: true}\n", ExpectRule: "O1", ExpectConstruct: "relation"},
			{Name: "node-reused-after-append", File: "osmpbf/decode_data.go", Find: "\t\t\tdec.q = append(dec.q, n)\n\t\t\tn = &osm.Node{Visible: true}\n", Replace: "\t\t\tdec.q = append(dec.q, n)\n\t\t\tn = &osm.Node{Visible: true, Tags: n.Tags[:0]}\n", ExpectRule: "O1", ExpectConstruct: "n"},
			{Name: "node-copy-of-struct", File: "osmpbf/decode_data.go", Find: "\t\t\tdec.q = append(dec.q, n)\n\t\t\tn = &osm.Node{Visible: true}\n", Replace: "\t\t\tdec.q = append(dec.q, n)\n\t\t\t*n = osm.Node{Visible: true}\n", ExpectRule: "O1", ExpectConstruct: "n"},
			{Name: "rejected-way-keeps-fields", File: "osmpbf/decode_data.go", Find: "\t\t\t\t*way = osm.Way{Visible: true, Nodes: nodes[:0], Tags: tags[:0]}\n", Replace: "\t\t\t\tway.Nodes, way.Tags = nodes[:0], tags[:0]\n", ExpectRule: "O2", ExpectConstruct: "way"},
			{Name: "rejected-relation-keeps-members", File: "osmpbf/decode_data.go", Find: "*relation = osm.Relation{Visible: true, Members: members[:0], Tags: tags[:0]}", Replace: "*relation = osm.Relation{Visible: true, Members: members, Tags: tags[:0]}", ExpectRule: "O2", ExpectConstruct: "relation"},
			{Name: "rejected-node-not-visible", File: "osmpbf/decode_data.go", Find: "*n = osm.Node{Visible: true, Tags: n.Tags[:0]}", Replace: "*n = osm.Node{Tags: n.Tags[:0]}", ExpectRule: "O2", ExpectConstruct: "n"},
			{Name: "skipways-guards-relations", File: "osmpbf/decode_data.go", Find: "if fn == 4 && !dec.scanner.SkipRelations {", Replace: "if fn == 4 && !dec.scanner.SkipWays {", ExpectRule: "O3", ExpectConstruct: "field 4"},
			{Name: "filterway-on-relations", File: "osmpbf/decode_data.go", Find: "if dec.scanner.FilterRelation == nil || dec.scanner.FilterRelation(relation) {", Replace: "if dec.scanner.FilterRelation == nil || dec.scanner.FilterWay(nil) {", ExpectRule: "O3", ExpectConstruct: "field 4"},
			{Name: "filter-before-decode", File: "osmpbf/decode_data.go", Find: "\t\t\tway, err = dec.scanWays(data, way)\n\t\t\tif err != nil {\n\t\t\t\treturn err\n\t\t\t}\n\n\t\t\tif dec.scanner.FilterWay == nil || dec.scanner.FilterWay(way) {", Replace: "\t\t\tkeep := dec.scanner.FilterWay == nil || dec.scanner.FilterWay(way)\n\t\t\tway, err = dec.scanWays(data, way)\n\t\t\tif err != nil {\n\t\t\t\treturn err\n\t\t\t}\n\n\t\t\tif keep {", ExpectRule: "O3", ExpectConstruct: "field 3"},
			{Name: "filter-nil-rejects", File: "osmpbf/decode_data.go", Find: "if dec.scanner.FilterNode == nil || dec.scanner.FilterNode(n) {", Replace: "if dec.scanner.FilterNode != nil && dec.scanner.FilterNode(n) {", ExpectRule: "O3", ExpectConstruct: "field 2"},
			{Name: "skipped-field-not-skipped", File: "osmpbf/decode_data.go", Find: "\t\t\tcontinue\n\t\t}\n\n\t\tmsg.Skip()\n\t}\n\n\treturn msg.Err()\n}\n\nfunc (dec *dataDecoder) scanDenseNodes", Replace: "\t\t\tcontinue\n\t\t}\n\n\t\tif fn > 4 {\n\t\t\tmsg.Skip()\n\t\t}\n\t}\n\n\treturn msg.Err()\n}\n\nfunc (dec *dataDecoder) scanDenseNodes", ExpectRule: "O3", ExpectConstruct: "skip"},
			{Name: "way-nodes-regrown", File: "osmpbf/decode_data.go", Find: "way.Nodes = make(osm.WayNodes, dec.wlats.Count(protoscan.WireTypeVarint))", Replace: "if n := dec.wlats.Count(protoscan.WireTypeVarint); n <= cap(way.Nodes) {\n\t\t\t\t\tway.Nodes = way.Nodes[:n]\n\t\t\t\t} else {\n\t\t\t\t\tway.Nodes = make(osm.WayNodes, n)\n\t\t\t\t}", ExpectRule: "O5", ExpectConstruct: "scanWays"},
			{Name: "tags-regrown", File: "osmpbf/decode_data.go", Find: "\t\t\tif cap(n.Tags) < count/2 {\n\t\t\t\tn.Tags = make(osm.Tags, 0, count/2)\n\t\t\t}", Replace: "\t\t\tif cap(n.Tags) < count/2 {\n\t\t\t\tn.Tags = make(osm.Tags, 0, count/2)\n\t\t\t} else if count == 0 {\n\t\t\t\tn.Tags = n.Tags[:cap(n.Tags)]\n\t\t\t}", ExpectRule: "O5", ExpectConstruct: "extractDenseNodes"},
			{Name: "flag-written", File: "osmpbf/decode_data.go", Find: "\tway := &osm.Way{Visible: true}\n\trelation := &osm.Relation{Visible: true}\n", Replace: "\tway := &osm.Way{Visible: true}\n\trelation := &osm.Relation{Visible: true}\n\tif dec.scanner.FilterRelation == nil {\n\t\tdec.scanner.SkipRelations = false\n\t}\n", ExpectRule: "O4", ExpectConstruct: "SkipRelations"},
		},
	})
}

// c08Elem is an element variable tracked by the ownership analysis.
type c08Elem struct {
	fi  *FuncInfo
	obj types.Object
}

// c08Tracked finds, per function of the worker role, the pointer-to-element locals/params that are appended to the object slice.
func c08Tracked(m *pbfModel, qField *types.Var) []c08Elem {
	info := m.info
	var out []c08Elem
	for _, u := range m.sortedUnits() {
		fd, ok := u.node.(*ast.FuncDecl)
		if !ok || !u.roles["worker"] {
			continue
		}
		seen := map[types.Object]bool{}
		ast.Inspect(fd.Body, func(n ast.Node) bool {
			as, ok := n.(*ast.AssignStmt)
			if !ok || len(as.Lhs) != 1 || fieldOf(info, as.Lhs[0]) != qField {
				return true
			}
			call, ok := as.Rhs[0].(*ast.CallExpr)
			if !ok || builtinName(info, call) != "append" {
				return true
			}
			for _, a := range call.Args[1:] {
				if o := objOf(info, a); o != nil && !seen[o] {
					seen[o] = true
					out = append(out, c08Elem{u.fi, o})
				}
			}
			return true
		})
	}
	return out
}

// c08QField resolves the object slice field (as in C02.Q3).
func c08QField(r *core.R, m *pbfModel) *types.Var {
	info := m.info
	var entry *FuncInfo
	for _, fn := range m.units[m.goOf("worker").lit].calls {
		sig := fn.Type().(*types.Signature)
		if sig.Recv() != nil && namedPath(sig.Recv().Type()) == namedPath(m.ddT) && sig.Results().Len() == 2 {
			entry = findFunc(m.pk, funcName(fn))
		}
	}
	if entry == nil {
		r.Anchor("decode entry point called by the worker")
		return nil
	}
	var q *types.Var
	ast.Inspect(entry.Decl.Body, func(n ast.Node) bool {
		if ret, ok := n.(*ast.ReturnStmt); ok && len(ret.Results) == 2 {
			if f := fieldOf(info, ret.Results[0]); f != nil {
				q = f
			}
		}
		return true
	})
	if q == nil {
		r.Anchor("object slice field returned by the decode entry point")
	}
	return q
}

// c08WritesThroughParam: function fn writes through its idx-th parameter (assignment rooted at it, or passes it on to one that does).
func c08WritesThroughParam(m *pbfModel, fn *types.Func, idx int, depth int) bool {
	if depth > 4 || fn == nil || fn.Pkg() != m.pk.Types {
		return false
	}
	fi := findFunc(m.pk, funcName(fn))
	if fi == nil {
		return false
	}
	info := m.info
	var po types.Object
	pi := 0
	for _, fld := range fi.Decl.Type.Params.List {
		for _, nm := range fld.Names {
			if pi == idx {
				po = info.Defs[nm]
			}
			pi++
		}
	}
	if po == nil {
		return false
	}
	w := false
	ast.Inspect(fi.Decl.Body, func(n ast.Node) bool {
		switch s := n.(type) {
		case *ast.AssignStmt:
			for _, l := range s.Lhs {
				if _, isId := ast.Unparen(l).(*ast.Ident); !isId && rootObj(info, l) == po {
					w = true
				}
			}
		case *ast.IncDecStmt:
			if _, isId := ast.Unparen(s.X).(*ast.Ident); !isId && rootObj(info, s.X) == po {
				w = true
			}
		case *ast.CallExpr:
			if f2 := callee(info, s); f2 != nil && f2.Pkg() == m.pk.Types {
				for i, a := range s.Args {
					if objOf(info, a) == po && c08WritesThroughParam(m, f2, i, depth+1) {
						w = true
					}
				}
			}
		}
		return true
	})
	return w
}

func c08O1(r *core.R) {
	m := modelOrAnchor(r)
	if m == nil {
		return
	}
	q := c08QField(r, m)
	if q == nil {
		return
	}
	info := m.info
	for _, el := range c08Tracked(m, q) {
		c := "typestate@" + el.fi.Name() + " " + el.obj.Name()
		g := newCFG(info, el.fi.Decl.Body)
		// state per block entry: may-escaped?
		in := map[*cfg.Block]bool{}
		visited := map[*cfg.Block]bool{}
		var violation string
		var vpos token.Pos
		// transfer over the nodes of a block
		step := func(n ast.Node, esc bool) bool {
			ast.Inspect(n, func(x ast.Node) bool {
				switch s := x.(type) {
				case *ast.FuncLit:
					return false
				case *ast.AssignStmt:
					// effects of the RHS first (calls), then the LHS
					for _, rh := range s.Rhs {
						esc = c08CallEffects(r, m, rh, el.obj, esc, &violation, &vpos)
					}
					for i, l := range s.Lhs {
						lu := ast.Unparen(l)
						if id, ok := lu.(*ast.Ident); ok && (info.Uses[id] == el.obj || info.Defs[id] == el.obj) {
							// x = ...
							if i < len(s.Rhs) || len(s.Rhs) == 1 {
								rh := s.Rhs[min(i, len(s.Rhs)-1)]
								if c08IsFreshAlloc(info, rh, el.obj) {
									if esc && usesObj(info, rh, el.obj) {
										violation, vpos = "`"+src(r.P.Fset, s)+"` builds the replacement from slices of the element that was already handed to the consumer", s.Pos()
									}
									esc = false
								} else if call, ok := rh.(*ast.CallExpr); ok && c08ReturnsParam(m, call, el.obj) {
									// x, err = f(.., x): same object, state unchanged
								} else {
									violation, vpos = "`"+src(r.P.Fset, s)+"` re-points the element variable at something that is not a fresh allocation", s.Pos()
								}
							}
							continue
						}
						if rootObj(info, l) == el.obj {
							// write through x
							if esc {
								violation, vpos = "`"+src(r.P.Fset, s)+"` writes through `"+el.obj.Name()+"` after it was appended to the block's object slice", s.Pos()
							}
						}
						// dec.q = append(dec.q, x)
						if fieldOf(info, l) == q && i < len(s.Rhs) {
							if call, ok := s.Rhs[i].(*ast.CallExpr); ok && builtinName(info, call) == "append" {
								for _, a := range call.Args[1:] {
									if objOf(info, a) == el.obj {
										esc = true
									}
								}
							}
						}
					}
					return false
				case *ast.IncDecStmt:
					if rootObj(info, s.X) == el.obj && esc {
						if _, isId := ast.Unparen(s.X).(*ast.Ident); !isId {
							violation, vpos = "`"+src(r.P.Fset, s)+"` writes through the escaped element", s.Pos()
						}
					}
				case *ast.ExprStmt:
					esc = c08CallEffects(r, m, s.X, el.obj, esc, &violation, &vpos)
					return false
				}
				return true
			})
			return esc
		}
		work := []*cfg.Block{g.Blocks[0]}
		in[g.Blocks[0]] = false
		for len(work) > 0 {
			b := work[len(work)-1]
			work = work[:len(work)-1]
			esc := in[b]
			for _, n := range b.Nodes {
				esc = step(n, esc)
			}
			for _, s := range b.Succs {
				if !visited[s] || (esc && !in[s]) {
					visited[s] = true
					in[s] = in[s] || esc
					work = append(work, s)
				}
			}
		}
		if violation != "" {
			r.Bad(c, vpos, "%s: an object the scanner has already returned is modified when memory is reused for a later element", violation)
		} else {
			r.OK(c, el.obj.Pos(), "on every path, after `%s` is appended to the object slice it is re-pointed at a fresh allocation before anything writes through it (fixpoint over %d blocks, loop heads included)", el.obj.Name(), len(g.Blocks))
		}
	}
}

// c08CallEffects: calls inside e that pass x to an in-package function writing through that parameter.
func c08CallEffects(r *core.R, m *pbfModel, e ast.Node, x types.Object, esc bool, violation *string, vpos *token.Pos) bool {
	info := m.info
	ast.Inspect(e, func(n ast.Node) bool {
		call, ok := n.(*ast.CallExpr)
		if !ok {
			return true
		}
		fn := callee(info, call)
		if fn == nil || fn.Pkg() != m.pk.Types {
			return true
		}
		for i, a := range call.Args {
			if objOf(info, a) == x && esc && c08WritesThroughParam(m, fn, i, 0) {
				*violation, *vpos = "`"+src(r.P.Fset, call)+"` decodes into `"+x.Name()+"` after it was appended to the block's object slice", call.Pos()
			}
		}
		return true
	})
	return esc
}

// c08IsFreshAlloc: &T{...} or new(T). Slices inside the literal may refer to x only via x.F[:0]; the caller checks escaped-ness.
func c08IsFreshAlloc(info *types.Info, e ast.Expr, x types.Object) bool {
	e = ast.Unparen(e)
	if ue, ok := e.(*ast.UnaryExpr); ok && ue.Op == token.AND {
		_, isLit := ast.Unparen(ue.X).(*ast.CompositeLit)
		return isLit
	}
	if call, ok := e.(*ast.CallExpr); ok && builtinName(info, call) == "new" {
		return true
	}
	return false
}

// c08ReturnsParam: call f(.., x, ..) where every return of f yields that parameter (or a fresh allocation when it was nil) as first result.
func c08ReturnsParam(m *pbfModel, call *ast.CallExpr, x types.Object) bool {
	info := m.info
	fn := callee(info, call)
	if fn == nil || fn.Pkg() != m.pk.Types {
		return false
	}
	idx := -1
	for i, a := range call.Args {
		if objOf(info, a) == x {
			idx = i
		}
	}
	if idx < 0 {
		return false
	}
	fi := findFunc(m.pk, funcName(fn))
	var po types.Object
	pi := 0
	for _, fld := range fi.Decl.Type.Params.List {
		for _, nm := range fld.Names {
			if pi == idx {
				po = info.Defs[nm]
			}
			pi++
		}
	}
	ok := po != nil
	ast.Inspect(fi.Decl.Body, func(n ast.Node) bool {
		if ret, isRet := n.(*ast.ReturnStmt); isRet && len(ret.Results) > 0 {
			r0 := ast.Unparen(ret.Results[0])
			if id, isId := r0.(*ast.Ident); isId && (id.Name == "nil" || info.Uses[id] == po) {
				return true
			}
			ok = false
		}
		// the parameter may only be re-pointed at a fresh allocation under a nil test
		if as, isAs := n.(*ast.AssignStmt); isAs {
			for i, l := range as.Lhs {
				if id, isId := ast.Unparen(l).(*ast.Ident); isId && info.Uses[id] == po {
					if i >= len(as.Rhs) || !c08IsFreshAlloc(info, as.Rhs[i], po) {
						ok = false
					}
				}
			}
		}
		return true
	})
	return ok
}

func c08O2(r *core.R) {
	m := modelOrAnchor(r)
	if m == nil {
		return
	}
	q := c08QField(r, m)
	if q == nil {
		return
	}
	info := m.info
	for _, el := range c08Tracked(m, q) {
		c := "reset@" + el.fi.Name() + " " + el.obj.Name()
		par := parentsOf(r.P, el.fi)
		// the accept/reject if: the IfStmt whose body appends x to q
		var ifs *ast.IfStmt
		ast.Inspect(el.fi.Decl.Body, func(n ast.Node) bool {
			as, ok := n.(*ast.AssignStmt)
			if !ok || len(as.Lhs) != 1 || fieldOf(info, as.Lhs[0]) != q {
				return true
			}
			if call, ok := as.Rhs[0].(*ast.CallExpr); ok && builtinName(info, call) == "append" && len(call.Args) == 2 && objOf(info, call.Args[1]) == el.obj {
				if blk, ok := par[as].(*ast.BlockStmt); ok {
					if i, ok := par[blk].(*ast.IfStmt); ok && i.Body == blk {
						ifs = i
					}
				}
			}
			return true
		})
		if ifs == nil {
			r.Unknown(c, el.obj.Pos(), "append of `%s` is not in the accept branch of an if statement", el.obj.Name())
			continue
		}
		elseBlk, _ := ifs.Else.(*ast.BlockStmt)
		if elseBlk == nil {
			r.Bad(c, ifs.Pos(), "a rejected element is not reset (no else branch): its fields leak into the next element decoded into the same memory")
			continue
		}
		// find `*x = T{...}` in the else branch
		var lit *ast.CompositeLit
		var reset *ast.AssignStmt
		otherWrites := 0
		for _, st := range elseBlk.List {
			as, ok := st.(*ast.AssignStmt)
			if !ok {
				continue
			}
			for i, l := range as.Lhs {
				if se, ok := ast.Unparen(l).(*ast.StarExpr); ok && objOf(info, se.X) == el.obj && i < len(as.Rhs) {
					if cl, ok := ast.Unparen(as.Rhs[i]).(*ast.CompositeLit); ok {
						lit, reset = cl, as
					}
				} else if rootObj(info, l) == el.obj {
					if _, isId := ast.Unparen(l).(*ast.Ident); !isId {
						otherWrites++
					}
				}
			}
		}
		if lit == nil {
			r.Bad(c, elseBlk.Pos(), "the reject branch does not assign a whole struct literal to `*%s`: fields decoded for the rejected element (id, metadata, tags, members) survive into the next element, whose absent optional fields then inherit them", el.obj.Name())
			continue
		}
		if otherWrites > 0 {
			r.Bad(c, reset.Pos(), "the reject branch writes individual fields besides the whole-struct reset")
			continue
		}
		// every value in the literal: constant, or S[:0] where S is x.F or a local assigned from x.F in this branch
		bad := ""
		hasVisible := false
		for _, e := range lit.Elts {
			kv, ok := e.(*ast.KeyValueExpr)
			if !ok {
				bad = "positional literal"
				break
			}
			key := kv.Key.(*ast.Ident).Name
			if tv, ok := info.Types[kv.Value]; ok && tv.Value != nil {
				if key == "Visible" && tv.Value.String() == "true" {
					hasVisible = true
				}
				continue
			}
			se, ok := ast.Unparen(kv.Value).(*ast.SliceExpr)
			if !ok || se.Low != nil || se.High == nil || se.Max != nil {
				bad = key + ": `" + src(r.P.Fset, kv.Value) + "` is carried over unchanged"
				break
			}
			if v, okc := constInt(info, se.High); !okc || v != 0 {
				bad = key + ": `" + src(r.P.Fset, kv.Value) + "` keeps old contents"
				break
			}
			// source of the slice
			srcOK := false
			if rootObj(info, se.X) == el.obj {
				if f := fieldOf(info, se.X); f != nil && f.Name() == key {
					srcOK = true
				}
			} else if lo := objOf(info, se.X); lo != nil {
				for _, st := range elseBlk.List {
					if as, ok := st.(*ast.AssignStmt); ok && len(as.Lhs) == 1 && len(as.Rhs) == 1 && objOf(info, as.Lhs[0]) == lo && as.Pos() < reset.Pos() {
						if f := fieldOf(info, as.Rhs[0]); f != nil && f.Name() == key && rootObj(info, as.Rhs[0]) == el.obj {
							srcOK = true
						}
					}
				}
			}
			if !srcOK {
				bad = key + ": `" + src(r.P.Fset, kv.Value) + "` is not a [:0] re-slice of this element's own " + key
				break
			}
		}
		switch {
		case bad != "":
			r.Bad(c, reset.Pos(), "reset literal `%s`: %s", src(r.P.Fset, lit), bad)
		case !hasVisible:
			r.Bad(c, reset.Pos(), "reset literal `%s` does not restore the format default Visible: true: an element after a rejected one that carries no visible flag would be reported as deleted", src(r.P.Fset, lit))
		default:
			r.OK(c, reset.Pos(), "`%s`: whole-struct reset with Visible: true; only [:0] re-slices of the rejected (owned) element's own slices are kept", src(r.P.Fset, reset))
		}
	}
}

// c08Kinds derives group field number -> (descriptor field name, element kind) from the generated PrimitiveGroup struct tags.
func c08Kinds(m *pbfModel) map[int64]string {
	out := map[int64]string{}
	ipk := m.p.Pkg("osmpbf/internal/osmpbf")
	if ipk == nil {
		return out
	}
	_, st := structType(ipk, "PrimitiveGroup")
	if st == nil {
		return out
	}
	for i := 0; i < st.NumFields(); i++ {
		tag := reflect.StructTag(st.Tag(i)).Get("protobuf")
		parts := strings.Split(tag, ",")
		if len(parts) < 2 {
			continue
		}
		var num int64
		fmt.Sscanf(parts[1], "%d", &num)
		elem := namedPath(sliceElem(st.Field(i).Type()))
		switch {
		case strings.HasSuffix(elem, ".DenseNodes"), strings.HasSuffix(elem, ".Node"):
			out[num] = "Node"
		case strings.HasSuffix(elem, ".Way"):
			out[num] = "Way"
		case strings.HasSuffix(elem, ".Relation"):
			out[num] = "Relation"
		}
	}
	return out
}

func sliceElem(t types.Type) types.Type {
	if sl, ok := t.Underlying().(*types.Slice); ok {
		return sl.Elem()
	}
	return t
}

func c08O3(r *core.R) {
	m := modelOrAnchor(r)
	if m == nil {
		return
	}
	q := c08QField(r, m)
	if q == nil {
		return
	}
	info := m.info
	kinds := c08Kinds(m)
	if len(kinds) < 4 {
		r.Anchor("PrimitiveGroup descriptor (generated struct tags)")
		return
	}
	// group scanner: the worker-role function whose message loop tests FieldNumber against 2,3,4 with Skip flags
	var gs *FuncInfo
	for _, u := range m.sortedUnits() {
		fd, ok := u.node.(*ast.FuncDecl)
		if !ok || !u.roles["worker"] {
			continue
		}
		n := 0
		ast.Inspect(fd.Body, func(x ast.Node) bool {
			if f := fieldOf(info, nodeExpr(x)); f != nil && strings.HasPrefix(f.Name(), "Skip") && namedPath(selRecv(info, x)) == namedPath(m.scannerT) {
				n++
			}
			return true
		})
		if n >= 3 {
			gs = u.fi
		}
	}
	if gs == nil {
		r.Anchor("function dispatching on primitive group fields with the skip flags")
		return
	}
	g := newCFG(info, gs.Decl.Body)
	// the loop and the FieldNumber variable
	var loop *ast.ForStmt
	ast.Inspect(gs.Decl.Body, func(n ast.Node) bool {
		if fs, ok := n.(*ast.ForStmt); ok && loop == nil {
			loop = fs
		}
		return true
	})
	if loop == nil {
		r.Anchor("message loop of " + gs.Name())
		return
	}
	var fnVar types.Object
	var msgObj types.Object
	ast.Inspect(loop.Body, func(n ast.Node) bool {
		if as, ok := n.(*ast.AssignStmt); ok && len(as.Lhs) == 1 && len(as.Rhs) == 1 {
			if call, ok := as.Rhs[0].(*ast.CallExpr); ok && isMethod(callee(info, call), "github.com/paulmach/protoscan.Message", "FieldNumber") {
				fnVar = objOf(info, as.Lhs[0])
				msgObj = rootObj(info, call.Fun.(*ast.SelectorExpr).X)
			}
		}
		return true
	})
	if fnVar == nil {
		r.Anchor("variable holding msg.FieldNumber() in " + gs.Name())
		return
	}
	covered := map[int64]bool{}
	for _, st := range loop.Body.List {
		ifs, ok := st.(*ast.IfStmt)
		if !ok {
			continue
		}
		// cond: fn == K && !dec.scanner.SkipX
		var k int64 = -1
		var flag *types.Var
		okForm := true
		var conj []ast.Expr
		var split func(e ast.Expr)
		split = func(e ast.Expr) {
			e = ast.Unparen(e)
			if be, ok := e.(*ast.BinaryExpr); ok && be.Op == token.LAND {
				split(be.X)
				split(be.Y)
				return
			}
			conj = append(conj, e)
		}
		split(ifs.Cond)
		for _, cj := range conj {
			if be, ok := cj.(*ast.BinaryExpr); ok && be.Op == token.EQL && objOf(info, be.X) == fnVar {
				if v, okc := constInt(info, be.Y); okc {
					k = v
					continue
				}
			}
			if ue, ok := cj.(*ast.UnaryExpr); ok && ue.Op == token.NOT {
				if f := fieldOf(info, ue.X); f != nil && namedPath(selRecv(info, ast.Unparen(ue.X))) == namedPath(m.scannerT) {
					flag = f
					continue
				}
			}
			okForm = false
		}
		if k < 0 {
			continue
		}
		kind, known := kinds[k]
		if !known {
			continue
		}
		c := fmt.Sprintf("field %d (%s)@%s", k, kind, gs.Name())
		if flag == nil {
			// field 1 (plain nodes) is rejected with an error, not skipped: accepted when the body returns an error
			if len(ifs.Body.List) == 1 {
				if ret, ok := ifs.Body.List[0].(*ast.ReturnStmt); ok && len(ret.Results) == 1 {
					r.OKTrivial(c+" unsupported", ifs.Pos(), "field %d is rejected with an error (C06.E7)", k)
					covered[k] = true
					continue
				}
			}
			r.Bad(c+" flag", ifs.Pos(), "`%s` decodes group field %d without testing a skip flag", src(r.P.Fset, ifs.Cond), k)
			continue
		}
		covered[k] = true
		if !okForm {
			r.Unknown(c+" flag", ifs.Pos(), "guard `%s` is not of the form `fn == K && !scanner.SkipX`", src(r.P.Fset, ifs.Cond))
			continue
		}
		if flag.Name() == "Skip"+kind+"s" {
			r.OK(c+" flag", ifs.Pos(), "group field %d (%s in the descriptor) is decoded only when !%s", k, kind, flag.Name())
		} else {
			r.Bad(c+" flag", ifs.Pos(), "group field %d holds %ss but is guarded by %s: setting Skip%ss does not skip them (and %s skips the wrong kind)", k, kind, flag.Name(), kind, flag.Name())
		}
		// decode call, filter, append for this kind
		c08CheckKindBranch(r, m, q, gs, ifs.Body, kind, c)
	}
	for k, kind := range kinds {
		if !covered[k] {
			r.Bad(fmt.Sprintf("field %d (%s)@%s", k, kind, gs.Name()), loop.Pos(), "no branch for group field %d (%s)", k, kind)
		}
	}
	// skipped fields are passed over: from each kind-if's false edge, every path back to the loop head passes msg.Skip() or another kind branch's body
	c := "skip@" + gs.Name()
	isSkip := func(n ast.Node) bool {
		found := false
		ast.Inspect(n, func(x ast.Node) bool {
			if call, ok := x.(*ast.CallExpr); ok && isMethod(callee(info, call), "github.com/paulmach/protoscan.Message", "Skip") && rootObj(info, call.Fun.(*ast.SelectorExpr).X) == msgObj {
				found = true
			}
			return !found
		})
		return found
	}
	isConsume := func(n ast.Node) bool {
		found := false
		ast.Inspect(n, func(x ast.Node) bool {
			if call, ok := x.(*ast.CallExpr); ok {
				if fn := callee(info, call); fn != nil && (isMethod(fn, "github.com/paulmach/protoscan.Message", "MessageData") || isMethod(fn, "github.com/paulmach/protoscan.Message", "Skip")) && rootObj(info, call.Fun.(*ast.SelectorExpr).X) == msgObj {
					found = true
				}
			}
			return !found
		})
		_ = isSkip
		return found
	}
	// every cycle of the loop (loop body entry -> loop head) must pass a consuming call or leave the function
	var head, body *cfg.Block
	for _, b := range g.Blocks {
		if b.Stmt == loop && b.Kind == cfg.KindForLoop {
			head = b
		}
		if b.Stmt == loop && b.Kind == cfg.KindForBody {
			body = b
		}
	}
	if head == nil || body == nil {
		r.Unknown(c, loop.Pos(), "loop blocks not found in the control-flow graph")
		return
	}
	// search for a path body -> head avoiding consuming blocks
	seen := map[*cfg.Block]bool{}
	var dfs func(b *cfg.Block) bool
	dfs = func(b *cfg.Block) bool {
		if b == head {
			return true
		}
		if seen[b] {
			return false
		}
		seen[b] = true
		for _, n := range b.Nodes {
			if isConsume(n) {
				return false
			}
			if _, ok := n.(*ast.ReturnStmt); ok {
				return false
			}
		}
		for _, s := range b.Succs {
			if dfs(s) {
				return true
			}
		}
		return false
	}
	if dfs(body) {
		r.Bad(c, loop.Pos(), "there is a path through the group loop that neither decodes the current field nor calls %s.Skip(): a skipped element kind (or an unknown field) is not passed over and the following fields are misparsed", msgObj.Name())
	} else {
		r.OK(c, loop.Pos(), "every cycle of the group loop either reads the field's message data, calls %s.Skip(), or leaves the function", msgObj.Name())
	}
}

// c08CheckKindBranch: inside the branch for one kind: decode -> filter(kind)(elem) -> append, in that order.
func c08CheckKindBranch(r *core.R, m *pbfModel, q *types.Var, gs *FuncInfo, body *ast.BlockStmt, kind, c string) {
	info := m.info
	// the function that actually contains the filter test may be this branch or a callee chain (dense nodes)
	type site struct {
		fi   *FuncInfo
		body ast.Node
	}
	sites := []site{{gs, body}}
	seenFn := map[*types.Func]bool{}
	var collect func(n ast.Node, depth int)
	collect = func(n ast.Node, depth int) {
		ast.Inspect(n, func(x ast.Node) bool {
			if call, ok := x.(*ast.CallExpr); ok && depth < 3 {
				if fn := callee(info, call); fn != nil && fn.Pkg() == m.pk.Types && !seenFn[fn] {
					seenFn[fn] = true
					if fi := findFunc(m.pk, funcName(fn)); fi != nil {
						sites = append(sites, site{fi, fi.Decl.Body})
						collect(fi.Decl.Body, depth+1)
					}
				}
			}
			return true
		})
	}
	collect(body, 0)
	found := false
	for _, s := range sites {
		ast.Inspect(s.body, func(n ast.Node) bool {
			ifs, ok := n.(*ast.IfStmt)
			if !ok {
				return true
			}
			// body appends an element to q
			var elem types.Object
			var appPos token.Pos
			for _, st := range ifs.Body.List {
				if as, ok := st.(*ast.AssignStmt); ok && len(as.Lhs) == 1 && fieldOf(info, as.Lhs[0]) == q {
					if call, ok := as.Rhs[0].(*ast.CallExpr); ok && builtinName(info, call) == "append" && len(call.Args) == 2 {
						elem = objOf(info, call.Args[1])
						appPos = as.Pos()
					}
				}
			}
			if elem == nil {
				return true
			}
			found = true
			et := namedPath(elem.Type())
			if et != core.ModulePath+"."+kind {
				r.Bad(c+" type", appPos, "the branch for %ss appends a %s", kind, et)
				return true
			}
			// cond: F == nil || F(elem)
			be, ok := ast.Unparen(ifs.Cond).(*ast.BinaryExpr)
			okCond := false
			var why string
			if ok && be.Op == token.LOR {
				nilT, _ := ast.Unparen(be.X).(*ast.BinaryExpr)
				call, _ := ast.Unparen(be.Y).(*ast.CallExpr)
				if nilT != nil && call != nil && nilT.Op == token.EQL {
					f1 := fieldOf(info, nilT.X)
					f2 := fieldOf(info, call.Fun)
					id, _ := ast.Unparen(nilT.Y).(*ast.Ident)
					switch {
					case f1 == nil || f2 == nil || id == nil || id.Name != "nil":
						why = "not `F == nil || F(x)`"
					case f1 != f2:
						why = "the nil test and the call use different filter fields (" + f1.Name() + ", " + f2.Name() + ")"
					case f1.Name() != "Filter"+kind:
						why = "uses " + f1.Name() + " for a " + kind
					case len(call.Args) != 1 || objOf(info, call.Args[0]) != elem:
						why = "the filter is not applied to the element that is appended"
					default:
						okCond = true
					}
				} else {
					why = "not `F == nil || F(x)`"
				}
			} else {
				why = "condition `" + src(r.P.Fset, ifs.Cond) + "` is not `F == nil || F(x)` (a nil filter must accept everything)"
			}
			if !okCond {
				r.Bad(c+" filter", ifs.Pos(), "accept test of %ss: %s", kind, why)
				return true
			}
			// the filter is evaluated after the element was decoded: in the same block list, a decode statement precedes the if
			par := parentsOf(r.P, s.fi)
			decoded := false
			if blk, ok := par[ifs].(*ast.BlockStmt); ok {
				for _, st := range blk.List {
					if st.Pos() >= ifs.Pos() {
						break
					}
					ast.Inspect(st, func(x ast.Node) bool {
						if as, ok := x.(*ast.AssignStmt); ok {
							for _, l := range as.Lhs {
								if rootObj(info, l) == elem {
									decoded = true
								}
							}
						}
						if call, ok := x.(*ast.CallExpr); ok {
							for _, a := range call.Args {
								if objOf(info, a) == elem {
									decoded = true
								}
							}
						}
						return true
					})
				}
			}
			if !decoded {
				r.Bad(c+" filter", ifs.Pos(), "the filter for %ss is evaluated before the element is decoded in this iteration: it sees the previous (or an empty) element", kind)
				return true
			}
			r.OK(c+" filter", ifs.Pos(), "`%s` applies %s to the decoded element after decoding and before `append`", src(r.P.Fset, ifs.Cond), "Filter"+kind)
			return true
		})
	}
	if !found {
		r.Bad(c+" filter", body.Pos(), "no accept test that appends a %s to the object slice is reachable from this branch", kind)
	}
}

func c08O4(r *core.R) {
	m := modelOrAnchor(r)
	if m == nil {
		return
	}
	info := m.info
	st := m.scannerT.Underlying().(*types.Struct)
	for i := 0; i < st.NumFields(); i++ {
		f := st.Field(i)
		if !f.Exported() {
			continue
		}
		c := "readonly Scanner." + f.Name()
		var wpos token.Pos
		for _, file := range m.pk.Syntax {
			if strings.HasSuffix(r.P.Fset.Position(file.Pos()).Filename, "_test.go") {
				continue
			}
			ast.Inspect(file, func(n ast.Node) bool {
				switch s := n.(type) {
				case *ast.AssignStmt:
					for _, l := range s.Lhs {
						if fieldOf(info, l) == f {
							wpos = s.Pos()
						}
					}
				case *ast.UnaryExpr:
					if s.Op == token.AND && fieldOf(info, s.X) == f {
						wpos = s.Pos()
					}
				case *ast.KeyValueExpr:
					if id, ok := s.Key.(*ast.Ident); ok && info.Uses[id] == f {
						wpos = s.Pos()
					}
				}
				return true
			})
		}
		if wpos.IsValid() {
			r.Bad(c, wpos, "package osmpbf writes the user-owned knob %s: the selection no longer depends only on what the caller configured (and workers read it concurrently)", f.Name())
		} else {
			r.OKTrivial(c, f.Pos(), "never assigned, never address-taken inside the package")
		}
	}
}

// c08IsElemSlice: slice type whose element is a struct type of package osm (Tags, WayNodes, Members ...).
func c08IsElemSlice(t types.Type) bool {
	if t == nil {
		return false
	}
	sl, ok := t.Underlying().(*types.Slice)
	if !ok {
		return false
	}
	et := sl.Elem()
	if pt, ok := et.(*types.Pointer); ok {
		et = pt.Elem()
	}
	nt, ok := et.(*types.Named)
	if !ok || nt.Obj().Pkg() == nil || nt.Obj().Pkg().Path() != core.ModulePath {
		return false
	}
	_, isStruct := nt.Underlying().(*types.Struct)
	return isStruct
}

func c08O5(r *core.R) {
	m := modelOrAnchor(r)
	if m == nil {
		return
	}
	info := m.info
	for _, u := range m.sortedUnits() {
		fd, ok := u.node.(*ast.FuncDecl)
		if !ok || !u.roles["worker"] || isGenerated(r.P, fd.Pos()) {
			continue
		}
		par := parentsOf(r.P, u.fi)
		nSlice, nApp, nIdx := 0, 0, 0
		bad := ""
		var bpos token.Pos
		ast.Inspect(fd.Body, func(n ast.Node) bool {
			switch e := n.(type) {
			case *ast.SliceExpr:
				if !c08IsElemSlice(info.TypeOf(e.X)) {
					return true
				}
				nSlice++
				zero := false
				if e.Low == nil && e.High != nil && e.Max == nil {
					if v, okc := constInt(info, e.High); okc && v == 0 {
						zero = true
					}
				}
				if !zero {
					bad, bpos = "`"+src(r.P.Fset, e)+"` re-slices element storage to a non-zero length: elements left over from an earlier (rejected) element become visible again without having been overwritten", e.Pos()
				}
			case *ast.CallExpr:
				if builtinName(info, e) != "append" || len(e.Args) < 2 || !c08IsElemSlice(info.TypeOf(e.Args[0])) {
					return true
				}
				nApp++
				if e.Ellipsis.IsValid() {
					bad, bpos = "`"+src(r.P.Fset, e)+"` appends a slice of elements whose origin is not checked", e.Pos()
				}
			case *ast.IndexExpr:
				// partial writes x[i].F = v are only sound on storage made (zeroed) in this function
				if !c08IsElemSlice(info.TypeOf(e.X)) {
					return true
				}
				sel, isSel := par[e].(*ast.SelectorExpr)
				if !isSel || sel.X != e {
					return true
				}
				as, isAs := par[sel].(*ast.AssignStmt)
				if !isAs {
					return true
				}
				isLHS := false
				for _, l := range as.Lhs {
					if l == sel {
						isLHS = true
					}
				}
				if !isLHS {
					return true
				}
				nIdx++
				// the indexed slice must be assigned from make(...) in this function (possibly under a len==0 test) and nowhere else
				okMake := false
				otherDef := false
				ast.Inspect(fd.Body, func(x ast.Node) bool {
					a2, ok := x.(*ast.AssignStmt)
					if !ok {
						return true
					}
					for i, l := range a2.Lhs {
						if !sameExpr(info, l, e.X) || i >= len(a2.Rhs) {
							continue
						}
						if call, ok := a2.Rhs[i].(*ast.CallExpr); ok && builtinName(info, call) == "make" {
							okMake = true
						} else if len(a2.Rhs) == len(a2.Lhs) {
							otherDef = true
						}
					}
					return true
				})
				if !okMake || otherDef {
					bad, bpos = "`"+src(r.P.Fset, as)+"` assigns a single field of an element of `"+src(r.P.Fset, e.X)+"`, which is not (only) a zeroed make in this function: the element's other fields keep whatever the storage held before", as.Pos()
				}
			}
			return true
		})
		c := "storage@" + u.fi.Name()
		if bad != "" {
			r.Bad(c, bpos, "%s", bad)
		} else if nSlice+nApp+nIdx == 0 {
			r.OKTrivial(c, fd.Pos(), "does not slice, append to or index-assign element slices")
		} else {
			r.OK(c, fd.Pos(), "%d re-slices (all [:0]), %d appends of whole elements, %d field writes into storage made (zeroed) in this function", nSlice, nApp, nIdx)
		}
	}
}
