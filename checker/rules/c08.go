package rules

import (
	"fmt"
	"go/ast"
	"go/token"
	"go/types"
	"reflect"
	"strings"

	"osmcheck/core"
)

func init() {
	register(&core.Property{
		ID:    "C08",
		Title: "PBF skip flags and filters select an unmodified subsequence",
		Explanation: "Structural necessary conditions, decided on every path of the group/dense decoding functions; anchors are roles from the typed decoding model (which read executes under which field number of the PrimitiveGroup message, which field is the object slice the decode entry point returns), conditions are decided through guard facts and finite-domain evaluation, static calls inside the package are followed: " +
			"(O1) ownership typestate, one analysis per element slot (a local or parameter of pointer-to-element type, or a struct field of the package holding the element being decoded: field-based, so helpers that receive the struct by pointer work on the same slot; locals that only receive the slot's current element, also as the result of a decoding helper that hands its parameter back, are aliases of it; exits of a helper that certainly return an error are kept apart from its normal exits so that `if err != nil { return }` in the caller is understood): an element that has been appended to the block's object slice (directly or by a helper) is never written through again (directly, by re-slicing its slices, or by a callee, which is executed on its own CFG) until the variable has been re-pointed at a fresh allocation — a may-state fixpoint over the CFG, loop heads included; " +
			"(O2) a rejected element never carries fields into the next one: an element that was decoded into and not handed to the consumer is, before anything is decoded into it in a later iteration of the element loop, completely reset by assigning a whole struct literal (in place or in a helper) whose values are constants (Visible: true among them) or [:0] re-slices of that element's own slice of the same field; " +
			"(O3) the message data of group field 2/3/4 (dense, ways, relations in the descriptor) is read only under a false SkipNodes/SkipWays/SkipRelations respectively and under no other condition (the flag may be tested directly, through a local, or looked up in a constant table indexed by the field number, in which case the entry of the field in question is what is judged); the elements of a kind are appended iff that kind's filter is nil or accepts the appended element (decision table evaluated on the CFG), the filter being applied after the element was decoded; a field the decoder does not support is rejected by a return of an error or by recording an error that every path then returns; every cycle of the group loop consumes the current field or leaves (a loop condition that is false because an error was recorded leaves); " +
			"(O4) skip flags and filters are never written inside the package; " +
			"(O5) slices of element parts (tags, way nodes, members) kept for reuse are only ever re-sliced to [:0], extended by append of whole elements, or replaced by a zeroed make (possibly through an allocation helper), so stale contents of a rejected element cannot reappear in a later one. " +
			"(O6) every cycle of the loop in which a worker receives blocks sends one result pair (or is taken under cancellation): the result of a fully skipped or fully rejected block is not dropped, so the round-robin serializer stays in step and the selection is a subsequence in file order. " +
			"(O7) a skip flag decides about the elements of its own kind and about nothing else: its value (followed through locals, struct fields, function results, arguments and boolean accumulations, including results chosen under a branch that depends on it) only reaches branch conditions that are evaluated while the fields of a primitive group are scanned, or conditions that can only hold when every skip flag is set; a flag that ends the scan of a block, bypasses a group or drops a result turns 'some element here is skipped' into 'everything here is skipped'. " +
			"(O9) when the decoders read the knobs from a copy (a field of a struct of the package every store to which is one knob of the Scanner; O3/O7 treat it as that knob), every exported Scanner method that can start the decoders stores the copy before it does. " +
			"(O8) an element that is handed to the consumer owns its storage: per element slot, a may-analysis (callees that take the slot executed on their own CFG) tracks whether a slice of the element (tags, way nodes, members) shares its backing array with persistent storage that still refers to it (a field of the decoder or of another struct of the package, a package variable, a sync.Pool, a local assigned at several places) and whether the element has been appended; the element must not be appended while such a loan is outstanding (the lender has to give the array up first, or the slot must have been re-pointed at an element with fresh slices), and persistent storage must not be pointed at the slices of an appended element. " +
			"NOT decided: value equality with the unfiltered scan (needs C01), what user filters do with the element they are handed.",
		Assumptions: []string{"go/types, go/cfg (x/tools v0.29.0)", "append on the block's object slice stores the pointer (no copy of the element)", "user filter functions do not retain or mutate rejected elements"},
		LevelText:   "Structural necessary conditions of 'returned objects are never modified afterwards although rejected memory is reused' and of the skip/filter selection: a may-escaped typestate analysis over the decoding functions' CFGs plus the flag/kind/filter wiring table.",
		LevelNote:   "Trusts the type checker and go/cfg; callee write effects are summarised syntactically inside package osmpbf; user callbacks are assumed not to mutate.",
		Technique:   "typestate (clean/dirty/stale/escaped) abstract interpretation over go/cfg with callees inlined + descriptor-keyed wiring decided by guard facts and decision-table evaluation",
		DesignRef:   "DESIGN.md §5 C08",
		Rules: []*core.Rule{
			{ID: "O1", Floor: 3, Doc: "no write through an element after it was appended to the object slice", Run: c08O1},
			{ID: "O2", Floor: 3, Doc: "rejected elements are fully reset; only [:0] re-slices of owned slices survive", Run: c08O2},
			{ID: "O3", Floor: 8, Doc: "skip flag, decoded kind and filter agree per group field; skipped fields are passed over", Run: c08O3},
			{ID: "O4", Floor: 6, Doc: "flags and filters are read-only inside the package", Run: c08O4},
			{ID: "O6", Floor: 1, Doc: "a worker forwards one result per block it receives, however few elements the skip flags and filters leave", Run: c08O6},
			{ID: "O7", Floor: 1, Doc: "the value of a skip flag only reaches conditions that decide about the current field of a primitive group (or that hold only when every flag is set): no block, group or result is dropped because something in it is of a skipped kind", Run: c08O7},
			{ID: "O8", Floor: 3, Doc: "an element handed to the consumer shares no backing array with storage the decoder keeps; the decoder takes no reference to the slices of an element it has handed out", Run: c08O8},
			{ID: "O9", Floor: 1, Doc: "a private copy of the knobs that the decoders read has been taken on every path that starts the decoders", Run: c08O9},
			{ID: "O5", Floor: 5, Doc: "reused element storage is never re-exposed: element slices are only re-sliced to [:0], grown by append of whole elements, or replaced by make", Run: c08O5},
		},
		Benign: append(append(append(append(append(append(append([]core.Mutant{}, c08Benign...), c08Benign2...), c08Benign3...), c08Benign4...), c08Benign5...), c08Benign6...), c08Benign7...),
		Mutants: append(append(append(append([]core.Mutant{}, c08Mutants2...), c08Mutants3...), c08Mutants4...), []core.Mutant{
			{Name: "way-not-renewed-after-append", File: "osmpbf/decode_data.go", Find: "\t\t\t\tdec.q = append(dec.q, way)\n\t\t\t\tway = &osm.Way{Visible: true}\n", Replace: "\t\t\t\tdec.q = append(dec.q, way)\n", ExpectRule: "O1", ExpectConstruct: "way"},
			{Name: "relation-renewed-before-append-only", File: "osmpbf/decode_data.go", Find: "\t\t\t\tdec.q = append(dec.q, relation)\n\t\t\t\trelation = &osm.Relation{Visible: true}\n", Replace: "\t\t\t\tdec.q = append(dec.q, relation)\n\t\t\t\trelation.Tags = relation.Tags[:0]\n\t\t\t\trelation = &osm.Relation{Visible: true}\n", ExpectRule: "O1", ExpectConstruct: "relation"},
			{Name: "node-reused-after-append", File: "osmpbf/decode_data.go", Find: "\t\t\tdec.q = append(dec.q, n)\n\t\t\tn = &osm.Node{Visible: true}\n", Replace: "\t\t\tdec.q = append(dec.q, n)\n\t\t\tn = &osm.Node{Visible: true, Tags: n.Tags[:0]}\n", ExpectRule: "O1", ExpectConstruct: "n"},
			{Name: "node-copy-of-struct", File: "osmpbf/decode_data.go", Find: "\t\t\tdec.q = append(dec.q, n)\n\t\t\tn = &osm.Node{Visible: true}\n", Replace: "\t\t\tdec.q = append(dec.q, n)\n\t\t\t*n = osm.Node{Visible: true}\n", ExpectRule: "O1", ExpectConstruct: "n"},
			{Name: "rejected-way-keeps-fields", File: "osmpbf/decode_data.go", Find: "\t\t\t\t*way = osm.Way{Visible: true, Nodes: nodes[:0], Tags: tags[:0]}\n", Replace: "\t\t\t\tway.Nodes, way.Tags = nodes[:0], tags[:0]\n", ExpectRule: "O2", ExpectConstruct: "way"},
			{Name: "rejected-relation-keeps-members", File: "osmpbf/decode_data.go", Find: "*relation = osm.Relation{Visible: true, Members: members[:0], Tags: tags[:0]}", Replace: "*relation = osm.Relation{Visible: true, Members: members, Tags: tags[:0]}", ExpectRule: "O2", ExpectConstruct: "relation"},
			{Name: "rejected-node-not-visible", File: "osmpbf/decode_data.go", Find: "*n = osm.Node{Visible: true, Tags: n.Tags[:0]}", Replace: "*n = osm.Node{Tags: n.Tags[:0]}", ExpectRule: "O2", ExpectConstruct: "n"},
			{Name: "skipways-guards-relations", File: "osmpbf/decode_data.go", Find: "if fn == 4 && !dec.scanner.SkipRelations {", Replace: "if fn == 4 && !dec.scanner.SkipWays {", ExpectRule: "O3", ExpectConstruct: "field 4"},
			{Name: "filterway-on-relations", File: "osmpbf/decode_data.go", Find: "if dec.scanner.FilterRelation == nil || dec.scanner.FilterRelation(relation) {", Replace: "if dec.scanner.FilterRelation == nil || dec.scanner.FilterWay(nil) {", ExpectRule: "O3", ExpectConstruct: "field 4"},
			{Name: "filter-before-decode", File: "osmpbf/decode_data.go", Find: "\t\t\tway, err = dec.scanWays(data, way)\n\t\t\tif err != nil {\n\t\t\t\treturn err\n\t\t\t}\n\n\t\t\tif dec.scanner.FilterWay == nil || dec.scanner.FilterWay(way) {", Replace: "\t\t\tkeep := dec.scanner.FilterWay == nil || dec.scanner.FilterWay(way)\n\t\t\tway, err = dec.scanWays(data, way)\n\t\t\tif err != nil {\n\t\t\t\treturn err\n\t\t\t}\n\n\t\t\tif keep {", ExpectRule: "O3", ExpectConstruct: "field 3"},
			{Name: "filter-nil-rejects", File: "osmpbf/decode_data.go", Find: "if dec.scanner.FilterNode == nil || dec.scanner.FilterNode(n) {", Replace: "if dec.scanner.FilterNode != nil && dec.scanner.FilterNode(n) {", ExpectRule: "O3", ExpectConstruct: "field 2"},
			{Name: "skipped-field-not-skipped", File: "osmpbf/decode_data.go", Find: "\t\t\tcontinue\n\t\t}\n\n\t\tmsg.Skip()\n\t}\n\n\treturn msg.Err()\n}\n\nfunc (dec *dataDecoder) scanDenseNodes", Replace: "\t\t\tcontinue\n\t\t}\n\n\t\tif fn > 4 {\n\t\t\tmsg.Skip()\n\t\t}\n\t}\n\n\treturn msg.Err()\n}\n\nfunc (dec *dataDecoder) scanDenseNodes", ExpectRule: "O3", ExpectConstruct: "skip"},
			{Name: "way-nodes-regrown", File: "osmpbf/decode_data.go", Find: "way.Nodes = make(osm.WayNodes, dec.wlats.Count(protoscan.WireTypeVarint))", Replace: "if n := dec.wlats.Count(protoscan.WireTypeVarint); n <= cap(way.Nodes) {\n\t\t\t\t\tway.Nodes = way.Nodes[:n]\n\t\t\t\t} else {\n\t\t\t\t\tway.Nodes = make(osm.WayNodes, n)\n\t\t\t\t}", ExpectRule: "O5", ExpectConstruct: "scanWays"},
			{Name: "tags-regrown", File: "osmpbf/decode_data.go", Find: "\t\t\tif cap(n.Tags) < count/2 {\n\t\t\t\tn.Tags = make(osm.Tags, 0, count/2)\n\t\t\t}", Replace: "\t\t\tif cap(n.Tags) < count/2 {\n\t\t\t\tn.Tags = make(osm.Tags, 0, count/2)\n\t\t\t} else if count == 0 {\n\t\t\t\tn.Tags = n.Tags[:cap(n.Tags)]\n\t\t\t}", ExpectRule: "O5", ExpectConstruct: "extractDenseNodes"},
			{Name: "empty-block-result-dropped", File: "osmpbf/decode.go", Find: "\t\t\t\t\tobjects, err := dd.Decode(p.Blob)\n", Replace: "\t\t\t\t\tobjects, err := dd.Decode(p.Blob)\n\t\t\t\t\tif err == nil && len(objects) == 0 {\n\t\t\t\t\t\tcontinue\n\t\t\t\t\t}\n", ExpectRule: "O6", ExpectConstruct: "one result per block"},
			{Name: "flag-written", File: "osmpbf/decode_data.go", Find: "\tway := &osm.Way{Visible: true}\n\trelation := &osm.Relation{Visible: true}\n", Replace: "\tway := &osm.Way{Visible: true}\n\trelation := &osm.Relation{Visible: true}\n\tif dec.scanner.FilterRelation == nil {\n\t\tdec.scanner.SkipRelations = false\n\t}\n", ExpectRule: "O4", ExpectConstruct: "SkipRelations"},
		}...),
	})
}

// c08Elem is an element variable tracked by the ownership analysis.
type c08Elem struct {
	fi  *FuncInfo
	obj types.Object
}

// c08Tracked finds, per function of the worker role, the pointer-to-element locals/params that are handed to the
// consumer there: appended to the object slice directly or through a call of a function of the package that does.
func c08Tracked(r *core.R, m *pbfModel, qField *types.Var) []c08Elem {
	info := m.info
	fl := &c08Flow{r: r, m: m, info: info, q: qField, memo: map[string]int{}, stack: map[string]bool{}}
	var out []c08Elem
	// slots that are struct fields, analysed from the outermost worker functions that mention them
	slots := c08FieldSlots(m)
	for _, fld := range slots {
		var direct []*FuncInfo
		for _, fi := range c01RoleFuncs(m, "worker") {
			hit := false
			ast.Inspect(fi.Decl.Body, func(n ast.Node) bool {
				switch y := n.(type) {
				case *ast.SelectorExpr:
					if fieldOf(info, y) == fld {
						hit = true
					}
				case *ast.KeyValueExpr:
					if id, ok := y.Key.(*ast.Ident); ok && info.Uses[id] == fld {
						hit = true
					}
				}
				return !hit
			})
			if hit {
				direct = append(direct, fi)
			}
		}
		for _, a := range direct {
			inner := false
			for _, b := range direct {
				if a == b {
					continue
				}
				for _, g := range c01Reachable(r.P, b) {
					if g.Obj == a.Obj {
						inner = true
					}
				}
			}
			if inner {
				continue
			}
			f := c01FnOf(r.P, a)
			esc := false
			for _, b := range f.g.Blocks {
				for _, nd := range b.Nodes {
					if b.Live && !esc && fl.escapes(f, nd, fld, 0) {
						esc = true
					}
				}
			}
			if esc {
				out = append(out, c08Elem{a, fld})
			}
		}
	}
	for _, fi := range c01RoleFuncs(m, "worker") {
		f := c01FnOf(r.P, fi)
		seen := map[types.Object]bool{}
		// candidates: local variables and parameters of pointer-to-element type
		ast.Inspect(fi.Decl, func(n ast.Node) bool {
			id, ok := n.(*ast.Ident)
			if !ok {
				return true
			}
			o := info.Defs[id]
			if o == nil || seen[o] {
				return true
			}
			if v, isVar := o.(*types.Var); !isVar || v.IsField() {
				return true
			}
			if _, isPtr := o.Type().(*types.Pointer); !isPtr || !c08IsElemType(o.Type()) {
				return true
			}
			seen[o] = true
			// a local that only ever holds the current element of a field slot is analysed with that slot
			for _, fld := range slots {
				if fl.aliases(f, fld)[o] {
					return true
				}
			}
			// ... or of a parameter / another local of the function (`w, err := decode(d, scratch)`)
			isAlias := false
			ast.Inspect(fi.Decl, func(y ast.Node) bool {
				id2, ok := y.(*ast.Ident)
				if !ok || isAlias {
					return !isAlias
				}
				o2, isVar := info.Defs[id2].(*types.Var)
				if !isVar || o2 == o || o2.IsField() || !types.Identical(o2.Type(), o.Type()) {
					return true
				}
				if fl.aliases(f, o2)[o] && !fl.aliases(f, o)[o2] {
					isAlias = true
				}
				return true
			})
			if isAlias {
				return true
			}
			for _, b := range f.g.Blocks {
				if !b.Live {
					continue
				}
				for _, nd := range b.Nodes {
					if fl.escapes(f, nd, o, 0) {
						out = append(out, c08Elem{fi, o})
						return true
					}
				}
			}
			return true
		})
	}
	return out
}

// c08IsElemType: (pointer to) osm.Node / osm.Way / osm.Relation.
func c08IsElemType(t types.Type) bool {
	switch namedPath(t) {
	case core.ModulePath + ".Node", core.ModulePath + ".Way", core.ModulePath + ".Relation":
		return true
	}
	return false
}

// c08QField resolves the object slice: the field of the per-worker decoder that the decode entry point returns.
func c08QField(r *core.R, m *pbfModel) *types.Var {
	info := m.info
	entry := c01DecodeEntry(m)
	if entry == nil {
		r.Anchor("decode entry point of the per-worker decoder")
		return nil
	}
	var q *types.Var
	ast.Inspect(entry.Decl.Body, func(n ast.Node) bool {
		if ret, ok := n.(*ast.ReturnStmt); ok && len(ret.Results) == 2 {
			if f := fieldOf(info, c01Expand(info, entry.Decl.Body, ret.Results[0])); f != nil {
				q = f
			}
		}
		return true
	})
	if q == nil {
		r.Anchor("object slice field returned by the decode entry point")
	}
	return q
}

// c08WritesThroughParam: function fn writes through its idx-th parameter (assignment rooted at it, or passes it on to one that does).
func c08WritesThroughParam(m *pbfModel, fn *types.Func, idx int, depth int) bool {
	if depth > 4 || fn == nil || fn.Pkg() != m.pk.Types {
		return false
	}
	fi := findFunc(m.pk, funcName(fn))
	if fi == nil {
		return false
	}
	info := m.info
	var po types.Object
	pi := 0
	for _, fld := range fi.Decl.Type.Params.List {
		for _, nm := range fld.Names {
			if pi == idx {
				po = info.Defs[nm]
			}
			pi++
		}
	}
	if po == nil {
		return false
	}
	w := false
	ast.Inspect(fi.Decl.Body, func(n ast.Node) bool {
		switch s := n.(type) {
		case *ast.AssignStmt:
			for _, l := range s.Lhs {
				if _, isId := ast.Unparen(l).(*ast.Ident); !isId && c01RootObj(info, l) == po {
					w = true
				}
			}
		case *ast.IncDecStmt:
			if _, isId := ast.Unparen(s.X).(*ast.Ident); !isId && c01RootObj(info, s.X) == po {
				w = true
			}
		case *ast.CallExpr:
			if f2 := callee(info, s); f2 != nil && f2.Pkg() == m.pk.Types {
				for i, a := range s.Args {
					if objOf(info, a) == po && c08WritesThroughParam(m, f2, i, depth+1) {
						w = true
					}
				}
			}
		}
		return true
	})
	return w
}

// c08Analyse runs the typestate analysis for every tracked element variable (cached per program).
type c08Result struct {
	el    c08Elem
	o1    string
	o1pos token.Pos
	o2    string
	o2pos token.Pos
	nblk  int
}

var c08Cache = map[*core.Program][]c08Result{}

func c08Analyse(r *core.R, m *pbfModel, q *types.Var) []c08Result {
	if res, ok := c08Cache[r.P]; ok {
		return res
	}
	var res []c08Result
	for _, el := range c08Tracked(r, m, q) {
		// a parameter that is merely handed on (an "emit" helper) is analysed from its callers
		if c01ParamIndex(m.info, el.fi, el.obj) >= 0 && !c08WritesThroughParam(m, el.fi.Obj, c01ParamIndex(m.info, el.fi, el.obj), 0) {
			continue
		}
		fl := &c08Flow{r: r, m: m, info: m.info, q: q, memo: map[string]int{}, stack: map[string]bool{}}
		entry := c08C
		if c01ParamIndex(m.info, el.fi, el.obj) >= 0 {
			entry = c08C | c08D
		}
		if v, isVar := el.obj.(*types.Var); isVar && v.IsField() {
			entry = c08C | c08D // whatever the struct held when the function was entered
		}
		fl.run(el.fi, el.obj, entry, true, 0)
		res = append(res, c08Result{el: el, o1: fl.o1, o1pos: fl.o1pos, o2: fl.o2, o2pos: fl.o2pos, nblk: fl.nblk})
	}
	c08Cache[r.P] = res
	return res
}

func c08O1(r *core.R) {
	m := c01PBFModel(r)
	if m == nil {
		return
	}
	q := c08QField(r, m)
	if q == nil {
		return
	}
	for _, res := range c08Analyse(r, m, q) {
		c := "typestate@" + res.el.fi.Name() + " " + res.el.obj.Name()
		if res.o1 != "" {
			r.Bad(c, res.o1pos, "%s: an object the scanner has already returned is modified when memory is reused for a later element", res.o1)
		} else {
			r.OK(c, res.el.obj.Pos(), "on every path, after `%s` is appended to the object slice it is re-pointed at a fresh allocation before anything writes through it (typestate fixpoint over %d block visits, callees inlined, loop heads included)", res.el.obj.Name(), res.nblk)
		}
	}
}

func c08O2(r *core.R) {
	m := c01PBFModel(r)
	if m == nil {
		return
	}
	q := c08QField(r, m)
	if q == nil {
		return
	}
	for _, res := range c08Analyse(r, m, q) {
		c := "reset@" + res.el.fi.Name() + " " + res.el.obj.Name()
		if res.o2 != "" {
			r.Bad(c, res.o2pos, "%s", res.o2)
		} else {
			r.OK(c, res.el.obj.Pos(), "on every path on which `%s` is decoded into but not handed to the consumer, it is completely reset by a whole-struct literal (Visible: true; only [:0] re-slices of its own slices kept) before the next element is decoded into it", res.el.obj.Name())
		}
	}
}

// c08IsFreshAlloc: &T{...} or new(T). Slices inside the literal may refer to x only via x.F[:0]; the caller checks escaped-ness.
func c08IsFreshAlloc(info *types.Info, e ast.Expr, x types.Object) bool {
	e = ast.Unparen(e)
	if ue, ok := e.(*ast.UnaryExpr); ok && ue.Op == token.AND {
		_, isLit := ast.Unparen(ue.X).(*ast.CompositeLit)
		return isLit
	}
	if call, ok := e.(*ast.CallExpr); ok && builtinName(info, call) == "new" {
		return true
	}
	// an allocation helper: a function without element arguments every return of which is a fresh allocation
	if call, ok := e.(*ast.CallExpr); ok {
		if fn := callee(info, call); fn != nil && fn.Pkg() != nil {
			if pk := c01Pkgs[fn.Pkg()]; pk != nil {
				if tf := c01FuncInfo(pk, fn); tf != nil && fn.Type().(*types.Signature).Results().Len() == 1 {
					for _, a := range call.Args {
						if x != nil && usesObj(info, a, x) {
							return false
						}
					}
					n, all := 0, true
					ast.Inspect(tf.Decl.Body, func(y ast.Node) bool {
						if _, isLit := y.(*ast.FuncLit); isLit {
							return false
						}
						if ret, isRet := y.(*ast.ReturnStmt); isRet {
							n++
							if len(ret.Results) != 1 {
								all = false
								return true
							}
							r0 := ast.Unparen(ret.Results[0])
							if c2, isCall := r0.(*ast.CallExpr); isCall && callee(info, c2) == fn {
								all = false // recursion
								return true
							}
							if !c08IsFreshAlloc(info, r0, nil) {
								all = false
							}
						}
						return true
					})
					return n > 0 && all
				}
			}
		}
	}
	return false
}

// c08ReturnsParam: call f(.., x, ..) where every return of f yields that parameter (or a fresh allocation when it was nil) as first result.
func c08ReturnsParam(m *pbfModel, call *ast.CallExpr, x types.Object) bool {
	return c08ReturnsParamP(m, call, func(a ast.Expr) bool { return objOf(m.info, a) == x })
}

// c08ReturnsParamP is c08ReturnsParam for an argument recognised by a predicate.
func c08ReturnsParamP(m *pbfModel, call *ast.CallExpr, isArg func(ast.Expr) bool) bool {
	info := m.info
	fn := callee(info, call)
	if fn == nil || fn.Pkg() != m.pk.Types {
		return false
	}
	idx := -1
	for i, a := range call.Args {
		if isArg(a) {
			idx = i
		}
	}
	if idx < 0 {
		return false
	}
	fi := findFunc(m.pk, funcName(fn))
	var po types.Object
	pi := 0
	for _, fld := range fi.Decl.Type.Params.List {
		for _, nm := range fld.Names {
			if pi == idx {
				po = info.Defs[nm]
			}
			pi++
		}
	}
	ok := po != nil
	if !ok || c08RetBusy[po] {
		return false
	}
	c08RetBusy[po] = true
	defer delete(c08RetBusy, po)
	// locals of the callee that only ever hold the parameter's element
	al := (&c08Flow{m: m, info: info, r: &core.R{P: m.p}}).aliases(c01FnOf(m.p, fi), po)
	ast.Inspect(fi.Decl.Body, func(n ast.Node) bool {
		if ret, isRet := n.(*ast.ReturnStmt); isRet && len(ret.Results) > 0 {
			r0 := ast.Unparen(ret.Results[0])
			if id, isId := r0.(*ast.Ident); isId && (id.Name == "nil" || info.Uses[id] == po || al[info.Uses[id]]) {
				return true
			}
			if c08IsFreshAlloc(info, r0, po) {
				return true // hands back a fresh element instead (the old one went to the consumer)
			}
			ok = false
		}
		// the parameter may only be re-pointed at a fresh allocation under a nil test
		if as, isAs := n.(*ast.AssignStmt); isAs {
			for i, l := range as.Lhs {
				if id, isId := ast.Unparen(l).(*ast.Ident); isId && info.Uses[id] == po {
					var rh ast.Expr
					if len(as.Rhs) == len(as.Lhs) {
						rh = as.Rhs[i]
					} else if len(as.Rhs) == 1 && i == 0 {
						rh = as.Rhs[0]
					}
					if rh == nil {
						ok = false
						continue
					}
					if c08IsFreshAlloc(info, rh, po) {
						continue
					}
					// p, err = g(.., p): g hands back its parameter or a fresh element
					if c2, isCall := ast.Unparen(rh).(*ast.CallExpr); isCall && callee(info, c2) != fn && c08ReturnsParam(m, c2, po) {
						continue
					}
					ok = false
				}
			}
		}
		return true
	})
	return ok
}

// c08Kinds derives group field number -> (descriptor field name, element kind) from the generated PrimitiveGroup struct tags.
func c08Kinds(m *pbfModel) map[int64]string {
	out := map[int64]string{}
	ipk := m.p.Pkg("osmpbf/internal/osmpbf")
	if ipk == nil {
		return out
	}
	_, st := structType(ipk, "PrimitiveGroup")
	if st == nil {
		return out
	}
	for i := 0; i < st.NumFields(); i++ {
		tag := reflect.StructTag(st.Tag(i)).Get("protobuf")
		parts := strings.Split(tag, ",")
		if len(parts) < 2 {
			continue
		}
		var num int64
		fmt.Sscanf(parts[1], "%d", &num)
		elem := namedPath(sliceElem(st.Field(i).Type()))
		switch {
		case strings.HasSuffix(elem, ".DenseNodes"), strings.HasSuffix(elem, ".Node"):
			out[num] = "Node"
		case strings.HasSuffix(elem, ".Way"):
			out[num] = "Way"
		case strings.HasSuffix(elem, ".Relation"):
			out[num] = "Relation"
		}
	}
	return out
}

func sliceElem(t types.Type) types.Type {
	if sl, ok := t.Underlying().(*types.Slice); ok {
		return sl.Elem()
	}
	return t
}

func c08O4(r *core.R) {
	m := c01PBFModel(r)
	if m == nil {
		return
	}
	info := m.info
	st := m.scannerT.Underlying().(*types.Struct)
	for i := 0; i < st.NumFields(); i++ {
		f := st.Field(i)
		if !f.Exported() {
			continue
		}
		c := "readonly Scanner." + f.Name()
		var wpos token.Pos
		for _, file := range m.pk.Syntax {
			if strings.HasSuffix(r.P.Fset.Position(file.Pos()).Filename, "_test.go") {
				continue
			}
			ast.Inspect(file, func(n ast.Node) bool {
				switch s := n.(type) {
				case *ast.AssignStmt:
					for _, l := range s.Lhs {
						if fieldOf(info, l) == f {
							wpos = s.Pos()
						}
					}
				case *ast.UnaryExpr:
					if s.Op == token.AND && fieldOf(info, s.X) == f {
						wpos = s.Pos()
					}
				case *ast.KeyValueExpr:
					if id, ok := s.Key.(*ast.Ident); ok && info.Uses[id] == f {
						wpos = s.Pos()
					}
				}
				return true
			})
		}
		if wpos.IsValid() {
			r.Bad(c, wpos, "package osmpbf writes the user-owned knob %s: the selection no longer depends only on what the caller configured (and workers read it concurrently)", f.Name())
		} else {
			r.OKTrivial(c, f.Pos(), "never assigned, never address-taken inside the package")
		}
	}
}

// c08IsElemSlice: slice type whose element is a struct type of package osm (Tags, WayNodes, Members ...).
func c08IsElemSlice(t types.Type) bool {
	if t == nil {
		return false
	}
	sl, ok := t.Underlying().(*types.Slice)
	if !ok {
		return false
	}
	et := sl.Elem()
	if pt, ok := et.(*types.Pointer); ok {
		et = pt.Elem()
	}
	nt, ok := et.(*types.Named)
	if !ok || nt.Obj().Pkg() == nil || nt.Obj().Pkg().Path() != core.ModulePath {
		return false
	}
	_, isStruct := nt.Underlying().(*types.Struct)
	return isStruct
}

func c08O5(r *core.R) {
	m := c01PBFModel(r)
	if m == nil {
		return
	}
	info := m.info
	for _, u := range m.sortedUnits() {
		fd, ok := u.node.(*ast.FuncDecl)
		if !ok || !u.roles["worker"] || isGenerated(r.P, fd.Pos()) {
			continue
		}
		par := parentsOf(r.P, u.fi)
		nSlice, nApp, nIdx := 0, 0, 0
		bad := ""
		var bpos token.Pos
		ast.Inspect(fd.Body, func(n ast.Node) bool {
			switch e := n.(type) {
			case *ast.SliceExpr:
				if !c08IsElemSlice(info.TypeOf(e.X)) {
					return true
				}
				nSlice++
				zero := false
				if e.Low == nil && e.High != nil && e.Max == nil {
					if v, okc := constInt(info, e.High); okc && v == 0 {
						zero = true
					}
				}
				if !zero {
					bad, bpos = "`"+src(r.P.Fset, e)+"` re-slices element storage to a non-zero length: elements left over from an earlier (rejected) element become visible again without having been overwritten", e.Pos()
				}
			case *ast.CallExpr:
				if builtinName(info, e) != "append" || len(e.Args) < 2 || !c08IsElemSlice(info.TypeOf(e.Args[0])) {
					return true
				}
				nApp++
				if e.Ellipsis.IsValid() {
					bad, bpos = "`"+src(r.P.Fset, e)+"` appends a slice of elements whose origin is not checked", e.Pos()
				}
			case *ast.IndexExpr:
				// partial writes x[i].F = v are only sound on storage made (zeroed) in this function
				if !c08IsElemSlice(info.TypeOf(e.X)) {
					return true
				}
				sel, isSel := par[e].(*ast.SelectorExpr)
				if !isSel || sel.X != e {
					return true
				}
				as, isAs := par[sel].(*ast.AssignStmt)
				if !isAs {
					return true
				}
				isLHS := false
				for _, l := range as.Lhs {
					if l == sel {
						isLHS = true
					}
				}
				if !isLHS {
					return true
				}
				nIdx++
				// every definition of the indexed storage (the element's slice field anywhere in the worker role, or the
				// local slice in this function) must be a zeroed make, nil, a [:0] re-slice or an append of whole elements
				if ok, why := c08StorageDefsZeroed(r, m, u.fi, e.X); !ok {
					bad, bpos = "`"+src(r.P.Fset, as)+"` assigns a single field of an element of `"+src(r.P.Fset, e.X)+"`, whose storage is not only ever freshly made (zeroed): "+why+"; the element's other fields keep whatever the storage held before", as.Pos()
				}
			}
			return true
		})
		c := "storage@" + u.fi.Name()
		if bad != "" {
			r.Bad(c, bpos, "%s", bad)
		} else if nSlice+nApp+nIdx == 0 {
			r.OKTrivial(c, fd.Pos(), "does not slice, append to or index-assign element slices")
		} else {
			r.OK(c, fd.Pos(), "%d re-slices (all [:0]), %d appends of whole elements, %d field writes into storage made (zeroed) in this function", nSlice, nApp, nIdx)
		}
	}
}

// c08IsZeroedMake: call yields freshly made (zeroed) storage: `make(...)` itself, or a function of the package every
// return of which is such a call (an extracted allocation helper).
func c08IsZeroedMake(m *pbfModel, call *ast.CallExpr, depth int) bool {
	info := m.info
	if builtinName(info, call) == "make" {
		return true
	}
	tf := c01Callee(m.pk, call)
	if tf == nil || depth > 2 {
		return false
	}
	ok, n := true, 0
	ast.Inspect(tf.Decl.Body, func(x ast.Node) bool {
		if _, isLit := x.(*ast.FuncLit); isLit {
			return false
		}
		ret, isRet := x.(*ast.ReturnStmt)
		if !isRet {
			return true
		}
		n++
		if len(ret.Results) != 1 {
			ok = false
			return true
		}
		c2, isCall := ast.Unparen(c01Expand(info, tf.Decl.Body, ret.Results[0])).(*ast.CallExpr)
		if !isCall || !c08IsZeroedMake(m, c2, depth+1) {
			ok = false
		}
		return true
	})
	return ok && n > 0
}

// c08RetBusy guards c08ReturnsParamP against recursion through mutually recursive helpers.
var c08RetBusy = map[types.Object]bool{}
