package rules

import (
	"go/ast"
	"go/types"
)

// Presized string lists written by index: `l := make([]string, n)` followed by `l[i] = s`.
//
//	n a known integer: the list has n (empty) elements and `l[k] = s` with a known k replaces element k;
//	n the length of an id-slice input: the list is "presized by that slice" and `l[i] = s` inside the loop over the
//	  same slice, with i that loop's index, is the indexed spelling of appending s (the loop summary then requires
//	  exactly one element per iteration, see sumIDLoop).
//
// Slices share their backing array, so a store through one variable is visible through every alias; lists carry the
// identity of their creation and a store is only understood when no other variable of the path holds the same list.

const c20MaxPresized = 64

// makeList models make([]string, len[, cap]) for len != 0; ok=false when the call is not of that form.
func (x *c20SX) makeList(call *ast.CallExpr, st *c20St) ([]c20EV, bool) {
	t := x.info.TypeOf(call)
	if z := x.zero(t); z.k != c20kList || len(call.Args) < 2 {
		return nil, false
	}
	if n, ok := constInt(x.info, call.Args[1]); ok && n == 0 {
		return nil, false
	}
	var out []c20EV
	for _, r := range x.ev(call.Args[1], st) {
		if r.st.ctl != c20cRun {
			out = append(out, r)
			continue
		}
		l := c20V{k: c20kList, typ: t, id: x.newID(), name: x.zero(t).name}
		switch {
		case r.v.k == c20kInt && r.v.h == nil && r.v.n > 0 && r.v.n <= c20MaxPresized:
			l.elems = make([]c20Sym, r.v.n)
		case r.v.k == c20kLen && r.v.base.k == c20kIn && r.v.base.h.field == "":
			l.tag, l.h = "presized", r.v.base.h
		default:
			l = c20Unknown("`%s`: a list of length %s", x.srcOf(call), r.v.String())
		}
		out = append(out, c20EV{r.st, l})
	}
	return out, true
}

// storeIndex models `l[i] = v` for a local string list; it reports whether the statement was understood.
func (x *c20SX) storeIndex(ix *ast.IndexExpr, v c20V, st *c20St) bool {
	id, ok := ast.Unparen(ix.X).(*ast.Ident)
	if !ok {
		return false
	}
	o := objOf(x.info, id)
	l, has := st.env[o]
	if o == nil || !has || l.k != c20kList || l.in || l.star != nil {
		return false
	}
	sym, okElem := c20ListElem(l, v)
	if !okElem {
		return false
	}
	if _, isVar := o.(*types.Var); !isVar {
		return false
	}
	for other, ov := range st.env {
		if other != o && ov.k == c20kList && ov.id == l.id {
			return false // aliased: the store would be visible through the other variable too
		}
	}
	evs := x.ev(ix.Index, st)
	if len(evs) != 1 || evs[0].st != st || st.ctl != c20cRun {
		return false
	}
	i := evs[0].v
	n := l
	n.elems = append([]c20Sym(nil), l.elems...)
	switch {
	case i.k == c20kInt && i.h == nil && l.tag != "presized" && i.n >= 0 && i.n < int64(len(l.elems)):
		n.elems[i.n] = sym
	case i.k == c20kObj && i.tag == "loopidx" && l.tag == "presized" && i.h != nil && l.h != nil && i.h.key() == l.h.key():
		n.elems = append(n.elems, sym)
	default:
		return false
	}
	st.env[o] = n
	return true
}

// c20ListElem: the element v as stored in list l (a string for string lists, an id of an id loop for number lists).
func c20ListElem(l, v c20V) (c20Sym, bool) {
	switch {
	case l.name == "nums":
		if v.k == c20kIn && v.h != nil && v.h.fn == "elem" {
			h := *v.h
			return c20Sym{{hole: &h}}, true
		}
	case v.k == c20kStr:
		return v.sym, true
	}
	return nil, false
}

// appendSpread models append(dst, src...): bytes or a string appended to a byte buffer, a list to a string list.
// The source is copied, so no aliasing arises from it.
func (x *c20SX) appendSpread(dst, src c20V, at ast.Node) c20V {
	switch {
	case dst.k == c20kBytes && (src.k == c20kStr || src.k == c20kBytes):
		n := dst
		n.sym = append(append(c20Sym(nil), dst.sym...), src.sym...)
		return n
	case dst.k == c20kNil && src.k == c20kBytes: // append([]byte(nil), scratch...): a copy
		return c20V{k: c20kBytes, sym: append(c20Sym(nil), src.sym...), typ: src.typ}
	case dst.k == c20kList && src.k == c20kList && dst.name == src.name && dst.star == nil && dst.tag != "presized" && !src.in && src.star == nil && src.tag != "presized":
		n := dst
		n.elems = append(append([]c20Sym(nil), dst.elems...), src.elems...)
		return n
	}
	return c20Unknown("`%s`", x.srcOf(at))
}
