package rules

import "osmcheck/core"

// c17Benign6: spellings the id-width rule (G10) must be silent on: the repaired stores (int64 / the id's own type; these two
// change the dynamic type of the property and are listed only because the rule must not report them) and a genuine
// refactoring that keeps the known narrowing behind a helper parameter (it must keep the known constructs).
var c17Benign6 = []core.Mutant{
	// the repaired spelling (not behaviour-preserving: it changes the dynamic type of the property; listed because the rule must be silent on it)
	{Name: "b-g10-node-id-stored-as-int64", File: "osmgeojson/convert.go", Nth: 0,
		Find: `	f.Properties["id"] = int(n.ID)
`,
		Replace: `	f.Properties["id"] = int64(n.ID)
`},
	// the id stored as its own 64-bit type (repair; the rule must be silent)
	{Name: "b-g10-way-id-stored-as-its-own-type", File: "osmgeojson/convert.go", Nth: 0,
		Find: `	f.Properties["id"] = int(w.ID)
`,
		Replace: `	f.Properties["id"] = w.ID
`},
	// genuine refactoring: the id/type stores in a helper taking the ref as int64; the known narrowing keeps its construct (followed back through the parameter to osm.NodeID)
	{Name: "b-g10-id-and-type-through-helper", File: "osmgeojson/convert.go", Nth: 0,
		Find: `func (ctx *context) nodeToFeature(n *osm.Node) *geojson.Feature {
	// our definition of empty, ill defined
	if n.Lon == 0 && n.Lat == 0 && n.Version == 0 {
		return nil
	}

	f := geojson.NewFeature(orb.Point{n.Lon, n.Lat})

	if !ctx.noID {
		f.ID = fmt.Sprintf("node/%d", n.ID)
	}
	f.Properties["id"] = int(n.ID)
	f.Properties["type"] = "node"
`,
		Replace: `// identify stores the properties that say which element the feature is made from.
func identify(props geojson.Properties, kind string, ref int64) {
	props["id"] = int(ref)
	props["type"] = kind
}

func (ctx *context) nodeToFeature(n *osm.Node) *geojson.Feature {
	// our definition of empty, ill defined
	if n.Lon == 0 && n.Lat == 0 && n.Version == 0 {
		return nil
	}

	f := geojson.NewFeature(orb.Point{n.Lon, n.Lat})

	if !ctx.noID {
		f.ID = fmt.Sprintf("node/%d", n.ID)
	}
	identify(f.Properties, "node", int64(n.ID))
`},
}

// c17Mutants6: narrowing conversions beyond the four known ones.
var c17Mutants6 = []core.Mutant{
	// one of the four known sites narrowed further: a different violation, not covered by the known finding for int
	{Name: "g10-known-site-int-to-int32", File: "osmgeojson/convert.go", Nth: 0, ExpectRule: "G10", ExpectConstruct: "id-width@properties[\"id\"] osm.NodeID as int32",
		Find:    "\tf.Properties[\"id\"] = int(n.ID)\n",
		Replace: "\tf.Properties[\"id\"] = int32(n.ID)\n"},
	// the helper adds a property built from the ref narrowed to int32
	{Name: "r-g10-helper-also-narrows-for-the-id-string", File: "osmgeojson/convert.go", Nth: 0, ExpectRule: "G10", ExpectConstruct: "id-width@properties[\"ref\"] osm.NodeID",
		Find: `func (ctx *context) nodeToFeature(n *osm.Node) *geojson.Feature {
	// our definition of empty, ill defined
	if n.Lon == 0 && n.Lat == 0 && n.Version == 0 {
		return nil
	}

	f := geojson.NewFeature(orb.Point{n.Lon, n.Lat})

	if !ctx.noID {
		f.ID = fmt.Sprintf("node/%d", n.ID)
	}
	f.Properties["id"] = int(n.ID)
	f.Properties["type"] = "node"
`,
		Replace: `// identify stores the properties that say which element the feature is made from.
func identify(props geojson.Properties, kind string, ref int64) {
	props["id"] = int(ref)
	props["type"] = kind
	props["ref"] = kind + "/" + fmt.Sprint(int32(ref))
}

func (ctx *context) nodeToFeature(n *osm.Node) *geojson.Feature {
	// our definition of empty, ill defined
	if n.Lon == 0 && n.Lat == 0 && n.Version == 0 {
		return nil
	}

	f := geojson.NewFeature(orb.Point{n.Lon, n.Lat})

	if !ctx.noID {
		f.ID = fmt.Sprintf("node/%d", n.ID)
	}
	identify(f.Properties, "node", int64(n.ID))
`},
	// the member ref is narrowed to int32 before the way lookup: members above 2^31-1 resolve to the wrong way or none
	{Name: "g10-member-ref-through-int32", File: "osmgeojson/convert.go", Nth: 0, ExpectRule: "G10", ExpectConstruct: "osm.Member.Ref",
		Find: `		way := ctx.wayMap[osm.WayID(m.Ref)]
`,
		Replace: `		way := ctx.wayMap[osm.WayID(int32(m.Ref))]
`},
	// the id string of the feature is made from the id narrowed to int32
	{Name: "g10-feature-id-from-int32", File: "osmgeojson/convert.go", Nth: 0, ExpectRule: "G10", ExpectConstruct: "id-width@Feature.ID osm.WayID",
		Find: `		f.ID = fmt.Sprintf("way/%d", w.ID)
`,
		Replace: `		f.ID = fmt.Sprintf("way/%d", int32(w.ID))
`},
}
