package rules

import (
	"encoding/json"
	"fmt"
	"go/ast"
	"go/token"
	"go/types"
	"sort"
	"strings"

	"osmcheck/core"
)

// ---------------------------------------------------------------------------
// the embedded literal

type c18Lit struct {
	text   string
	expr   ast.Expr        // the constant string expression
	srcVar *types.Var      // package variable holding the bytes (nil when inline)
	call   *ast.CallExpr   // json.Unmarshal(bytes, target)
	fd     *ast.FuncDecl   // function containing the call
	addr   *ast.UnaryExpr  // &table (at the call, or at the call site that binds the helper's parameter)
	via    []*ast.CallExpr // call sites binding the parameters of the helper that contains the call (outermost first)
}

// c18ParamOf returns the index of the parameter of fd that identifier e denotes (-1: none; -2: the receiver).
func c18ParamOf(info *types.Info, fd *ast.FuncDecl, e ast.Expr) int {
	id, ok := ast.Unparen(e).(*ast.Ident)
	if !ok || fd == nil {
		return -1
	}
	o := info.Uses[id]
	if o == nil {
		return -1
	}
	if fd.Recv != nil {
		for _, fld := range fd.Recv.List {
			for _, nm := range fld.Names {
				if info.Defs[nm] == o {
					return -2
				}
			}
		}
	}
	pi := 0
	for _, fld := range fd.Type.Params.List {
		if len(fld.Names) == 0 {
			pi++
		}
		for _, nm := range fld.Names {
			if info.Defs[nm] == o {
				return pi
			}
			pi++
		}
	}
	return -1
}

// c18CallSites lists the static calls of fd in the package with the function containing each.
func c18CallSites(c *c18Ctx, fd *ast.FuncDecl) (sites []*ast.CallExpr, in []*ast.FuncDecl) {
	fn, _ := c.info.Defs[fd.Name].(*types.Func)
	if fn == nil || fd.Name.Name == "init" {
		return nil, nil
	}
	for _, g := range c18FuncDecls(c.pk) {
		g := g
		ast.Inspect(g.Body, func(n ast.Node) bool {
			if call, ok := n.(*ast.CallExpr); ok && callee(c.info, call) == fn {
				sites = append(sites, call)
				in = append(in, g)
			}
			return true
		})
	}
	// calls in the initialisers of package-level variables (`var table = load(data)`): no enclosing function
	for _, f := range c.pk.Syntax {
		for _, d := range f.Decls {
			gd, ok := d.(*ast.GenDecl)
			if !ok || gd.Tok != token.VAR {
				continue
			}
			ast.Inspect(gd, func(n ast.Node) bool {
				if call, ok := n.(*ast.CallExpr); ok && callee(c.info, call) == fn {
					sites = append(sites, call)
					in = append(in, nil)
				}
				return true
			})
		}
	}
	return sites, in
}

type c18Pair struct {
	a, b ast.Expr
	via  []*ast.CallExpr
}

// c18BindPair resolves two expressions evaluated in fd through the parameters of fd: when one of them is a
// parameter, it is replaced by the argument at every static call site of fd (transitively, to depth 3).
// This follows an "extract function" that wraps the unmarshal call in a helper.
func c18BindPair(c *c18Ctx, fd *ast.FuncDecl, a, b ast.Expr, depth int) []c18Pair {
	ia, ib := c18ParamOf(c.info, fd, c18PeelConv(c.info, a)), c18ParamOf(c.info, fd, b)
	if (ia < 0 && ib < 0) || depth <= 0 {
		return []c18Pair{{a: a, b: b}}
	}
	var out []c18Pair
	sites, in := c18CallSites(c, fd)
	for k, site := range sites {
		na, nb := a, b
		if ia >= 0 && ia < len(site.Args) {
			na = site.Args[ia]
		}
		if ib >= 0 && ib < len(site.Args) {
			nb = site.Args[ib]
		}
		for _, p := range c18BindPair(c, in[k], na, nb, depth-1) {
			p.via = append(p.via, site)
			out = append(out, p)
		}
	}
	return out
}

// c18PeelConv strips conversions between string and byte-slice types: `[]byte(data)`, `string(b)`.
func c18PeelConv(info *types.Info, e ast.Expr) ast.Expr {
	for {
		e = ast.Unparen(e)
		conv, ok := e.(*ast.CallExpr)
		if !ok || len(conv.Args) != 1 {
			return e
		}
		if tv, ok := info.Types[conv.Fun]; !ok || !tv.IsType() {
			return e
		}
		e = conv.Args[0]
	}
}

func c18FindLiteral(c *c18Ctx) (*c18Lit, string) {
	var found []*c18Lit
	var firsts []ast.Expr
	for _, fd := range c18FuncDecls(c.pk) {
		fd := fd
		ast.Inspect(fd.Body, func(n ast.Node) bool {
			call, ok := n.(*ast.CallExpr)
			if !ok || len(call.Args) != 2 || !isPkgFunc(callee(c.info, call), "encoding/json", "Unmarshal") {
				return true
			}
			for _, p := range c18BindPair(c, fd, call.Args[0], call.Args[1], 3) {
				ue, ok := ast.Unparen(p.b).(*ast.UnaryExpr)
				if !ok || ue.Op != token.AND {
					continue
				}
				// the target is the table itself, or a local slice of the table's type (decoded, sorted and then
				// assigned to / returned into the table; L2 follows the value)
				tv, _ := objOf(c.info, ue.X).(*types.Var)
				if tv == nil || tv.IsField() || (tv != c.table && (tv.Parent() == c.pk.Types.Scope() || !types.Identical(tv.Type().Underlying(), c.table.Type().Underlying()))) {
					continue
				}
				found = append(found, &c18Lit{call: call, fd: fd, addr: ue, via: p.via})
				firsts = append(firsts, p.a)
			}
			return true
		})
	}
	if len(found) != 1 {
		return nil, fmt.Sprintf("expected exactly one json.Unmarshal whose target is &%s or a local slice of its type (directly or through a helper's parameter) in package osm, found %d", c.table.Name(), len(found))
	}
	l := found[0]
	// the bytes: a constant string, possibly behind conversions, a package variable initialised from one, and
	// the parameters the call sites above have already been resolved through
	e := c18PeelConv(c.info, firsts[0])
	if v, ok := objOf(c.info, e).(*types.Var); ok && v.Parent() == c.pk.Types.Scope() {
		l.srcVar = v
		init := c18VarInit(c.pk, v)
		if init == nil {
			return nil, "the byte variable " + v.Name() + " has no initialiser"
		}
		e = c18PeelConv(c.info, init)
	}
	if s, ok := constString(c.info, e); ok {
		l.text, l.expr = s, e
		if k, isConst := objOf(c.info, e).(*types.Const); isConst { // diagnostics point into the declaration
			if init := c18VarInit(c.pk, k); init != nil {
				l.expr = ast.Unparen(init)
			}
		}
		return l, ""
	}
	return nil, "the first argument of json.Unmarshal is not a constant string (possibly converted to []byte, held in a package variable, or passed through helper parameters)"
}

type c18Entry struct {
	key, cond string
	values    []string
}

// c18ParseLiteral decodes the literal the way encoding/json fills the rule struct.
func c18ParseLiteral(c *c18Ctx, text string) ([]c18Entry, error) {
	var raw []map[string]json.RawMessage
	if err := json.Unmarshal([]byte(text), &raw); err != nil {
		return nil, err
	}
	st, _, _, _ := c18RuleStruct(c.table.Type())
	names := map[*types.Var]string{}
	for i := 0; i < st.NumFields(); i++ {
		names[st.Field(i)] = c18JSONName(st, i)
	}
	var out []c18Entry
	for i, m := range raw {
		var e c18Entry
		for k, v := range m {
			var err error
			switch {
			case strings.EqualFold(k, names[c.keyF]):
				err = json.Unmarshal(v, &e.key)
			case strings.EqualFold(k, names[c.condF]):
				err = json.Unmarshal(v, &e.cond)
			case strings.EqualFold(k, names[c.valsF]):
				err = json.Unmarshal(v, &e.values)
			}
			if err != nil {
				return nil, fmt.Errorf("entry %d, member %q: %v", i, k, err)
			}
		}
		out = append(out, e)
	}
	return out, nil
}

// c18LitPos maps an offset inside a raw string literal to a source position (diagnostics only).
func c18LitPos(l *c18Lit, needle string) token.Pos {
	if bl, ok := ast.Unparen(l.expr).(*ast.BasicLit); ok && strings.HasPrefix(bl.Value, "`") {
		if i := strings.Index(l.text, needle); i >= 0 {
			return bl.Pos() + token.Pos(1+i)
		}
	}
	return l.expr.Pos()
}

func c18Set(vs []string) []string {
	m := map[string]bool{}
	for _, v := range vs {
		m[v] = true
	}
	var out []string
	for v := range m {
		out = append(out, v)
	}
	sort.Strings(out)
	return out
}

func c18Diff(a, b []string) []string {
	in := map[string]bool{}
	for _, v := range b {
		in[v] = true
	}
	var out []string
	for _, v := range a {
		if !in[v] {
			out = append(out, v)
		}
	}
	return out
}

func c18L1(r *core.R) {
	c := c18Resolve(r)
	if c == nil {
		return
	}
	tab, err := c18LoadTable()
	if err != nil {
		r.Anchor("tables/polygon-features.json: " + err.Error())
		return
	}
	lit, why := c18FindLiteral(c)
	if lit == nil {
		r.Anchor("JSON literal unmarshalled into " + c.table.Name() + ": " + why)
		return
	}
	srcC := "source@" + c.table.Name()
	entries, perr := c18ParseLiteral(c, lit.text)
	if perr != nil {
		r.Bad(srcC, lit.expr.Pos(), "the embedded literal does not decode into %s (%v): init panics and no way is ever classified", c.table.Type(), perr)
		return
	}
	if lit.srcVar != nil {
		if w := c18Writes(c.pk, lit.srcVar, nil); len(w) > 0 {
			r.Bad(srcC, w[0], "the byte variable %s holding the literal is written at %s: the table parsed at init is not the embedded constant", lit.srcVar.Name(), r.P.Rel(w[0]))
		} else {
			r.OK(srcC, lit.call.Pos(), "json.Unmarshal(%s, &%s) reads package variable %s = []byte(<constant of %d bytes>), never written elsewhere; %d entries decode into the rule struct", lit.srcVar.Name(), c.table.Name(), lit.srcVar.Name(), len(lit.text), len(entries))
		}
	} else {
		r.OK(srcC, lit.call.Pos(), "json.Unmarshal([]byte(<constant of %d bytes>), &%s); %d entries decode into the rule struct", len(lit.text), c.table.Name(), len(entries))
	}
	r.Stat("literal_entries", len(entries))
	byKey := map[string][]c18Entry{}
	for _, e := range entries {
		byKey[e.key] = append(byKey[e.key], e)
	}
	inTable := map[string]bool{}
	for _, f := range tab.Features {
		inTable[f.Key] = true
		cn := "key " + f.Key
		pos := c18LitPos(lit, `"`+f.Key+`"`)
		es := byKey[f.Key]
		switch {
		case len(es) == 0 && f.CodeHandled:
			r.OKTrivial(cn, lit.expr.Pos(), "published as polygon=%s; not in the literal because the code decides it before the rule loop (checked by C18.L3 area=no / area=<other>)", f.Polygon)
		case len(es) == 0:
			r.Bad(cn, lit.expr.Pos(), "the published list has key %q (polygon=%s %v) but the embedded literal has no entry for it: a closed way tagged only %s=* is no longer an area", f.Key, f.Polygon, f.Values, f.Key)
		case len(es) > 1:
			r.Bad(cn, pos, "key %q occurs %d times in the embedded literal; the entries are or-ed, which is not the published single rule", f.Key, len(es))
		case es[0].cond != f.Polygon:
			r.Bad(cn, pos, "key %q has polygon=%q in the embedded literal, the published list says %q %v: values of %s are classified the other way round", f.Key, es[0].cond, f.Polygon, f.Values, f.Key)
		case f.Polygon == "all":
			r.OK(cn, pos, "polygon=all in literal and published list")
		default:
			got, want := c18Set(es[0].values), c18Set(f.Values)
			miss, extra := c18Diff(want, got), c18Diff(got, want)
			if len(miss)+len(extra) > 0 {
				r.Bad(cn, pos, "key %q (%s): value set differs from the published list: missing %v, extra %v; %s=<those values> is misclassified", f.Key, f.Polygon, miss, extra, f.Key)
			} else {
				r.OK(cn, pos, "polygon=%s with the published value set %v", f.Polygon, want)
			}
		}
	}
	var extraKeys []string
	for k := range byKey {
		if !inTable[k] {
			extraKeys = append(extraKeys, k)
		}
	}
	sort.Strings(extraKeys)
	for _, k := range extraKeys {
		r.Bad("key "+k, c18LitPos(lit, `"`+k+`"`), "the embedded literal has key %q (polygon=%q) which is not in the published list: closed ways tagged %s=* become areas although the published rules say they are lines", k, byKey[k][0].cond, k)
	}
}
