package rules

import (
	"fmt"
	"go/ast"
	"go/token"
	"go/types"
	"sort"

	"osmcheck/core"
)

// C03.T6, first half: fresh decode targets.
//
// DecodeElement only assigns what the element carries: an attribute or child the element lacks leaves the target's
// field as it was. A decoder that decodes repeated elements in a loop must therefore decode every element into a
// value that is fresh for that iteration - allocated or declared inside the loop, or assigned a whole new value on
// the way from the loop head to the decode - otherwise an element inherits the fields its predecessor set (and, for
// pointer targets, all yielded objects are one object). Decided on the explored paths: every abstract value carries
// the point of the path at which it was created (Born); the target of a DecodeElement reached inside a loop must have
// been created after the loop iteration started. Declaring the scratch value before the loop, resetting only some of
// its fields, or reusing a retained object (a receiver field, a package-level scratch) all show as "created before
// the iteration".

// c03DecoderRoots lists the functions that decode XML elements by hand: the scanner and every UnmarshalXML method.
func c03DecoderRoots(r *core.R) []*FuncInfo {
	var out []*FuncInfo
	if fi := findFunc(r.P.Pkg("osmxml"), "(*Scanner).Scan"); fi != nil {
		out = append(out, fi)
	}
	for _, fi := range allFuncs(c03OsmPkg(r.P)) {
		sig := fi.Obj.Type().(*types.Signature)
		if fi.Obj.Name() == "UnmarshalXML" && sig.Recv() != nil && sig.Params().Len() == 2 {
			out = append(out, fi)
		}
	}
	sort.Slice(out, func(i, j int) bool { return out[i].Decl.Pos() < out[j].Decl.Pos() })
	return out
}

// c03LoopStart finds the start of the innermost loop iteration the event at index i of the trace runs in (-1: none).
func c03LoopStart(tr []c03Event, i int) int {
	e := &tr[i]
	for j := i - 1; j >= 0; j-- {
		l := &tr[j]
		if (l.Kind == "iter" || l.Kind == "range") && l.Node != nil && c03FrameWithin(e.Frame, e.Node, l.Node) {
			return j
		}
	}
	return -1
}

// c03TargetBorn resolves when the value a decode call fills was created, and a description of it.
func c03TargetBorn(st *c03State, e *c03Event) (born int, what string, ok bool) {
	if len(e.Args) == 0 {
		return 0, "", false
	}
	a := e.Args[0]
	switch a.K {
	case c03KPtr:
		return a.Born, "the object " + a.String(), true
	case c03KAddr:
		d := e.Deref[0]
		switch {
		case d == nil:
			return 0, "the variable " + a.Var.Name(), true
		case d.K == c03KPtr:
			return d.Born, "the object " + a.Var.Name() + " points to", true
		case d.K == c03KAddr:
			// pointer-to-pointer form with the pointer aimed at another local: that local's value is what is filled
			if t := st.Pointee(d); t != nil {
				return t.Born, "the variable " + d.Var.Name() + " (through " + a.Var.Name() + ")", true
			}
			return 0, "the variable " + d.Var.Name(), true
		default:
			return d.Born, "the variable " + a.Var.Name(), true
		}
	case c03KRef, c03KInit:
		return 0, "the retained value " + a.String(), true
	}
	return -1, "`" + a.String() + "`", true // a pointer of unknown origin (pooled, returned by code that is not entered)
}

func c03T6Fresh(r *core.R, v *c04Verdicts) int {
	n := 0
	for _, fi := range c03DecoderRoots(r) {
		name := fi.Name()
		labels := append([]string{""}, c03CompareStrings(r.P, fi)...)
		type verdict struct {
			pos     token.Pos
			fresh   bool
			what    string
			unknown string
			call    string
		}
		seen := map[string]*verdict{}
		deepSeen := map[string]bool{}
		var order []string
		aborted := ""
		for _, l := range labels {
			x := c03NewDecoderInterp(r.P, c03Scenario{Elem: l})
			deep := map[*ast.CallExpr][]c03DeepFinding{}
			x.Model = c03DeepFreshModel(c03Receiver(fi), deep)
			paths := x.Run(fi, nil)
			c03DumpPaths(r.P, fi, "fresh, element "+l, paths)
			for call, fs := range deep {
				for _, f := range fs {
					key := fmt.Sprintf("fresh %s %s@%s", c03Quote(l), f.field, name)
					if _, dup := deepSeen[key]; dup {
						continue
					}
					deepSeen[key] = true
					if f.bad != "" {
						v.bad(key, call.Pos(), "`%s` runs once per element of a sequence and decodes into a new value whose field %s is built on %s: encoding/xml appends to a slice with spare capacity without zeroing the element it re-exposes, keeps the entries of a map and fills a pointee in place, and decoding an element assigns only the attributes and children present, so the i-th child decoded into %s inherits what the i-th child of an earlier element left there (a slice cut to length 0 still has its old elements behind it)", src(r.P.Fset, call), f.field, f.bad, f.field)
					} else {
						v.unknown(key, call.Pos(), "`%s` runs once per element of a sequence and decodes into a new value whose field %s holds %s: whether that storage is fresh for the iteration is not decided", src(r.P.Fset, call), f.field, f.unknown)
					}
				}
			}
			if x.Aborted != "" {
				aborted = x.Aborted
			}
			for _, pa := range paths {
				tr := pa.St.Trace
				for i := range tr {
					e := &tr[i]
					if !c03IsDecoderCall(e, "DecodeElement") && !c03IsDecoderCall(e, "Decode") {
						continue
					}
					ls := c03LoopStart(tr, i)
					if ls < 0 {
						continue // a single decode, not one per element of a sequence
					}
					born, what, ok := c03TargetBorn(pa.St, e)
					if !ok {
						continue
					}
					key := fmt.Sprintf("fresh %s@%s", c03Quote(l), name)
					cur := seen[key]
					if cur == nil {
						cur = &verdict{pos: e.Node.Pos(), fresh: true}
						seen[key] = cur
						order = append(order, key)
					}
					if born < 0 {
						cur.unknown = what
						continue
					}
					if born <= ls && cur.fresh {
						cur.fresh, cur.what, cur.call, cur.pos = false, what, src(r.P.Fset, e.Call), e.Node.Pos()
					}
					if cur.call == "" {
						cur.call = src(r.P.Fset, e.Call)
					}
				}
			}
		}
		if aborted != "" {
			v.unknown("fresh@"+name, fi.Decl.Pos(), "%s could not be explored completely: %s", name, aborted)
			continue
		}
		for _, key := range order {
			n++
			cur := seen[key]
			if cur.fresh && cur.unknown != "" {
				v.unknown(key, cur.pos, "`%s` runs once per element of a sequence and decodes into %s: whether that value is fresh for the iteration (DecodeElement keeps what the element does not carry) is not decided", cur.call, cur.unknown)
			} else if cur.fresh {
				v.ok(key, cur.pos, "`%s` fills a value created in the same loop iteration", cur.call)
			} else {
				v.bad(key, cur.pos, "`%s` runs once per element of a sequence but decodes into %s, which was created before the loop iteration started and is not replaced by a fresh value on the way: DecodeElement only assigns the attributes and children the element carries, so an element that lacks one inherits the value its predecessor left there (and pointer targets make all decoded elements one object)", cur.call, cur.what)
			}
		}
	}
	return n
}
