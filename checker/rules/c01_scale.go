package rules

import (
	"fmt"
	"go/ast"
	"go/constant"
	"go/token"
	"go/types"
	"math/big"
	"sort"
	"strings"
)

// C01.R4, unit check. The expression stored into a timestamp or coordinate field is evaluated symbolically as a
// polynomial with rational coefficients over opaque atoms (column reads, block parameters, running sums, anything that
// is not constant arithmetic). Constants are folded by value, conversions are transparent, single-definition locals,
// parameters (in the context of the call being followed) and functions of the package are expanded, the time package
// is modelled: time.Unix(s, n) = 1e9*s + n, time.UnixMilli(m) = 1e6*m, time.UnixMicro(u) = 1e3*u, Duration
// arithmetic is integer arithmetic on nanoseconds, UTC/In/Local are the identity. Integer division and remainder by a
// constant become atoms quot(P, d) / rem(P, d) which are recombined when they appear as a*quot + b*rem with a = b*d
// (the seconds / sub-second split of a millisecond value). The result must be coef * (product of atoms) with
//   coef = 1e6   for a time built from a millisecond quantity (the format: timestamp * date_granularity is in ms),
//   coef = 1e-9  for every term of a coordinate (the format: offset + granularity*raw is in nanodegrees).
// What the atoms are (which column, which parameter) is the provenance check's business; the unit check only fixes
// the constant factor, independently of how the conversion is spelled.

type c01Poly map[string]*big.Rat // monomial (sorted atom ids joined by "*"; "" = constant term) -> coefficient

type c01Scale struct {
	t     *c01Tracer
	info  *types.Info
	atoms map[string]string // canonical description -> id
	quot  map[string]c01QR  // atom id -> quotient / remainder description
	n     int
	busy  map[*types.Var]bool
}

type c01QR struct {
	rem bool
	p   c01Poly
	d   *big.Rat
}

func (p c01Poly) canon() string {
	var ks []string
	for k := range p {
		ks = append(ks, k)
	}
	sort.Strings(ks)
	var b strings.Builder
	for _, k := range ks {
		b.WriteString(p[k].RatString() + "·" + k + ";")
	}
	return b.String()
}

func c01Const(r *big.Rat) c01Poly {
	if r.Sign() == 0 {
		return c01Poly{}
	}
	return c01Poly{"": r}
}

func (s *c01Scale) atom(desc string) c01Poly {
	id, ok := s.atoms[desc]
	if !ok {
		s.n++
		id = fmt.Sprintf("a%03d", s.n)
		s.atoms[desc] = id
	}
	return c01Poly{id: big.NewRat(1, 1)}
}

func c01PolyAdd(a, b c01Poly, sign int64) c01Poly {
	out := c01Poly{}
	for k, v := range a {
		out[k] = new(big.Rat).Set(v)
	}
	for k, v := range b {
		t := new(big.Rat).Mul(v, big.NewRat(sign, 1))
		if o, ok := out[k]; ok {
			t.Add(t, o)
		}
		if t.Sign() == 0 {
			delete(out, k)
		} else {
			out[k] = t
		}
	}
	return out
}

func c01MonoMul(a, b string) string {
	var parts []string
	if a != "" {
		parts = append(parts, strings.Split(a, "*")...)
	}
	if b != "" {
		parts = append(parts, strings.Split(b, "*")...)
	}
	sort.Strings(parts)
	return strings.Join(parts, "*")
}

func c01PolyMul(a, b c01Poly) c01Poly {
	out := c01Poly{}
	for ka, va := range a {
		for kb, vb := range b {
			k := c01MonoMul(ka, kb)
			t := new(big.Rat).Mul(va, vb)
			if o, ok := out[k]; ok {
				t.Add(t, o)
			}
			if t.Sign() == 0 {
				delete(out, k)
			} else {
				out[k] = t
			}
		}
	}
	return out
}

func (p c01Poly) constVal() (*big.Rat, bool) {
	if len(p) == 0 {
		return new(big.Rat), true
	}
	if len(p) == 1 {
		if v, ok := p[""]; ok {
			return v, true
		}
	}
	return nil, false
}

func c01RatOf(v constant.Value) *big.Rat {
	switch x := constant.Val(v).(type) {
	case int64:
		return new(big.Rat).SetInt64(x)
	case *big.Int:
		return new(big.Rat).SetInt(x)
	case *big.Rat:
		return new(big.Rat).Set(x)
	case *big.Float:
		if r, acc := x.Rat(nil); r != nil {
			_ = acc
			return r
		}
	}
	return nil
}

// eval returns the polynomial of e in context ctx, or nil when e is not understood at all.
func (s *c01Scale) eval(ctx *c01Ctx, e ast.Expr, resIdx, depth int) c01Poly {
	if e == nil || depth > 16 {
		return nil
	}
	info := s.info
	e = ast.Unparen(e)
	if tv, ok := info.Types[e]; ok && tv.Value != nil {
		if r := c01RatOf(tv.Value); r != nil {
			return c01Const(r)
		}
		return nil
	}
	leaf := func() c01Poly { return s.atom(fmt.Sprintf("expr@%d/%p", e.Pos(), ctx.call)) }
	switch x := e.(type) {
	case *ast.Ident:
		o := objOf(info, x)
		if o == nil {
			return nil
		}
		if idx := c01ParamIndex(info, ctx.fi, o); idx >= 0 {
			if ctx.call != nil && ctx.up != nil && idx < len(ctx.call.Args) {
				return s.eval(ctx.up, ctx.call.Args[idx], 0, depth+1)
			}
			return s.atom(fmt.Sprintf("var %p", o))
		}
		ds := c01ReachingDefs(c01FnOf(s.t.cm.p, ctx.fi).innermost(x), o, x.Pos())
		if len(ds) == 1 && ds[0].rhs != nil && (ds[0].tok == token.DEFINE || ds[0].tok == token.ASSIGN || ds[0].tok == token.VAR) {
			idx := 0
			if ds[0].index >= 0 {
				idx = ds[0].index
			}
			// v = v + E is a running sum, not a definition
			if !usesObj(info, ds[0].rhs, o) {
				return s.eval(ctx, ds[0].rhs, idx, depth+1)
			}
		}
		return s.atom(fmt.Sprintf("var %p", o))
	case *ast.StarExpr:
		return s.eval(ctx, x.X, 0, depth+1)
	case *ast.UnaryExpr:
		if x.Op == token.SUB {
			if p := s.eval(ctx, x.X, 0, depth+1); p != nil {
				return c01PolyAdd(c01Poly{}, p, -1)
			}
			return nil
		}
		if x.Op == token.ADD {
			return s.eval(ctx, x.X, 0, depth+1)
		}
		return leaf()
	case *ast.SelectorExpr:
		if f := fieldOf(info, x); f != nil {
			if p := s.fieldValue(f, depth); p != nil {
				return p
			}
			return s.atom(fmt.Sprintf("field %p", f))
		}
		return leaf()
	case *ast.BinaryExpr:
		l, r := s.eval(ctx, x.X, 0, depth+1), s.eval(ctx, x.Y, 0, depth+1)
		if l == nil || r == nil {
			return nil
		}
		switch x.Op {
		case token.ADD:
			return c01PolyAdd(l, r, 1)
		case token.SUB:
			return c01PolyAdd(l, r, -1)
		case token.MUL:
			return c01PolyMul(l, r)
		case token.QUO, token.REM:
			d, isConst := r.constVal()
			if !isConst || d.Sign() == 0 {
				return leaf()
			}
			isInt := false
			if bt, ok := info.TypeOf(x).Underlying().(*types.Basic); ok && bt.Info()&types.IsInteger != 0 {
				isInt = true
			}
			if x.Op == token.QUO && !isInt {
				return c01PolyMul(l, c01Const(new(big.Rat).Inv(d)))
			}
			if c, lc := l.constVal(); lc && isInt && c.IsInt() && d.IsInt() {
				q, m := new(big.Int).QuoRem(c.Num(), d.Num(), new(big.Int))
				if x.Op == token.QUO {
					return c01Const(new(big.Rat).SetInt(q))
				}
				return c01Const(new(big.Rat).SetInt(m))
			}
			kind := "quot"
			if x.Op == token.REM {
				kind = "rem"
			}
			p := s.atom(kind + "(" + l.canon() + "," + d.RatString() + ")")
			for id := range p {
				s.quot[id] = c01QR{rem: x.Op == token.REM, p: l, d: d}
			}
			return p
		}
		return leaf()
	case *ast.CallExpr:
		if c01IsConversion(info, x) && len(x.Args) == 1 {
			return s.eval(ctx, x.Args[0], 0, depth+1)
		}
		fn := callee(info, x)
		if fn == nil {
			return leaf()
		}
		sel, _ := ast.Unparen(x.Fun).(*ast.SelectorExpr)
		if fn.Pkg() != nil && fn.Pkg().Path() == "time" {
			return s.evalTime(ctx, x, fn, sel, depth)
		}
		if fn.Pkg() == s.t.cm.m.pk.Types {
			tf := c01FuncInfo(s.t.cm.m.pk, fn)
			if tf == nil {
				return leaf()
			}
			sub := &c01Ctx{fi: tf, call: x, up: ctx}
			var got c01Poly
			okAll := true
			nres := fn.Type().(*types.Signature).Results().Len()
			ast.Inspect(tf.Decl.Body, func(n ast.Node) bool {
				if _, isLit := n.(*ast.FuncLit); isLit {
					return false
				}
				ret, isRet := n.(*ast.ReturnStmt)
				if !isRet || !okAll {
					return true
				}
				var p c01Poly
				switch {
				case len(ret.Results) == nres && resIdx < nres:
					// error exits hand back a throw-away value
					if nres > 1 && c01IsErrNonNilExpr(info, ret.Results[nres-1], c01FnOf(s.t.cm.p, tf).factsAtPos(ret.Pos())) {
						return true
					}
					p = s.eval(sub, ret.Results[resIdx], 0, depth+1)
				case len(ret.Results) == 1:
					p = s.eval(sub, ret.Results[0], resIdx, depth+1)
				}
				if p == nil {
					okAll = false
					return true
				}
				if got == nil {
					got = p
				} else if got.canon() != p.canon() {
					okAll = false
				}
				return true
			})
			if okAll && got != nil {
				return got
			}
			return nil
		}
		return leaf()
	}
	return leaf()
}
