package rules

import (
	"fmt"
	"go/token"
	"go/types"

	"osmcheck/core"
)

// c05Routing: inside the codec (MarshalJSON/UnmarshalJSON methods of package osm and the package functions they
// call) every (un)marshal operation goes through a helper; the helpers fall back to encoding/json exactly when
// no codec is installed.
func c05Routing(r *core.R, helpers map[*types.Func]string) {
	pk := c03OsmPkg(r.P)
	if len(helpers) < 2 {
		r.Anchor("codec helpers consulting osm.CustomJSONMarshaler / osm.CustomJSONUnmarshaler")
	}
	// helpers: observed with and without an installed codec
	c05HelperRules(r, helpers)
	// codec scope: every MarshalJSON / UnmarshalJSON method of the package with what it calls, observed with and
	// without an installed codec
	cx := c05NewCodec(r.P)
	type site struct {
		op      c05Op
		root    *FuncInfo
		reached map[tri]bool // configuration (codec installed?) -> the operation is performed
	}
	nroots := 0
	for _, fi := range allFuncs(pk) {
		if (fi.Obj.Name() != "MarshalJSON" && fi.Obj.Name() != "UnmarshalJSON") || fi.Obj.Type().(*types.Signature).Recv() == nil {
			continue
		}
		nroots++
		sites := map[token.Pos]*site{}
		var order []token.Pos
		aborted := ""
		for _, installed := range []tri{triF, triT} {
			x, paths := cx.run(fi, c05Scen{Custom: installed, Tag: fmt.Sprintf("routing, codec installed=%v", installed == triT)})
			if x.Aborted != "" {
				aborted = x.Aborted
			}
			for _, pa := range paths {
				for _, op := range cx.ops(pa) {
					pos := op.ev.Node.Pos()
					st := sites[pos]
					if st == nil {
						st = &site{op: op, root: fi, reached: map[tri]bool{}}
						sites[pos] = st
						order = append(order, pos)
					}
					st.reached[installed] = true
				}
			}
		}
		root := c05FuncLabel(fi)
		if aborted != "" {
			r.Unknown("codec@"+root, fi.Decl.Pos(), "%s could not be explored completely: %s", root, aborted)
			continue
		}
		for _, pos := range order {
			st := sites[pos]
			op := st.op
			c := fmt.Sprintf("codec@%s %s(%s)", root, op.dir, c05TypeLabel(op.t))
			call := src(r.P.Fset, op.ev.Call)
			switch op.via {
			case "helper":
				r.OK(c, pos, "`%s` goes through the codec helper %s", call, op.ev.Fn.Name())
			case "custom":
				if st.reached[triF] {
					r.Bad(c, pos, "`%s` calls the installed codec variable directly on a path taken when no codec is installed: the variable is nil then, so the default configuration panics here (the helper tests for nil)", call)
				} else {
					r.OK(c, pos, "`%s` uses the installed codec, and only on paths taken when one is installed", call)
				}
			default:
				switch {
				case c05Neutral(r.P, op.t):
					r.OKTrivial(c, pos, "`%s` bypasses the helpers, accepted: the operand type %s has a codec-independent JSON form (no struct tags, no methods), so the result cannot depend on which codec is installed", call, c03Short(op.t))
				case st.reached[triT]:
					r.Bad(c, pos, "`%s` calls encoding/json directly on a %s on a path taken while a codec is installed: this part of the document is still handled by encoding/json (tags, method lookup, key matching by its rules), bypassing the configured codec", call, c05TypeLabel(op.t))
				default:
					r.OK(c, pos, "`%s` uses encoding/json only on paths taken when no codec is installed", call)
				}
			}
		}
	}
	r.Stat("json_codec_methods", nroots)
}
