package rules

import (
	"fmt"
	"go/ast"
	"go/token"
	"go/types"
	"strings"

	"golang.org/x/tools/go/cfg"
	"golang.org/x/tools/go/packages"

	"osmcheck/core"
)

// "Sorted before it escapes", decided on the CFG and through helper functions.
//
// A slice S is *sorted at a program point* when the completion of a sorting construct for S dominates that point.
// Sorting constructs (recognised by what they do, in whichever function of the package they live):
//   direct level (S is an osm.Updates):   S.SortByIndex()  |  h(S) where h sorts its parameter on every path to its exits
//   element level (S holds osm.Updates):  a loop over every element of S (range with value or index, or the
//                                          counting for-loop) whose body sorts the current element at direct level
//                                          on every iteration and cannot be left early  |  h(S) likewise
// Local single-assignment aliases and conversions of S are looked through.

// c12Fn is a function with its control-flow graph.
type c12Fn struct {
	pk    *packages.Package
	fi    *FuncInfo
	g     *cfg.CFG
	dom   map[*cfg.Block]map[*cfg.Block]bool
	pred  map[*cfg.Block][]*cfg.Block
	lit   *ast.FuncLit // set when the function is a literal (key derivation only), written in outer
	outer *c12Fn
}

// c12Done is a point after which a sort (or another event) has completed: after node idx of block (idx -1: on
// entry to the block).
type c12Done struct {
	block *cfg.Block
	idx   int
	desc  string
	skip  ast.Node // `v = h(v)` where h sorts and returns its parameter: this assignment is the sort, not a later write
}

type c12Sorter struct {
	p         *core.Program
	indexSort *types.Func // osm.Updates.SortByIndex
	fns       map[*types.Func]*c12Fn
	memo      map[string]int // 0 in progress / absent, 1 yes, 2 no
	notes     []string
}

func c12NewSorter(p *core.Program) *c12Sorter {
	s := &c12Sorter{p: p, fns: map[*types.Func]*c12Fn{}, memo: map[string]int{}}
	if fi := findFunc(p.Pkg(""), "Updates.SortByIndex"); fi != nil {
		s.indexSort = fi.Obj
	}
	return s
}

func (s *c12Sorter) note(format string, args ...interface{}) {
	n := fmt.Sprintf(format, args...)
	for _, o := range s.notes {
		if o == n {
			return
		}
	}
	s.notes = append(s.notes, n)
}

// fn returns the analysed form of a function of the repository that has a body.
func (s *c12Sorter) fn(f *types.Func) *c12Fn {
	if f == nil || f.Pkg() == nil {
		return nil
	}
	if x, ok := s.fns[f]; ok {
		return x
	}
	s.fns[f] = nil
	pk := s.p.ByPath[f.Pkg().Path()]
	if pk == nil || !strings.HasPrefix(pk.PkgPath, core.ModulePath) {
		return nil
	}
	fi := findFunc(pk, funcName(f))
	if fi == nil || fi.Decl.Body == nil || fi.Obj != f {
		return nil
	}
	x := c12MakeFn(pk, fi)
	s.fns[f] = x
	return x
}

func c12MakeFn(pk *packages.Package, fi *FuncInfo) *c12Fn {
	x := &c12Fn{pk: pk, fi: fi, g: newCFG(pk.TypesInfo, fi.Decl.Body)}
	x.dom = dominators(x.g)
	x.pred = map[*cfg.Block][]*cfg.Block{}
	for _, b := range x.g.Blocks {
		if !b.Live {
			continue
		}
		for _, sc := range b.Succs {
			x.pred[sc] = append(x.pred[sc], b)
		}
	}
	return x
}

func (f *c12Fn) info() *types.Info { return f.pk.TypesInfo }

// at returns the point just after the CFG node containing pos.
func (f *c12Fn) at(pos token.Pos, desc string) (c12Done, bool) {
	b, i := blockOf(f.g, pos)
	if b == nil || !b.Live {
		return c12Done{}, false
	}
	return c12Done{block: b, idx: i, desc: desc}, true
}

// dominates reports whether point d precedes position pos on every path (the node containing pos may be the node
// of d itself: a call evaluated inside a return statement happens before the function returns).
func (f *c12Fn) dominates(d c12Done, pos token.Pos) bool {
	tb, ti := blockOf(f.g, pos)
	if tb == nil || d.block == nil {
		return false
	}
	if tb == d.block {
		return d.idx <= ti
	}
	return f.dom[tb][d.block]
}

// follows reports whether point d comes after point a on every path reaching d.
func (f *c12Fn) follows(d, a c12Done) bool {
	if a.block == nil {
		return true
	}
	if d.block == a.block {
		return d.idx > a.idx
	}
	return f.dom[d.block][a.block]
}

// loopBlocks returns the head, body and done blocks of a range/for statement.
func (f *c12Fn) loopBlocks(l ast.Stmt) (head, body, done *cfg.Block) {
	for _, b := range f.g.Blocks {
		if b.Stmt != l {
			continue
		}
		switch b.Kind {
		case cfg.KindRangeLoop, cfg.KindForLoop:
			head = b
		case cfg.KindRangeBody, cfg.KindForBody:
			body = b
		case cfg.KindRangeDone, cfg.KindForDone:
			done = b
		}
	}
	return
}

// c12Resolve looks through parentheses, conversions and single-assignment local aliases (`x := y`, `x := T(y)`) and
// returns the variable an expression denotes, or nil.
func c12Resolve(info *types.Info, body ast.Node, e ast.Expr) types.Object {
	for depth := 0; depth < 4; depth++ {
		e = c12StripConv(info, e)
		if _, isSel := e.(*ast.SelectorExpr); isSel {
			return c12ResolveField(info, body, e, 3)
		}
		id, ok := e.(*ast.Ident)
		if !ok {
			return nil
		}
		o := objOf(info, id)
		v, isVar := o.(*types.Var)
		if !isVar {
			return nil
		}
		rhs := c12SingleDef(info, body, v)
		if rhs == nil {
			return v
		}
		switch c12StripConv(info, rhs).(type) {
		case *ast.Ident:
		case *ast.SelectorExpr:
			if fieldOf(info, c12StripConv(info, rhs)) == nil {
				return v
			}
		default:
			return v
		}
		e = rhs
	}
	return nil
}

// c12SingleDef returns the right-hand side of the only assignment to local v in body (nil when v is assigned
// more than once, is never assigned there, or is assigned from a multi-value expression).
func c12SingleDef(info *types.Info, body ast.Node, v types.Object) ast.Expr {
	var rhs ast.Expr
	n := 0
	ast.Inspect(body, func(x ast.Node) bool {
		switch st := x.(type) {
		case *ast.AssignStmt:
			for i, l := range st.Lhs {
				if id, ok := ast.Unparen(l).(*ast.Ident); ok && objOf(info, id) == v {
					n++
					if len(st.Lhs) == len(st.Rhs) && (st.Tok == token.DEFINE || st.Tok == token.ASSIGN) {
						rhs = st.Rhs[i]
					} else {
						n++ // not a plain copy
					}
				}
			}
		case *ast.IncDecStmt:
			if objOf(info, st.X) == v {
				n += 2
			}
		case *ast.RangeStmt:
			if (st.Key != nil && objOf(info, st.Key) == v) || (st.Value != nil && objOf(info, st.Value) == v) {
				n += 2
			}
		case *ast.ValueSpec:
			for i, nm := range st.Names {
				if info.Defs[nm] == v && len(st.Values) == len(st.Names) {
					n++
					rhs = st.Values[i]
				}
			}
		case *ast.UnaryExpr:
			if st.Op == token.AND && objOf(info, st.X) == v {
				n += 2 // address taken: may be written through the pointer
			}
		}
		return true
	})
	if n != 1 {
		return nil
	}
	return rhs
}

// c12CallDef: if v is defined exactly once in body by `..., v, ... := h(...)`, it returns that call and the result index.
func c12CallDef(info *types.Info, body ast.Node, v types.Object) (*ast.CallExpr, int, *ast.AssignStmt) {
	var call *ast.CallExpr
	var at *ast.AssignStmt
	k, n := -1, 0
	ast.Inspect(body, func(x ast.Node) bool {
		as, ok := x.(*ast.AssignStmt)
		if !ok {
			return true
		}
		for i, l := range as.Lhs {
			if id, ok := ast.Unparen(l).(*ast.Ident); ok && objOf(info, id) == v {
				n++
				if len(as.Rhs) == 1 {
					if c, ok := ast.Unparen(as.Rhs[0]).(*ast.CallExpr); ok {
						call, k, at = c, i, as
					}
				}
			}
		}
		return true
	})
	if n != 1 {
		return nil, -1, nil
	}
	return call, k, at
}

// c12Assigned reports whether variable v is assigned anywhere in body (other than by its declaration as a parameter).
func c12Assigned(info *types.Info, body ast.Node, v types.Object) bool {
	found := false
	ast.Inspect(body, func(x ast.Node) bool {
		switch st := x.(type) {
		case *ast.AssignStmt:
			for _, l := range st.Lhs {
				if id, ok := ast.Unparen(l).(*ast.Ident); ok && objOf(info, id) == v {
					found = true
				}
			}
		case *ast.IncDecStmt:
			if objOf(info, st.X) == v {
				found = true
			}
		case *ast.RangeStmt:
			if st.Tok == token.ASSIGN && ((st.Key != nil && objOf(info, st.Key) == v) || (st.Value != nil && objOf(info, st.Value) == v)) {
				found = true
			}
		case *ast.UnaryExpr:
			if st.Op == token.AND && objOf(info, st.X) == v {
				found = true
			}
		}
		return !found
	})
	return found
}

// c12Params lists the receiver and parameter objects of a function.
func c12Params(info *types.Info, fd *ast.FuncDecl) []types.Object {
	var out []types.Object
	if fd.Recv != nil {
		for _, f := range fd.Recv.List {
			for _, nm := range f.Names {
				out = append(out, info.Defs[nm])
			}
		}
	}
	for _, f := range fd.Type.Params.List {
		for _, nm := range f.Names {
			out = append(out, info.Defs[nm])
		}
	}
	return out
}

// c12IsUpdates reports whether t is a list with a canonical order the rules can verify (the direct level):
// osm.Updates / []osm.Update (canonical order: Index, Timestamp, Version) or a slice of integers or strings
// (canonical order: any strict total order of the values). c12HoldsUpdates: a slice, array or map of such lists.
func c12IsUpdates(t types.Type) bool {
	if t == nil {
		return false
	}
	sl, ok := t.Underlying().(*types.Slice)
	if !ok {
		return false
	}
	return namedPath(sl.Elem()) == core.ModulePath+".Update" || c12IsKeyType(sl.Elem())
}

// c12IsKeyType: integers and strings (values that are their own key; floats are excluded because of NaN).
func c12IsKeyType(t types.Type) bool {
	b, ok := t.Underlying().(*types.Basic)
	return ok && b.Info()&(types.IsInteger|types.IsString) != 0
}

func c12HoldsUpdates(t types.Type) bool {
	if t == nil {
		return false
	}
	switch u := t.Underlying().(type) {
	case *types.Slice:
		return c12IsUpdates(u.Elem())
	case *types.Array:
		return c12IsUpdates(u.Elem())
	case *types.Map:
		return c12IsUpdates(u.Elem())
	}
	return false
}

type c12SortedArg struct {
	e    ast.Expr     // the argument that is sorted, or
	obj  types.Object // the place that is sorted (a field of a struct argument); e is nil then
	elem bool
}

// place returns the place the sorted operand denotes in the calling function.
func (a c12SortedArg) place(info *types.Info, body ast.Node) types.Object {
	if a.obj != nil {
		return a.obj
	}
	return c12Resolve(info, body, a.e)
}

// sortedArgs returns the operands a call sorts completely (by the index order) before it returns.
func (s *c12Sorter) sortedArgs(f *c12Fn, call *ast.CallExpr, depth int) []c12SortedArg {
	info := f.info()
	fn := callee(info, call)
	if fn == nil {
		return nil
	}
	if fn == s.indexSort {
		if sel, ok := ast.Unparen(call.Fun).(*ast.SelectorExpr); ok {
			return []c12SortedArg{{e: sel.X}}
		}
		return nil
	}
	if fn.Pkg() != nil && fn.Pkg().Path() == "sort" {
		// a sort call: its operand is sorted by the index order if the comparator it is given is, by exhaustive
		// evaluation, that order (and Len/Swap of an adapter are the standard ones)
		if e := s.sortedByIndexOrder(f, call, fn); e != nil {
			return []c12SortedArg{{e: e}}
		}
		return nil
	}
	if depth <= 0 {
		return nil
	}
	h := s.fn(fn)
	if h == nil {
		return nil
	}
	var out []c12SortedArg
	for _, p := range c12Params(h.info(), h.fi.Decl) {
		if p == nil {
			continue
		}
		arg := argForParam(h.info(), h.fi, call, p)
		if arg == nil {
			continue
		}
		switch {
		case c12IsUpdates(p.Type()):
			if s.fnSorts(h, p, false, depth-1) {
				out = append(out, c12SortedArg{e: arg})
			}
		case c12HoldsUpdates(p.Type()):
			if s.fnSorts(h, p, true, depth-1) {
				out = append(out, c12SortedArg{e: arg, elem: true})
			}
		default:
			// a struct (or pointer to one) that holds the lists in a field: h sorts that field of its parameter
			base := c12Resolve(info, f.fi.Decl.Body, stripDerefParen(c12StripConv(info, arg)))
			if base == nil {
				continue
			}
			for _, fp := range c12FieldPlaces(p, func(t types.Type) bool { return c12IsUpdates(t) || c12HoldsUpdates(t) }) {
				_, path := c12PlaceParts(fp)
				elem := c12HoldsUpdates(fp.Type())
				if s.fnSorts(h, fp, elem, depth-1) {
					out = append(out, c12SortedArg{obj: c12OnBase(base, path), elem: elem})
				}
			}
		}
	}
	return out
}

// sortedByIndexOrder: call is sort.Sort/Stable(adapter(x)) or sort.Slice/SliceStable(x, less) over osm.Update elements
// with a comparator whose truth table is the strict order Index, Timestamp, Version; it returns x.
func (s *c12Sorter) sortedByIndexOrder(f *c12Fn, call *ast.CallExpr, fn *types.Func) ast.Expr {
	info := f.info()
	var cmp *c12Cmp
	var operand ast.Expr
	switch {
	case (fn.Name() == "Ints" || fn.Name() == "Strings") && len(call.Args) == 1:
		return call.Args[0]
	case (fn.Name() == "Sort" || fn.Name() == "Stable") && len(call.Args) == 1 && c12StdSlice(info.TypeOf(call.Args[0])):
		return c12StripConv(info, call.Args[0])
	case (fn.Name() == "Sort" || fn.Name() == "Stable") && len(call.Args) == 1:
		t := info.TypeOf(call.Args[0])
		if pt, ok := t.(*types.Pointer); ok {
			t = pt.Elem()
		}
		nt, ok := t.(*types.Named)
		if !ok || nt.Obj().Pkg() == nil {
			return nil
		}
		apk := s.p.ByPath[nt.Obj().Pkg().Path()]
		if apk == nil || !strings.HasPrefix(apk.PkgPath, core.ModulePath) {
			return nil
		}
		lessFi, swapFi, lenFi := findFunc(apk, nt.Obj().Name()+".Less"), findFunc(apk, nt.Obj().Name()+".Swap"), findFunc(apk, nt.Obj().Name()+".Len")
		if lessFi == nil || swapFi == nil || lenFi == nil || lessFi.Decl.Body == nil || swapFi.Decl.Body == nil || lenFi.Decl.Body == nil {
			return nil
		}
		if st, _ := c12SwapVerdict(apk, swapFi); st != c12OK {
			return nil
		}
		if st, _ := c12LenVerdict(apk, lenFi); st != c12OK {
			return nil
		}
		cmp, _ = c12MethodCmp(apk, lessFi.Decl)
		operand = call.Args[0]
		if ue, ok := ast.Unparen(operand).(*ast.UnaryExpr); ok && ue.Op == token.AND {
			operand = ue.X
		}
	case (fn.Name() == "Slice" || fn.Name() == "SliceStable") && len(call.Args) == 2:
		so := &c12Sort{call: call, fn: fn.Name(), host: f.fi, sorted: call.Args[0]}
		so.lit, _ = ast.Unparen(call.Args[1]).(*ast.FuncLit)
		so.slice = objOf(info, c12StripConv(info, call.Args[0]))
		cmp, _ = c12LitCmp(f.pk, so, "less")
		operand = call.Args[0]
	}
	if cmp != nil && c12IsKeyType(cmp.elem) {
		// elements that are their own key: any strict total order of the values is canonical
		tbl, why := c12BuildTable(cmp, []c12Var{{path: ""}})
		if why != "" || len(tbl.vars) != 1 || tbl.hasSame && tbl.sameRes {
			return nil
		}
		res := map[c12Rel]bool{}
		for _, row := range tbl.rows {
			res[row.rel[0]] = row.res
		}
		if res[c12EQ] || res[c12LT] == res[c12GT] {
			return nil
		}
		return operand
	}
	if cmp == nil || namedPath(cmp.elem) != core.ModulePath+".Update" {
		return nil
	}
	key := fmt.Sprintf("order %p %p", cmp.body, call)
	if v, ok := s.memo[key]; ok {
		if v == 1 {
			return operand
		}
		return nil
	}
	s.memo[key] = 2
	var seed []c12Var
	for _, fld := range c12IndexOrder {
		fv := c12FieldOfType(cmp.elem, fld)
		if fv == nil {
			return nil
		}
		seed = append(seed, c12Var{path: fld, isTime: c12IsTime(fv.Type())})
	}
	tbl, why := c12BuildTable(cmp, seed)
	if why != "" {
		s.note("%s sorts with a comparator that could not be evaluated (%s)", f.fi.Name(), why)
		return nil
	}
	v := c12CheckLex(tbl, c12IndexOrder)
	for _, b := range v.stepBad {
		if b != "" {
			s.note("%s sorts with a comparator that is not the (Index, Timestamp, Version) order: %s", f.fi.Name(), b)
			return nil
		}
	}
	if v.tieBad != "" {
		return nil
	}
	s.memo[key] = 1
	return operand
}

// c12StdSlice: sort.IntSlice / sort.StringSlice.
func c12StdSlice(t types.Type) bool {
	p := namedPath(t)
	return p == "sort.IntSlice" || p == "sort.StringSlice"
}

// fnSorts: function h sorts its parameter p (at the given level) on every path to every exit.
func (s *c12Sorter) fnSorts(h *c12Fn, p types.Object, elem bool, depth int) bool {
	key := fmt.Sprintf("sorts %p %p %v", h, p, elem)
	if v, ok := s.memo[key]; ok {
		return v == 1
	}
	s.memo[key] = 0
	res := false
	if !c12Assigned(h.info(), h.fi.Decl.Body, p) {
		for _, d := range s.sortsOf(h, p, elem, depth) {
			if h.beforeEveryExit(d) {
				res = true
			}
		}
	}
	s.memo[key] = 2
	if res {
		s.memo[key] = 1
	}
	return res
}

// beforeEveryExit: point d precedes every normal exit (return or end of body) of the function.
func (f *c12Fn) beforeEveryExit(d c12Done) bool {
	n := 0
	for _, b := range f.g.Blocks {
		if !b.Live || len(b.Succs) != 0 {
			continue
		}
		if len(b.Nodes) > 0 {
			if es, ok := b.Nodes[len(b.Nodes)-1].(*ast.ExprStmt); ok {
				if call, ok := es.X.(*ast.CallExpr); ok && builtinName(f.info(), call) == "panic" {
					continue
				}
			}
		}
		n++
		if b == d.block {
			continue // d lies in the exit block: a return statement is the last node of its block
		}
		if !f.dom[b][d.block] {
			return false
		}
	}
	return n > 0
}

// sortsOf returns the points of f at which root has been sorted completely (direct level: root is an osm.Updates;
// element level: every osm.Updates held by root).
func (s *c12Sorter) sortsOf(f *c12Fn, root types.Object, elem bool, depth int) []c12Done {
	info := f.info()
	body := f.fi.Decl.Body
	var out []c12Done
	inspectNoLit(body, func(n ast.Node) bool {
		switch x := n.(type) {
		case *ast.CallExpr:
			for _, a := range s.sortedArgs(f, x, depth) {
				if a.elem == elem && a.place(info, body) == root {
					if d, ok := f.at(x.Pos(), src(f.pk.Fset, x)); ok {
						if as := c12AssignOf(f, x, root); as != nil && a.e != nil {
							// root = h(root): fine when h hands its (sorted) parameter back
							if !s.returnsArg(f, x, a.e) {
								continue
							}
							d.skip = as
						}
						out = append(out, d)
					}
				}
			}
		case *ast.RangeStmt, *ast.ForStmt:
			if elem {
				if d, ok := s.loopSortsAll(f, x.(ast.Stmt), root, depth); ok {
					out = append(out, d)
				}
			}
		}
		return true
	})
	return out
}

// c12AssignOf: the assignment `root = call` / `root, err = call` that stores a result of call in root, if any.
func c12AssignOf(f *c12Fn, call *ast.CallExpr, root types.Object) *ast.AssignStmt {
	var out *ast.AssignStmt
	inspectNoLit(f.fi.Decl.Body, func(n ast.Node) bool {
		as, ok := n.(*ast.AssignStmt)
		if !ok || len(as.Rhs) != 1 || ast.Unparen(as.Rhs[0]) != ast.Expr(call) {
			return true
		}
		for _, l := range as.Lhs {
			if c12WritesPlace(f.info(), f.fi.Decl.Body, l, root) {
				out = as
			}
		}
		return true
	})
	return out
}

// returnsArg: every return of the callee of call returns, as its first list-typed result, the parameter bound to arg.
func (s *c12Sorter) returnsArg(f *c12Fn, call *ast.CallExpr, arg ast.Expr) bool {
	h := s.fn(callee(f.info(), call))
	if h == nil {
		return false
	}
	var p types.Object
	for _, q := range c12Params(h.info(), h.fi.Decl) {
		if q != nil && argForParam(h.info(), h.fi, call, q) == arg {
			p = q
		}
	}
	res := h.fi.Obj.Type().(*types.Signature).Results()
	k := -1
	for i := 0; i < res.Len(); i++ {
		if p != nil && types.Identical(res.At(i).Type(), p.Type()) && k < 0 {
			k = i
		}
	}
	if p == nil || k < 0 || c12Assigned(h.info(), h.fi.Decl.Body, p) {
		return false
	}
	n, ok := 0, true
	inspectNoLit(h.fi.Decl.Body, func(x ast.Node) bool {
		if ret, isRet := x.(*ast.ReturnStmt); isRet {
			n++
			if e, v := c12ResultExpr(h, ret, k); v != p && !(e != nil && c12IsNil(h.info(), e)) {
				ok = false
			}
		}
		return true
	})
	return ok && n > 0
}

// loopSortsAll: loop l visits every element of root and sorts it on every iteration; the loop cannot be left early.
func (s *c12Sorter) loopSortsAll(f *c12Fn, l ast.Stmt, root types.Object, depth int) (c12Done, bool) {
	info := f.info()
	fbody := f.fi.Decl.Body
	var val, idx types.Object
	var lbody *ast.BlockStmt
	switch x := l.(type) {
	case *ast.RangeStmt:
		if c12Resolve(info, fbody, x.X) != root {
			return c12Done{}, false
		}
		if x.Key != nil {
			idx = objOf(info, x.Key)
		}
		if x.Value != nil {
			val = objOf(info, x.Value)
		}
		lbody = x.Body
	case *ast.ForStmt:
		// for i := 0; i < len(root); i++
		init, ok := x.Init.(*ast.AssignStmt)
		if !ok || len(init.Lhs) != 1 || len(init.Rhs) != 1 || x.Cond == nil || x.Post == nil {
			return c12Done{}, false
		}
		if z, ok := constInt(info, init.Rhs[0]); !ok || z != 0 {
			return c12Done{}, false
		}
		idx = objOf(info, init.Lhs[0])
		lhs, op, rhs, ok := cmpNorm(x.Cond)
		if !ok || op != token.LSS || idx == nil || objOf(info, lhs) != idx {
			return c12Done{}, false
		}
		lc, ok := ast.Unparen(rhs).(*ast.CallExpr)
		if !ok || builtinName(info, lc) != "len" || len(lc.Args) != 1 || c12Resolve(info, fbody, lc.Args[0]) != root {
			return c12Done{}, false
		}
		switch p := x.Post.(type) {
		case *ast.IncDecStmt:
			if p.Tok != token.INC || objOf(info, p.X) != idx {
				return c12Done{}, false
			}
		case *ast.AssignStmt:
			one, isOne := int64(0), false
			if len(p.Rhs) == 1 {
				one, isOne = constInt(info, p.Rhs[0])
			}
			if p.Tok != token.ADD_ASSIGN || len(p.Lhs) != 1 || objOf(info, p.Lhs[0]) != idx || !isOne || one != 1 {
				return c12Done{}, false
			}
		default:
			return c12Done{}, false
		}
		lbody = x.Body
	default:
		return c12Done{}, false
	}
	for _, o := range []types.Object{val, idx} {
		if o != nil && c12Assigned(info, lbody, o) {
			return c12Done{}, false
		}
	}
	head, bodyB, done := f.loopBlocks(l)
	if head == nil || bodyB == nil || done == nil || !done.Live {
		return c12Done{}, false
	}
	// the loop is left only through its head (no break, no goto into the done block)
	for _, p := range f.pred[done] {
		if p != head {
			return c12Done{}, false
		}
	}
	isCur := func(e ast.Expr) bool {
		e = c12StripConv(info, e)
		if ix, ok := e.(*ast.IndexExpr); ok {
			return idx != nil && objOf(info, c12StripConv(info, ix.Index)) == idx && c12Resolve(info, fbody, ix.X) == root
		}
		if val == nil {
			return false
		}
		if o := objOf(info, e); o != nil {
			if o == val {
				return true
			}
			// u := v / u := root[i]
			if rhs := c12SingleDef(info, lbody, o); rhs != nil {
				rhs = c12StripConv(info, rhs)
				if objOf(info, rhs) == val {
					return true
				}
			}
		}
		return false
	}
	isCurIdx := func(e ast.Expr) bool {
		if isCur(e) {
			return true
		}
		if o := objOf(info, c12StripConv(info, e)); o != nil && idx != nil {
			if rhs := c12SingleDef(info, lbody, o); rhs != nil {
				if ix, ok := c12StripConv(info, rhs).(*ast.IndexExpr); ok {
					return objOf(info, c12StripConv(info, ix.Index)) == idx && c12Resolve(info, fbody, ix.X) == root
				}
			}
		}
		return false
	}
	// back-edge sources: blocks of the body that jump to the head (or, for a for-loop, run the post statement)
	inLoop := reachableFrom([]*cfg.Block{bodyB}, func(b *cfg.Block) bool { return b == head })
	var back []*cfg.Block
	for _, p := range f.pred[head] {
		if inLoop[p] && p != head {
			back = append(back, p)
		}
	}
	if len(back) == 0 {
		return c12Done{}, false
	}
	ok := false
	inspectNoLit(lbody, func(n ast.Node) bool {
		call, isCall := n.(*ast.CallExpr)
		if !isCall || ok {
			return true
		}
		for _, a := range s.sortedArgs(f, call, depth) {
			if a.elem || a.e == nil || !isCurIdx(a.e) {
				continue
			}
			cb, _ := blockOf(f.g, call.Pos())
			if cb == nil {
				continue
			}
			all := true
			for _, p := range back {
				if p != cb && !f.dom[p][cb] {
					all = false
				}
			}
			if all {
				if same, why := s.sortedIsStored(f, lbody, call, a.e, root, idx, val, isCurIdx); !same {
					s.note("%s", why)
					continue
				}
				ok = true
			}
		}
		return true
	})
	if !ok {
		return c12Done{}, false
	}
	return c12Done{block: done, idx: -1, desc: "loop `" + c12LoopHeader(f.pk.Fset, l) + "`"}, true
}

func c12LoopHeader(fset *token.FileSet, l ast.Stmt) string {
	switch x := l.(type) {
	case *ast.RangeStmt:
		s := "for "
		if x.Key != nil {
			s += src(fset, x.Key)
			if x.Value != nil {
				s += ", " + src(fset, x.Value)
			}
			s += " " + x.Tok.String() + " "
		}
		return s + "range " + src(fset, x.X)
	case *ast.ForStmt:
		return "for " + src(fset, x.Init) + "; " + src(fset, x.Cond) + "; " + src(fset, x.Post)
	}
	return "loop"
}

// ---- returns ----

const (
	c12OK = iota
	c12Bad
	c12Unk
	c12Triv
)

// c12ResultVar returns the variable a return statement returns as result k (nil when the expression is not a
// variable), and the expression.
func c12ResultExpr(f *c12Fn, ret *ast.ReturnStmt, k int) (ast.Expr, types.Object) {
	info := f.info()
	if len(ret.Results) == 0 {
		// bare return: the named result
		i := 0
		if f.fi.Decl.Type.Results != nil {
			for _, fl := range f.fi.Decl.Type.Results.List {
				for _, nm := range fl.Names {
					if i == k {
						return nil, info.Defs[nm]
					}
					i++
				}
			}
		}
		return nil, nil
	}
	if k < len(ret.Results) && len(ret.Results) == f.fi.Obj.Type().(*types.Signature).Results().Len() {
		e := ret.Results[k]
		return e, c12Resolve(info, f.fi.Decl.Body, e)
	}
	if len(ret.Results) == 1 {
		return ret.Results[0], nil // return h(...) passing several results through
	}
	return nil, nil
}

func c12IsNil(info *types.Info, e ast.Expr) bool {
	if e == nil {
		return false
	}
	tv, ok := info.Types[ast.Unparen(e)]
	return ok && tv.IsNil()
}

// retSorted decides whether result k of return statement ret is sorted (element level if elem) when the function
// returns; after, if set, is a point the sort must follow (the end of the loop that filled the slice).
func (s *c12Sorter) retSorted(f *c12Fn, ret *ast.ReturnStmt, k int, elem bool, after *c12Done, depth int) (int, string) {
	info := f.info()
	e, v := c12ResultExpr(f, ret, k)
	if e != nil && c12IsNil(info, e) {
		return c12Triv, "returns nil"
	}
	if v == nil && e != nil {
		v = s.getterPlace(f, e) // return a.lists(): an accessor of a field
	}
	if v != nil {
		for _, d := range s.sortsOf(f, v, elem, depth) {
			if (after == nil || f.follows(d, *after)) && f.dominates(d, ret.Pos()) {
				if m := f.writtenBetween(v, d, ret); m != nil {
					return c12Bad, "`" + src(f.pk.Fset, m) + "` changes " + v.Name() + " after it was sorted by " + d.desc
				}
				return c12OK, "the returned lists are sorted by " + d.desc + ", which dominates the return"
			}
		}
		// the variable holds the result of a function of the package that returns it sorted
		if after == nil && depth > 0 {
			if call, rk, _ := c12CallDef(info, f.fi.Decl.Body, v); call != nil {
				if h := s.fn(callee(info, call)); h != nil {
					if st, why := s.allReturnsSorted(h, rk, elem, depth-1); st == c12OK {
						return c12OK, v.Name() + " holds the result of " + h.fi.Name() + ", which " + why
					}
				}
			}
		}
		if after == nil && f.freshAt(v, ret) {
			return c12Triv, v.Name() + " is still as allocated (nothing has been put into it on any path to this return)"
		}
		return c12Bad, "no complete sort into the canonical order (for updates: SortByIndex, i.e. Index, Timestamp, Version) of " + map[bool]string{true: "every element of ", false: ""}[elem] + v.Name() + " dominates `" + src(f.pk.Fset, ret) + "`"
	}
	if e != nil && after == nil && depth > 0 {
		if call, ok := ast.Unparen(e).(*ast.CallExpr); ok {
			if h := s.fn(callee(info, call)); h != nil {
				rk := k
				if len(ret.Results) != 1 || f.fi.Obj.Type().(*types.Signature).Results().Len() == 1 {
					rk = 0
				}
				st, why := s.allReturnsSorted(h, rk, elem, depth-1)
				if st == c12OK {
					return c12OK, "the result of " + h.fi.Name() + " is returned, which " + why
				}
				return st, h.fi.Name() + ": " + why
			}
		}
	}
	return c12Unk, "the returned expression `" + src(f.pk.Fset, ret) + "` is neither a variable nor the result of a function of the repository"
}

// freshAt: v is a local that was allocated empty (make, empty literal, var) and nothing can have been stored into it
// on any path to ret: no element/field store, no call that receives it.
func (f *c12Fn) freshAt(v types.Object, ret *ast.ReturnStmt) bool {
	info := f.info()
	body := f.fi.Decl.Body
	if c12ParamPos(info, f.fi.Decl, v) >= 0 || c12IsPlace(v) {
		return false
	}
	if rhs := c12SingleDef(info, body, v); rhs != nil {
		switch x := ast.Unparen(rhs).(type) {
		case *ast.CallExpr:
			if builtinName(info, x) != "make" {
				return false
			}
		case *ast.CompositeLit:
			if len(x.Elts) != 0 {
				return false
			}
		default:
			return false
		}
	} else if c12Assigned(info, body, v) {
		return false
	}
	rb, _ := blockOf(f.g, ret.Pos())
	if rb == nil {
		return false
	}
	touched := false
	ast.Inspect(body, func(n ast.Node) bool {
		if touched {
			return false
		}
		var hit bool
		switch x := n.(type) {
		case *ast.FuncLit:
			if usesObj(info, x, v) {
				touched = true
			}
			return false
		case *ast.AssignStmt:
			for _, l := range x.Lhs {
				if _, plain := ast.Unparen(l).(*ast.Ident); !plain && c12RootVar(info, l) == v {
					hit = true
				}
			}
			// aliasing: w := v
			for _, rr := range x.Rhs {
				if c12RootVar(info, rr) == v {
					if _, isCall := ast.Unparen(rr).(*ast.CallExpr); !isCall {
						hit = true
					}
				}
			}
		case *ast.IncDecStmt:
			hit = c12RootVar(info, x.X) == v
		case *ast.CallExpr:
			if b := builtinName(info, x); b == "len" || b == "cap" {
				return true
			}
			for _, a := range x.Args {
				if usesObj(info, a, v) {
					hit = true
				}
			}
		case *ast.RangeStmt:
			// for _, x := range v hands out copies of the (empty) elements only
		}
		if hit {
			b, _ := blockOf(f.g, n.Pos())
			if b == nil || b == rb && n.Pos() < ret.Pos() || b != rb && reachableFrom([]*cfg.Block{b}, nil)[rb] {
				touched = true
			}
			if b == rb && n.Pos() >= ret.Pos() && reachableFrom(b.Succs, nil)[rb] {
				touched = true
			}
		}
		return true
	})
	return !touched
}

// writtenBetween returns an assignment to v (or to one of its elements) that can execute after point d and before
// ret. Element stores made by the sorting construct itself are calls, not assignments, and are not affected.
func (f *c12Fn) writtenBetween(v types.Object, d c12Done, ret *ast.ReturnStmt) ast.Node {
	info := f.info()
	rb, _ := blockOf(f.g, ret.Pos())
	var hit ast.Node
	inspectNoLit(f.fi.Decl.Body, func(n ast.Node) bool {
		if hit != nil {
			return false
		}
		var lhs []ast.Expr
		switch x := n.(type) {
		case *ast.AssignStmt:
			lhs = x.Lhs
		case *ast.IncDecStmt:
			lhs = []ast.Expr{x.X}
		default:
			return true
		}
		for _, l := range lhs {
			if !c12WritesPlace(info, f.fi.Decl.Body, l, v) || n == d.skip {
				continue
			}
			b, _ := blockOf(f.g, n.Pos())
			if b == nil || !b.Live || !f.dominates(d, n.Pos()) {
				continue
			}
			if b == rb || reachableFrom([]*cfg.Block{b}, nil)[rb] {
				hit = n
			}
		}
		return true
	})
	return hit
}

// allReturnsSorted: every return of h returns result k sorted (or nil), and at least one returns a value.
func (s *c12Sorter) allReturnsSorted(h *c12Fn, k int, elem bool, depth int) (int, string) {
	key := fmt.Sprintf("rets %p %d %v", h, k, elem)
	if v, ok := s.memo[key]; ok {
		if v == 1 {
			return c12OK, "sorts it before every return"
		}
		return c12Bad, "does not sort it before every return"
	}
	s.memo[key] = 0
	n, st, why := 0, c12OK, ""
	inspectNoLit(h.fi.Decl.Body, func(x ast.Node) bool {
		ret, ok := x.(*ast.ReturnStmt)
		if !ok {
			return true
		}
		rs, rw := s.retSorted(h, ret, k, elem, nil, depth)
		switch rs {
		case c12OK:
			n++
		case c12Triv:
		default:
			if st == c12OK {
				st, why = rs, rw
			}
		}
		return true
	})
	if st == c12OK && n == 0 {
		st, why = c12Bad, "never returns a value"
	}
	if st == c12OK {
		s.memo[key] = 1
		return c12OK, "sorts it before every return"
	}
	s.memo[key] = 2
	return st, why
}

// ---- what a map-range body fills ----

type c12Taint struct {
	root types.Object
	elem bool // the appends go to elements of root (root[k] = append(root[k], ...))
	pos  token.Pos
	via  string
}

// c12RootVar returns the variable at the root of a selector/index/slice chain.
func c12RootVar(info *types.Info, e ast.Expr) types.Object {
	for {
		switch x := ast.Unparen(e).(type) {
		case *ast.Ident:
			return objOf(info, x)
		case *ast.SelectorExpr:
			e = x.X
		case *ast.IndexExpr:
			e = x.X
		case *ast.StarExpr:
			e = x.X
		case *ast.SliceExpr:
			e = x.X
		case *ast.CallExpr:
			if len(x.Args) == 1 {
				if y := c12StripConv(info, x); y != ast.Expr(x) {
					e = y
					continue
				}
			}
			return nil
		default:
			return nil
		}
	}
}

// taints lists the variables declared outside node that the code in node (and the helpers it calls) grows by
// append, i.e. whose element order follows the order in which node is executed repeatedly.
func (s *c12Sorter) taints(f *c12Fn, node ast.Node, depth int) []c12Taint {
	info := f.info()
	var out []c12Taint
	add := func(t c12Taint) {
		v, ok := t.root.(*types.Var)
		if !ok || (v.Pos() >= node.Pos() && v.Pos() <= node.End()) {
			return // declared inside: a per-iteration accumulator
		}
		for _, o := range out {
			if o.root == t.root && o.elem == t.elem {
				return
			}
		}
		out = append(out, t)
	}
	ast.Inspect(node, func(n ast.Node) bool {
		switch x := n.(type) {
		case *ast.AssignStmt:
			for i, rhs := range x.Rhs {
				if i >= len(x.Lhs) || len(x.Lhs) != len(x.Rhs) {
					continue
				}
				call, ok := ast.Unparen(rhs).(*ast.CallExpr)
				if !ok {
					continue
				}
				root, isIdx := c12ListPlace(info, f.fi.Decl.Body, x.Lhs[i])
				if root == nil {
					root = c12RootVar(info, x.Lhs[i])
					_, isIdx = ast.Unparen(x.Lhs[i]).(*ast.IndexExpr)
				}
				if root == nil {
					continue
				}
				if builtinName(info, call) == "append" {
					add(c12Taint{root: root, elem: isIdx, pos: x.Pos(), via: src(f.pk.Fset, x)})
					continue
				}
				// L = h(..., L, ...): accumulation through a helper
				if h := s.fn(callee(info, call)); h != nil {
					if _, isSlice := info.TypeOf(x.Lhs[i]).Underlying().(*types.Slice); isSlice {
						for _, a := range call.Args {
							if c12WritesPlace(info, f.fi.Decl.Body, a, root) {
								add(c12Taint{root: root, elem: isIdx, pos: x.Pos(), via: src(f.pk.Fset, x)})
							}
						}
					}
				}
			}
		case *ast.CallExpr:
			if depth <= 0 {
				return true
			}
			h := s.fn(callee(info, x))
			if h == nil {
				return true
			}
			var inner []c12Taint
			for _, p := range c12Params(h.info(), h.fi.Decl) {
				if p == nil {
					continue
				}
				arg := argForParam(h.info(), h.fi, x, p)
				if arg == nil {
					continue
				}
				root := c12Resolve(info, f.fi.Decl.Body, stripDerefParen(c12StripConv(info, arg)))
				if root == nil {
					continue // only whole variables and fields share their elements with the callee
				}
				if inner == nil {
					inner = s.fnTaints(h, depth-1)
				}
				for _, t := range inner {
					// p[k] = append(p[k], ...) in the callee writes the caller's elements; p = append(p, ...) does not
					tr, tpath := c12PlaceParts(t.root)
					if tr == p && (t.elem || (len(tpath) > 0 && c12SharesWithCaller(p, tpath))) {
						add(c12Taint{root: c12OnBase(root, tpath), elem: t.elem, pos: x.Pos(), via: src(f.pk.Fset, x) + " -> " + t.via})
					}
				}
			}
		}
		return true
	})
	return out
}

// fnTaints: the parameters of h that h grows.
func (s *c12Sorter) fnTaints(h *c12Fn, depth int) []c12Taint {
	key := fmt.Sprintf("taints %p", h)
	if _, busy := s.memo[key]; busy {
		return nil
	}
	s.memo[key] = 0
	defer delete(s.memo, key)
	// the body is the repeated region; parameters are declared outside of it
	return s.taints(h, h.fi.Decl.Body, depth)
}

// callSites lists the static calls of fn in the annotate tree (its own package first).
func (s *c12Sorter) callSites(fn *c12Fn) []c12CallSite {
	var out []c12CallSite
	pks := []*packages.Package{fn.pk}
	for _, pk := range annotateTree(s.p) {
		if pk != fn.pk {
			pks = append(pks, pk)
		}
	}
	for _, pk := range pks {
		for _, g := range allFuncs(pk) {
			g := g
			ast.Inspect(g.Decl.Body, func(n ast.Node) bool {
				if call, ok := n.(*ast.CallExpr); ok && callee(pk.TypesInfo, call) == fn.fi.Obj {
					out = append(out, c12CallSite{in: g, call: call})
				}
				return true
			})
		}
	}
	return out
}

type c12CallSite struct {
	in   *FuncInfo
	call *ast.CallExpr
	via  *ast.CallExpr // for a literal invoked inside a helper: the call that passes the literal to the helper
}

// escapeSorted decides whether variable root of f, filled in an order that is not deterministic up to point after,
// is sorted on every way out of the package's unexported code: every return of it that is reachable from after must
// be dominated by a complete sort that follows after; an unexported function may hand it unsorted to its callers,
// which then carry the obligation.
func (s *c12Sorter) escapeSorted(f *c12Fn, root types.Object, elem bool, after c12Done, depth int) (int, string) {
	info := f.info()
	reach := reachableFrom([]*cfg.Block{after.block}, nil)
	nret, nsorted := 0, 0
	st, why := c12OK, ""
	resIdx := -1
	inspectNoLit(f.fi.Decl.Body, func(n ast.Node) bool {
		ret, ok := n.(*ast.ReturnStmt)
		if !ok {
			return true
		}
		rb, _ := blockOf(f.g, ret.Pos())
		if rb == nil || !reach[rb] {
			return true
		}
		k := -1
		nres := f.fi.Obj.Type().(*types.Signature).Results().Len()
		for i := 0; i < nres; i++ {
			e, v := c12ResultExpr(f, ret, i)
			if v == nil && e != nil {
				v = s.getterPlace(f, e)
			}
			if v == root {
				k = i
			}
		}
		if k < 0 {
			// return h(root), ...: h sorts its parameter and hands it back
			for _, e := range ret.Results {
				if call, ok := ast.Unparen(e).(*ast.CallExpr); ok {
					for _, a := range s.sortedArgs(f, call, depth) {
						if a.elem == elem && a.e != nil && c12Resolve(info, f.fi.Decl.Body, a.e) == root && s.returnsArg(f, call, a.e) {
							k = -2
						}
					}
				}
			}
			if k == -2 {
				nret++
				nsorted++
				return true
			}
			if usesObj(info, ret, root) && st == c12OK {
				st, why = c12Unk, "`"+src(f.pk.Fset, ret)+"` uses "+root.Name()+" in a way the rule does not follow"
			}
			return true
		}
		nret++
		resIdx = k
		rs, rw := s.retSorted(f, ret, k, elem, &after, depth)
		if rs == c12OK {
			nsorted++
		} else if st == c12OK {
			st, why = rs, rw
		}
		return true
	})
	if nret == 0 && st == c12OK {
		if pst, pwhy, applies := s.escapeThroughParam(f, root, elem, after, depth); applies {
			return pst, pwhy
		}
		return c12Unk, "the point where " + root.Name() + " leaves " + f.fi.Name() + " was not found (it is not returned after being filled)"
	}
	if st == c12OK {
		return c12OK, fmt.Sprintf("every return of %s after the loop (%d) is dominated by a complete sort into the canonical order (for updates: Index, Timestamp, Version)", root.Name(), nret)
	}
	if st == c12Bad && nsorted == 0 && depth > 0 && !f.fi.Obj.Exported() {
		// handed unsorted to the callers inside the package
		sites := s.callSites(f)
		if len(sites) > 0 {
			for _, cs := range sites {
				g := s.fn(cs.in.Obj)
				if g == nil {
					return c12Unk, "caller " + cs.in.Name() + " could not be analysed"
				}
				v := c12CallResultVar(g, cs.call, resIdx)
				if v == nil {
					return c12Unk, "the result of " + f.fi.Name() + " is not stored in a variable in " + cs.in.Name()
				}
				at, ok := g.at(cs.call.Pos(), "call of "+f.fi.Name())
				if !ok {
					return c12Unk, "call of " + f.fi.Name() + " in " + cs.in.Name() + " is unreachable"
				}
				cst, cwhy := s.escapeSorted(g, v, elem, at, depth-1)
				if cst != c12OK {
					return cst, f.fi.Name() + " returns " + root.Name() + " unsorted and its caller " + cs.in.Name() + " does not sort it: " + cwhy
				}
			}
			return c12OK, fmt.Sprintf("%s hands %s unsorted to its %d caller(s) in the package, each of which sorts it before it returns it", f.fi.Name(), root.Name(), len(sites))
		}
	}
	return st, why
}

// c12CallResultVar: the variable that receives result k of call in g (`..., v, ... := call`).
func c12CallResultVar(g *c12Fn, call *ast.CallExpr, k int) types.Object {
	var v types.Object
	ast.Inspect(g.fi.Decl.Body, func(n ast.Node) bool {
		as, ok := n.(*ast.AssignStmt)
		if !ok || len(as.Rhs) != 1 || ast.Unparen(as.Rhs[0]) != ast.Expr(call) || k >= len(as.Lhs) {
			return true
		}
		v = objOf(g.info(), as.Lhs[k])
		return false
	})
	return v
}
