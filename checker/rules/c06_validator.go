package rules

import (
	"fmt"
	"go/ast"
	"go/types"

	"osmcheck/core"
)

// c06ValidatorBounds: guards extracted into a validating function. A fact "E is nil", where E is (a local read once
// from) a call `check(args...)` of a function of the package whose last result is an error, imports what the guard
// facts establish about check's parameters at every return of check that may yield a nil error; the bounds of a
// parameter hold for the argument passed. isVal recognises the value of interest among expressions of f.
func c06ValidatorBounds(r *core.R, f *c01Fn, facts []guardFact, isVal func(ast.Expr) bool, out *c06Bound, depth int) {
	info := f.info
	if depth > 2 {
		return
	}
	for _, ft := range facts {
		x, neq, ok := c01NilCmp(ft.expr)
		if !ok || ft.val == neq {
			continue // need `X == nil` true or `X != nil` false
		}
		call, ok := ast.Unparen(c01Expand(info, f.body, x)).(*ast.CallExpr)
		if !ok {
			// `err := check(v)` with several results: the error variable of a tuple definition
			if o := objOf(info, x); o != nil {
				if ds := c01Defs(info, f.body, o); len(ds) == 1 && ds[0].rhs != nil {
					call, _ = ast.Unparen(ds[0].rhs).(*ast.CallExpr)
				}
			}
		}
		if call == nil {
			continue
		}
		g := c01Callee(f.pk, call)
		if g == nil {
			continue
		}
		sig := g.Obj.Type().(*types.Signature)
		if sig.Results().Len() == 0 || !isErrorType(sig.Results().At(sig.Results().Len()-1).Type()) {
			continue
		}
		params := c01ParamObjs(info, g)
		for i, a := range call.Args {
			if i >= len(params) || params[i] == nil || !isVal(a) {
				continue
			}
			po := params[i]
			if len(c01Defs(info, g.Decl.Body, po)) != 0 {
				continue // the parameter is modified inside the validator
			}
			gf := c01FnOf(r.P, g)
			isParam := func(e ast.Expr) bool {
				return objOf(info, c01StripConv(info, c01Expand(info, gf.body, c01StripConv(info, e)))) == po
			}
			merged := &c06Bound{hasUpper: true, upper: -1 << 62, nonNeg: true}
			nret := 0
			ast.Inspect(g.Decl.Body, func(n ast.Node) bool {
				if _, isLit := n.(*ast.FuncLit); isLit {
					return false
				}
				ret, isRet := n.(*ast.ReturnStmt)
				if !isRet || len(ret.Results) == 0 {
					return true
				}
				rfacts := gf.factsAtPos(ret.Pos())
				if c01IsErrNonNilExpr(info, ret.Results[len(ret.Results)-1], rfacts) {
					return true
				}
				nret++
				one := &c06Bound{}
				c06BoundsFromFacts(r.P.Fset, info, rfacts, isParam, one, g.Name())
				c06ValidatorBounds(r, gf, rfacts, isParam, one, depth+1)
				if !one.hasUpper {
					merged.hasUpper = false
				} else if one.upper > merged.upper {
					merged.upper = one.upper
				}
				if !one.nonNeg {
					merged.nonNeg = false
				}
				merged.proof = append(merged.proof, one.proof...)
				return true
			})
			if nret == 0 {
				continue
			}
			why := fmt.Sprintf("%s: `%s` returned a nil error", f.fi.Name(), types.ExprString(call))
			if merged.hasUpper {
				out.setUpper(merged.upper, why)
			}
			if merged.nonNeg && !out.nonNeg {
				out.nonNeg = true
				out.proof = append(out.proof, why)
			}
			seen := map[string]bool{}
			for _, p := range out.proof {
				seen[p] = true
			}
			for _, p := range merged.proof {
				if !seen[p] {
					seen[p] = true
					out.proof = append(out.proof, p)
				}
			}
		}
	}
}
