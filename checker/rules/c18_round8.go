package rules

import "osmcheck/core"

// Round 8 (performance-motivated): a `no tags -> false` fast path; one pass over the tags with the rules looked
// up in a key index built once in init, keeping first-occurrence semantics.

const c18SrcAreaLine = "\tif area := w.Tags.Find(\"area\"); area == \"no\" {\n"

const c18ShapeEmptyFastPath = "\ttags := w.Tags\n\tif len(tags) == 0 {\n\t\t// nothing can make this an area.\n\t\treturn false\n\t}\n\n" + c18SrcAreaLine

const c18SrcLoopInitTable = c18SrcLoop + "\n" + c18SrcInit + "\nvar polyConditions []polyCondition\n"

const c18ShapeTagsOuterLoop = `	tags := w.Tags
	for i := range tags {
		t := &tags[i]

		ci, ok := polyConditionIndex[t.Key]
		if !ok || !polyConditions[ci].matches(t.Value) {
			continue
		}

		// only the first tag of a key counts, as with Tags.Find.
		if tags[:i].HasTag(t.Key) {
			continue
		}

		return true
	}

	return false
}

func (c *polyCondition) matches(v string) bool {
	if v == "" || v == "no" {
		return false
	}

	switch c.Condition {
	case conditionAll:
		return true
	case conditionWhitelist:
		i := sort.SearchStrings(c.Values, v)
		return i < len(c.Values) && c.Values[i] == v
	case conditionBlacklist:
		i := sort.SearchStrings(c.Values, v)
		return i == len(c.Values) || c.Values[i] != v
	}

	return false
}

func init() {
	err := json.Unmarshal(polygonJSON, &polyConditions)
	if err != nil {
		// This must be valid json
		panic(err)
	}

	polyConditionIndex = make(map[string]int, len(polyConditions))
	for i := range polyConditions {
		p := &polyConditions[i]
		sort.Strings(p.Values)

		if _, ok := polyConditionIndex[p.Key]; ok {
			panic("osm: duplicate polygon condition key: " + p.Key)
		}
		polyConditionIndex[p.Key] = i
	}
}

var polyConditions []polyCondition

// polyConditionIndex maps a condition key to its index in polyConditions.
var polyConditionIndex map[string]int
`

func c18Round8Benign() []core.Mutant {
	return []core.Mutant{
		{Name: "empty-tags-fast-path", File: "polygon.go", Find: c18SrcAreaLine, Replace: c18ShapeEmptyFastPath},
		{Name: "tags-outer-loop-with-key-index", File: "polygon.go", Find: c18SrcLoopInitTable, Replace: c18ShapeTagsOuterLoop},
	}
}

func c18Round8Mutants() []core.Mutant {
	return []core.Mutant{
		c18Seed("fast-path-answers-true", c18SrcAreaLine, c18ShapeEmptyFastPath, "\t\treturn false\n", "\t\treturn true\n", "L3", "no tags at all"),
		c18Seed("fast-path-precondition-too-wide", c18SrcAreaLine, c18ShapeEmptyFastPath, "len(tags) == 0", "len(tags) <= 3", "L3", ""),
		c18Seed("tags-loop-duplicate-guard-dropped", c18SrcLoopInitTable, c18ShapeTagsOuterLoop, "\t\tif tags[:i].HasTag(t.Key) {\n\t\t\tcontinue\n\t\t}\n\n", "", "L3", "tag order and duplicate keys"),
		c18Seed("tags-loop-returns-on-first-ruleless-tag", c18SrcLoopInitTable, c18ShapeTagsOuterLoop, "\t\tif !ok || !polyConditions[ci].matches(t.Value) {\n\t\t\tcontinue\n\t\t}\n", "\t\tif !ok {\n\t\t\treturn false\n\t\t}\n\t\tif !polyConditions[ci].matches(t.Value) {\n\t\t\tcontinue\n\t\t}\n", "L3", "branch"),
		c18Seed("key-index-skips-list-rules", c18SrcLoopInitTable, c18ShapeTagsOuterLoop, "\t\tpolyConditionIndex[p.Key] = i\n", "\t\tif len(p.Values) > 0 {\n\t\t\tcontinue\n\t\t}\n\t\tpolyConditionIndex[p.Key] = i\n", "L3", "branch"),
		c18Seed("key-index-off-by-one", c18SrcLoopInitTable, c18ShapeTagsOuterLoop, "\t\tpolyConditionIndex[p.Key] = i\n", "\t\tpolyConditionIndex[p.Key] = i + 1\n", "L3", "branch"),
	}
}
