package rules

import (
	"go/ast"
	"go/constant"
	"go/token"
	"go/types"

	"golang.org/x/tools/go/packages"
)

// Function values and struct values in the comparator interpreter.
//
// A sort adapter may hold its comparator in a field (`sorter{us: us, less: byIndex}`), a sort.Slice call may receive
// a closure variable or a method value. The interpreter therefore treats functions as values: a declared function, a
// method bound to its receiver, a method expression, or a function literal together with the environment it was
// created in. Struct values exist only as built by composite literals (and `x.f = v` on a local holding one); reading
// a field yields the value bound where the struct was built, so the comparator actually handed to the sort at each
// construction site is the one that is evaluated.

type c12FuncVal struct {
	fn   *types.Func  // declared function or method
	lit  *ast.FuncLit // function literal
	recv *c12Val      // receiver of a bound method (nil for functions and method expressions)
	env  c12Env       // environment of a literal
}

// run interprets the comparator of the run: its entry function value applied to its arguments, or its body.
func (ru *c12Run) run(depth int) ([]c12Val, string) {
	if ru.c.entry != nil {
		return ru.apply(ru.c.entry, ru.c.args, depth)
	}
	return ru.fn(ru.c.ftype, ru.c.body, c12Env{}, depth)
}

// methodValue evaluates x.m (method value) and T.m (method expression).
func (ru *c12Run) methodValue(x *ast.SelectorExpr, sel *types.Selection, env c12Env, depth int) c12Val {
	fn, ok := sel.Obj().(*types.Func)
	if !ok {
		return c12Unknown("`%s` is not a method", ru.src(x))
	}
	f := &c12FuncVal{fn: fn}
	if sel.Kind() == types.MethodVal {
		rv := ru.expr(x.X, env, depth)
		if rv.k == c12KUnknown {
			return rv
		}
		f.recv = &rv
	}
	return c12Val{k: c12KFunc, fv: f}
}

// composite evaluates a struct literal (keyed or positional) to a struct value.
func (ru *c12Run) composite(x *ast.CompositeLit, env c12Env, depth int) c12Val {
	t := ru.info().TypeOf(x)
	if t == nil {
		return c12Unknown("untyped literal `%s`", ru.src(x))
	}
	st, ok := t.Underlying().(*types.Struct)
	if !ok {
		switch t.Underlying().(type) {
		case *types.Array, *types.Slice, *types.Map:
			return c12Val{k: c12KTable, typ: t, fv: &c12FuncVal{env: env}, tbl: x}
		}
		return c12Unknown("literal `%s` is not a struct", ru.src(x))
	}
	v := c12Val{k: c12KStruct, typ: t, flds: map[*types.Var]c12Val{}}
	for i, e := range x.Elts {
		if kv, ok := e.(*ast.KeyValueExpr); ok {
			id, _ := kv.Key.(*ast.Ident)
			f, _ := ru.info().Uses[id].(*types.Var)
			if id == nil || f == nil {
				return c12Unknown("key of `%s`", ru.src(e))
			}
			v.flds[f] = ru.expr(kv.Value, env, depth)
		} else if i < st.NumFields() {
			v.flds[st.Field(i)] = ru.expr(e, env, depth)
		}
	}
	return v
}

// assignField executes `x.f = v` for a local x that holds a struct value.
func (ru *c12Run) assignField(l ast.Expr, v c12Val, env c12Env) bool {
	sel, ok := ast.Unparen(l).(*ast.SelectorExpr)
	if !ok {
		return false
	}
	f := fieldOf(ru.info(), sel)
	o := objOf(ru.info(), sel.X)
	if f == nil || o == nil {
		return false
	}
	cur, ok := env[o]
	if !ok || cur.k != c12KStruct {
		return false
	}
	nf := map[*types.Var]c12Val{}
	for k, x := range cur.flds {
		nf[k] = x
	}
	nf[f] = v
	cur.flds = nf
	env[o] = cur
	return true
}

// applyArgs evaluates the arguments of call x and applies f.
func (ru *c12Run) applyArgs(f *c12FuncVal, x *ast.CallExpr, env c12Env, depth int) c12Val {
	args := make([]c12Val, len(x.Args))
	for i, a := range x.Args {
		args[i] = ru.expr(a, env, depth)
	}
	vals, why := ru.apply(f, args, depth)
	if why != "" {
		return c12Unknown("%s", why)
	}
	if len(vals) != 1 {
		return c12Unknown("`%s` returns %d values", ru.src(x), len(vals))
	}
	return vals[0]
}

// apply interprets the body of a function value on argument values.
func (ru *c12Run) apply(f *c12FuncVal, args []c12Val, depth int) ([]c12Val, string) {
	info := ru.info()
	if depth <= 0 {
		return nil, "function calls nested too deeply"
	}
	bind := func(env c12Env, params *ast.FieldList) {
		k := 0
		for _, fl := range params.List {
			for _, nm := range fl.Names {
				if o := info.Defs[nm]; o != nil && k < len(args) {
					env[o] = args[k]
				}
				k++
			}
			if len(fl.Names) == 0 {
				k++
			}
		}
	}
	if f.lit != nil {
		env := c12Env{}
		for k, v := range f.env {
			env[k] = v
		}
		bind(env, f.lit.Type.Params)
		return ru.fn(f.lit.Type, f.lit.Body, env, depth-1)
	}
	fn := f.fn
	if fn == nil {
		return nil, "nil function value"
	}
	if fn.Pkg() == nil || fn.Pkg() != ru.c.pk.Types {
		name := fn.Name()
		if fn.Pkg() != nil {
			name = fn.Pkg().Name() + "." + name
		}
		return nil, "call of " + name
	}
	fi := findFunc(ru.c.pk, funcName(fn))
	if fi == nil || fi.Decl.Body == nil {
		return nil, "no body for " + fn.Name()
	}
	if fn.Type().(*types.Signature).Variadic() {
		return nil, "variadic helper " + fn.Name()
	}
	env := c12Env{}
	if fi.Decl.Recv != nil {
		rv := f.recv
		if rv == nil {
			if len(args) == 0 {
				return nil, "method expression " + fn.Name() + " without a receiver argument"
			}
			rv, args = &args[0], args[1:]
		}
		if len(fi.Decl.Recv.List) == 1 && len(fi.Decl.Recv.List[0].Names) == 1 {
			if o := info.Defs[fi.Decl.Recv.List[0].Names[0]]; o != nil {
				env[o] = *rv
			}
		}
	}
	bind(env, fi.Decl.Type.Params)
	return ru.fn(fi.Decl.Type, fi.Decl.Body, env, depth-1)
}

// tableEntry evaluates table[k] for a literal table and a constant k.
func (ru *c12Run) tableEntry(tbl c12Val, x *ast.IndexExpr, env c12Env, depth int) c12Val {
	info := ru.info()
	tv := info.Types[x.Index]
	if iv := ru.expr(x.Index, env, depth); iv.k == c12KInt {
		tv.Value = constant.MakeInt64(iv.n) // a field or local that holds a constant where the value was built
	}
	if tv.Value == nil {
		return c12Unknown("`%s`: the index into the table is not a constant", ru.src(x))
	}
	pos := int64(0)
	for _, e := range tbl.tbl.Elts {
		kv, keyed := e.(*ast.KeyValueExpr)
		val := e
		if keyed {
			val = kv.Value
			ktv, ok := info.Types[kv.Key]
			if !ok || ktv.Value == nil {
				return c12Unknown("`%s`: a key of the table is not a constant", ru.src(x))
			}
			if ktv.Value.Kind() == constant.Int {
				pos, _ = constant.Int64Val(ktv.Value)
			}
			if constant.Compare(ktv.Value, token.EQL, tv.Value) {
				return ru.expr(val, tbl.fv.env, depth)
			}
		} else if tv.Value.Kind() == constant.Int && constant.Compare(constant.MakeInt64(pos), token.EQL, tv.Value) {
			return ru.expr(val, tbl.fv.env, depth)
		}
		pos++
	}
	return c12Unknown("`%s`: the table has no entry for this constant", ru.src(x))
}

// c12PkgVarInit returns the initialiser of a package-level variable of pk that is declared with exactly one value
// and is never assigned (nor has its address taken) anywhere in the package.
func c12PkgVarInit(pk *packages.Package, o types.Object) ast.Expr {
	v, ok := o.(*types.Var)
	if !ok || pk.Types == nil || v.Pkg() != pk.Types || v.Parent() != pk.Types.Scope() {
		return nil
	}
	var init ast.Expr
	written := false
	for _, f := range pk.Syntax {
		ast.Inspect(f, func(n ast.Node) bool {
			switch x := n.(type) {
			case *ast.ValueSpec:
				for i, nm := range x.Names {
					if pk.TypesInfo.Defs[nm] == o && len(x.Values) == len(x.Names) {
						init = x.Values[i]
					}
				}
			case *ast.AssignStmt:
				for _, l := range x.Lhs {
					if c12RootVar(pk.TypesInfo, l) == o {
						written = true
					}
				}
			case *ast.IncDecStmt:
				if c12RootVar(pk.TypesInfo, x.X) == o {
					written = true
				}
			case *ast.UnaryExpr:
				if x.Op == token.AND && c12RootVar(pk.TypesInfo, x.X) == o {
					written = true
				}
			}
			return true
		})
	}
	if written {
		return nil
	}
	return init
}
