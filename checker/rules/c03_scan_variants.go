package rules

import "osmcheck/core"

// Variants for the repaired scanner (d49db14: exact element names; 6e99b00: unknown elements skipped with their
// content, containers and the document element walked into). c03ScanMutants holds the two shapes the scanner had
// before the repairs and defects seeded into the repaired shape; c03ScanBenign are other spellings of it.

// c03ScanFileHead: scanner.go from the import block to the head of the dispatch (one region, because the old shape
// needs the strings import).
const c03ScanFileHead = "import (\n\t\"context\"\n\t\"encoding/xml\"\n\t\"io\"\n\n\t\"github.com/paulmach/osm\"\n)\n\nvar _ osm.Scanner = &Scanner{}\n\n// Scanner provides a convenient interface reading a stream of osm data\n// from a file or url. Successive calls to the Scan method will step through the data.\n//\n// Scanning stops unrecoverably at EOF, the first I/O error, the first xml error or\n// the context being cancelled. When a scan stops, the reader may have advanced\n// arbitrarily far past the last token.\n//\n// The Scanner API is based on bufio.Scanner\n// https://golang.org/pkg/bufio/#Scanner\ntype Scanner struct {\n\tctx    context.Context\n\tdone   context.CancelFunc\n\tclosed bool\n\n\tdecoder  *xml.Decoder\n\trootSeen bool\n\tnext     osm.Object\n\terr      error\n}\n\n// New returns a new Scanner to read from r.\nfunc New(ctx context.Context, r io.Reader) *Scanner {\n\tif ctx == nil {\n\t\tctx = context.Background()\n\t}\n\n\ts := &Scanner{\n\t\tdecoder: xml.NewDecoder(r),\n\t}\n\n\ts.ctx, s.done = context.WithCancel(ctx)\n\treturn s\n}\n\n// Close causes all future calls to Scan to return false.\n// Does not close the underlying reader.\nfunc (s *Scanner) Close() error {\n\ts.closed = true\n\ts.done()\n\n\treturn nil\n}\n\n// Scan advances the Scanner to the next element, which will then be available\n// through the Object method. It returns false when the scan stops, either\n// by reaching the end of the input, an io error, an xml error or the context\n// being cancelled. After Scan returns false, the Err method will return any\n// error that occurred during scanning, except if it was io.EOF, Err will\n// return nil.\nfunc (s *Scanner) Scan() bool {\n\tif s.err != nil {\n\t\treturn false\n\t}\n\nLoop:\n\tfor {\n\t\tif s.ctx.Err() != nil {\n\t\t\treturn false\n\t\t}\n\n\t\tt, err := s.decoder.Token()\n\t\tif err != nil {\n\t\t\ts.err = err\n\t\t\treturn false\n\t\t}\n\n\t\tse, ok := t.(xml.StartElement)\n\t\tif !ok {\n\t\t\tcontinue\n\t\t}\n\n\t\troot := !s.rootSeen\n\t\ts.rootSeen = true\n\n\t\ts.next = nil\n\t\tswitch se.Name.Local {"

const c03ScanFileHeadLower = "import (\n\t\"context\"\n\t\"encoding/xml\"\n\t\"io\"\n\t\"strings\"\n\n\t\"github.com/paulmach/osm\"\n)\n\nvar _ osm.Scanner = &Scanner{}\n\n// Scanner provides a convenient interface reading a stream of osm data\n// from a file or url. Successive calls to the Scan method will step through the data.\n//\n// Scanning stops unrecoverably at EOF, the first I/O error, the first xml error or\n// the context being cancelled. When a scan stops, the reader may have advanced\n// arbitrarily far past the last token.\n//\n// The Scanner API is based on bufio.Scanner\n// https://golang.org/pkg/bufio/#Scanner\ntype Scanner struct {\n\tctx    context.Context\n\tdone   context.CancelFunc\n\tclosed bool\n\n\tdecoder  *xml.Decoder\n\trootSeen bool\n\tnext     osm.Object\n\terr      error\n}\n\n// New returns a new Scanner to read from r.\nfunc New(ctx context.Context, r io.Reader) *Scanner {\n\tif ctx == nil {\n\t\tctx = context.Background()\n\t}\n\n\ts := &Scanner{\n\t\tdecoder: xml.NewDecoder(r),\n\t}\n\n\ts.ctx, s.done = context.WithCancel(ctx)\n\treturn s\n}\n\n// Close causes all future calls to Scan to return false.\n// Does not close the underlying reader.\nfunc (s *Scanner) Close() error {\n\ts.closed = true\n\ts.done()\n\n\treturn nil\n}\n\n// Scan advances the Scanner to the next element, which will then be available\n// through the Object method. It returns false when the scan stops, either\n// by reaching the end of the input, an io error, an xml error or the context\n// being cancelled. After Scan returns false, the Err method will return any\n// error that occurred during scanning, except if it was io.EOF, Err will\n// return nil.\nfunc (s *Scanner) Scan() bool {\n\tif s.err != nil {\n\t\treturn false\n\t}\n\nLoop:\n\tfor {\n\t\tif s.ctx.Err() != nil {\n\t\t\treturn false\n\t\t}\n\n\t\tt, err := s.decoder.Token()\n\t\tif err != nil {\n\t\t\ts.err = err\n\t\t\treturn false\n\t\t}\n\n\t\tse, ok := t.(xml.StartElement)\n\t\tif !ok {\n\t\t\tcontinue\n\t\t}\n\n\t\troot := !s.rootSeen\n\t\ts.rootSeen = true\n\n\t\ts.next = nil\n\t\tswitch strings.ToLower(se.Name.Local) {"

var c03ScanMutants = []core.Mutant{
	{Name: "old-shape-dispatch-on-lower-cased-name", File: "osmxml/scanner.go",
		Find:       c03ScanFileHead,
		Replace:    c03ScanFileHeadLower,
		ExpectRule: "T2", ExpectConstruct: "case \"N"},
	{Name: "old-shape-unknown-elements-walked-into", File: "osmxml/scanner.go",
		Find:       "\t\tdefault:\n\t\t\tif root {\n\t\t\t\t// the document element, whatever its name\n\t\t\t\tcontinue Loop\n\t\t\t}\n\n\t\t\t// an unknown element is ignored with all of its content,\n\t\t\t// like decoding the whole document does.\n\t\t\tif err := s.decoder.Skip(); err != nil {\n\t\t\t\ts.err = err\n\t\t\t\treturn false\n\t\t\t}\n\t\t\tcontinue Loop\n\t\t}\n",
		Replace:    "\t\tdefault:\n\t\t\t_ = root\n\t\t\tcontinue Loop\n\t\t}\n",
		ExpectRule: "T3", ExpectConstruct: "default@"},
	{Name: "skip-error-ignored", File: "osmxml/scanner.go",
		Find:       "\t\t\tif err := s.decoder.Skip(); err != nil {\n\t\t\t\ts.err = err\n\t\t\t\treturn false\n\t\t\t}\n\t\t\tcontinue Loop\n\t\t}\n",
		Replace:    "\t\t\ts.decoder.Skip()\n\t\t\tcontinue Loop\n\t\t}\n",
		ExpectRule: "T3", ExpectConstruct: "skip@"},
	{Name: "skip-error-not-kept", File: "osmxml/scanner.go",
		Find:       "\t\t\tif err := s.decoder.Skip(); err != nil {\n\t\t\t\ts.err = err\n\t\t\t\treturn false\n\t\t\t}\n\t\t\tcontinue Loop\n\t\t}\n",
		Replace:    "\t\t\tif err := s.decoder.Skip(); err != nil {\n\t\t\t\treturn false\n\t\t\t}\n\t\t\tcontinue Loop\n\t\t}\n",
		ExpectRule: "T3", ExpectConstruct: "skip@"},
	{Name: "yields-nil-after-skip", File: "osmxml/scanner.go",
		Find:       "\t\t\tif err := s.decoder.Skip(); err != nil {\n\t\t\t\ts.err = err\n\t\t\t\treturn false\n\t\t\t}\n\t\t\tcontinue Loop\n\t\t}\n",
		Replace:    "\t\t\tif err := s.decoder.Skip(); err != nil {\n\t\t\t\ts.err = err\n\t\t\t\treturn false\n\t\t\t}\n\t\t}\n",
		ExpectRule: "T3", ExpectConstruct: "skip@"},
	{Name: "root-flag-never-set", File: "osmxml/scanner.go",
		Find:       "\t\troot := !s.rootSeen\n\t\ts.rootSeen = true\n",
		Replace:    "\t\troot := !s.rootSeen\n",
		ExpectRule: "T3", ExpectConstruct: "root@"},
	{Name: "root-flag-set-in-constructor", File: "osmxml/scanner.go",
		Find:       "\t\tdecoder: xml.NewDecoder(r),\n\t}\n",
		Replace:    "\t\tdecoder:  xml.NewDecoder(r),\n\t\trootSeen: true,\n\t}\n",
		ExpectRule: "T3", ExpectConstruct: "root@"},
	{Name: "container-create-skipped", File: "osmxml/scanner.go",
		Find:       "\t\tcase \"osm\", \"osmChange\", \"create\", \"modify\", \"delete\", \"action\", \"old\", \"new\":\n",
		Replace:    "\t\tcase \"osm\", \"osmChange\", \"modify\", \"delete\", \"action\", \"old\", \"new\":\n",
		ExpectRule: "T3", ExpectConstruct: "container \"create\""},
	{Name: "container-old-decoded-as-node", File: "osmxml/scanner.go",
		Find:       "\t\tcase \"osm\", \"osmChange\", \"create\", \"modify\", \"delete\", \"action\", \"old\", \"new\":\n",
		Replace:    "\t\tcase \"old\":\n\t\t\tnode := &osm.Node{}\n\t\t\terr = s.decoder.DecodeElement(&node, &se)\n\t\t\ts.next = node\n\t\tcase \"osm\", \"osmChange\", \"create\", \"modify\", \"delete\", \"action\", \"new\":\n",
		ExpectRule: "T3", ExpectConstruct: "container \"old\""},
	{Name: "extra-element-walked-into", File: "osmxml/scanner.go",
		Find:       "\t\tcase \"osm\", \"osmChange\", \"create\", \"modify\", \"delete\", \"action\", \"old\", \"new\":\n",
		Replace:    "\t\tcase \"osm\", \"osmChange\", \"create\", \"modify\", \"delete\", \"action\", \"old\", \"new\", \"gpx\":\n",
		ExpectRule: "T3", ExpectConstruct: "default@"},
	{Name: "skip-on-other-decoder", File: "osmxml/scanner.go",
		Find:       "\t\t\tif err := s.decoder.Skip(); err != nil {\n\t\t\t\ts.err = err\n\t\t\t\treturn false\n\t\t\t}\n\t\t\tcontinue Loop\n\t\t}\n",
		Replace:    "\t\t\tif err := xml.NewDecoder(nil).Skip(); err != nil {\n\t\t\t\ts.err = err\n\t\t\t\treturn false\n\t\t\t}\n\t\t\tcontinue Loop\n\t\t}\n",
		ExpectRule: "T3", ExpectConstruct: "skip@"},
}

var c03ScanBenign = []core.Mutant{
	{Name: "root-flag-set-only-when-unset", File: "osmxml/scanner.go",
		Find:    "\t\troot := !s.rootSeen\n\t\ts.rootSeen = true\n",
		Replace: "\t\troot := !s.rootSeen\n\t\tif root {\n\t\t\ts.rootSeen = true\n\t\t}\n"},
	{Name: "skip-through-closure", File: "osmxml/scanner.go",
		Find:    "\t\t\tif err := s.decoder.Skip(); err != nil {\n\t\t\t\ts.err = err\n\t\t\t\treturn false\n\t\t\t}\n\t\t\tcontinue Loop\n\t\t}\n",
		Replace: "\t\t\tskipped := func() bool {\n\t\t\t\tif skipErr := s.decoder.Skip(); skipErr != nil {\n\t\t\t\t\ts.err = skipErr\n\t\t\t\t\treturn false\n\t\t\t\t}\n\t\t\t\treturn true\n\t\t\t}\n\t\t\tif !skipped() {\n\t\t\t\treturn false\n\t\t\t}\n\t\t\tcontinue Loop\n\t\t}\n"},
	{Name: "skip-error-assigned-to-field-directly", File: "osmxml/scanner.go",
		Find:    "\t\t\tif err := s.decoder.Skip(); err != nil {\n\t\t\t\ts.err = err\n\t\t\t\treturn false\n\t\t\t}\n\t\t\tcontinue Loop\n\t\t}\n",
		Replace: "\t\t\tif s.err = s.decoder.Skip(); s.err != nil {\n\t\t\t\treturn false\n\t\t\t}\n\t\t\tcontinue Loop\n\t\t}\n"},
	{Name: "containers-tested-inside-default-branch", File: "osmxml/scanner.go",
		Find:    "\t\tcase \"osm\", \"osmChange\", \"create\", \"modify\", \"delete\", \"action\", \"old\", \"new\":\n\t\t\t// the containers of the osm, osmChange and augmented diff formats\n\t\t\tcontinue Loop\n\t\tdefault:\n",
		Replace: "\t\tdefault:\n\t\t\tswitch se.Name.Local {\n\t\t\tcase \"osm\", \"osmChange\", \"create\", \"modify\", \"delete\":\n\t\t\t\tcontinue Loop\n\t\t\tcase \"action\", \"old\", \"new\":\n\t\t\t\tcontinue Loop\n\t\t\t}\n"},
	{Name: "root-test-before-switch", File: "osmxml/scanner.go",
		Find:    "\t\ts.next = nil\n\t\tswitch se.Name.Local {\n",
		Replace: "\t\ts.next = nil\n\t\tknown := false\n\t\tswitch se.Name.Local {\n\t\tcase \"bounds\", \"node\", \"way\", \"relation\", \"changeset\", \"note\", \"user\":\n\t\t\tknown = true\n\t\t}\n\t\tif root && !known {\n\t\t\tcontinue Loop\n\t\t}\n\t\tswitch se.Name.Local {\n"},
	{Name: "skip-with-inverted-error-test", File: "osmxml/scanner.go",
		Find:    "\t\t\tif err := s.decoder.Skip(); err != nil {\n\t\t\t\ts.err = err\n\t\t\t\treturn false\n\t\t\t}\n\t\t\tcontinue Loop\n\t\t}\n",
		Replace: "\t\t\terr := s.decoder.Skip()\n\t\t\tif err == nil {\n\t\t\t\tcontinue Loop\n\t\t\t}\n\t\t\ts.err = err\n\t\t\treturn false\n\t\t}\n"},
}
