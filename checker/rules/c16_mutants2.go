package rules

import (
	"strings"

	"osmcheck/core"
)

// c16Mutants2: defects seeded into refactored shapes of the code (the shapes of c16_benign*.go, which are silent).
var c16Mutants2 = []core.Mutant{
	{Name: "join-helpers-prepend-not-turned", File: c16JoinGo, Find: c16JoinArms + c16JoinTail, Replace: c16JoinHelperText("atEnd && !withFirst", "s.Line[1:]"), ExpectRule: "J2", ExpectConstruct: "attach[group-end=first,way-end=first]"},
	{Name: "join-helpers-always-turned-at-start", File: c16JoinGo, Find: c16JoinArms + c16JoinTail, Replace: c16JoinHelperText("!withFirst || !atEnd", "s.Line[1:]"), ExpectRule: "J2", ExpectConstruct: "attach[group-end=first,way-end=last]"},
	{Name: "join-helpers-joint-kept", File: c16JoinGo, Find: c16JoinArms + c16JoinTail, Replace: c16JoinHelperText("atEnd != withFirst", "s.Line"), ExpectRule: "J2", ExpectConstruct: "attach[group-end=last,way-end="},
	{Name: "join-switch-case-not-turned", File: c16JoinGo, Find: "\t\t\tfor i, segment := range segments {\n" + c16JoinArms + "\t\t\t}\n",
		Replace:    strings.Replace(c16JoinSwitchForm, "case first.Equal(segment.First()):\n\t\t\t\t\tsegment.Reverse()\n", "case first.Equal(segment.First()):\n", 1),
		ExpectRule: "J2", ExpectConstruct: "attach[group-end=first,way-end=first]"},
	{Name: "join-splice-keeps-matched", File: c16JoinGo, Find: c16JoinRemoval, Replace: "\t\t\tsegments = append(segments[:foundAt+1], segments[foundAt+1:]...)\n", ExpectRule: "J1", ExpectConstruct: "removal@Join"},
	{Name: "group-helper-index-counts-segments", File: c16MputilGo, Find: c16GroupTail, Replace: c16GroupHelperText("len(outer)+len(inner)+i-i", "s.Reverse()"), ExpectRule: "G1", ExpectConstruct: "Group[index]"},
	{Name: "group-helper-turned-without-flag", File: c16MputilGo, Find: c16GroupTail, Replace: c16GroupHelperText("i", "s.Line.Reverse()"), ExpectRule: "G1", ExpectConstruct: "Group[role="},
	{Name: "annotate-direct-ignores-reversed", File: c16GeoGo, Find: c16AnnotBody, Replace: strings.Replace(c16AnnotDirect, "member.Orientation = -direction", "member.Orientation = direction", 1), ExpectRule: "A1", ExpectConstruct: "annotate["},
	{Name: "holes-split-added-to-first", File: c16BuildGo, Find: c16AddToMP, Replace: strings.Replace(c16AddToMPSplit, "mp[at] = append(mp[at], ring)", "mp[0] = append(mp[at], ring)", 1), ExpectRule: "H1", ExpectConstruct: "holes[two outer rings"},
	{Name: "coordinates-demorgan-wrong", File: c16ConvGo, Find: c16WayLoop, Replace: strings.Replace(c16WayLoopPtr, "!(wn.Lon == 0 && wn.Lat == 0)", "!(wn.Lon == 0 || wn.Lat == 0)", 1), ExpectRule: "W1", ExpectConstruct: "coordinates[lon or lat 0 on a way node]"},
}
