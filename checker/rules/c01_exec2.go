package rules

import (
	"go/ast"
	"go/token"
	"go/types"
	"sort"
	"strings"
)

// trackedField: selector e denotes a tracked iterator field of the per-worker decoder.
func (fm *c01Frame) trackedField(e ast.Expr) (*types.Var, bool) {
	sel, ok := ast.Unparen(e).(*ast.SelectorExpr)
	if !ok {
		return nil, false
	}
	f := fieldOf(fm.fr.info, sel)
	if f == nil {
		return nil, false
	}
	if _, tracked := fm.fr.fieldIdx[f]; !tracked {
		return nil, false
	}
	return f, true
}

// decoderMethod: call is a call of a method of the per-worker decoder declared in the package.
func (fm *c01Frame) decoderMethod(call *ast.CallExpr) *FuncInfo {
	m := fm.fr.cm.m
	tf := c01Callee(m.pk, call)
	if tf == nil {
		return nil
	}
	sig := tf.Obj.Type().(*types.Signature)
	if sig.Recv() == nil || namedPath(sig.Recv().Type()) != namedPath(m.ddT) {
		return nil
	}
	return tf
}

// callArgs evaluates the receiver and the arguments of a call of tf (receiver first when tf is a method).
func (fm *c01Frame) callArgs(ev *c01Ev, call *ast.CallExpr, tf *FuncInfo) []c01Val {
	info := fm.fr.info
	var args []c01Val
	sig := tf.Obj.Type().(*types.Signature)
	if sig.Recv() != nil {
		rv := c01Unknown
		if sel, ok := ast.Unparen(call.Fun).(*ast.SelectorExpr); ok {
			_, wantPtr := sig.Recv().Type().(*types.Pointer)
			_, havePtr := info.TypeOf(sel.X).Underlying().(*types.Pointer)
			switch {
			case wantPtr && !havePtr:
				if p := ev.path(sel.X); p != "" {
					rv = c01Val{k: 'R', s: p} // addressable value: the method works on the variable itself
				}
			case !wantPtr && havePtr:
				if v := ev.eval(sel.X); v.k == 'R' {
					rv = ev.st.get(v.s)
				}
			default:
				rv = ev.eval(sel.X)
			}
		}
		args = append(args, rv)
	}
	for _, a := range call.Args {
		if _, isMap := c01MapElem(info.TypeOf(a)); isMap {
			if p := ev.path(a); p != "" {
				args = append(args, c01Val{k: 'R', s: p}) // maps are references
				continue
			}
		}
		args = append(args, ev.eval(a))
	}
	return args
}

// inlinable: the call is executed on the callee's CFG: methods of the per-worker decoder, and functions of the
// package that are handed presence state (a known bool, a pointer to a cell or to an iterator field, a composite, or
// a receiver of a tracked named type of the package).
func (fm *c01Frame) inlinable(call *ast.CallExpr, tf *FuncInfo, args []c01Val) bool {
	if fm.decoderMethod(call) != nil {
		return true
	}
	sig := tf.Obj.Type().(*types.Signature)
	for i, a := range args {
		switch a.k {
		case 'R', 'P', 'C', 'B':
			return true
		case 'I':
			if i == 0 && sig.Recv() != nil {
				return true // a named integer of the package used as a set of flags
			}
		}
	}
	return false
}

// execCalls executes the inlinable calls inside node n, innermost first, and returns the resulting states with the
// values each call returned. Calls that are not followed make the cells they are handed a pointer to unknown.
func (fm *c01Frame) execCalls(n ast.Node, o c01Out) []c01Out {
	pk := fm.fr.cm.m.pk
	calls, cached := c01NodeCallCache[n]
	if !cached {
		ast.Inspect(n, func(x ast.Node) bool {
			if _, ok := x.(*ast.FuncLit); ok {
				return false
			}
			if call, ok := x.(*ast.CallExpr); ok {
				calls = append(calls, call)
			}
			return true
		})
		sort.SliceStable(calls, func(i, j int) bool { return calls[i].End() < calls[j].End() })
		c01NodeCallCache[n] = calls
	}
	if len(calls) == 0 {
		return []c01Out{o}
	}
	outs := []c01Out{o}
	for _, call := range calls {
		tf := c01Callee(pk, call)
		var next []c01Out
		for _, cur := range outs {
			ev := &c01Ev{fm: fm, st: cur.st, res: cur.res}
			if tf == nil {
				// a function outside the package (or a function value): pointers to cells escape
				for _, a := range call.Args {
					if v := ev.eval(a); v.k == 'R' {
						cur.st.havoc(v.s)
					}
					if _, isMap := c01MapElem(fm.fr.info.TypeOf(a)); isMap && builtinName(fm.fr.info, call) == "" {
						if p := ev.path(a); p != "" {
							cur.st.havoc(p)
						}
					}
				}
				if builtinName(fm.fr.info, call) == "delete" && len(call.Args) == 2 {
					if p := ev.path(&ast.IndexExpr{X: call.Args[0], Index: call.Args[1]}); p != "" {
						cur.st.del(p)
					} else if p := ev.path(call.Args[0]); p != "" {
						cur.st.havoc(p)
					}
				}
				next = append(next, cur)
				continue
			}
			args := fm.callArgs(ev, call, tf)
			if !fm.inlinable(call, tf, args) {
				for _, a := range args {
					if a.k == 'R' {
						cur.st.havoc(a.s)
					}
				}
				next = append(next, cur)
				continue
			}
			// the callee sees the iterator fields and the cells it is handed pointers to
			in := c01St{fields: append([]byte{}, cur.st.fields...), cells: map[string]c01Val{}}
			// iterator fields the callee (and what it calls) never mentions keep their state: they are masked so
			// that the callee is analysed once per state of the fields it can touch
			touch := fm.fr.touches(tf)
			for i := range in.fields {
				if !touch[i] {
					in.fields[i] = '-'
				}
			}
			for _, a := range args {
				if a.k == 'R' {
					sub := cur.st.get(a.s)
					if sub.k != 'U' || len(sub.m) > 0 {
						in.set(a.s, sub)
					}
				}
			}
			// state kept in the decoder's own fields travels with the calls that can reach it: through the decoder
			// fields the callee (or what it calls) mentions, or through a pointer it is handed
			ddPass := func(k string) bool {
				if !strings.HasPrefix(k, "dd.") {
					return false
				}
				if fm.fr.touchesDD(tf)[c01RootOf(k[3:])] {
					return true
				}
				for _, a := range args {
					if a.k == 'R' && strings.HasPrefix(a.s, "dd.") && strings.HasPrefix(k, a.s) {
						return true
					}
				}
				return false
			}
			for k, v := range cur.st.cells {
				if ddPass(k) {
					in.cells[k] = v
				}
			}
			for _, ex := range fm.fr.run(tf, in, args, fm.depth+1) {
				nx := cur.clone()
				nx.st.fields = append([]byte{}, ex.st.fields...)
				for i := range nx.st.fields {
					if !touch[i] {
						nx.st.fields[i] = cur.st.fields[i]
					}
				}
				for _, a := range args {
					if a.k == 'R' {
						nx.st.del(a.s)
					}
				}
				for k := range nx.st.cells {
					if ddPass(k) {
						delete(nx.st.cells, k)
					}
				}
				for k, v := range ex.st.cells {
					nx.st.cells[k] = v
				}
				nx.res[call] = ex.rets
				next = append(next, nx)
			}
		}
		outs = next
	}
	return outs
}

// c01NodeCallCache: the calls inside a CFG node, innermost first (static, shared by all states).
var c01NodeCallCache = map[ast.Node][]*ast.CallExpr{}

// refine sharpens an unknown error cell when the condition is a single nil comparison of it.
func (fm *c01Frame) refine(cond ast.Expr, st c01St, taken bool) c01St {
	e := ast.Unparen(cond)
	for {
		ue, ok := e.(*ast.UnaryExpr)
		if !ok || ue.Op != token.NOT {
			break
		}
		e, taken = ast.Unparen(ue.X), !taken
	}
	x, neq, ok := c01NilCmp(e)
	if !ok {
		return st
	}
	ev := &c01Ev{fm: fm, st: st}
	p := ev.path(x)
	if p == "" {
		return st
	}
	if v, ok := st.cells[p]; !ok || v.k != 'E' || byte(v.i) != '?' {
		return st
	}
	ns := st.clone()
	if neq == taken {
		ns.cells[p] = c01Val{k: 'E', i: 'E'}
	} else {
		ns.cells[p] = c01Val{k: 'E', i: 'Z'}
	}
	return ns
}

// flagDesc names the presence cells of the frame that are false / zero in st (for diagnostics).
func (fm *c01Frame) flagDesc(st c01St) string {
	var fs []string
	for k, v := range st.cells {
		for root, name := range fm.names {
			if strings.HasPrefix(k, root) && ((v.k == 'B' && v.i == 0) || (v.k == 'I' && k != root)) {
				if v.k == 'B' {
					fs = append(fs, name+k[len(root):]+"=false")
				}
			}
		}
	}
	sort.Strings(fs)
	if len(fs) == 0 {
		return "-"
	}
	if len(fs) > 12 {
		fs = fs[:12]
	}
	return strings.Join(fs, ", ")
}

// uses records uses of iterator fields inside node n in the state of ev (calls that are executed by the
// interpreter are not uses of their own: what they do with the field is seen when they run).
func (fm *c01Frame) uses(n ast.Node, ev *c01Ev) {
	fr := fm.fr
	info := fr.info
	var useExpr ast.Expr
	report := func(idx int, pos token.Pos, how string) {
		f := fr.fields[idx]
		if ev.st.fields[idx] == 'N' && useExpr != nil {
			// `dec.F != nil && dec.F.X()`: the right operand is not evaluated when the field is nil
			for _, ft := range c06ShortCircuitFacts(fm.f.par, useExpr) {
				if x, neq, ok := c01NilCmp(ft.expr); ok && neq == ft.val && ast.Unparen(x) != nil {
					if g, tracked := fm.trackedField(x); tracked && fr.fieldIdx[g] == idx {
						return
					}
				}
			}
		}
		if fr.usePos[f] == nil {
			fr.usePos[f] = map[token.Pos]bool{}
		}
		fr.usePos[f][pos] = true
		v := ev.st.fields[idx]
		if v == 'A' {
			return
		}
		if _, dup := fr.viol[f]; dup {
			return
		}
		what := "still holds the iterator of an earlier block or element"
		if v == 'N' {
			what = "is nil"
		}
		fr.viol[f] = "dec." + f.Name() + " " + how + " " + fr.r.P.Rel(pos) + " (in " + fm.fi.Name() + ") on a path where it " + what + " (presence state in " + fm.fi.Name() + ": " + fm.flagDesc(ev.st) + "): a block or element that lacks this optional column is decoded with the values of an earlier one (or crashes) instead of the format default"
		fr.vpos[f] = pos
	}
	if quiet, ok := c01NodeNoUse[n]; ok && quiet {
		return
	}
	if _, ok := c01NodeNoUse[n]; !ok {
		// static pre-check: a node without a selector of a tracked field and without a pointer dereference has no uses
		cand := false
		ast.Inspect(n, func(x ast.Node) bool {
			switch y := x.(type) {
			case *ast.FuncLit:
				return false
			case *ast.SelectorExpr:
				if _, ok := fm.trackedField(y); ok {
					cand = true
				}
			case *ast.StarExpr:
				if _, isPtr := info.TypeOf(y.X).Underlying().(*types.Pointer); isPtr && namedPath(info.TypeOf(y)) == protoscanIter {
					cand = true
				}
			}
			return !cand
		})
		c01NodeNoUse[n] = !cand
		if !cand {
			return
		}
	}
	par := fm.f.par
	ast.Inspect(n, func(x ast.Node) bool {
		e, ok := x.(ast.Expr)
		if !ok {
			return true
		}
		if _, isLit := x.(*ast.FuncLit); isLit {
			return false
		}
		var idx int
		switch y := e.(type) {
		case *ast.SelectorExpr:
			f, ok := fm.trackedField(y)
			if !ok {
				return true
			}
			idx = fr.fieldIdx[f]
		case *ast.StarExpr:
			v := ev.eval(y.X)
			if v.k != 'P' {
				return true
			}
			idx = int(v.i)
		default:
			return true
		}
		parent := par[e]
		for {
			if pe, ok := parent.(*ast.ParenExpr); ok {
				e, parent = pe, par[pe]
				continue
			}
			break
		}
		useExpr = e
		switch p := parent.(type) {
		case *ast.BinaryExpr:
			if _, _, isNil := c01NilCmp(p); isNil {
				return false // nil comparison
			}
		case *ast.AssignStmt:
			for _, l := range p.Lhs {
				if ast.Unparen(l) == ast.Unparen(e) {
					return false // being assigned
				}
			}
		case *ast.UnaryExpr:
			if p.Op == token.AND {
				return false // its address is taken (a table of the columns): not a use of the iterator
			}
		case *ast.CallExpr:
			if isMethod(callee(info, p), protoscanMsg, "Iterator") {
				return false // buffer reuse
			}
			for _, a := range p.Args {
				if ast.Unparen(a) == ast.Unparen(e) {
					if tf := c01Callee(fr.cm.m.pk, p); tf != nil && fm.decoderMethod(p) != nil {
						return false
					}
					report(idx, e.Pos(), "is passed to "+src(fr.r.P.Fset, p.Fun)+" at")
					return false
				}
			}
		case *ast.SelectorExpr:
			if p.X == e {
				report(idx, e.Pos(), "is read ("+p.Sel.Name+") at")
				return false
			}
		}
		report(idx, e.Pos(), "is used at")
		return false
	})
}

// c01NodeNoUse: the node contains no expression that could be a use of an iterator field (static).
var c01NodeNoUse = map[ast.Node]bool{}

// touches: which iterator fields function fi, or a function of the package reachable from it, mentions.
func (fr *c01Fresh) touches(fi *FuncInfo) []bool {
	if t, ok := c01TouchCache[fi.Obj]; ok && len(t) == len(fr.fields) {
		return t
	}
	t := make([]bool, len(fr.fields))
	for _, g := range c01Reachable(fr.r.P, fi) {
		ast.Inspect(g.Decl.Body, func(n ast.Node) bool {
			if sel, ok := n.(*ast.SelectorExpr); ok {
				if f := fieldOf(fr.info, sel); f != nil {
					if idx, tracked := fr.fieldIdx[f]; tracked {
						t[idx] = true
					}
				}
			}
			return true
		})
	}
	c01TouchCache[fi.Obj] = t
	return t
}

var c01TouchCache = map[*types.Func][]bool{}

// touchesDD: the names of the decoder's own fields that fi, or a function of the package reachable from it, selects.
func (fr *c01Fresh) touchesDD(fi *FuncInfo) map[string]bool {
	if t, ok := c01TouchDDCache[fi.Obj]; ok {
		return t
	}
	t := map[string]bool{}
	dd := namedPath(fr.cm.m.ddT)
	for _, g := range c01Reachable(fr.r.P, fi) {
		ast.Inspect(g.Decl.Body, func(n ast.Node) bool {
			if sel, ok := n.(*ast.SelectorExpr); ok {
				if f := fieldOf(fr.info, sel); f != nil && namedPath(selRecv(fr.info, sel)) == dd {
					t[f.Name()] = true
				}
			}
			return true
		})
	}
	c01TouchDDCache[fi.Obj] = t
	return t
}

var c01TouchDDCache = map[*types.Func]map[string]bool{}
