package rules

import (
	"go/ast"
	"go/types"

	"osmcheck/core"
)

// c10K6: the numeric text of an id is parsed with a width that accepts the whole field range
// (references up to 2^40-1, versions up to 2^16-1), base 10. A narrower strconv bit size makes the
// textual form of valid ids unparseable (String then Parse is no longer the identity).
func c10K6(r *core.R) {
	pk := r.P.Pkg("")
	info := pk.TypesInfo
	for _, name := range []string{"ParseObjectID", "ParseElementID", "ParseFeatureID"} {
		fi := findFunc(pk, name)
		if fi == nil {
			r.Anchor(name)
			continue
		}
		// slices produced by strings.Split(x, ":")
		colonSplit := map[types.Object]bool{}
		ast.Inspect(fi.Decl.Body, func(n ast.Node) bool {
			as, ok := n.(*ast.AssignStmt)
			if !ok || len(as.Lhs) != 1 || len(as.Rhs) != 1 {
				return true
			}
			call, ok := as.Rhs[0].(*ast.CallExpr)
			if !ok || !isPkgFunc(callee(info, call), "strings", "Split") || len(call.Args) != 2 {
				return true
			}
			if s, ok := constString(info, call.Args[1]); ok && s == ":" {
				colonSplit[objOf(info, as.Lhs[0])] = true
			}
			return true
		})
		n := 0
		ast.Inspect(fi.Decl.Body, func(x ast.Node) bool {
			call, ok := x.(*ast.CallExpr)
			if !ok {
				return true
			}
			fn := callee(info, call)
			signed := false
			switch {
			case isPkgFunc(fn, "strconv", "ParseInt"):
				signed = true
			case isPkgFunc(fn, "strconv", "ParseUint"):
			case isPkgFunc(fn, "strconv", "Atoi"):
				n++
				r.Bad("width@"+name+" "+src(r.P.Fset, call), call.Pos(), "strconv.Atoi parses into int, which is 32 bits on 32-bit platforms: references above 2^31 in the textual form cannot be parsed back")
				return true
			default:
				return true
			}
			n++
			c := "width@" + name + " " + src(r.P.Fset, call.Args[0])
			isVersion := false
			if ix, ok := ast.Unparen(call.Args[0]).(*ast.IndexExpr); ok {
				if v, okc := constInt(info, ix.Index); okc && v == 1 && colonSplit[objOf(info, ix.X)] {
					isVersion = true
				}
			}
			need := int64(40)
			what := "reference (40 bits)"
			if isVersion {
				need, what = 16, "version (16 bits)"
			}
			if signed {
				need++
			}
			base, okb := constInt(info, call.Args[1])
			bits, okw := constInt(info, call.Args[2])
			switch {
			case !okb || !okw:
				r.Unknown(c, call.Pos(), "non-constant base or bit size in `%s`", src(r.P.Fset, call))
			case base != 10:
				r.Bad(c, call.Pos(), "`%s` parses with base %d; String() prints decimal", src(r.P.Fset, call), base)
			case bits == 0 && need > 32:
				r.Bad(c, call.Pos(), "`%s` parses into the platform int (32 bits on GOARCH=386): the %s does not fit", src(r.P.Fset, call), what)
			case bits != 0 && bits < need:
				r.Bad(c, call.Pos(), "`%s` accepts only %d-bit %s values but the %s needs %d bits: the textual form of valid ids (the output of String) is rejected", src(r.P.Fset, call), bits, map[bool]string{true: "signed", false: "unsigned"}[signed], what, need)
			default:
				r.OK(c, call.Pos(), "`%s`: base 10, %d bits >= the %d needed for the %s", src(r.P.Fset, call), bits, need, what)
			}
			return true
		})
		if n == 0 {
			r.Anchor("strconv parse call in " + name)
		}
	}
}
