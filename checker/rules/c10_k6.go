package rules

import (
	"fmt"
	"go/token"
	"sort"
	"strings"

	"osmcheck/core"
)

// c10K6: the numeric text of an id is parsed base 10 with a width that accepts the whole field range
// (references up to 2^40-1, versions up to 2^16-1). A narrower strconv bit size makes the textual form of
// valid ids unparseable (String then Parse is no longer the identity).
//
// The strconv calls are found by *role*, not by place: each parser is evaluated on the texts String() produces
// (K5) and every strconv.ParseInt/ParseUint/Atoi reached with the decimal text of the reference / of the
// version is recorded, wherever it lives (the parser itself or any helper it calls).
func c10K6(r *core.R) {
	m := c10Load(r)
	if m == nil {
		return
	}
	for _, p := range c10Parsers(m, true) {
		p.checkFormat(false)
		roles := []struct {
			name string
			v    c10Vec
			need int64
		}{{"reference", p.ref, c10RefBits}, {"version", p.ver, c10VerBits}}
		if p.packed == "FeatureID" {
			roles = roles[:1]
		}
		m.ev.resetScenario()
		accepts := p.accepts()
		for _, a := range accepts {
			p.run(a.text)
		}
		calls := m.ev.parses
		m.ev.resetScenario()
		for _, role := range roles {
			c := "width@" + p.name() + " " + role.name
			seen := map[token.Pos]bool{}
			var oks []string
			bad, unk := "", ""
			var pos token.Pos
			for _, pc := range calls {
				if !pc.V.sameLanes(role.v) || seen[pc.Call.Pos()] {
					continue
				}
				seen[pc.Call.Pos()] = true
				pos = pc.Call.Pos()
				need := role.need
				if pc.Signed {
					need++
				}
				text := c10Src(r, pc.Call)
				switch {
				case !pc.Known:
					unk = fmt.Sprintf("non-constant base or bit size in `%s`", text)
				case pc.Base != 10:
					bad = fmt.Sprintf("`%s` parses the %s with base %d; String() prints decimal", text, role.name, pc.Base)
				case pc.Fn == "Atoi" && need > 32:
					bad = fmt.Sprintf("`%s` parses into int, which is 32 bits on 32-bit platforms: the %s (%d bits) in the textual form cannot be parsed back", text, role.name, role.need)
				case pc.Bits < need:
					bad = fmt.Sprintf("`%s` accepts only %d-bit %s values but the %s needs %d bits: the textual form of valid ids (the output of String) is rejected", text, pc.Bits, map[bool]string{true: "signed", false: "unsigned"}[pc.Signed], role.name, need)
				default:
					oks = append(oks, fmt.Sprintf("`%s`: base 10, %d bits >= the %d needed", text, pc.Bits, need))
				}
			}
			sort.Strings(oks)
			switch {
			case bad != "":
				r.Bad(c, pos, "%s", bad)
			case unk != "":
				r.Unknown(c, pos, "%s", unk)
			case len(oks) == 0:
				r.Unknown(c, p.fi.Decl.Pos(), "evaluating %s on the texts %s prints reaches no strconv parse of the decimal %s: how the number is read is not among the interpreted forms", p.name(), p.strFi.Name(), role.name)
			default:
				r.OK(c, pos, "the decimal %s of every text String() prints is read by %s", role.name, strings.Join(oks, "; "))
			}
		}
	}
}
