package rules

import (
	"strings"

	"osmcheck/core"
)

// Second part of the C15 sensitivity / robustness suites: the "shared scan helper with a function parameter" shape
// class (the loop of ApplyUpdatesUpTo lives in an unexported helper that receives the per-element apply step as a
// method value or a function literal and returns the pending list), pointer-to-element writes, and a split
// LineStringAt. Each entry rewrites way.go from the current shape into the new one in a single overlay edit; the
// mutants additionally seed a defect into the new shape.

const c15WayApplyOld = `func (w *Way) ApplyUpdatesUpTo(t time.Time) error {
	var notApplied []Update
	for _, u := range w.Updates {
		if u.Timestamp.After(t) {
			notApplied = append(notApplied, u)
			continue
		}

		if err := w.applyUpdate(u); err != nil {
			return err
		}
	}

	w.Updates = notApplied
	return nil
}`

// c15Helper is the shared scan helper; LATE is what it does with an update after t, FAIL what it returns when the
// apply step fails.
const c15Helper = `
func (us Updates) applyUpTo(t time.Time, apply func(Update) error) (Updates, error) {
	var pending Updates
	for _, u := range us {
		if u.Timestamp.After(t) {
			LATE
		}

		if err := apply(u); err != nil {
			return FAIL, err
		}
	}

	return pending, nil
}`

const c15CallerOK = `func (w *Way) ApplyUpdatesUpTo(t time.Time) error {
	pending, err := w.Updates.applyUpTo(t, APPLY)
	if err != nil {
		return err
	}

	w.Updates = pending
	return nil
}
`

func c15Shape(caller, apply, late, fail string) string {
	h := strings.NewReplacer("LATE", late, "FAIL", fail).Replace(c15Helper)
	return strings.Replace(caller, "APPLY", apply, 1) + h
}

const c15LsatHead = "func (w *Way) LineStringAt(t time.Time) orb.LineString {\n\t// linestring with all the zeros\n\tls := make(orb.LineString, 0, len(w.Nodes))\n\tfor _, n := range w.Nodes {\n\t\tls = append(ls, n.Point())\n\t}\n\n"

const (
	c15LateOK   = "pending = append(pending, u)\n\t\t\tcontinue"
	c15Closure  = "func(u Update) error { return w.applyUpdate(u) }"
	c15OldLsat  = "\tfor _, u := range w.Updates {\n\t\tif u.Timestamp.After(t) {\n\t\t\tcontinue\n\t\t}\n\n\t\tif u.Index < 0 || u.Index >= len(ls) {\n\t\t\tcontinue\n\t\t}\n\n\t\tls[u.Index][0] = u.Lon\n\t\tls[u.Index][1] = u.Lat\n\t}\n"
	c15OldCopy  = "\tif u.Index < 0 || u.Index >= len(w.Nodes) {\n\t\treturn &UpdateIndexOutOfRangeError{Index: u.Index}\n\t}\n\n\tw.Nodes[u.Index].Version = u.Version\n\tw.Nodes[u.Index].ChangesetID = u.ChangesetID\n\tw.Nodes[u.Index].Lat = u.Lat\n\tw.Nodes[u.Index].Lon = u.Lon\n"
	c15OldRCopy = "\tif u.Index < 0 || u.Index >= len(r.Members) {\n\t\treturn &UpdateIndexOutOfRangeError{Index: u.Index}\n\t}\n\n\tr.Members[u.Index].Version = u.Version\n\tr.Members[u.Index].ChangesetID = u.ChangesetID\n\tr.Members[u.Index].Lat = u.Lat\n\tr.Members[u.Index].Lon = u.Lon\n\n\tif u.Reverse {\n\t\tr.Members[u.Index].Orientation *= -1\n\t}\n"
)

var c15Benign2 = []core.Mutant{
	// shared scan helper, apply step passed as a method value
	{Name: "way-func-param-method-value", File: "way.go", Find: c15WayApplyOld,
		Replace: c15Shape(c15CallerOK, "w.applyUpdate", c15LateOK, "nil")},
	// … as a function literal that captures the receiver
	{Name: "way-func-param-closure", File: "way.go", Find: c15WayApplyOld,
		Replace: c15Shape(c15CallerOK, c15Closure, c15LateOK, "nil")},
	// … as a local function value defined before the call
	{Name: "way-func-param-local-value", File: "way.go", Find: c15WayApplyOld,
		Replace: c15Shape(strings.Replace(c15CallerOK, "\tpending, err :=", "\tstep := w.applyUpdate\n\tpending, err :=", 1), "step", c15LateOK, "nil")},
	// helper as a plain function, the list passed as an argument, if/else instead of continue
	{Name: "way-func-param-plain-func", File: "way.go", Find: c15WayApplyOld,
		Replace: "func (w *Way) ApplyUpdatesUpTo(t time.Time) error {\n\tkeep, err := scanUpdates(w.Updates, t, w.applyUpdate)\n\tif err == nil {\n\t\tw.Updates = keep\n\t}\n\n\treturn err\n}\n\nfunc scanUpdates(list Updates, limit time.Time, step func(Update) error) ([]Update, error) {\n\tvar keep []Update\n\tfor i := range list {\n\t\tif list[i].Timestamp.After(limit) {\n\t\t\tkeep = append(keep, list[i])\n\t\t} else if err := step(list[i]); err != nil {\n\t\t\treturn nil, err\n\t\t}\n\t}\n\n\treturn keep, nil\n}"},
	// element pointer taken once after the flipped guard, written through
	{Name: "way-element-pointer", File: "way.go", Find: c15OldCopy,
		Replace: "\tif u.Index < 0 || len(w.Nodes) <= u.Index {\n\t\treturn &UpdateIndexOutOfRangeError{Index: u.Index}\n\t}\n\n\tn := &w.Nodes[u.Index]\n\tn.Version = u.Version\n\tn.ChangesetID = u.ChangesetID\n\tn.Lat = u.Lat\n\tn.Lon = u.Lon\n"},
	{Name: "rel-element-pointer", File: "relation.go", Find: c15OldRCopy,
		Replace: "\tif u.Index < 0 || len(r.Members) <= u.Index {\n\t\treturn &UpdateIndexOutOfRangeError{Index: u.Index}\n\t}\n\n\tm := &r.Members[u.Index]\n\tm.Version = u.Version\n\tm.ChangesetID = u.ChangesetID\n\tm.Lat = u.Lat\n\tm.Lon = u.Lon\n\n\tif u.Reverse {\n\t\tm.Orientation *= -1\n\t}\n"},
	// LineStringAt split: a helper on the node list builds the points and overlays the updates
	{Name: "lsat-split", File: "way.go",
		Find:    c15LsatHead + c15OldLsat,
		Replace: "func (wn WayNodes) pointsAt(updates Updates, t time.Time) orb.LineString {\n\tls := make(orb.LineString, 0, len(wn))\n\tfor _, n := range wn {\n\t\tls = append(ls, n.Point())\n\t}\n\n\tfor _, u := range updates {\n\t\tif u.Timestamp.After(t) || u.Index < 0 || u.Index >= len(ls) {\n\t\t\tcontinue\n\t\t}\n\n\t\tls[u.Index] = orb.Point{u.Lon, u.Lat}\n\t}\n\n\treturn ls\n}\n\nfunc (w *Way) LineStringAt(t time.Time) orb.LineString {\n\tls := w.Nodes.pointsAt(w.Updates, t)\n"},
	// the overlay step of LineStringAt passed as a function literal to a generic visitor
	{Name: "lsat-visitor", File: "way.go", Find: c15LsatHead + c15OldLsat,
		Replace: "func (us Updates) eachUpTo(t time.Time, visit func(Update)) {\n\tfor _, u := range us {\n\t\tif !u.Timestamp.After(t) {\n\t\t\tvisit(u)\n\t\t}\n\t}\n}\n\n" + c15LsatHead + "\tw.Updates.eachUpTo(t, func(u Update) {\n\t\tif u.Index >= 0 && u.Index < len(ls) {\n\t\t\tls[u.Index][0] = u.Lon\n\t\t\tls[u.Index][1] = u.Lat\n\t\t}\n\t})\n"},
}

var c15Mutants2 = []core.Mutant{
	// the helper forgets the updates after t: nothing stays pending
	{Name: "helper-drops-later", File: "way.go", Find: c15WayApplyOld,
		Replace:    c15Shape(c15CallerOK, "w.applyUpdate", "continue", "nil"),
		ExpectRule: "U2", ExpectConstruct: "pending@(*Way).ApplyUpdatesUpTo"},
	// the helper stops at the first update after t
	{Name: "helper-stops-at-late", File: "way.go", Find: c15WayApplyOld,
		Replace:    c15Shape(c15CallerOK, "w.applyUpdate", "pending = append(pending, u)\n\t\t\tbreak", "nil"),
		ExpectRule: "U1", ExpectConstruct: "loop@(*Way).ApplyUpdatesUpTo"},
	// the caller stores the returned list even when the helper failed (nil list: all pending updates are lost)
	{Name: "caller-stores-on-error", File: "way.go", Find: c15WayApplyOld,
		Replace:    c15Shape("func (w *Way) ApplyUpdatesUpTo(t time.Time) error {\n\tpending, err := w.Updates.applyUpTo(t, APPLY)\n\tw.Updates = pending\n\treturn err\n}\n", "w.applyUpdate", c15LateOK, "nil"),
		ExpectRule: "U2", ExpectConstruct: "pending@(*Way).ApplyUpdatesUpTo"},
	// … in the direct form; the helper returns the partial list, so the not yet applied in-time updates are lost
	{Name: "caller-assigns-tuple", File: "way.go", Find: c15WayApplyOld,
		Replace:    c15Shape("func (w *Way) ApplyUpdatesUpTo(t time.Time) (err error) {\n\tw.Updates, err = w.Updates.applyUpTo(t, APPLY)\n\treturn err\n}\n", "w.applyUpdate", c15LateOK, "pending"),
		ExpectRule: "U2", ExpectConstruct: "pending@(*Way).ApplyUpdatesUpTo"},
	// the helper swallows the error of the apply step
	{Name: "helper-swallows-error", File: "way.go", Find: c15WayApplyOld,
		Replace:    strings.Replace(c15Shape(c15CallerOK, "w.applyUpdate", c15LateOK, "nil"), "return nil, err\n", "continue\n", 1),
		ExpectRule: "U2", ExpectConstruct: "apply@(*Way).ApplyUpdatesUpTo"},
	// the closure passed as apply step ignores the update it is given
	{Name: "closure-applies-nothing", File: "way.go", Find: c15WayApplyOld,
		Replace:    c15Shape(c15CallerOK, "func(u Update) error { return nil }", c15LateOK, "nil"),
		ExpectRule: "U4", ExpectConstruct: "copy@Way.Nodes"},
	// the helper is called with another time than t
	{Name: "helper-wrong-time", File: "way.go", Find: c15WayApplyOld,
		Replace:    strings.Replace(c15Shape(c15CallerOK, "w.applyUpdate", c15LateOK, "nil"), "applyUpTo(t, w.applyUpdate)", "applyUpTo(w.Timestamp, w.applyUpdate)", 1),
		ExpectRule: "U1", ExpectConstruct: "loop@(*Way).ApplyUpdatesUpTo"},
	// element pointer taken before the bounds check
	{Name: "pointer-before-guard", File: "way.go", Find: c15OldCopy,
		Replace:    "\tn := &w.Nodes[u.Index]\n\tif u.Index < 0 || len(w.Nodes) <= u.Index {\n\t\treturn &UpdateIndexOutOfRangeError{Index: u.Index}\n\t}\n\n\tn.Version = u.Version\n\tn.ChangesetID = u.ChangesetID\n\tn.Lat = u.Lat\n\tn.Lon = u.Lon\n",
		ExpectRule: "U3", ExpectConstruct: "index@Way.Nodes"},
	// element copied instead of pointed to: the writes are lost
	{Name: "rel-element-copy", File: "relation.go", Find: c15OldRCopy,
		Replace:    "\tif u.Index < 0 || len(r.Members) <= u.Index {\n\t\treturn &UpdateIndexOutOfRangeError{Index: u.Index}\n\t}\n\n\tm := r.Members[u.Index]\n\tm.Version = u.Version\n\tm.ChangesetID = u.ChangesetID\n\tm.Lat = u.Lat\n\tm.Lon = u.Lon\n\n\tif u.Reverse {\n\t\tm.Orientation *= -1\n\t}\n",
		ExpectRule: "U4", ExpectConstruct: "copy@Relation.Members"},
	// split LineStringAt whose helper stops at the first update after t
	{Name: "lsat-split-break", File: "way.go",
		Find:       c15LsatHead + c15OldLsat,
		Replace:    "func (wn WayNodes) overlay(ls orb.LineString, updates Updates, t time.Time) {\n\tfor _, u := range updates {\n\t\tif u.Timestamp.After(t) {\n\t\t\tbreak\n\t\t}\n\n\t\tif u.Index >= 0 && u.Index < len(ls) {\n\t\t\tls[u.Index] = orb.Point{u.Lon, u.Lat}\n\t\t}\n\t}\n}\n\n" + c15LsatHead + "\tw.Nodes.overlay(ls, w.Updates, t)\n",
		ExpectRule: "U1", ExpectConstruct: "loop@(*Way).LineStringAt"},
}
