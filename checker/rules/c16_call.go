package rules

// c16_call.go — calls of the C16 abstract evaluator: conversions, static calls, methods (with dynamic dispatch on
// the tracked dynamic type), closures, hooks, opaque results for everything outside the interpreted packages.

import (
	"go/ast"
	"go/token"
	"go/types"
)

func (m *c16M) evalCall(f *c16Frame, call *ast.CallExpr) c16Val {
	m.step()
	if tv, ok := f.info.Types[call.Fun]; ok && tv.IsType() {
		if len(call.Args) != 1 {
			m.abort("conversion with %d arguments at %s", len(call.Args), m.pos(call))
		}
		return m.convert(m.eval(f, call.Args[0]), tv.Type)
	}
	if name := builtinName(f.info, call); name != "" {
		return m.builtin(f, call, name)
	}
	fn, recv, args := m.prepareCall(f, call)
	return m.apply(f, call, fn, recv, args)
}

func (m *c16M) convert(v c16Val, t types.Type) c16Val {
	switch x := v.(type) {
	case *c16Opq:
		return &c16Opq{typ: t, why: x.why}
	case c16Slice:
		if _, ok := t.Underlying().(*types.Slice); ok {
			x.typ = t
			return x
		}
	case c16Nil:
		if _, ok := t.Underlying().(*types.Slice); ok {
			return c16Slice{typ: t}
		}
	case *c16Struct:
		if _, ok := t.Underlying().(*types.Struct); ok {
			n := c16Copy(x).(*c16Struct)
			n.typ = t
			return n
		}
	case *c16Arr:
		if _, ok := t.Underlying().(*types.Array); ok {
			n := c16Copy(x).(*c16Arr)
			n.typ = t
			return n
		}
	case int64:
		if b, ok := t.Underlying().(*types.Basic); ok {
			switch {
			case b.Info()&types.IsFloat != 0:
				return c16Flt{v: float64(x)}
			case b.Info()&types.IsString != 0:
				return string(rune(x))
			}
		}
	case c16Flt:
		if b, ok := t.Underlying().(*types.Basic); ok && b.Info()&types.IsInteger != 0 {
			if x.tok != "" {
				return &c16Opq{typ: t, why: "int(" + x.tok + ")"}
			}
			return int64(x.v)
		}
	}
	return v
}

// prepareCall resolves the callee and evaluates receiver and arguments.
func (m *c16M) prepareCall(f *c16Frame, call *ast.CallExpr) (fn c16Val, recv c16Val, args []c16Val) {
	var sig *types.Signature
	if static := callee(f.info, call); static != nil {
		sig = static.Type().(*types.Signature)
		fn = &c16FnVal{fn: static}
		if sig.Recv() != nil {
			sel, ok := ast.Unparen(call.Fun).(*ast.SelectorExpr)
			selection := f.info.Selections[sel]
			if !ok || selection == nil || selection.Kind() != types.MethodVal {
				m.abort("method expression at %s", m.pos(call))
			}
			recv = m.receiver(f, sel, selection, sig)
		}
	} else {
		fn = m.eval(f, call.Fun)
		if t, ok := f.info.TypeOf(call.Fun).Underlying().(*types.Signature); ok {
			sig = t
		}
	}
	if inner, ok := c16SingleCallArg(call); ok && sig != nil && sig.Params().Len() > 1 { // f(g()) spreading the results of g
		if t, isTuple := f.info.TypeOf(inner).(*types.Tuple); isTuple {
			args = append(args, m.evalMulti(f, inner, t.Len())...)
		}
	}
	if args == nil {
		for _, a := range call.Args {
			args = append(args, c16Copy(m.eval(f, a)))
		}
	}
	if sig != nil && sig.Variadic() && !call.Ellipsis.IsValid() {
		fixed := sig.Params().Len() - 1
		if len(args) < fixed {
			m.abort("too few arguments at %s", m.pos(call))
		}
		rest := append([]c16Val{}, args[fixed:]...)
		args = append(args[:fixed:fixed], c16NewSlice(sig.Params().At(fixed).Type(), rest))
	}
	return fn, recv, args
}

// receiver evaluates the receiver operand of a method call and adapts it to the method's receiver kind.
func (m *c16M) receiver(f *c16Frame, sel *ast.SelectorExpr, selection *types.Selection, sig *types.Signature) c16Val {
	_, wantPtr := sig.Recv().Type().Underlying().(*types.Pointer)
	_, isIface := sig.Recv().Type().Underlying().(*types.Interface)
	index := selection.Index()
	recvT := selection.Recv()
	_, havePtr := recvT.Underlying().(*types.Pointer)
	if wantPtr && !havePtr && len(index) == 1 {
		if !c16Addressable(sel.X) {
			m.abort("pointer method on an unaddressable value at %s", m.pos(sel))
		}
		ref := m.lvalue(f, sel.X)
		return &c16Ptr{elem: recvT, load: ref.get, store: ref.set, id: ref.ident(m)}
	}
	v := m.eval(f, sel.X)
	if len(index) > 1 { // promoted through embedded fields
		v = m.fieldPath(v, recvT, index[:len(index)-1], sel)
		havePtr = false
		if _, ok := v.(*c16Ptr); ok {
			havePtr = true
		}
		if wantPtr && !havePtr {
			st := v
			return &c16Ptr{elem: sig.Recv().Type().(*types.Pointer).Elem(), load: func() c16Val { return st }, store: func(c16Val) {}, id: m.newID()}
		}
	}
	if !wantPtr && !isIface {
		if p, ok := v.(*c16Ptr); ok && havePtr {
			v = p.load()
		} else if _, isNil := v.(c16Nil); isNil && havePtr {
			m.gopanic("nil pointer dereference at %s", m.pos(sel))
		}
		return c16Copy(v)
	}
	return v
}

// apply calls fn (a function value) with evaluated receiver and arguments.
func (m *c16M) apply(f *c16Frame, call *ast.CallExpr, fn c16Val, recv c16Val, args []c16Val) c16Val {
	switch x := fn.(type) {
	case *c16FnVal:
		return m.invoke(x.fn, recv, args, call.Pos())
	case *c16Bound:
		return m.invoke(x.fn, x.recv, args, call.Pos())
	case *c16Closure:
		sig := x.info.TypeOf(x.lit).(*types.Signature)
		fr := &c16Frame{vars: map[types.Object]*c16Cell{}, up: x.env, info: x.info}
		return m.run(fr, x.lit.Type, nil, x.lit.Body, sig, nil, args, call.Pos())
	case c16Nil:
		m.gopanic("call of a nil function at %s", m.p.Rel(call.Pos()))
	}
	var sig *types.Signature
	if t := f.info.TypeOf(call.Fun); t != nil {
		sig, _ = t.Underlying().(*types.Signature)
	}
	return m.opaqueResults(sig, "call of an opaque function value")
}

func (m *c16M) opaqueResults(sig *types.Signature, why string) c16Val {
	if sig == nil || sig.Results().Len() == 0 {
		return nil
	}
	var out c16Tuple
	for i := 0; i < sig.Results().Len(); i++ {
		out = append(out, &c16Opq{typ: sig.Results().At(i).Type(), why: why})
	}
	if len(out) == 1 {
		return out[0]
	}
	return out
}

// invoke calls a declared function or method.
func (m *c16M) invoke(fn *types.Func, recv c16Val, args []c16Val, at token.Pos) c16Val {
	sig := fn.Type().(*types.Signature)
	if sig.Recv() != nil {
		if _, isIface := sig.Recv().Type().Underlying().(*types.Interface); isIface {
			return m.dispatch(fn, recv, args, at)
		}
	}
	if h := m.hooks[fn.FullName()]; h != nil {
		if v, ok := h(m, recv, args); ok {
			return v
		}
	}
	fi := m.funcInfo(fn)
	if fi == nil {
		return m.opaqueResults(sig, "result of "+fn.FullName())
	}
	if m.depth >= c16MaxDepth {
		m.abort("call depth exceeded at %s", funcName(fn))
	}
	fr := &c16Frame{vars: map[types.Object]*c16Cell{}, info: fi.Pkg.TypesInfo}
	if m.depth == 0 {
		return m.run(fr, fi.Decl.Type, fi.Decl.Recv, fi.Decl.Body, sig, recv, args, at)
	}
	var out c16Val
	func() {
		defer func() {
			if e := recover(); e != nil {
				ab, ok := e.(c16Abort)
				if !ok {
					panic(e)
				}
				m.note("evaluation of %s abandoned (%s): its results are opaque", funcName(fn), ab.why)
				out = m.opaqueResults(sig, "result of abandoned "+funcName(fn))
			}
		}()
		depth := m.depth
		defer func() { m.depth = depth }()
		out = m.run(fr, fi.Decl.Type, fi.Decl.Recv, fi.Decl.Body, sig, recv, args, at)
	}()
	return out
}

// run binds parameters and executes a body.
func (m *c16M) run(fr *c16Frame, ft *ast.FuncType, recvList *ast.FieldList, body *ast.BlockStmt, sig *types.Signature, recv c16Val, args []c16Val, at token.Pos) c16Val {
	m.depth++
	defer func() { m.depth-- }()
	fr.nres = sig.Results().Len()
	bind := func(id *ast.Ident, v c16Val) {
		if id.Name != "_" {
			fr.vars[fr.info.Defs[id]] = &c16Cell{v: v}
		}
	}
	if recvList != nil && len(recvList.List) == 1 && len(recvList.List[0].Names) == 1 {
		bind(recvList.List[0].Names[0], recv)
	}
	i := 0
	for _, fld := range ft.Params.List {
		for _, id := range fld.Names {
			if i < len(args) {
				v := args[i]
				if _, isNil := v.(c16Nil); isNil {
					if _, isSlice := sig.Params().At(i).Type().Underlying().(*types.Slice); isSlice {
						v = c16Slice{typ: sig.Params().At(i).Type()}
					}
				}
				bind(id, v)
			} else {
				m.abort("argument count mismatch at %s", m.p.Rel(at))
			}
			i++
		}
		if len(fld.Names) == 0 {
			i++
		}
	}
	if ft.Results != nil {
		k := 0
		for _, fld := range ft.Results.List {
			for _, id := range fld.Names {
				c := &c16Cell{v: c16Zero(sig.Results().At(k).Type())}
				if id.Name != "_" {
					fr.vars[fr.info.Defs[id]] = c
				}
				fr.results = append(fr.results, c)
				k++
			}
		}
	}
	ctl := m.block(fr, body.List)
	for i := len(fr.defers) - 1; i >= 0; i-- {
		fr.defers[i]()
	}
	vals := ctl.vals
	if ctl.kind != token.RETURN {
		vals = nil
	}
	if len(fr.results) > 0 { // deferred calls may have changed named results
		vals = nil
		for _, c := range fr.results {
			vals = append(vals, c.v)
		}
	}
	n := sig.Results().Len()
	switch {
	case n == 0:
		return nil
	case len(vals) != n:
		m.abort("function ended without its %d results at %s", n, m.p.Rel(at))
	case n == 1:
		return vals[0]
	}
	return c16Tuple(vals)
}

// dispatch resolves an interface method on the tracked dynamic type of the receiver.
func (m *c16M) dispatch(fn *types.Func, recv c16Val, args []c16Val, at token.Pos) c16Val {
	sig := fn.Type().(*types.Signature)
	var dyn types.Type
	switch x := recv.(type) {
	case *c16Ptr:
		dyn = types.NewPointer(x.elem)
	case *c16Struct:
		dyn = x.typ
	case c16Slice:
		dyn = x.typ
	case c16Nil:
		m.gopanic("method call on a nil interface at %s", m.p.Rel(at))
	}
	if dyn == nil {
		return m.opaqueResults(sig, "interface call "+fn.Name()+" on an untracked dynamic type")
	}
	sel := types.NewMethodSet(dyn).Lookup(fn.Pkg(), fn.Name())
	if sel == nil {
		return m.opaqueResults(sig, "no method "+fn.Name()+" on "+dyn.String())
	}
	target := sel.Obj().(*types.Func)
	v := recv
	if idx := sel.Index(); len(idx) > 1 {
		v = m.fieldPath(v, dyn, idx[:len(idx)-1], nil)
	}
	_, wantPtr := target.Type().(*types.Signature).Recv().Type().Underlying().(*types.Pointer)
	if p, ok := v.(*c16Ptr); ok && !wantPtr {
		v = c16Copy(p.load())
	}
	return m.invoke(target, v, args, at)
}

// c16SingleCallArg: the call has exactly one argument and it is itself a call.
func c16SingleCallArg(call *ast.CallExpr) (*ast.CallExpr, bool) {
	if len(call.Args) != 1 {
		return nil, false
	}
	inner, ok := ast.Unparen(call.Args[0]).(*ast.CallExpr)
	return inner, ok
}
