package rules

import (
	"fmt"
	"go/ast"
	"go/types"
	"strings"

	"osmcheck/core"
)

// N4: every list that is grown under a map range owns its storage.
//
// `append(l, x)` writes x into l's backing array whenever cap(l) > len(l). A list that was started as a two-index
// slice of a shared block (`block[at:at]`, `shared[:0]`) has a capacity that runs to the end of that block, so its
// appends overwrite memory that the next list carved from the block owns; which list clobbers which then depends
// on the order of the appends, i.e. on map iteration order. Necessary condition (shape-visible): every value stored
// into such a list other than by `l = append(l, ...)` is nil, a fresh allocation (make, composite literal, append
// onto one of these), a re-slice of the list itself, or a THREE-index slice, whose capacity is bounded explicitly.
// Locals and the results of helpers are classified through their definitions; the sizes in a three-index slice are
// not checked (value-dependent).

func c12N4(r *core.R) {
	s := c12NewSorter(r.P)
	n := 0
	for _, pk := range annotateTree(r.P) {
		info := pk.TypesInfo
		for _, fi := range allFuncs(pk) {
			fi := fi
			ast.Inspect(fi.Decl.Body, func(x ast.Node) bool {
				rs, ok := x.(*ast.RangeStmt)
				if !ok {
					return true
				}
				if t := info.TypeOf(rs.X); t == nil {
					return true
				} else if _, isMap := t.Underlying().(*types.Map); !isMap {
					return true
				}
				f := s.fn(fi.Obj)
				if f == nil {
					return true
				}
				for _, t := range s.taints(f, rs.Body, 3) {
					n++
					c := "storage@" + pk.Types.Name() + "." + fi.Name() + " " + types.TypeString(t.root.Type(), func(p *types.Package) string { return p.Name() })
					st := &c12Storage{s: s, root: t.root, elem: t.elem}
					st.scan(f, t.root, 2)
					switch {
					case st.bad != "":
						r.Bad(c, st.badPos.Pos(), "%s is grown by append in hash-map iteration order, but %s", t.root.Name(), st.bad)
					case st.unk != "":
						r.Unknown(c, st.unkPos.Pos(), "%s is grown by append in hash-map iteration order; %s", t.root.Name(), st.unk)
					case len(st.ok) == 0:
						r.OK(c, t.pos, "the lists of %s are only ever grown by append from their zero value: each owns its storage", t.root.Name())
					default:
						r.OK(c, t.pos, "every value stored into the lists of %s owns its storage: %s", t.root.Name(), strings.Join(st.ok, "; "))
					}
				}
				return true
			})
		}
	}
	if n == 0 {
		r.Anchor("list grown under a range over a map in the annotate tree")
	}
}

type c12Storage struct {
	s      *c12Sorter
	root   types.Object
	elem   bool
	ok     []string
	bad    string
	badPos ast.Node
	unk    string
	unkPos ast.Node
}

func (st *c12Storage) note(status int, at ast.Node, why string) {
	switch status {
	case c12OK:
		for _, o := range st.ok {
			if o == why {
				return
			}
		}
		st.ok = append(st.ok, why)
	case c12Bad:
		if st.bad == "" {
			st.bad, st.badPos = why, at
		}
	default:
		if st.unk == "" {
			st.unk, st.unkPos = why, at
		}
	}
}

// scan classifies every store into the lists rooted at root in f, and in the functions root is handed to.
func (st *c12Storage) scan(f *c12Fn, root types.Object, depth int) {
	info := f.info()
	ast.Inspect(f.fi.Decl.Body, func(n ast.Node) bool {
		switch x := n.(type) {
		case *ast.AssignStmt:
			for i, l := range x.Lhs {
				if !st.isList(info, f.fi.Decl.Body, l, root) {
					continue
				}
				if len(x.Lhs) != len(x.Rhs) {
					st.note(c12Unk, x, "`"+src(f.pk.Fset, x)+"` stores a result of a multi-value expression into a list")
					continue
				}
				status, why := st.classify(f, l, x.Rhs[i], 3)
				st.note(status, x, "`"+src(f.pk.Fset, x)+"`: "+why)
			}
		case *ast.CallExpr:
			if depth <= 0 {
				return true
			}
			h := st.s.fn(callee(info, x))
			if h == nil {
				return true
			}
			for _, p := range c12Params(h.info(), h.fi.Decl) {
				if p == nil {
					continue
				}
				arg := argForParam(h.info(), h.fi, x, p)
				if arg == nil {
					continue
				}
				// root, or the struct root is a field of, is handed to h
				base := c12Resolve(info, f.fi.Decl.Body, stripDerefParen(c12StripConv(info, arg)))
				rr, rpath := c12PlaceParts(root)
				switch {
				case base == root && st.elem:
					st.scan(h, p, depth-1)
				case base != nil && base != root && len(rpath) > 0:
					br, bpath := c12PlaceParts(base)
					if br == rr && len(bpath) <= len(rpath) && c12SamePath(bpath, rpath[:len(bpath)]) && c12SharesWithCaller(p, rpath[len(bpath):]) {
						st.scan(h, c12OnBase(p, rpath[len(bpath):]), depth-1)
					}
				}
			}
		}
		return true
	})
}

// isList: l denotes one of the lists (root[k] at element level, root itself otherwise).
func (st *c12Storage) isList(info *types.Info, body ast.Node, l ast.Expr, root types.Object) bool {
	l = ast.Unparen(l)
	if st.elem {
		ix, ok := l.(*ast.IndexExpr)
		return ok && c12Resolve(info, body, stripDerefParen(ix.X)) == root
	}
	return c12Resolve(info, body, stripDerefParen(l)) == root
}

// classify decides whether the value of e, stored into list lhs (nil: any list), owns its storage.
func (st *c12Storage) classify(f *c12Fn, lhs, e ast.Expr, depth int) (int, string) {
	info := f.info()
	e = c12StripConv(info, e)
	text := "`" + src(f.pk.Fset, e) + "`"
	if c12IsNil(info, e) {
		return c12OK, "nil"
	}
	if depth <= 0 {
		return c12Unk, text + " is defined too indirectly for the rule"
	}
	switch x := e.(type) {
	case *ast.CompositeLit:
		return c12OK, "a fresh literal"
	case *ast.SliceExpr:
		if x.Slice3 {
			return c12OK, "a three-index slice (capacity bounded explicitly)"
		}
		if lhs != nil && sameChain(info, stripDerefParen(x.X), stripDerefParen(lhs)) {
			return c12OK, "a re-slice of the list itself"
		}
		if s2, _ := st.classify(f, nil, x.X, depth-1); s2 == c12OK {
			if _, isVar := c12StripConv(info, x.X).(*ast.Ident); !isVar {
				return c12OK, "a slice of a fresh allocation"
			}
		}
		return c12Bad, fmt.Sprintf("%s is a two-index slice of `%s`: its capacity runs to the end of `%s`, so appending to this list writes into storage that other lists carved from `%s` own (use the three-index form %s[lo:hi:max] or a separate allocation)",
			text, src(f.pk.Fset, x.X), src(f.pk.Fset, x.X), src(f.pk.Fset, x.X), src(f.pk.Fset, x.X))
	case *ast.CallExpr:
		switch builtinName(info, x) {
		case "make":
			return c12OK, "a fresh make"
		case "append":
			if len(x.Args) == 0 {
				return c12Unk, text
			}
			if lhs != nil && sameChain(info, stripDerefParen(x.Args[0]), stripDerefParen(lhs)) {
				return c12OK, "grown by append"
			}
			s2, why := st.classify(f, lhs, x.Args[0], depth-1)
			if s2 == c12OK {
				return c12OK, "append onto " + why
			}
			return s2, why
		case "":
		default:
			return c12Unk, text + " is not understood"
		}
		h := st.s.fn(callee(info, x))
		if h == nil {
			return c12Unk, "the result of " + text + " is not followed"
		}
		return st.classifyResult(f, lhs, x, h, depth-1)
	case *ast.Ident:
		v, ok := objOf(info, x).(*types.Var)
		if !ok {
			return c12Unk, text
		}
		return st.classifyVar(f, v, depth-1)
	}
	return c12Unk, text + " may share its storage with another list"
}

// classifyVar: every value assigned to local v owns its storage (v = append(v, ...) keeps it).
func (st *c12Storage) classifyVar(f *c12Fn, v *types.Var, depth int) (int, string) {
	info := f.info()
	if c12ParamPos(info, f.fi.Decl, v) >= 0 {
		return c12Unk, "`" + v.Name() + "` is a parameter of " + f.fi.Name()
	}
	status, why, n := c12OK, "", 0
	merge := func(s2 int, w string) {
		n++
		if s2 != c12OK && status == c12OK {
			status, why = s2, w
		}
	}
	ast.Inspect(f.fi.Decl.Body, func(m ast.Node) bool {
		switch x := m.(type) {
		case *ast.AssignStmt:
			for i, l := range x.Lhs {
				if objOf(info, l) != types.Object(v) {
					continue
				}
				if len(x.Lhs) != len(x.Rhs) {
					merge(c12Unk, "`"+src(f.pk.Fset, x)+"`")
					continue
				}
				merge(st.classify(f, l, x.Rhs[i], depth))
			}
		case *ast.ValueSpec:
			for i, nm := range x.Names {
				if info.Defs[nm] == types.Object(v) && len(x.Values) == len(x.Names) {
					merge(st.classify(f, nm, x.Values[i], depth))
				} else if info.Defs[nm] == types.Object(v) {
					n++ // zero value
				}
			}
		case *ast.RangeStmt:
			if (x.Key != nil && objOf(info, x.Key) == types.Object(v)) || (x.Value != nil && objOf(info, x.Value) == types.Object(v)) {
				merge(c12Unk, "`"+v.Name()+"` is an element of `"+src(f.pk.Fset, x.X)+"`")
			}
		}
		return true
	})
	if n == 0 {
		return c12Unk, "`" + v.Name() + "` has no definition in " + f.fi.Name()
	}
	if status == c12OK {
		return c12OK, "`" + v.Name() + "`, which is only ever nil, freshly allocated or grown by append"
	}
	return status, why
}

// classifyResult: the value returned by h at call x: each returned expression is classified in h; a returned
// parameter stands for the argument at the call.
func (st *c12Storage) classifyResult(f *c12Fn, lhs ast.Expr, x *ast.CallExpr, h *c12Fn, depth int) (int, string) {
	hinfo := h.info()
	status, why, n := c12OK, "", 0
	k := 0
	res := h.fi.Obj.Type().(*types.Signature).Results()
	for i := 0; i < res.Len(); i++ {
		if _, isSlice := res.At(i).Type().Underlying().(*types.Slice); isSlice {
			k = i
			break
		}
	}
	inspectNoLit(h.fi.Decl.Body, func(m ast.Node) bool {
		ret, ok := m.(*ast.ReturnStmt)
		if !ok {
			return true
		}
		n++
		e, v := c12ResultExpr(h, ret, k)
		var s2 int
		var w string
		switch {
		case v != nil && c12ParamPos(hinfo, h.fi.Decl, v) >= 0:
			arg := argForParam(hinfo, h.fi, x, v)
			if arg == nil {
				s2, w = c12Unk, "parameter "+v.Name()+" of "+h.fi.Name()
			} else if lhs != nil && sameChain(f.info(), stripDerefParen(arg), stripDerefParen(lhs)) {
				s2, w = c12OK, "the list itself, handed back by "+h.fi.Name()
			} else {
				s2, w = st.classify(f, lhs, arg, depth)
			}
		case e != nil:
			s2, w = st.classifyIn(h, x, f, lhs, e, depth)
		default:
			s2, w = c12Unk, "`"+src(h.pk.Fset, ret)+"` in "+h.fi.Name()
		}
		if s2 != c12OK && status == c12OK {
			status, why = s2, w
		}
		return true
	})
	if n == 0 {
		return c12Unk, h.fi.Name() + " has no return"
	}
	if status == c12OK {
		return c12OK, "the result of " + h.fi.Name() + ", which returns nil, fresh storage, or the list it was given"
	}
	return status, "in " + h.fi.Name() + ": " + why
}

// classifyIn classifies expression e of helper h; `append(p, ...)` on a parameter p that is bound to the list itself
// is growth of that list.
func (st *c12Storage) classifyIn(h *c12Fn, call *ast.CallExpr, f *c12Fn, lhs, e ast.Expr, depth int) (int, string) {
	hinfo := h.info()
	e = c12StripConv(hinfo, e)
	if c, ok := e.(*ast.CallExpr); ok && builtinName(hinfo, c) == "append" && len(c.Args) > 0 {
		if p, ok := objOf(hinfo, c12StripConv(hinfo, c.Args[0])).(*types.Var); ok && c12ParamPos(hinfo, h.fi.Decl, p) >= 0 && !c12Assigned(hinfo, h.fi.Decl.Body, p) {
			if arg := argForParam(hinfo, h.fi, call, p); arg != nil {
				if lhs != nil && sameChain(f.info(), stripDerefParen(arg), stripDerefParen(lhs)) {
					return c12OK, "the list itself grown by append in " + h.fi.Name()
				}
				return st.classify(f, lhs, arg, depth)
			}
		}
	}
	return st.classify(h, nil, e, depth)
}

func c12SamePath(a, b []*types.Var) bool {
	if len(a) != len(b) {
		return false
	}
	for i := range a {
		if a[i] != b[i] {
			return false
		}
	}
	return true
}
