package rules

import (
	"fmt"
	"go/ast"
	"go/token"
	"go/types"

	"osmcheck/core"
)

// ---------------------------------------------------------------- Q2

// c02FreshAlloc reports whether e allocates a fresh value of the per-worker decoder type: `&T{..}`, `new(T)`, or a call
// of a constructor declared in the package every return of which is such an allocation.
func c02FreshAlloc(m *pbfModel, e ast.Expr, depth int) bool {
	e = ast.Unparen(e)
	switch x := e.(type) {
	case *ast.UnaryExpr:
		if x.Op == token.AND {
			_, ok := ast.Unparen(x.X).(*ast.CompositeLit)
			return ok
		}
	case *ast.CallExpr:
		if builtinName(m.info, x) == "new" {
			return true
		}
		if fn := callee(m.info, x); fn != nil && m.funcs[fn] != nil && depth < 3 {
			rets := m.returnsOf(m.funcs[fn], 0)
			if len(rets) == 0 {
				return false
			}
			for _, ret := range rets {
				if ret == nil {
					return false
				}
				if c02FreshAlloc(m, ret, depth+1) {
					continue
				}
				// return of a local that was freshly allocated
				if o, ok := objOf(m.info, ret).(*types.Var); ok {
					defs := m.defsOf(o)
					if len(defs) == 1 && defs[0].kind == "assign" && c02FreshAlloc(m, defs[0].e, depth+1) {
						continue
					}
				}
				return false
			}
			return true
		}
	}
	return false
}

func c02Q2(r *core.R) {
	m := modelOrAnchor(r)
	if m == nil {
		return
	}
	info := m.info
	wg := m.goOf("worker")
	if wg == nil || wg.loopStmt == nil {
		r.Anchor("worker go statement in the spawning loop")
		return
	}
	isDD := func(t types.Type) bool { return t != nil && namedPath(t) == namedPath(m.ddT) }
	c := "private decoder@" + wg.unit.name
	// expressions of the per-worker decoder type that flow into the goroutine at the go statement:
	// free variables of a closure, or receiver / arguments of `go f(args)`
	type flow struct {
		o    types.Object // local variable (nil when the value is an expression evaluated at the go statement)
		e    ast.Expr
		uses int // uses inside the go statement
	}
	var flows []flow
	addObj := func(o types.Object, e ast.Expr) {
		for i := range flows {
			if flows[i].o == o && o != nil {
				flows[i].uses++
				return
			}
		}
		flows = append(flows, flow{o: o, e: e, uses: 1})
	}
	if wg.decl == nil {
		// free variables of the closure
		ast.Inspect(wg.lit.Body, func(n ast.Node) bool {
			if id, ok := n.(*ast.Ident); ok {
				if o, ok := info.Uses[id].(*types.Var); ok && !o.IsField() && isDD(o.Type()) && !(o.Pos() > wg.lit.Pos() && o.Pos() < wg.lit.End()) {
					addObj(o, id)
				}
			}
			return true
		})
	}
	nCarried := 0
	// receiver and arguments evaluated at the go statement (`go f(args)`, `go func(params){...}(args)`)
	{
		var exprs []ast.Expr
		if sel, ok := wg.stmt.Call.Fun.(*ast.SelectorExpr); ok {
			exprs = append(exprs, sel.X)
		}
		exprs = append(exprs, wg.stmt.Call.Args...)
		for _, e := range exprs {
			if !isDD(info.TypeOf(e)) {
				// a struct that carries what a closure would capture: its fields of the per-worker decoder type
				if cst := c02CarrierStruct(info.TypeOf(e)); cst != nil {
					for i := 0; i < cst.NumFields(); i++ {
						cf := cst.Field(i)
						if !isDD(cf.Type()) {
							continue
						}
						nCarried++
						co, _ := objOf(info, e).(*types.Var)
						inits, ok := m.fieldInits(e, 0, cf, map[types.Object]bool{}, 0)
						fresh := ok && len(inits) > 0
						for _, in := range inits {
							// fresh, and evaluated once per worker (not in a template built before the loop and copied)
							if !c02FreshAlloc(m, in, 0) || !c02PerIterationPos(m, wg.loopStmt, in.Pos(), 0) {
								fresh = false
							}
						}
						carrierFresh := c02CarrierFresh(m, wg, e, co)
						switch {
						case !fresh:
							r.Bad(c, e.Pos(), "the decoder value in field %s of `%s` handed to the worker goroutines is not a fresh allocation per worker: all workers share one decoder and its cached iterators, buffers and object slice", cf.Name(), src(r.P.Fset, e))
						case !carrierFresh:
							r.Bad(c, e.Pos(), "`%s`, which carries the per-worker decoder to the goroutine, is not a fresh value made in the iteration of the spawning loop: all workers share it", src(r.P.Fset, e))
						default:
							r.OK(c, e.Pos(), "`%s` is built per iteration of the spawning loop and its field %s is a fresh decoder value: every worker has its own", src(r.P.Fset, e), cf.Name())
						}
					}
				}
				continue
			}
			if o, ok := objOf(info, e).(*types.Var); ok && !o.IsField() {
				addObj(o, e)
			} else {
				addObj(nil, e)
			}
		}
	}
	// decoder values the worker goroutine makes for itself: locals of the per-worker type declared in the goroutine's
	// own body (each goroutine has its own); they must be fresh allocations too
	nOwn := 0
	ast.Inspect(wg.unit.body, func(n ast.Node) bool {
		id, ok := n.(*ast.Ident)
		if !ok {
			return true
		}
		o, ok := info.Defs[id].(*types.Var)
		if !ok || o.IsField() || !isDD(o.Type()) {
			return true
		}
		nOwn++
		defs := m.defsOf(o)
		if len(defs) == 1 && defs[0].kind == "assign" && c02FreshAlloc(m, defs[0].e, 0) {
			r.OK(c, o.Pos(), "`%s` is allocated by the worker goroutine itself, in its own body: every worker has its own", o.Name())
		} else {
			r.Bad(c, o.Pos(), "the decoder value `%s` the worker goroutine uses is not a fresh allocation of its own: all workers share one decoder and its cached iterators, buffers and object slice", o.Name())
		}
		return true
	})
	if len(flows) == 0 && nOwn == 0 && nCarried == 0 {
		r.Anchor("per-worker decoder value handed to (or made by) the worker goroutine")
		return
	}
	host := wg.host
	for _, f := range flows {
		name := src(r.P.Fset, f.e)
		if f.o == nil {
			// evaluated at the go statement, inside the loop: must be a fresh allocation
			if c02FreshAlloc(m, f.e, 0) {
				r.OK(c, f.e.Pos(), "`%s` is allocated at the go statement of each iteration of the spawning loop", name)
			} else {
				r.Bad(c, f.e.Pos(), "the decoder value `%s` handed to the worker goroutines is not a fresh allocation inside the spawning loop: all workers share one decoder and its cached iterators, buffers and object slice", name)
			}
			continue
		}
		inLoop := pbfPerIterationStmt(f.o, wg.loopStmt, m, true)
		defs := m.defsOf(f.o)
		fresh := len(defs) == 1 && defs[0].kind == "assign" && c02FreshAlloc(m, defs[0].e, 0)
		// used only by this go statement (besides its definition)
		outside := 0
		ast.Inspect(host.Decl.Body, func(n ast.Node) bool {
			if id, ok := n.(*ast.Ident); ok && info.Uses[id] == f.o {
				if !(id.Pos() >= wg.stmt.Pos() && id.Pos() < wg.stmt.End()) {
					outside++
				}
			}
			return true
		})
		switch {
		case !inLoop || !fresh:
			r.Bad(c, f.o.Pos(), "the decoder value `%s` used by the worker goroutines is not a fresh allocation inside the spawning loop: all workers share one decoder and its cached iterators, buffers and object slice", f.o.Name())
		case outside > 0:
			r.Bad(c, f.o.Pos(), "the per-worker decoder `%s` is also used outside its worker's go statement (%d uses)", f.o.Name(), outside)
		default:
			r.OK(c, f.o.Pos(), "`%s` is allocated per iteration of the spawning loop and referenced only by that iteration's go statement", f.o.Name())
		}
	}
	// closures capture no loop variable of the spawner (arguments of `go f(args)` are evaluated at the go statement)
	loopVarsOf := func(fi *FuncInfo) []types.Object {
		var out []types.Object
		ast.Inspect(fi.Decl.Body, func(n ast.Node) bool {
			switch l := n.(type) {
			case *ast.ForStmt:
				if init, ok := l.Init.(*ast.AssignStmt); ok && init.Tok == token.DEFINE {
					for _, x := range init.Lhs {
						out = append(out, info.Defs[identOf(x)])
					}
				}
			case *ast.RangeStmt:
				if l.Tok == token.DEFINE {
					if l.Key != nil {
						out = append(out, info.Defs[identOf(l.Key)])
					}
					if l.Value != nil {
						out = append(out, info.Defs[identOf(l.Value)])
					}
				}
			}
			return true
		})
		return out
	}
	for _, g := range m.gos {
		c := "captures@" + g.unit.name
		if g.decl != nil {
			r.OKTrivial(c, g.stmt.Pos(), "started as `go %s(...)`: receiver and arguments are evaluated at the go statement, nothing is captured by reference", g.decl.Name())
			continue
		}
		loopVars := loopVarsOf(g.host)
		bad := ""
		ast.Inspect(g.lit.Body, func(n ast.Node) bool {
			if id, ok := n.(*ast.Ident); ok {
				for _, lv := range loopVars {
					if lv != nil && info.Uses[id] == lv && !(lv.Pos() > g.lit.Pos() && lv.Pos() < g.lit.End()) {
						bad = lv.Name()
					}
				}
			}
			return true
		})
		if bad != "" {
			r.Bad(c, g.stmt.Pos(), "the goroutine closure captures loop variable `%s` of the spawner (go.mod says go 1.16: one variable per loop, shared by all iterations)", bad)
		} else {
			r.OK(c, g.stmt.Pos(), "captures no loop variable of the spawner (%d loop variables checked)", len(loopVars))
		}
	}
}

// ---------------------------------------------------------------- Q3

func c02Q3(r *core.R) {
	m := modelOrAnchor(r)
	if m == nil {
		return
	}
	info := m.info
	entry := m.decodeEntry()
	if entry == nil {
		r.Anchor("decode entry point called by the worker")
		return
	}
	// the field handed to the consumer: what the entry returns as its first result (directly or through a local)
	var qField *types.Var
	for _, ret := range m.returnsOf(entry, 0) {
		if ret == nil {
			continue
		}
		if f := fieldOf(info, ret); f != nil && namedPath(selRecv(info, ast.Unparen(ret))) == namedPath(m.ddT) {
			qField = f
		}
	}
	if qField == nil {
		r.Anchor("object slice field returned by " + entry.Name())
		return
	}
	isQ := func(e ast.Expr) bool {
		return fieldOf(info, e) == qField && namedPath(selRecv(info, ast.Unparen(e))) == namedPath(m.ddT)
	}
	isFresh := func(n ast.Node) bool {
		as, ok := n.(*ast.AssignStmt)
		if !ok || len(as.Lhs) != len(as.Rhs) {
			return false
		}
		for i, l := range as.Lhs {
			if isQ(l) {
				if call, ok := ast.Unparen(as.Rhs[i]).(*ast.CallExpr); ok && builtinName(info, call) == "make" {
					return true
				}
			}
		}
		return false
	}
	// typestate over every path of the entry, through the functions it calls: the slice must be replaced by a fresh one
	// before anything is appended to it and before it is returned
	c := "fresh@" + entry.Name() + " " + qField.Name()
	var viols []c02Viol
	var freshPos token.Pos
	t := m.newTracer()
	t.inlineOnly(m, func(u *unit) bool { return unitWritesField(m, u, qField) })
	t.Event = func(st int, ev *pbfEvent) int {
		switch ev.kind {
		case "node", "return":
			if isFresh(ev.n) {
				freshPos = ev.n.Pos()
				return 1
			}
			if st == 0 && ev.n != nil {
				if ret, ok := ev.n.(*ast.ReturnStmt); ok {
					if ev.depth == 0 && len(ret.Results) > 0 && usesField(info, ret.Results[0], qField) {
						viols = append(viols, c02Viol{ret.Pos(), fmt.Sprintf("%s can return dec.%s without having assigned a fresh `make` to it for this block", entry.Name(), qField.Name())})
					}
					return st
				}
				if usesField(info, ev.n, qField) {
					if as, ok := ev.n.(*ast.AssignStmt); ok {
						for _, l := range as.Lhs {
							if usesField(info, l, qField) {
								viols = append(viols, c02Viol{as.Pos(), fmt.Sprintf("`%s` writes the object slice before a fresh `make` was assigned for this block: the slice handed to the consumer for the previous block is reused while the consumer is still reading it", src(r.P.Fset, as))})
							}
						}
					}
				}
			}
		}
		return st
	}
	t.Run(entry, entry.Decl.Body, 0)
	if !freshPos.IsValid() {
		viols = append(viols, c02Viol{entry.Decl.Pos(), fmt.Sprintf("%s does not assign a fresh `make` to dec.%s: the slice handed to the consumer for the previous block is reused while the consumer is still reading it", entry.Name(), qField.Name())})
	}
	pos := entry.Decl.Pos()
	if freshPos.IsValid() {
		pos = freshPos
	}
	c02Report(r, c, pos, viols, t.incomplete, "on every path a fresh make is assigned before anything is appended to the slice and before it is returned")

	// every write to q anywhere: fresh make reached from the entry, or `dec.q = append(dec.q, x)`
	entryU := m.byDecl[entry.Obj]
	n := 0
	for _, u := range m.sortedUnits() {
		u := u
		m.walkUnit(u, func(x ast.Node) bool {
			as, ok := x.(*ast.AssignStmt)
			if !ok {
				return true
			}
			for i, l := range as.Lhs {
				if !usesField(info, l, qField) {
					continue
				}
				n++
				cc := "write@" + u.name + " " + qField.Name()
				if fieldOf(info, l) != qField {
					r.Bad(cc, as.Pos(), "`%s` writes an element of the object slice in place", src(r.P.Fset, as))
					continue
				}
				okw := false
				if len(as.Lhs) == len(as.Rhs) {
					if call, ok := ast.Unparen(as.Rhs[i]).(*ast.CallExpr); ok {
						switch builtinName(info, call) {
						case "make":
							okw = u == entryU || m.unitReaches(entryU, func(y *unit) bool { return y == u })
						case "append":
							okw = len(call.Args) >= 1 && fieldOf(info, call.Args[0]) == qField
						}
					}
				}
				if okw {
					r.OK(cc, as.Pos(), "`%s`", src(r.P.Fset, as))
				} else {
					r.Bad(cc, as.Pos(), "`%s`: the object slice may only be replaced by a fresh make in %s or extended by append; anything else (re-slicing, reuse) lets a worker overwrite objects the consumer still holds", src(r.P.Fset, as), entry.Name())
				}
			}
			return true
		})
	}
	r.Stat("writes_to_object_slice", n)
}

var _ = core.Discharged

// c02CarrierFresh: the struct value e that carries captured state to the worker goroutine is one per worker. A literal
// evaluated at the go statement is; a variable of struct type (not a pointer) declared per iteration of the spawning
// loop is a value of its own whatever it is assigned; a pointer variable must be declared per iteration and have a
// single definition that is a fresh allocation.
func c02CarrierFresh(m *pbfModel, wg *goSite, e ast.Expr, co *types.Var) bool {
	if co == nil {
		_, lit := ast.Unparen(pbfStripAddr(e)).(*ast.CompositeLit)
		body := pbfLoopBody(wg.loopStmt)
		return lit && body != nil && body.Pos() < e.Pos() && e.End() <= body.End()
	}
	if co.IsField() || !pbfPerIterationStmt(co, wg.loopStmt, m, true) {
		return false
	}
	if _, ptr := co.Type().Underlying().(*types.Pointer); !ptr {
		return true
	}
	defs := m.defsOf(co)
	return len(defs) == 1 && defs[0].kind == "assign" && c02FreshAlloc(m, defs[0].e, 0)
}

// c02PerIterationPos: what is written at pos is evaluated in every iteration of loop: it lies in the loop body, or in a
// function (not the one holding the loop) all of whose static call sites are evaluated in every iteration.
func c02PerIterationPos(m *pbfModel, loop ast.Stmt, pos token.Pos, depth int) bool {
	body := pbfLoopBody(loop)
	if body == nil || depth > 4 {
		return false
	}
	if body.Pos() < pos && pos < body.End() {
		return true
	}
	fi := m.funcAt(pos)
	if fi == nil || (fi.Decl.Pos() <= loop.Pos() && loop.End() <= fi.Decl.End()) {
		return false
	}
	sites := m.sites[fi.Obj]
	for _, s := range sites {
		if !c02PerIterationPos(m, loop, s.call.Pos(), depth+1) {
			return false
		}
	}
	return len(sites) > 0
}

// c02CarrierStruct returns the struct type behind t when t is a (pointer to a) named struct type.
func c02CarrierStruct(t types.Type) *types.Struct {
	if t == nil {
		return nil
	}
	if pt, ok := t.(*types.Pointer); ok {
		t = pt.Elem()
	}
	if _, ok := t.(*types.Named); !ok {
		return nil
	}
	st, _ := t.Underlying().(*types.Struct)
	return st
}
