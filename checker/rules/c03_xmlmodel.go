package rules

// XML/JSON naming model shared by C03, C04 and C05 (DESIGN.md §3.3).
//
// A re-implementation, over go/types, of the *naming* rules of encoding/xml
// (typeinfo.go: structFieldInfo/getTypeInfo; marshal.go: marshalValue/defaultStart)
// and of encoding/json (encode.go: typeFields). Only naming is modelled: which
// element / attribute / JSON key a struct field is written under and read from,
// whether a type takes the custom path (Marshaler/Unmarshaler in its method set)
// and which element name Encoder.Encode / EncodeElement give a value. Everything
// else (escaping, attribute order, numeric formats) is encoding/xml's business
// and part of the trusted base.

import (
	"encoding/json"
	"fmt"
	"go/ast"
	"go/token"
	"go/types"
	"os"
	"path/filepath"
	"reflect"
	"sort"
	"strings"

	"golang.org/x/tools/go/packages"

	"osmcheck/core"
)

// XML field modes (encoding/xml fieldFlags).
const (
	c03Attr     = "attr"
	c03Elem     = "element"
	c03CharData = "chardata"
	c03CData    = "cdata"
	c03InnerXML = "innerxml"
	c03Comment  = "comment"
	c03Any      = "any"
)

// c03Field is one field of a struct as encoding/xml sees it.
type c03Field struct {
	Var       *types.Var
	Name      string   // XML local name (last segment of an a>b>c tag); "" for chardata/innerxml/comment/any
	Parents   []string // the a, b of a>b>c
	Kind      string
	OmitEmpty bool
	Via       []*types.Var // embedded fields the field is promoted through
}

// Path returns parents and name joined by '/'.
func (f *c03Field) Path() string {
	return strings.Join(append(append([]string{}, f.Parents...), f.Name), "/")
}

// GoPath returns the Go selector path (Embedded.Field).
func (f *c03Field) GoPath() string {
	var s []string
	for _, v := range f.Via {
		s = append(s, v.Name())
	}
	return strings.Join(append(s, f.Var.Name()), ".")
}

// c03Struct is the encoding/xml view of a struct type (typeInfo).
type c03Struct struct {
	T       types.Type
	Struct  *types.Struct
	XMLName *c03Field // nil when the struct has no XMLName field
	Fields  []*c03Field
	Errs    []string // conditions under which encoding/xml's getTypeInfo fails for the type
}

// c03Deref strips pointers.
func c03Deref(t types.Type) types.Type {
	for {
		p, ok := t.Underlying().(*types.Pointer)
		if !ok {
			return t
		}
		t = p.Elem()
	}
}

// c03ElemType strips pointers, slices and arrays (the value(s) an element field holds).
func c03ElemType(t types.Type) types.Type {
	for {
		switch u := t.Underlying().(type) {
		case *types.Pointer:
			t = u.Elem()
		case *types.Slice:
			if b, ok := u.Elem().Underlying().(*types.Basic); ok && b.Kind() == types.Uint8 {
				return t
			}
			t = u.Elem()
		case *types.Array:
			t = u.Elem()
		default:
			return t
		}
	}
}

func c03TypeName(t types.Type) string {
	if nt, ok := t.(*types.Named); ok {
		return nt.Obj().Name()
	}
	if b, ok := t.(*types.Basic); ok {
		return b.Name()
	}
	return ""
}

func c03Short(t types.Type) string {
	return types.TypeString(t, func(p *types.Package) string { return p.Name() })
}

// c03XMLTypeInfo mirrors encoding/xml.getTypeInfo for a (pointer to a) struct type; nil for non-structs.
func c03XMLTypeInfo(t types.Type) *c03Struct {
	return c03xmlInfo(t, map[types.Type]bool{})
}

func c03xmlInfo(t types.Type, busy map[types.Type]bool) *c03Struct {
	t = c03Deref(t)
	st, ok := t.Underlying().(*types.Struct)
	if !ok {
		return nil
	}
	ti := &c03Struct{T: t, Struct: st}
	if busy[t] {
		return ti
	}
	busy[t] = true
	defer delete(busy, t)
	for i := 0; i < st.NumFields(); i++ {
		f := st.Field(i)
		tag := reflect.StructTag(st.Tag(i)).Get("xml")
		if (!f.Exported() && !f.Embedded()) || tag == "-" {
			continue
		}
		if f.Embedded() {
			et := c03Deref(f.Type())
			if _, isStruct := et.Underlying().(*types.Struct); isStruct {
				inner := c03xmlInfo(et, busy)
				if ti.XMLName == nil {
					ti.XMLName = inner.XMLName
				}
				for _, fi := range inner.Fields {
					c := *fi
					c.Via = append([]*types.Var{f}, fi.Via...)
					c03addField(ti, &c)
				}
				continue
			}
		}
		fi, err := c03parseXMLTag(f, tag)
		if err != "" {
			ti.Errs = append(ti.Errs, err)
			continue
		}
		if f.Name() == "XMLName" {
			ti.XMLName = fi
			continue
		}
		// element with no name in the tag: the XMLName of the field's type, else the Go field name
		if fi.Name == "" && fi.Kind == c03Elem {
			if in := c03xmlInfo(f.Type(), busy); in != nil && in.XMLName != nil && in.XMLName.Name != "" {
				fi.Name = in.XMLName.Name
			} else {
				fi.Name = f.Name()
			}
		}
		if fi.Name == "" && fi.Kind == c03Attr {
			fi.Name = f.Name()
		}
		// typeinfo.go: "name %q in tag of %s.%s conflicts with name %q in %s.XMLName"
		if fi.Kind == c03Elem {
			if in := c03xmlInfo(f.Type(), busy); in != nil && in.XMLName != nil && in.XMLName.Name != "" && in.XMLName.Name != fi.Name {
				ti.Errs = append(ti.Errs, fmt.Sprintf("name %q in tag of %s.%s conflicts with name %q in %s.XMLName", fi.Name, c03Short(t), f.Name(), in.XMLName.Name, c03Short(c03Deref(f.Type()))))
			}
		}
		c03addField(ti, fi)
	}
	return ti
}

// c03addField adds a field unless an identically named one of the same class exists at a
// shallower depth (encoding/xml addFieldInfo, reduced to what the repository's shapes need:
// a conflict at equal depth is an error there and is recorded as one here).
func c03addField(ti *c03Struct, nf *c03Field) {
	for i, of := range ti.Fields {
		if (of.Kind == c03Attr) != (nf.Kind == c03Attr) || of.Path() != nf.Path() || of.Name == "" {
			continue
		}
		switch {
		case len(of.Via) < len(nf.Via):
			return // shadowed by the shallower field
		case len(of.Via) > len(nf.Via):
			ti.Fields[i] = nf
			return
		default:
			ti.Errs = append(ti.Errs, fmt.Sprintf("%s: fields %s and %s both claim XML %s %q", c03Short(ti.T), of.GoPath(), nf.GoPath(), of.Kind, of.Path()))
			return
		}
	}
	ti.Fields = append(ti.Fields, nf)
}

// c03parseXMLTag mirrors structFieldInfo's tag parsing.
func c03parseXMLTag(f *types.Var, tag string) (*c03Field, string) {
	fi := &c03Field{Var: f}
	if _, rest, ok := strings.Cut(tag, " "); ok { // "namespace-URL name"
		tag = rest
	}
	tokens := strings.Split(tag, ",")
	if len(tokens) == 1 {
		fi.Kind = c03Elem
	} else {
		tag = tokens[0]
		flags := map[string]bool{}
		for _, flag := range tokens[1:] {
			flags[flag] = true
		}
		var modes []string
		for _, m := range []string{c03Attr, c03CData, c03CharData, c03InnerXML, c03Comment, c03Any} {
			if flags[m] {
				modes = append(modes, m)
			}
		}
		fi.OmitEmpty = flags["omitempty"]
		switch {
		case len(modes) == 0:
			fi.Kind = c03Elem
		case len(modes) == 1:
			fi.Kind = modes[0]
		case len(modes) == 2 && flags[c03Any] && flags[c03Attr]:
			fi.Kind = c03Attr // `,any,attr` collects unknown attributes
		default:
			return nil, fmt.Sprintf("invalid tag in field %s: %q", f.Name(), tag)
		}
		if fi.OmitEmpty && fi.Kind != c03Elem && fi.Kind != c03Attr {
			return nil, fmt.Sprintf("invalid tag in field %s: omitempty on %s", f.Name(), fi.Kind)
		}
		if tag != "" && fi.Kind != c03Elem && fi.Kind != c03Attr {
			return nil, fmt.Sprintf("invalid tag in field %s: name on %s field", f.Name(), fi.Kind)
		}
	}
	if tag == "" {
		return fi, ""
	}
	parents := strings.Split(tag, ">")
	if len(parents) > 1 && fi.Kind != c03Elem {
		return nil, fmt.Sprintf("field %s: a>b path on a non-element field", f.Name())
	}
	for _, p := range parents {
		if p == "" {
			return nil, fmt.Sprintf("field %s: empty segment in path %q", f.Name(), tag)
		}
	}
	fi.Name = parents[len(parents)-1]
	fi.Parents = parents[:len(parents)-1]
	return fi, ""
}

// Field returns the XML view of the named Go field (promoted fields by their own name).
func (s *c03Struct) Field(goName string) *c03Field {
	for _, f := range s.Fields {
		if f.Var.Name() == goName {
			return f
		}
	}
	return nil
}

// FieldOf returns the XML view of the field object.
func (s *c03Struct) FieldOf(v *types.Var) *c03Field {
	for _, f := range s.Fields {
		if f.Var == v {
			return f
		}
	}
	return nil
}

// Lookup finds the field that claims the XML name under the given parents for the class (attr or not).
func (s *c03Struct) Lookup(attr bool, path []string) *c03Field {
	want := strings.Join(path, "/")
	for _, f := range s.Fields {
		if (f.Kind == c03Attr) == attr && f.Name != "" && f.Path() == want {
			return f
		}
	}
	return nil
}

// ---- method sets -----------------------------------------------------------------------------

// c03Iface looks an interface type up in a loaded package (encoding/xml.Marshaler, ...).
func c03Iface(p *core.Program, pkgpath, name string) *types.Interface {
	pk := p.ByPath[pkgpath]
	if pk == nil || pk.Types == nil {
		return nil
	}
	o := pk.Types.Scope().Lookup(name)
	if o == nil {
		return nil
	}
	it, _ := o.Type().Underlying().(*types.Interface)
	return it
}

// c03Implements reports how t satisfies pkgpath.name: "value" (T itself), "pointer" (only *T), "" (not at all).
func c03Implements(p *core.Program, t types.Type, pkgpath, name string) string {
	it := c03Iface(p, pkgpath, name)
	if it == nil || t == nil {
		return ""
	}
	t = c03Deref(t)
	if _, isIface := t.Underlying().(*types.Interface); isIface {
		return ""
	}
	if types.Implements(t, it) {
		return "value"
	}
	if types.Implements(types.NewPointer(t), it) {
		return "pointer"
	}
	return ""
}

// c03Method returns the method `name` of (the pointer to) t declared in the repository, or nil.
func c03Method(t types.Type, name string) *types.Func {
	t = c03Deref(t)
	ms := types.NewMethodSet(types.NewPointer(t))
	for i := 0; i < ms.Len(); i++ {
		if fn, ok := ms.At(i).Obj().(*types.Func); ok && fn.Name() == name {
			return fn
		}
	}
	return nil
}

// c03FuncInfoOf finds the declaration of fn in the repository packages.
func c03FuncInfoOf(p *core.Program, fn *types.Func) *FuncInfo {
	if fn == nil || fn.Pkg() == nil {
		return nil
	}
	pk := p.ByPath[fn.Pkg().Path()]
	if pk == nil || !strings.HasPrefix(pk.PkgPath, core.ModulePath) {
		return nil
	}
	for _, f := range pk.Syntax {
		for _, d := range f.Decls {
			if fd, ok := d.(*ast.FuncDecl); ok && pk.TypesInfo.Defs[fd.Name] == fn {
				return &FuncInfo{Pkg: pk, Decl: fd, Obj: fn}
			}
		}
	}
	return nil
}

// ---- emitted element names -------------------------------------------------------------------

// c03Emit is one element name Encoder.Encode/EncodeElement can give a value.
type c03Emit struct {
	Name string
	Why  string // which naming rule produced it
	Err  string // non-empty: encoding/xml cannot name the value (or the model cannot decide)
}

// c03StartOverride describes what a MarshalXML method does with the start element it is handed (observed on its
// paths with every field set, see c04StartOverrideOf).
type c03StartOverride struct {
	Forced  string // constant name of the element it writes ("" = none)
	Passes  bool   // the handed start element is written unrenamed
	Unknown string // the name it writes cannot be resolved
}

// c03EmittedNames computes the element name(s) marshalValue gives a value of static type t when
// reached with start template tmpl ("" = none: Encoder.Encode) and enclosing field name fld
// ("" = top level). Slices are transparent (one element per item, no wrapper).
func c03EmittedNames(p *core.Program, t types.Type, tmpl, fld string) []c03Emit {
	return c03emitted(p, t, tmpl, fld, 0)
}

func c03emitted(p *core.Program, t types.Type, tmpl, fld string, depth int) []c03Emit {
	if depth > 8 {
		return []c03Emit{{Err: "type nesting too deep"}}
	}
	t = c03Deref(t)
	if _, ok := t.Underlying().(*types.Interface); ok {
		return []c03Emit{{Err: "value of interface type " + c03Short(t) + ": the element name depends on the dynamic type"}}
	}
	defStart := func() (string, string) { // defaultStart: template, field name, type name
		switch {
		case tmpl != "":
			return tmpl, "start element passed to EncodeElement"
		case fld != "":
			return fld, "enclosing field's tag"
		case c03TypeName(t) != "":
			return c03TypeName(t), "Go type name " + c03TypeName(t) + " (no start element, no field tag)"
		}
		return "", ""
	}
	if how := c03Implements(p, t, "encoding/xml", "Marshaler"); how != "" {
		n, why := defStart()
		fn := c03Method(t, "MarshalXML")
		if fi := c03FuncInfoOf(p, fn); fi != nil {
			ov := c04StartOverrideOf(p, fi, n)
			switch {
			case ov.Unknown != "":
				return []c03Emit{{Err: funcName(fn) + ": " + ov.Unknown}}
			case ov.Forced != "":
				return []c03Emit{{Name: ov.Forced, Why: funcName(fn) + " sets start.Name.Local"}}
			}
			return []c03Emit{{Name: n, Why: why + ", passed through " + funcName(fn)}}
		}
		return []c03Emit{{Name: n, Why: why + " (Marshaler outside the repository)"}}
	}
	if how := c03Implements(p, t, "encoding", "TextMarshaler"); how != "" {
		n, why := defStart()
		return []c03Emit{{Name: n, Why: why + " (TextMarshaler)"}}
	}
	switch u := t.Underlying().(type) {
	case *types.Slice:
		if b, ok := u.Elem().Underlying().(*types.Basic); !ok || b.Kind() != types.Uint8 {
			return c03emitted(p, u.Elem(), tmpl, fld, depth+1)
		}
	case *types.Array:
		if b, ok := u.Elem().Underlying().(*types.Basic); !ok || b.Kind() != types.Uint8 {
			return c03emitted(p, u.Elem(), tmpl, fld, depth+1)
		}
	case *types.Struct:
		// marshalValue precedence: 0 start template, 1 XMLName, 2 field tag, 3 type name
		if tmpl != "" {
			return []c03Emit{{Name: tmpl, Why: "start element passed to EncodeElement"}}
		}
		ti := c03XMLTypeInfo(t)
		if len(ti.Errs) > 0 {
			return []c03Emit{{Err: "encoding/xml rejects " + c03Short(t) + ": " + ti.Errs[0]}}
		}
		if ti.XMLName != nil {
			if ti.XMLName.Name != "" {
				return []c03Emit{{Name: ti.XMLName.Name, Why: "XMLName tag of " + c03Short(t)}}
			}
			if namedPath(ti.XMLName.Var.Type()) == "encoding/xml.Name" {
				return []c03Emit{{Err: c03Short(t) + ".XMLName has no name in its tag: the element name is the run-time value of the field"}}
			}
		}
		if fld != "" {
			return []c03Emit{{Name: fld, Why: "enclosing field's tag"}}
		}
		if n := c03TypeName(t); n != "" {
			return []c03Emit{{Name: n, Why: "Go type name " + n + " (" + c03Short(t) + " has no XMLName field and Encode is given no start element)"}}
		}
		return []c03Emit{{Err: "unnamed struct type without XMLName, field tag or start element: xml.UnsupportedTypeError"}}
	}
	n, why := defStart()
	if n == "" {
		return []c03Emit{{Err: "unnamed type " + c03Short(t) + " cannot be named"}}
	}
	return []c03Emit{{Name: n, Why: why}}
}

// c03FS is the file set of the program under analysis (set by c03Init at the start of every rule).
var c03FS = token.NewFileSet()

// c03Init records the file set used for rendering source in model diagnostics.
func c03Init(r *core.R) { c03FS = r.P.Fset }

// ---- JSON ----------------------------------------------------------------------------------

// c03JSONField is one field of a struct as encoding/json names it.
type c03JSONField struct {
	Var       *types.Var
	Key       string
	OmitEmpty bool
	AsString  bool
}

// c03JSONFields mirrors encoding/json typeFields for the (non-embedded) shapes the repository uses:
// exported fields, tag name or Go name, "-" skipped, omitempty. Embedded structs are flattened one level deep.
func c03JSONFields(t types.Type) []*c03JSONField {
	t = c03Deref(t)
	st, ok := t.Underlying().(*types.Struct)
	if !ok {
		return nil
	}
	var out []*c03JSONField
	for i := 0; i < st.NumFields(); i++ {
		f := st.Field(i)
		tag, has := reflect.StructTag(st.Tag(i)).Lookup("json")
		if tag == "-" {
			continue
		}
		if f.Embedded() && (!has || strings.Split(tag, ",")[0] == "") {
			if _, isStruct := c03Deref(f.Type()).Underlying().(*types.Struct); isStruct {
				out = append(out, c03JSONFields(f.Type())...)
				continue
			}
		}
		if !f.Exported() {
			continue
		}
		parts := strings.Split(tag, ",")
		jf := &c03JSONField{Var: f, Key: parts[0]}
		if jf.Key == "" {
			jf.Key = f.Name()
		}
		for _, o := range parts[1:] {
			switch o {
			case "omitempty":
				jf.OmitEmpty = true
			case "string":
				jf.AsString = true
			}
		}
		out = append(out, jf)
	}
	return out
}

func c03JSONKey(t types.Type, key string) *c03JSONField {
	for _, f := range c03JSONFields(t) {
		if f.Key == key {
			return f
		}
	}
	return nil
}

func c03JSONFieldOf(t types.Type, v *types.Var) *c03JSONField {
	for _, f := range c03JSONFields(t) {
		if f.Var == v {
			return f
		}
	}
	return nil
}

// ---- external table ------------------------------------------------------------------------

type c03TableEntry struct {
	XML   string `json:"xml"`
	Kind  string `json:"kind"`
	Field string `json:"field"`
}

type c03TableType struct {
	Go      string          `json:"go"`
	Element string          `json:"element"`
	Custom  bool            `json:"custom"`
	Doc     string          `json:"doc"`
	Entries []c03TableEntry `json:"entries"`
}

type c03Table struct {
	Sources []string       `json:"sources"`
	Types   []c03TableType `json:"types"`
}

// c03ReadTable reads a file of the tables directory: rules.TablesDir first, then (for the sensitivity suite's
// sub-processes, which are started without -verif) $OSMCHECK_TABLES and the tables directory next to / above
// the executable.
func c03ReadTable(name string) ([]byte, error) {
	dirs := []string{TablesDir}
	if d := os.Getenv("OSMCHECK_TABLES"); d != "" {
		dirs = append(dirs, d)
	}
	if exe, err := os.Executable(); err == nil {
		dirs = append(dirs, filepath.Join(filepath.Dir(exe), "tables"), filepath.Join(filepath.Dir(exe), "..", "tables"))
	}
	var first error
	for _, d := range dirs {
		b, err := os.ReadFile(filepath.Join(d, name))
		if err == nil {
			return b, nil
		}
		if first == nil {
			first = err
		}
	}
	return nil, first
}

// c03LoadTable reads tables/osmxml.json.
func c03LoadTable() (*c03Table, error) {
	b, err := c03ReadTable("osmxml.json")
	if err != nil {
		return nil, err
	}
	var t c03Table
	if err := json.Unmarshal(b, &t); err != nil {
		return nil, err
	}
	if len(t.Types) == 0 {
		return nil, fmt.Errorf("no types in table")
	}
	return &t, nil
}

func (t *c03Table) Type(goName string) *c03TableType {
	for i := range t.Types {
		if t.Types[i].Go == goName {
			return &t.Types[i]
		}
	}
	return nil
}

// c03Resolved is the result of walking a table path through the struct tags.
type c03Resolved struct {
	GoPath string
	Leaf   *c03Field
	Err    string
}

// c03ResolveXMLPath walks an XML path ("blocks/received/@count") through the tags of t: at each struct the
// field claiming the longest matching prefix of the remaining segments is taken, and the walk continues in the
// field's element type.
func c03ResolveXMLPath(t types.Type, path string) c03Resolved {
	segs := strings.Split(path, "/")
	attr := strings.HasPrefix(segs[len(segs)-1], "@")
	if attr {
		segs[len(segs)-1] = strings.TrimPrefix(segs[len(segs)-1], "@")
	}
	var goPath []string
	cur := t
	for len(segs) > 0 {
		ti := c03XMLTypeInfo(c03ElemType(cur))
		if ti == nil {
			return c03Resolved{Err: fmt.Sprintf("%s is not a struct, cannot hold %q", c03Short(cur), strings.Join(segs, "/"))}
		}
		if len(ti.Errs) > 0 {
			return c03Resolved{Err: "encoding/xml rejects " + c03Short(ti.T) + ": " + ti.Errs[0]}
		}
		var hit *c03Field
		used := 0
		for n := len(segs); n >= 1 && hit == nil; n-- {
			isAttr := attr && n == len(segs)
			if f := ti.Lookup(isAttr, segs[:n]); f != nil {
				hit, used = f, n
			}
		}
		if hit == nil {
			what := "element"
			if attr && len(segs) == 1 {
				what = "attribute"
			}
			return c03Resolved{Err: fmt.Sprintf("no field of %s is tagged for %s %q", c03Short(ti.T), what, strings.Join(segs, "/"))}
		}
		goPath = append(goPath, hit.GoPath())
		segs = segs[used:]
		cur = hit.Var.Type()
		if len(segs) == 0 {
			return c03Resolved{GoPath: strings.Join(goPath, "."), Leaf: hit}
		}
	}
	return c03Resolved{Err: "empty path"}
}

// c03TextLike reports whether encoding/xml stores character data / an attribute value into t:
// basic kinds, []byte, TextUnmarshaler (time.Time), or an xml.Unmarshaler that decodes text itself.
func c03TextLike(p *core.Program, t types.Type) bool {
	t = c03Deref(t)
	if c03Implements(p, t, "encoding", "TextUnmarshaler") != "" || c03Implements(p, t, "encoding/xml", "Unmarshaler") != "" {
		return true
	}
	switch u := t.Underlying().(type) {
	case *types.Basic:
		return true
	case *types.Slice:
		b, ok := u.Elem().Underlying().(*types.Basic)
		return ok && b.Kind() == types.Uint8
	}
	return false
}

// ---- small shared helpers ------------------------------------------------------------------

// c03Receiver returns the receiver variable of a method declaration.
func c03Receiver(fi *FuncInfo) *types.Var {
	return fi.Obj.Type().(*types.Signature).Recv()
}

// c03SortedKeys returns the sorted keys of a string set.
func c03SortedKeys(m map[string]bool) []string {
	var out []string
	for k := range m {
		out = append(out, k)
	}
	sort.Strings(out)
	return out
}

// c03OsmPkg returns package osm and osmxml.
func c03OsmPkg(p *core.Program) *packages.Package { return p.Pkg("") }

// c03Callees lists the functions of the same package statically called from fi, transitively (bounded).
func c03Callees(p *core.Program, fi *FuncInfo, depth int) []*FuncInfo {
	seen := map[*types.Func]bool{fi.Obj: true}
	out := []*FuncInfo{fi}
	frontier := []*FuncInfo{fi}
	for d := 0; d < depth && len(frontier) > 0; d++ {
		var next []*FuncInfo
		for _, f := range frontier {
			ast.Inspect(f.Decl.Body, func(n ast.Node) bool {
				call, ok := n.(*ast.CallExpr)
				if !ok {
					return true
				}
				fn := callee(f.Pkg.TypesInfo, call)
				if fn == nil || seen[fn] || fn.Pkg() != fi.Obj.Pkg() {
					return true
				}
				seen[fn] = true
				if ci := c03FuncInfoOf(p, fn); ci != nil && ci.Decl.Body != nil {
					out = append(out, ci)
					next = append(next, ci)
				}
				return true
			})
		}
		frontier = next
	}
	return out
}
