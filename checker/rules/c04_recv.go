package rules

import (
	"go/token"
	"go/types"
	"sort"

	"osmcheck/core"
)

// Method-set rule shared by C04 (X7) and C05 (J7).
//
// encoding/xml and encoding/json look a custom marshaler up in the method set of the value they are handed. A
// Marshal* method declared on *T is in the method set of *T only: a T that is not addressable (passed by value to
// Marshal, held in a map or an interface, a by-value field of a struct marshalled by value) silently gets the default
// struct encoding (or, for XML, the TextMarshaler of an embedded time.Time) - a different document, with no error,
// that the type's own Unmarshal* does not read back. A value receiver puts the method in both method sets, so "the
// marshaler of T has a value receiver" is a necessary condition of "marshalling any T gives the documented form";
// it is decided from the declaration alone. (Unmarshal* methods are not constrained: the library's marker types use
// value receivers there on purpose.)

var c04MarshalNames = map[string][]string{
	"xml":  {"MarshalXML", "MarshalXMLAttr", "MarshalText"},
	"json": {"MarshalJSON", "MarshalText"},
}

func marshalerReceivers(r *core.R, codec string) {
	pk := r.P.Pkg("")
	if pk == nil || pk.Types == nil {
		r.Unknown("package", token.NoPos, "root package not loaded")
		return
	}
	want := map[string]bool{}
	for _, n := range c04MarshalNames[codec] {
		want[n] = true
	}
	scope := pk.Types.Scope()
	names := scope.Names()
	sort.Strings(names)
	for _, n := range names {
		tn, ok := scope.Lookup(n).(*types.TypeName)
		if !ok || tn.IsAlias() {
			continue
		}
		named, ok := tn.Type().(*types.Named)
		if !ok {
			continue
		}
		for i := 0; i < named.NumMethods(); i++ {
			m := named.Method(i)
			if !want[m.Name()] || !marshalerShape(m) {
				continue
			}
			sig := m.Type().(*types.Signature)
			_, ptr := sig.Recv().Type().(*types.Pointer)
			c := "receiver@" + tn.Name() + "." + m.Name()
			if ptr {
				r.Bad(c, m.Pos(), "%s is declared on *%s: it is not in the method set of %s, so a %s that is not addressable (marshalled by value, held in a map or an interface) is written with the default encoding instead - a different document, without an error, that %s's decoder does not read back", m.Name(), tn.Name(), tn.Name(), tn.Name(), tn.Name())
			} else {
				r.OK(c, m.Pos(), "%s has a value receiver: it is used for %s and *%s alike, addressable or not", m.Name(), tn.Name(), tn.Name())
			}
		}
		// a marshaler that is only promoted from an embedded pointer-receiver method is caught at its declaration
	}
}

// marshalerShape: the method has the signature the codec looks for (so that an unrelated method of the same name is
// not constrained).
func marshalerShape(m *types.Func) bool {
	sig := m.Type().(*types.Signature)
	res := sig.Results()
	isErr := func(t types.Type) bool { return types.Identical(t, types.Universe.Lookup("error").Type()) }
	switch m.Name() {
	case "MarshalJSON", "MarshalText":
		return sig.Params().Len() == 0 && res.Len() == 2 && isErr(res.At(1).Type())
	case "MarshalXML":
		return sig.Params().Len() == 2 && res.Len() == 1 && isErr(res.At(0).Type())
	case "MarshalXMLAttr":
		return sig.Params().Len() == 1 && res.Len() == 2 && isErr(res.At(1).Type())
	}
	return false
}

func c04X7(r *core.R) { marshalerReceivers(r, "xml") }
func c05J7(r *core.R) { marshalerReceivers(r, "json") }
