package rules

import (
	"fmt"
	"go/ast"
	"go/constant"
	"go/token"
	"go/types"
)

// abstract evaluation

func c14Flip(v int8) int8 {
	switch v {
	case c14True:
		return c14False
	case c14False:
		return c14True
	}
	return 0
}

func c14Bool(b bool) int8 {
	if b {
		return c14True
	}
	return c14False
}

func c14NilIdent(info *types.Info, e ast.Expr) bool {
	id, ok := ast.Unparen(e).(*ast.Ident)
	if !ok {
		return false
	}
	_, isNil := info.Uses[id].(*types.Nil)
	return isNil
}

// absval evaluates e in the store: c14True/c14False/c14Nil/c14NonNil, or 0 when unknown.
func (g *c14Graph) absval(st *c14Store, ctx *c14Ctx, e ast.Expr) int8 {
	info := ctx.fn.info
	e = ast.Unparen(e)
	if g.forced != nil && e == g.forced {
		return g.forcedVal
	}
	if tv, ok := info.Types[e]; ok {
		if tv.Value != nil && tv.Value.Kind() == constant.Bool {
			return c14Bool(constant.BoolVal(tv.Value))
		}
		if tv.IsNil() {
			return c14Nil
		}
		// integers: c14Nil / c14NonNil stand for "is / is not the zero value" (a zero id is the closed-channel sentinel)
		if tv.Value != nil && tv.Value.Kind() == constant.Int {
			if constant.Sign(tv.Value) == 0 {
				return c14Nil
			}
			// small constants are known exactly (flags turned into small enums): code 20+k, which implies "not zero"
			if k, exact := constant.Int64Val(tv.Value); exact && k > 0 && k <= 100 {
				return int8(20 + k)
			}
			return c14NonNil
		}
	}
	switch x := e.(type) {
	case *ast.Ident:
		if o := objOf(info, x); o != nil {
			if k, ok := g.trackable(ctx, o); ok {
				return st.m[k]
			}
		}
		return 0
	case *ast.SelectorExpr:
		if k, ok := g.fieldKey(ctx, x); ok {
			return st.m[k]
		}
		return 0
	case *ast.UnaryExpr:
		switch x.Op {
		case token.NOT:
			return c14Flip(g.absval(st, ctx, x.X))
		case token.AND:
			return c14NonNil
		}
		return 0
	case *ast.BinaryExpr:
		switch x.Op {
		case token.LAND:
			a, b := g.absval(st, ctx, x.X), g.absval(st, ctx, x.Y)
			if a == c14False || b == c14False {
				return c14False
			}
			if a == c14True && b == c14True {
				return c14True
			}
			return 0
		case token.LOR:
			a, b := g.absval(st, ctx, x.X), g.absval(st, ctx, x.Y)
			if a == c14True || b == c14True {
				return c14True
			}
			if a == c14False && b == c14False {
				return c14False
			}
			return 0
		case token.EQL, token.NEQ:
			var other ast.Expr
			if c14ZeroLit(info, x.Y) {
				other = x.X
			} else if c14ZeroLit(info, x.X) {
				other = x.Y
			}
			if other != nil {
				switch v := g.absval(st, ctx, other); {
				case v == c14Nil:
					return c14Bool(x.Op == token.EQL)
				case c14NonZero(v):
					return c14Bool(x.Op == token.NEQ)
				}
			} else {
				// comparison with a small non-zero constant
				a, b := g.absval(st, ctx, x.X), g.absval(st, ctx, x.Y)
				switch {
				case a > 20 && b > 20:
					return c14Bool((a == b) == (x.Op == token.EQL))
				case (a > 20 && b == c14Nil) || (b > 20 && a == c14Nil):
					return c14Bool(x.Op == token.NEQ)
				}
			}
		}
		if k, neg, ok := g.atomKey(ctx, x); ok {
			if v := st.m[k]; v != 0 {
				if neg {
					return c14Flip(v)
				}
				return v
			}
		}
		return 0
	case *ast.CallExpr:
		if cc := g.ctxs[c14CtxKey{ctx, x}]; cc != nil {
			return st.m[c14RetKey(cc, 0)]
		}
		if fn := callee(info, x); fn != nil && (isPkgFunc(fn, "errors", "New") || isPkgFunc(fn, "fmt", "Errorf")) {
			return c14NonNil
		}
		return 0
	}
	return 0
}

// pureKey renders a side-effect-free expression over local variables, constants, fields of local struct values,
// conversions and len/cap as a key; ok=false for anything that reads the heap or calls a function.
func (g *c14Graph) pureKey(ctx *c14Ctx, e ast.Expr) (string, bool) {
	info := ctx.fn.info
	e = ast.Unparen(e)
	if tv, ok := info.Types[e]; ok && tv.Value != nil {
		return "c(" + tv.Value.ExactString() + ")", true
	}
	switch x := e.(type) {
	case *ast.Ident:
		if o := objOf(info, x); o != nil {
			if k, ok := g.trackable(ctx, o); ok {
				return k, true
			}
		}
	case *ast.SelectorExpr:
		if f := fieldOf(info, x); f != nil {
			if t := info.TypeOf(x.X); t != nil {
				if _, isStruct := t.Underlying().(*types.Struct); isStruct {
					if k, ok := g.pureKey(ctx, x.X); ok {
						return fmt.Sprintf("f%d(%s)", g.e.oid(f), k), true
					}
				}
			}
		}
	case *ast.CallExpr:
		if tv, ok := info.Types[x.Fun]; ok && tv.IsType() && len(x.Args) == 1 {
			if k, ok := g.pureKey(ctx, x.Args[0]); ok {
				return "T(" + types.TypeString(tv.Type, nil) + "," + k + ")", true
			}
		}
		if b := builtinName(info, x); (b == "len" || b == "cap") && len(x.Args) == 1 {
			if _, isIdent := ast.Unparen(x.Args[0]).(*ast.Ident); isIdent {
				if k, ok := g.pureKey(ctx, x.Args[0]); ok {
					return b + "(" + k + ")", true
				}
			}
		}
	case *ast.UnaryExpr:
		if x.Op == token.SUB || x.Op == token.NOT || x.Op == token.ADD || x.Op == token.XOR {
			if k, ok := g.pureKey(ctx, x.X); ok {
				return x.Op.String() + k, true
			}
		}
	case *ast.BinaryExpr:
		a, ok1 := g.pureKey(ctx, x.X)
		b, ok2 := g.pureKey(ctx, x.Y)
		if ok1 && ok2 {
			return "(" + a + x.Op.String() + b + ")", true
		}
	}
	return "", false
}

// atomKey returns the store key of a pure comparison; neg tells that the key stands for the negated atom
// (`a != b` is stored as `a == b`, `a > b` as `b < a`, `a >= b` as `b <= a`).
func (g *c14Graph) atomKey(ctx *c14Ctx, e ast.Expr) (key string, neg bool, ok bool) {
	be, isBin := ast.Unparen(e).(*ast.BinaryExpr)
	if !isBin {
		return "", false, false
	}
	l, op, r, isCmp := cmpNorm(be)
	if !isCmp {
		return "", false, false
	}
	a, ok1 := g.pureKey(ctx, l)
	b, ok2 := g.pureKey(ctx, r)
	if !ok1 || !ok2 {
		return "", false, false
	}
	if op == token.NEQ {
		op, neg = token.EQL, true
	}
	if op == token.EQL && b < a {
		a, b = b, a
	}
	return "a(" + a + op.String() + b + ")", neg, true
}

// learn records the outcome of an undecided atom.
func (g *c14Graph) learn(st *c14Store, ctx *c14Ctx, e ast.Expr, val bool) *c14Store {
	info := ctx.fn.info
	e = ast.Unparen(e)
	return st.with(func(m map[string]int8) {
		switch x := e.(type) {
		case *ast.Ident, *ast.SelectorExpr:
			if k, ok := g.lvalKey(ctx, x.(ast.Expr)); ok {
				m[k] = c14Bool(val)
			}
		case *ast.BinaryExpr:
			if a := c14NonEmpty(info, x, val); a != nil {
				if k, ok := g.lvalKey(ctx, a); ok {
					m[k] = c14NonNil // non-empty, hence not nil
				}
			}
			if x.Op == token.EQL || x.Op == token.NEQ {
				var other ast.Expr
				if c14ZeroLit(info, x.Y) {
					other = x.X
				} else if c14ZeroLit(info, x.X) {
					other = x.Y
				}
				if other != nil {
					if k, ok := g.lvalKey(ctx, other); ok {
						if (x.Op == token.EQL) == val {
							m[k] = c14Nil
						} else {
							m[k] = c14NonNil
						}
					}
					return
				}
				// `x == K` found true for a small constant K: x is K
				if (x.Op == token.EQL) == val {
					for _, p := range [][2]ast.Expr{{x.X, x.Y}, {x.Y, x.X}} {
						if c := g.absval(st, ctx, p[1]); c > 20 {
							if k, ok := g.lvalKey(ctx, p[0]); ok {
								m[k] = c
							}
						}
					}
				}
			}
			if k, neg, ok := g.atomKey(ctx, x); ok {
				m[k] = c14Bool(val != neg)
			}
		}
	})
}

// c14NonZero: the abstract value says "not nil / not zero" (possibly an exactly known small constant).
func c14NonZero(v int8) bool { return v == c14NonNil || v > 20 }

// c14ZeroLit: the expression is `nil` or an integer constant equal to zero.
func c14ZeroLit(info *types.Info, e ast.Expr) bool {
	if c14NilIdent(info, e) {
		return true
	}
	tv, ok := info.Types[ast.Unparen(e)]
	return ok && tv.Value != nil && tv.Value.Kind() == constant.Int && constant.Sign(tv.Value) == 0
}

func c14ZeroVal(t types.Type) int8 {
	if t == nil {
		return 0
	}
	switch u := t.Underlying().(type) {
	case *types.Basic:
		if u.Info()&types.IsBoolean != 0 {
			return c14False
		}
		if u.Info()&types.IsInteger != 0 {
			return c14Nil // "zero"
		}
	case *types.Pointer, *types.Slice, *types.Map, *types.Chan, *types.Signature, *types.Interface:
		return c14Nil
	}
	return 0
}

// transfer applies the effect of executing a plain node on the local variables of the store.
func (g *c14Graph) transfer(st *c14Store, n *c14Node) *c14Store {
	return g.transferStructs(st, g.transferScalars(st, n), n)
}

func (g *c14Graph) transferScalars(st *c14Store, n *c14Node) *c14Store {
	ctx := n.ctx
	info := ctx.fn.info
	type wr struct {
		o types.Object
		v int8
	}
	var ws []wr
	tupleVal := func(rhs ast.Expr, i int) int8 {
		if call, ok := ast.Unparen(rhs).(*ast.CallExpr); ok {
			if cc := g.ctxs[c14CtxKey{ctx, call}]; cc != nil {
				return st.m[c14RetKey(cc, i)]
			}
		}
		return 0
	}
	switch x := c14EffectAst(n).(type) {
	case *ast.AssignStmt:
		for i, l := range x.Lhs {
			o := objOf(info, l)
			if o == nil {
				continue
			}
			var v int8
			if x.Tok == token.ASSIGN || x.Tok == token.DEFINE {
				if len(x.Lhs) == len(x.Rhs) {
					v = g.absval(st, ctx, x.Rhs[i])
				} else if len(x.Rhs) == 1 {
					v = tupleVal(x.Rhs[0], i)
				}
			}
			ws = append(ws, wr{o, v})
		}
	case *ast.ValueSpec:
		for i, nm := range x.Names {
			o := info.Defs[nm]
			if o == nil {
				continue
			}
			var v int8
			switch {
			case len(x.Values) == len(x.Names):
				v = g.absval(st, ctx, x.Values[i])
			case len(x.Values) == 1:
				v = tupleVal(x.Values[0], i)
			case len(x.Values) == 0:
				v = c14ZeroVal(o.Type())
			}
			ws = append(ws, wr{o, v})
		}
	case *ast.IncDecStmt:
		if o := objOf(info, x.X); o != nil {
			ws = append(ws, wr{o, 0})
		}
	}
	if len(ws) == 0 {
		return st
	}
	return st.with(func(m map[string]int8) {
		for _, w := range ws {
			if _, isVar := w.o.(*types.Var); !isVar {
				continue
			}
			c14Kill(m, c14VarKey(c14OwnerCtx(ctx, w.o), g.e, w.o))
			if k, ok := g.trackable(ctx, w.o); ok && w.v != 0 {
				m[k] = w.v
			}
		}
	})
}

// ---------------------------------------------------------------------------
