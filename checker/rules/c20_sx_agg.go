package rules

import (
	"go/ast"
	"go/token"
	"go/types"
)

// Aggregates: map, slice and array literals (lookup tables). A literal evaluates to the list of its (key, value)
// pairs; the values may be function literals, declared functions or struct values holding them. A package-level
// variable evaluates to its initialiser when it is a table that the package only reads (see constTable). Lookups
// compare the key with every table key (concrete keys such as the status of a finite-domain run decide
// immediately, symbolic keys fork), the comma-ok form yields the presence, and loops over a table are unrolled.

// aggLit evaluates a map/slice/array composite literal; ok=false when t is not such a type.
func (x *c20SX) aggLit(cl *ast.CompositeLit, t types.Type, st *c20St) ([]c20EV, bool) {
	isMap := false
	switch t.Underlying().(type) {
	case *types.Map:
		isMap = true
	case *types.Slice, *types.Array:
	default:
		return nil, false
	}
	var keys, vals []ast.Expr
	for _, el := range cl.Elts {
		kv, isKV := el.(*ast.KeyValueExpr)
		switch {
		case isMap && isKV:
			keys = append(keys, kv.Key)
			vals = append(vals, kv.Value)
		case !isMap && !isKV:
			vals = append(vals, el)
		default:
			return c20One(st, c20Unknown("table literal `%s` with positional keys", x.srcOf(cl))), true
		}
	}
	var out []c20EV
	for _, it := range x.evList(append(append([]ast.Expr{}, keys...), vals...), st) {
		if it.st.ctl != c20cRun {
			out = append(out, c20EV{it.st, c20V{}})
			continue
		}
		a := c20V{k: c20kAgg, typ: t, b: isMap}
		if isMap {
			a.keys = it.vs[:len(keys)]
		}
		a.vs = it.vs[len(keys):]
		out = append(out, c20EV{it.st, a})
	}
	return out, true
}

// constTable returns the initialiser of a package-level variable that is a lookup table the package never changes:
// unexported, initialised with a map/slice/array literal, and used only as `v[k]` in reads, `range v` and `len(v)`.
func (cx *c20Ctx) constTable(v *types.Var) *ast.CompositeLit {
	if cl, done := cx.tables[v]; done {
		return cl
	}
	if cx.tables == nil {
		cx.tables = map[*types.Var]*ast.CompositeLit{}
	}
	cx.tables[v] = nil
	if v.Exported() || v.Pkg() != cx.pk.Types {
		return nil
	}
	var init *ast.CompositeLit
	ok := true
	for _, f := range cx.pk.Syntax {
		par := cx.r.P.Parents(f)
		ast.Inspect(f, func(n ast.Node) bool {
			switch n := n.(type) {
			case *ast.ValueSpec:
				for i, nm := range n.Names {
					if cx.info.Defs[nm] == v && len(n.Values) == len(n.Names) {
						init, _ = ast.Unparen(n.Values[i]).(*ast.CompositeLit)
					}
				}
			case *ast.Ident:
				if cx.info.Uses[n] != v {
					return true
				}
				switch p := par[n].(type) {
				case *ast.IndexExpr:
					if p.X != ast.Expr(n) {
						return true // used as an index of something else: a read
					}
					switch pp := par[p].(type) {
					case *ast.AssignStmt:
						for _, l := range pp.Lhs {
							if l == ast.Expr(p) {
								ok = false
							}
						}
					case *ast.IncDecStmt:
						ok = false
					case *ast.UnaryExpr:
						if pp.Op == token.AND {
							ok = false
						}
					}
				case *ast.SelectorExpr:
					// field read of a struct-valued table entry (`limits.max`): not written, no address taken
					if cx.info.Selections[p] == nil || cx.info.Selections[p].Kind() != types.FieldVal {
						ok = false
					}
					switch pp := par[p].(type) {
					case *ast.AssignStmt:
						for _, l := range pp.Lhs {
							if l == ast.Expr(p) {
								ok = false
							}
						}
					case *ast.IncDecStmt:
						ok = false
					case *ast.UnaryExpr:
						if pp.Op == token.AND {
							ok = false
						}
					}
				case *ast.RangeStmt:
					if p.X != ast.Expr(n) {
						ok = false
					}
				case *ast.CallExpr:
					if b := builtinName(cx.info, p); b != "len" && b != "cap" {
						ok = false // passed on, deleted from, ...
					}
				default:
					ok = false // assigned, aliased, address taken, returned, ...
				}
			}
			return true
		})
	}
	if !ok || init == nil {
		return nil
	}
	switch cx.info.TypeOf(init).Underlying().(type) {
	case *types.Map, *types.Slice, *types.Array, *types.Struct:
		cx.tables[v] = init
	}
	return cx.tables[v]
}

// lookup evaluates agg[key]; each result is (state, element, present).
func (x *c20SX) lookup(a, key c20V, st *c20St, at ast.Node) []c20Look {
	var zero c20V
	switch u := a.typ.Underlying().(type) {
	case *types.Map:
		zero = x.zero(u.Elem())
	case *types.Slice:
		zero = x.zero(u.Elem())
	case *types.Array:
		zero = x.zero(u.Elem())
	}
	if !a.b { // slice, array
		if key.k == c20kInt {
			if key.n >= 0 && key.n < int64(len(a.vs)) {
				return []c20Look{{st, a.vs[key.n], true}}
			}
			st.ctl = c20cPanic
			return []c20Look{{st, zero, false}}
		}
		return []c20Look{{st, c20Unknown("`%s`: index %s of a table", x.srcOf(at), key.String()), false}}
	}
	var out []c20Look
	pending := []*c20St{st}
	for i, k := range a.keys {
		var still []*c20St
		for _, p := range pending {
			for _, cv := range x.compare(token.EQL, key, k, p, at) {
				switch {
				case cv.st.ctl != c20cRun:
					out = append(out, c20Look{cv.st, zero, false})
				case cv.val:
					out = append(out, c20Look{cv.st, a.vs[i], true})
				default:
					still = append(still, cv.st)
				}
			}
		}
		pending = still
	}
	for _, p := range pending {
		out = append(out, c20Look{p, zero, false})
	}
	return out
}

type c20Look struct {
	st *c20St
	v  c20V
	ok bool
}

// unroll executes a loop body once per element of a table (range or index form); bind sets the loop variables.
func (x *c20SX) unroll(s ast.Node, body *ast.BlockStmt, a c20V, st *c20St, bind func(i int, st *c20St)) []*c20St {
	if len(a.vs) > 64 {
		return []*c20St{st.abort(s, "loop over a table of %d entries", len(a.vs))}
	}
	var out []*c20St
	cur := []*c20St{st}
	for i := range a.vs {
		var next []*c20St
		for _, c := range cur {
			bind(i, c)
			for _, o := range x.block(body.List, []*c20St{c}) {
				x.ownBranch(o, s)
				switch o.ctl {
				case c20cRun:
					next = append(next, o)
				case c20cCont:
					o.ctl = c20cRun
					next = append(next, o)
				case c20cBrk:
					o.ctl = c20cRun
					out = append(out, o)
				default:
					out = append(out, o)
				}
			}
		}
		cur = next
		if len(cur)+len(out) > x.budget {
			for _, c := range cur {
				c.abort(s, "too many paths")
			}
			break
		}
	}
	return append(out, cur...)
}
