package rules

import (
	"go/types"
	"strings"

	"osmcheck/core"
)

// ---- codec helpers and (un)marshal calls ---------------------------------------------------------

// c05Helpers finds the codec helper functions by role: package-level functions of package osm whose body
// mentions the exported variable CustomJSONMarshaler (-> "marshal") or CustomJSONUnmarshaler (-> "unmarshal").
func c05Helpers(p *core.Program) map[*types.Func]string {
	pk := c03OsmPkg(p)
	out := map[*types.Func]string{}
	mv := pk.Types.Scope().Lookup("CustomJSONMarshaler")
	uv := pk.Types.Scope().Lookup("CustomJSONUnmarshaler")
	for _, fi := range allFuncs(pk) {
		if fi.Obj.Type().(*types.Signature).Recv() != nil {
			continue
		}
		if mv != nil && usesObj(pk.TypesInfo, fi.Decl.Body, mv) {
			out[fi.Obj] = "marshal"
		}
		if uv != nil && usesObj(pk.TypesInfo, fi.Decl.Body, uv) {
			out[fi.Obj] = "unmarshal"
		}
	}
	return out
}

// c05Neutral: the JSON form of a value of type t involves no Go-level convention (struct tags, method sets,
// case folding): basic types, slices/arrays/pointers of neutral types, string-keyed maps of neutral types.
func c05Neutral(p *core.Program, t types.Type) bool {
	for _, m := range [][2]string{{"encoding/json", "Marshaler"}, {"encoding/json", "Unmarshaler"}, {"encoding", "TextMarshaler"}, {"encoding", "TextUnmarshaler"}} {
		if c03Implements(p, t, m[0], m[1]) != "" {
			return false
		}
	}
	switch u := t.Underlying().(type) {
	case *types.Basic:
		return true
	case *types.Slice:
		return c05Neutral(p, u.Elem())
	case *types.Array:
		return c05Neutral(p, u.Elem())
	case *types.Pointer:
		return c05Neutral(p, u.Elem())
	case *types.Map:
		b, ok := u.Key().Underlying().(*types.Basic)
		return ok && b.Info()&types.IsString != 0 && c05Neutral(p, u.Key()) && c05Neutral(p, u.Elem())
	}
	return false
}

// c05TypeLabel renders a type for a construct key; anonymous structs are abbreviated to their JSON keys.
func c05TypeLabel(t types.Type) string {
	inner := c03Deref(t)
	if _, named := inner.(*types.Named); !named {
		if _, ok := inner.Underlying().(*types.Struct); ok {
			var keys []string
			for _, f := range c03JSONFields(inner) {
				keys = append(keys, f.Key)
			}
			return "struct{" + strings.Join(keys, ",") + "}"
		}
	}
	return c03Short(t)
}
