package rules

import (
	"fmt"
	"go/ast"
	"go/token"
	"go/types"
	"sort"
	"strings"

	"golang.org/x/tools/go/cfg"
)

// c01Frame is the execution of one function by the C01.R2 interpreter.
type c01Frame struct {
	fr      *c01Fresh
	fi      *FuncInfo
	f       *c01Fn
	roots   map[types.Object]string // tracked local / parameter -> cell path of its root
	names   map[string]string       // root path -> variable name (diagnostics)
	rangeX  map[ast.Expr]*ast.RangeStmt
	maxK    int64 // largest small constant of the function (domain of an unknown field number)
	exits   map[string]c01Exit
	depth   int
	params  []types.Object // receiver (when named) and parameters, in call order
	hasRecv bool
}

const c01Big = int64(1) << 30 // representative of "a field number larger than every constant of the function"

// c01Out is one state while a CFG node is executed, with the results of the calls executed for that node.
type c01Out struct {
	st  c01St
	res map[*ast.CallExpr][]c01Val
}

func (o c01Out) clone() c01Out {
	n := c01Out{st: o.st.clone(), res: make(map[*ast.CallExpr][]c01Val, len(o.res))}
	for k, v := range o.res {
		n.res[k] = v
	}
	return n
}

// newFrame prepares the execution of fi: which variables are tracked, constants, range statements.
func (fr *c01Fresh) newFrame(fi *FuncInfo, depth int) *c01Frame {
	if proto, ok := c01FrameProto[fi.Obj]; ok && proto.fr.r.P == fr.r.P {
		fm := *proto
		fm.fr, fm.depth, fm.exits = fr, depth, map[string]c01Exit{}
		return &fm
	}
	fm := fr.newFrame0(fi, depth)
	c01FrameProto[fi.Obj] = fm
	cp := *fm
	cp.exits = map[string]c01Exit{}
	return &cp
}

// c01FrameProto caches the static part of a frame (tracked variables, constants, range statements) per function.
var c01FrameProto = map[*types.Func]*c01Frame{}

func (fr *c01Fresh) newFrame0(fi *FuncInfo, depth int) *c01Frame {
	info := fr.info
	fm := &c01Frame{fr: fr, fi: fi, f: c01FnOf(fr.r.P, fi), roots: map[types.Object]string{}, names: map[string]string{},
		rangeX: map[ast.Expr]*ast.RangeStmt{}, exits: map[string]c01Exit{}, depth: depth, maxK: 1}
	if ro := c01RecvObj(info, fi); ro != nil {
		fm.params = append(fm.params, ro)
		fm.hasRecv = true
	} else if fi.Decl.Recv != nil {
		fm.params = append(fm.params, nil)
		fm.hasRecv = true
	}
	fm.params = append(fm.params, c01ParamObjs(info, fi)...)
	isParam := map[types.Object]bool{}
	for _, p := range fm.params {
		if p != nil {
			isParam[p] = true
		}
	}
	// integers are only followed concretely where they select presence state: named integer types of the package
	// (bit sets), indices of fixed-length arrays, parameters (bound to constants by the caller)
	relevant := map[types.Object]bool{}
	ast.Inspect(fi.Decl, func(n ast.Node) bool {
		switch x := n.(type) {
		case *ast.FuncLit:
			return false
		case *ast.IndexExpr:
			t := info.TypeOf(x.X)
			if t == nil {
				return true
			}
			if pt, ok := t.Underlying().(*types.Pointer); ok {
				t = pt.Elem()
			}
			if _, isArr := t.Underlying().(*types.Array); isArr {
				if o := objOf(info, c01StripConv(info, x.Index)); o != nil {
					relevant[o] = true
				}
			}
		case *ast.RangeStmt:
			fm.rangeX[x.X] = x
			// the element variable of a range over a constant table of the package (a table of required columns ...)
			if x.Value != nil {
				if vo := objOf(info, x.Value); vo != nil {
					if _, lax := c01ZeroLax(vo.Type()); lax && c01TableLitOf(fr, x.X) != nil {
						root := c01RootName(vo)
						fm.roots[vo] = root
						fm.names[root] = vo.Name()
					}
				}
			}
			if x.Key != nil {
				if o := objOf(info, x.Key); o != nil {
					relevant[o] = true
				}
			}
		case *ast.BasicLit:
			if v, ok := constInt(info, x); ok && v > fm.maxK && v <= 32 {
				fm.maxK = v
			}
		case *ast.Ident:
			if c, ok := info.Uses[x].(*types.Const); ok {
				if v, okc := constInt(info, x); okc && v > fm.maxK && v <= 32 {
					fm.maxK = v
				}
				_ = c
			}
		case *ast.ArrayType:
			if x.Len != nil {
				if v, okc := constInt(info, x.Len); okc && v > fm.maxK && v <= 32 {
					fm.maxK = v
				}
			}
		}
		return true
	})
	ast.Inspect(fi.Decl, func(n ast.Node) bool {
		if _, ok := n.(*ast.FuncLit); ok {
			return false
		}
		id, ok := n.(*ast.Ident)
		if !ok {
			return true
		}
		o, ok := info.Defs[id].(*types.Var)
		if !ok || o.IsField() {
			return true
		}
		if _, isMap := c01MapElem(o.Type()); isMap {
			root := c01RootName(o)
			fm.roots[o] = root
			fm.names[root] = o.Name()
			return true
		}
		if !c01Trackable(o.Type()) {
			return true
		}
		if b, isBasic := o.Type().Underlying().(*types.Basic); isBasic && b.Info()&types.IsInteger != 0 {
			_, named := o.Type().(*types.Named)
			inPkg := named && o.Type().(*types.Named).Obj().Pkg() == fi.Pkg.Types
			if !inPkg && !relevant[o] && !isParam[o] {
				return true
			}
		}
		root := c01RootName(o)
		fm.roots[o] = root
		fm.names[root] = o.Name()
		return true
	})
	return fm
}

// run executes fi from state st with the given argument values (receiver first for methods; nil = unknown) and
// returns the ways it can return.
func (fr *c01Fresh) run(fi *FuncInfo, st c01St, args []c01Val, depth int) []c01Exit {
	var ak []string
	for _, a := range args {
		ak = append(ak, a.enc())
	}
	key := fmt.Sprintf("%p|%s|%s", fi.Obj, st.key(), strings.Join(ak, ","))
	if ex, ok := fr.memo[key]; ok {
		return ex
	}
	if fr.stack[fi.Obj] || depth > 8 {
		if fr.unknown == "" {
			fr.unknown, fr.upos = fmt.Sprintf("%s is recursive (or nested too deeply): the freshness analysis inlines the functions it follows and does not handle recursion", fi.Name()), fi.Decl.Pos()
		}
		return nil
	}
	fr.stack[fi.Obj] = true
	defer delete(fr.stack, fi.Obj)
	fm := fr.newFrame(fi, depth)
	init := st.clone()
	for i, p := range fm.params {
		if p == nil {
			continue
		}
		root, tracked := fm.roots[p]
		if !tracked {
			continue
		}
		v := c01UnknownOf(p.Type())
		if i < len(args) && args[i].k != 0 && args[i].k != 'U' {
			v = args[i]
		}
		init.set(root, v)
	}
	// named results start from their zero values
	if res := fi.Decl.Type.Results; res != nil {
		for _, fld := range res.List {
			for _, nm := range fld.Names {
				if o := fr.info.Defs[nm]; o != nil {
					if root, ok := fm.roots[o]; ok {
						b := c01MaxCells
						if z, okz := c01Zero(o.Type(), &b); okz {
							init.set(root, z)
						}
					}
				}
			}
		}
	}
	g := fm.f.g
	seen := map[*cfg.Block]map[uint64]bool{}
	type item struct {
		b *cfg.Block
		s c01St
	}
	var work []item
	// a local is dead outside its lexical scope: its cells are dropped there so that dead presence flags of an inner
	// block do not multiply the valuations of the enclosing loop
	type span struct {
		root     string
		pos, end token.Pos
	}
	var scopes []span
	for o, root := range fm.roots {
		isP := false
		for _, p := range fm.params {
			if p == o {
				isP = true
			}
		}
		if sc := o.Parent(); sc != nil && !isP {
			scopes = append(scopes, span{root, sc.Pos(), sc.End()})
		}
	}
	deadAt := map[*cfg.Block]map[string]bool{} // per block: roots of locals that are out of scope there
	push := func(b *cfg.Block, s c01St) {
		dead, ok := deadAt[b]
		if !ok {
			dead = map[string]bool{}
			if len(b.Nodes) > 0 {
				p := b.Nodes[0].Pos()
				for _, sc := range scopes {
					if sc.end.IsValid() && (p < sc.pos || p >= sc.end) {
						dead[sc.root] = true
					}
				}
			}
			deadAt[b] = dead
		}
		if len(dead) > 0 {
			var drop []string
			for k := range s.cells {
				if dead[c01RootOf(k)] {
					drop = append(drop, k)
				}
			}
			if len(drop) > 0 {
				s = s.clone()
				for _, k := range drop {
					delete(s.cells, k)
				}
			}
		}
		if seen[b] == nil {
			seen[b] = map[uint64]bool{}
		}
		k := s.hash()
		if seen[b][k] {
			return
		}
		seen[b][k] = true
		work = append(work, item{b, s.clone()})
	}
	push(g.Blocks[0], init)
	for len(work) > 0 && fr.unknown == "" {
		it := work[len(work)-1]
		work = work[:len(work)-1]
		b := it.b
		fr.nstate++
		if fr.nstate > 3000000 {
			fr.unknown, fr.upos = "the state space of the freshness analysis exceeds its budget", fi.Decl.Pos()
			break
		}
		cur := []c01Out{{st: it.s, res: map[*ast.CallExpr][]c01Val{}}}
		cond := fm.f.condOf(b)
		returned := false
		for i, n := range b.Nodes {
			isCond := cond != nil && i == len(b.Nodes)-1
			var next []c01Out
			for _, o := range cur {
				if isCond {
					next = append(next, fm.execCalls(n, o)...) // calls inside the condition; results kept for its evaluation
					continue
				}
				o.res = map[*ast.CallExpr][]c01Val{}
				next = append(next, fm.transfer(n, o)...)
			}
			cur = next
			if _, isRet := n.(*ast.ReturnStmt); isRet {
				returned = true
			}
		}
		if returned {
			continue
		}
		if len(b.Succs) == 0 {
			if c01IsNormalExit(fm.f, b) {
				for _, o := range cur {
					fm.addExit(o.st, nil, '-')
				}
			}
			continue
		}
		for _, o := range cur {
			if b.Kind == cfg.KindRangeLoop && len(b.Succs) == 2 {
				if fm.rangeStep(b, o, push) {
					continue
				}
			}
			ev := &c01Ev{fm: fm, st: o.st, res: o.res}
			for si, nb := range b.Succs {
				ns := o.st
				if cond != nil && len(b.Succs) == 2 {
					if cond == b.Nodes[len(b.Nodes)-1] {
						fm.uses(cond, ev)
						fm.cellUses(cond, ev)
					}
					v := ev.eval(cond)
					if v.k == 'B' && ((si == 0 && v.i == 0) || (si == 1 && v.i == 1)) {
						continue
					}
					if v.k != 'B' {
						ns = fm.refine(cond, o.st, si == 0)
					}
				}
				push(nb, ns)
			}
		}
	}
	var out []c01Exit
	var keys []string
	for k := range fm.exits {
		keys = append(keys, k)
	}
	sort.Strings(keys)
	for _, k := range keys {
		out = append(out, fm.exits[k])
	}
	fr.memo[key] = out
	return out
}

// addExit records a way of returning; the frame's own cells are dropped from the state.
func (fm *c01Frame) addExit(st c01St, rets []c01Val, err byte) {
	s := st.clone()
	for _, root := range fm.roots {
		s.del(root)
	}
	for k := range s.cells {
		if strings.HasPrefix(k, "range@") {
			delete(s.cells, k)
		}
	}
	var rk []string
	for _, r := range rets {
		rk = append(rk, r.enc())
	}
	key := s.key() + "#" + strings.Join(rk, ",") + "#" + string(err)
	fm.exits[key] = c01Exit{st: s, rets: rets, err: err}
}

// rangeStep executes one step of `for k, v := range X` when X is a tracked fixed-length array: the iterations are
// taken in order (a hidden counter cell), so "every entry is visited" is visible to the analysis.
func (fm *c01Frame) rangeStep(b *cfg.Block, o c01Out, push func(*cfg.Block, c01St)) bool {
	rs, ok := b.Stmt.(*ast.RangeStmt)
	if !ok {
		return false
	}
	info := fm.fr.info
	// `range A` or `range A[lo:hi]` with constant bounds, A a tracked fixed-length array (or a pointer to one)
	var base ast.Expr = ast.Unparen(rs.X)
	lo, hi := int64(0), int64(-1)
	if se, isSlice := base.(*ast.SliceExpr); isSlice && !se.Slice3 {
		base = ast.Unparen(se.X)
		if se.Low != nil {
			v, okc := constInt(info, se.Low)
			if !okc || v < 0 {
				return false
			}
			lo = v
		}
		if se.High != nil {
			v, okc := constInt(info, se.High)
			if !okc {
				return false
			}
			hi = v
		}
	}
	t := info.TypeOf(base)
	if pt, isPtr := t.Underlying().(*types.Pointer); isPtr {
		t = pt.Elem()
	}
	at, isArr := t.Underlying().(*types.Array)
	tableLit := c01TableLitOf(fm.fr, base)
	if tableLit != nil {
		if _, lax := c01ZeroLax(at0(t)); !lax {
			tableLit = nil
		}
	}
	if !isArr || (!c01Trackable(t) && tableLit == nil) {
		return false
	}
	if hi < 0 || hi > at.Len() {
		hi = at.Len()
	}
	ev := &c01Ev{fm: fm, st: o.st, res: o.res}
	ctr := fmt.Sprintf("range@%d", rs.Pos())
	c := int64(0)
	if v, ok := o.st.cells[ctr]; ok && v.k == 'I' {
		c = v.i
	}
	if c+lo >= hi {
		ns := o.st.clone()
		delete(ns.cells, ctr)
		push(b.Succs[1], ns)
		return true
	}
	ns := o.st.clone()
	ns.cells[ctr] = c01IntVal(c + 1)
	if rs.Key != nil {
		if root, ok := fm.roots[objOf(info, rs.Key)]; ok {
			ns.set(root, c01IntVal(c))
		}
	}
	if rs.Value != nil {
		if root, ok := fm.roots[objOf(info, rs.Value)]; ok {
			elem := c01Unknown
			if tableLit != nil && int(c+lo) < len(tableLit.Elts) {
				if _, isKV := tableLit.Elts[c+lo].(*ast.KeyValueExpr); !isKV {
					elem = ev.eval(tableLit.Elts[c+lo])
				}
			} else if p := ev.path(base); p != "" {
				elem = o.st.get(fmt.Sprintf("%s[%d]", p, c+lo))
			} else if xv := ev.eval(base); xv.k == 'C' {
				elem = c01Sub(xv, fmt.Sprintf("[%d]", c+lo))
			}
			if elem.k == 'U' && tableLit == nil {
				elem = c01UnknownOf(at.Elem())
			}
			ns.set(root, elem)
		}
	}
	push(b.Succs[0], ns)
	return true
}

// c01RootName gives every tracked variable a short stable cell name.
var c01RootNames = map[types.Object]string{}

func c01RootName(o types.Object) string {
	if n, ok := c01RootNames[o]; ok {
		return n
	}
	n := fmt.Sprintf("v%d", len(c01RootNames))
	c01RootNames[o] = n
	return n
}

// c01Hash is FNV-1a over a state key (the visited sets keep hashes, not the keys).
func c01Hash(s string) uint64 {
	h := uint64(14695981039346656037)
	for i := 0; i < len(s); i++ {
		h ^= uint64(s[i])
		h *= 1099511628211
	}
	return h
}

// at0 returns the element type of an array type (or t itself).
func at0(t types.Type) types.Type {
	if a, ok := t.Underlying().(*types.Array); ok {
		return a.Elem()
	}
	return t
}

// c01TableLitOf: x names a package-level array that is a constant table (declared with a literal, never written);
// it returns the literal.
func c01TableLitOf(fr *c01Fresh, x ast.Expr) *ast.CompositeLit {
	o := objOf(fr.info, ast.Unparen(x))
	if o == nil {
		return nil
	}
	if _, isArr := o.Type().Underlying().(*types.Array); !isArr {
		return nil
	}
	return c01ConstTable(fr.cm.m.pk, o)
}
