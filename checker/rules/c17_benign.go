package rules

import "osmcheck/core"

// c17Benign: behaviour-preserving variants of the anchored code (overlay edits). Every rule of C17 must stay silent
// on each of them. Texts are Go raw strings (the code contains no back quotes).
var c17Benign = []core.Mutant{
	// extract helper + early return instead of nesting (NoID)
	{Name: "b-g3-noid-helper-early-return", File: "osmgeojson/convert.go", Nth: 0,
		Find: `func (ctx *context) nodeToFeature(n *osm.Node) *geojson.Feature {
	// our definition of empty, ill defined
	if n.Lon == 0 && n.Lat == 0 && n.Version == 0 {
		return nil
	}

	f := geojson.NewFeature(orb.Point{n.Lon, n.Lat})

	if !ctx.noID {
		f.ID = fmt.Sprintf("node/%d", n.ID)
	}
`,
		Replace: `// setID sets the feature id unless ids are switched off.
func (ctx *context) setID(f *geojson.Feature, id string) {
	if ctx.noID {
		return
	}
	f.ID = id
}

func (ctx *context) nodeToFeature(n *osm.Node) *geojson.Feature {
	// our definition of empty, ill defined
	if n.Lon == 0 && n.Lat == 0 && n.Version == 0 {
		return nil
	}

	f := geojson.NewFeature(orb.Point{n.Lon, n.Lat})

	ctx.setID(f, fmt.Sprintf("node/%d", n.ID))
`},
	// inverted branch
	{Name: "b-g3-noid-inverted-else", File: "osmgeojson/convert.go", Nth: 0,
		Find: `	if !ctx.noID {
		f.ID = fmt.Sprintf("way/%d", w.ID)
	}
`,
		Replace: `	if ctx.noID {
		// no feature id wanted
	} else {
		f.ID = fmt.Sprintf("way/%d", w.ID)
	}
`},
	// option read into a local once; value built in a region-local
	{Name: "b-g3-noid-local-alias", File: "osmgeojson/convert.go", Nth: 0,
		Find: `	if !ctx.noID {
		f.ID = fmt.Sprintf("relation/%d", relation.ID)
	}
`,
		Replace: `	withID := !ctx.noID
	if withID {
		id := fmt.Sprintf("relation/%d", relation.ID)
		f.ID = id
	}
`},
	// predicate helper returning the negated option
	{Name: "b-g3-noid-predicate-helper", File: "osmgeojson/convert.go", Nth: 0,
		Find: `func (ctx *context) nodeToFeature(n *osm.Node) *geojson.Feature {
	// our definition of empty, ill defined
	if n.Lon == 0 && n.Lat == 0 && n.Version == 0 {
		return nil
	}

	f := geojson.NewFeature(orb.Point{n.Lon, n.Lat})

	if !ctx.noID {
`,
		Replace: `func (ctx *context) wantID() bool { return !ctx.noID }

func (ctx *context) nodeToFeature(n *osm.Node) *geojson.Feature {
	// our definition of empty, ill defined
	if n.Lon == 0 && n.Lat == 0 && n.Version == 0 {
		return nil
	}

	f := geojson.NewFeature(orb.Point{n.Lon, n.Lat})

	if ctx.wantID() {
`},
	// early return -> nesting; the meta construction (type switch included) extracted into a method
	{Name: "b-g3-nometa-extracted-nested", File: "osmgeojson/convert.go", Nth: 0,
		Find: `	if ctx.noMeta {
		return
	}

	meta := make(map[string]interface{}, 5)
`,
		Replace: `	if !ctx.noMeta {
		ctx.fillMeta(props, e)
	}
}

// fillMeta stores the meta object of the element.
func (ctx *context) fillMeta(props geojson.Properties, e osm.Element) {
	meta := make(map[string]interface{}, 5)
`},
	// if -> tagless switch
	{Name: "b-g3-nometa-tagless-switch", File: "osmgeojson/convert.go", Nth: 0,
		Find: `	if ctx.noMeta {
		return
	}
`,
		Replace: `	switch {
	case ctx.noMeta:
		return
	}
`},
	// merged guard split into two nested ifs
	{Name: "b-g3-membership-split-guard", File: "osmgeojson/convert.go", Nth: 0,
		Find: `			if ctx.noRelationMembership && m.Type != osm.TypeNode {
				// If we don't need to do relation membership we only
				// need this for nodes to check if they're interesting.
				continue
			}
`,
		Replace: `			if ctx.noRelationMembership {
				// If we don't need to do relation membership we only
				// need this for nodes to check if they're interesting.
				if m.Type != osm.TypeNode {
					continue
				}
			}
`},
	// De Morgan form of the bookkeeping guard
	{Name: "b-g3-membership-demorgan", File: "osmgeojson/convert.go", Nth: 0,
		Find: `			if ctx.noRelationMembership && m.Type != osm.TypeNode {
`,
		Replace: `			if !(!ctx.noRelationMembership || m.Type == osm.TypeNode) {
`},
	// if-init alias + tagged switch over the member type
	{Name: "b-g3-membership-switch-on-type", File: "osmgeojson/convert.go", Nth: 0,
		Find: `			if ctx.noRelationMembership && m.Type != osm.TypeNode {
				// If we don't need to do relation membership we only
				// need this for nodes to check if they're interesting.
				continue
			}
`,
		Replace: `			if skipOthers := ctx.noRelationMembership; skipOthers {
				switch m.Type {
				case osm.TypeNode:
					// needed to check if nodes are interesting
				default:
					continue
				}
			}
`},
	// relations property extracted into a helper with early return; the two stores merged into one
	{Name: "b-g3-relations-early-return-helper", File: "osmgeojson/convert.go", Nth: 0,
		Find: `func (ctx *context) addMetaProperties(props geojson.Properties, e osm.Element) {
	if !ctx.noRelationMembership {
		relations := ctx.relationMember[e.FeatureID()]
		if len(relations) != 0 {
			props["relations"] = relations
		} else {
			props["relations"] = []*relationSummary{}
		}
	}
`,
		Replace: `func (ctx *context) addRelations(props geojson.Properties, fid osm.FeatureID) {
	if ctx.noRelationMembership {
		return
	}

	list := ctx.relationMember[fid]
	if len(list) == 0 {
		list = []*relationSummary{}
	}
	props["relations"] = list
}

func (ctx *context) addMetaProperties(props geojson.Properties, e osm.Element) {
	ctx.addRelations(props, e.FeatureID())
`},
	// if-init local holding the negated option, conjuncts reordered
	{Name: "b-g3-invalid-ifinit-alias-reordered", File: "osmgeojson/build_polygon.go", Nth: 0,
		Find: `		if len(mp) == 0 && !ctx.includeInvalidPolygons {
`,
		Replace: `		if strict := !ctx.includeInvalidPolygons; strict && len(mp) == 0 {
`},
	// `if skip {continue}; act` -> `if !skip {act}` with the condition negated through
	{Name: "b-g3-invalid-inverted-nesting", File: "osmgeojson/build_polygon.go", Nth: 0,
		Find: `			if !ctx.includeInvalidPolygons && (len(ring) < 4 || !ring.Closed()) {
				// needs at least 4 points and matching endpoints
				continue
			}

			mp = append(mp, orb.Polygon{ring})
`,
		Replace: `			// needs at least 4 points and matching endpoints
			if ctx.includeInvalidPolygons || (len(ring) >= 4 && ring.Closed()) {
				mp = append(mp, orb.Polygon{ring})
			}
`},
	// parameter renamed, negation held in a local
	{Name: "b-g3-invalid-param-renamed-inverted", File: "osmgeojson/build_polygon.go", Nth: 0,
		Find: `func addToMultiPolygon(mp orb.MultiPolygon, ring orb.Ring, includeInvalidPolygons bool) orb.MultiPolygon {
	for i := range mp {
		if polygonContains(mp[i][0], ring) {
			mp[i] = append(mp[i], ring)
			return mp
		}
	}

	if !includeInvalidPolygons {
		// inner without its outer
		return mp
	}
`,
		Replace: `func addToMultiPolygon(mp orb.MultiPolygon, ring orb.Ring, keepOrphans bool) orb.MultiPolygon {
	for i := range mp {
		if polygonContains(mp[i][0], ring) {
			mp[i] = append(mp[i], ring)
			return mp
		}
	}

	dropOrphans := !keepOrphans
	if dropOrphans {
		// inner without its outer
		return mp
	}
`},
	// independent map fills of one case reordered
	{Name: "b-g4-way-case-reordered", File: "osmgeojson/convert.go", Nth: 2,
		Find: `		if !e.Timestamp.IsZero() {
			meta["timestamp"] = e.Timestamp
		}

		if e.Version != 0 {
			meta["version"] = e.Version
		}
`,
		Replace: `		if e.Version != 0 {
			meta["version"] = e.Version
		}

		if !e.Timestamp.IsZero() {
			meta["timestamp"] = e.Timestamp
		}
`},
	// if-init local naming a field in one case only
	{Name: "b-g4-relation-case-ifinit-local", File: "osmgeojson/convert.go", Nth: 3,
		Find: `		if e.UserID != 0 {
			meta["uid"] = e.UserID
		}
`,
		Replace: `		if uid := e.UserID; uid != 0 {
			meta["uid"] = uid
		}
`},
	// a local naming a field in one case only
	{Name: "b-g4-way-case-named-local", File: "osmgeojson/convert.go", Nth: 2,
		Find: `		if e.ChangesetID != 0 {
			meta["changeset"] = e.ChangesetID
		}
`,
		Replace: `		cs := e.ChangesetID
		if cs != 0 {
			meta["changeset"] = cs
		}
`},
	// skip test inverted, nesting instead of continue, if-init
	{Name: "b-g5-ways-guard-inverted-ifinit", File: "osmgeojson/convert.go", Nth: 0,
		Find: `		if _, skip := ctx.skippable[way.ID]; skip {
			continue
		}

		feature := ctx.wayToFeature(way)
		if feature != nil {
			features = append(features, feature)
		}
`,
		Replace: `		if _, skip := ctx.skippable[way.ID]; !skip {
			if feature := ctx.wayToFeature(way); feature != nil {
				features = append(features, feature)
			}
		}
`},
	// if-init -> statements, key read into a local, renamed ok variable
	{Name: "b-g5-ways-lookup-statement", File: "osmgeojson/convert.go", Nth: 0,
		Find: `		if _, skip := ctx.skippable[way.ID]; skip {
			continue
		}
`,
		Replace: `		id := way.ID
		_, rendered := ctx.skippable[id]
		if rendered {
			continue
		}
`},
	// two copies of the append merged; tagless switch with init; named constant; early continue
	{Name: "b-g5-relations-merged-append", File: "osmgeojson/convert.go", Nth: 0,
		Find: `		tt := relation.Tags.Find("type")
		if tt == "route" {
			feature := ctx.buildRouteLineString(relation)
			if feature != nil {
				features = append(features, feature)
			}
		} else if tt == "multipolygon" || tt == "boundary" {
			feature := ctx.buildPolygon(relation)
			if feature != nil {
				features = append(features, feature)
			}
		}
`,
		Replace: `		const routeType = "route"

		var feature *geojson.Feature
		switch tt := relation.Tags.Find("type"); {
		case tt == routeType:
			feature = ctx.buildRouteLineString(relation)
		case tt == "multipolygon", tt == "boundary":
			feature = ctx.buildPolygon(relation)
		}

		if feature == nil {
			continue
		}
		features = append(features, feature)
`},
	// way loop body and the whole node pass extracted into methods; skippable lookup in a helper; membership read moved into a predicate
	{Name: "b-g5-passes-extracted", File: "osmgeojson/convert.go", Nth: 0,
		Find: `	for _, way := range ctx.osm.Ways {
		// should skip only skippable relation members
		if _, skip := ctx.skippable[way.ID]; skip {
			continue
		}

		feature := ctx.wayToFeature(way)
		if feature != nil {
			features = append(features, feature)
		}
	}

	for _, node := range ctx.osm.Nodes {
		// should NOT skip if any are true:
		//   not a member of a way.
		//   a member of a relation member
		//   has any interesting tags
		// should skip if all are true:
		//   a member of a way.
		//   not a member of a relation member
		//   does not have any interesting tags
		if _, ok := ctx.wayMember[node.ID]; ok &&
			len(ctx.relationMember[node.FeatureID()]) == 0 &&
			!hasInterestingTags(node.Tags, nil) {
			continue
		}

		feature := ctx.nodeToFeature(node)
		if feature != nil {
			features = append(features, feature)
		}
	}

	fc := geojson.NewFeatureCollection()
	fc.Features = features

	return fc, nil
}
`,
		Replace: `	for _, way := range ctx.osm.Ways {
		features = ctx.appendWay(features, way)
	}

	features = ctx.appendNodes(features)

	fc := geojson.NewFeatureCollection()
	fc.Features = features

	return fc, nil
}

// isRendered reports whether the way was already rendered as part of a relation.
func (ctx *context) isRendered(id osm.WayID) bool {
	_, ok := ctx.skippable[id]
	return ok
}

// appendWay adds the feature of a way, should skip only skippable relation members.
func (ctx *context) appendWay(list []*geojson.Feature, w *osm.Way) []*geojson.Feature {
	if ctx.isRendered(w.ID) {
		return list
	}

	if f := ctx.wayToFeature(w); f != nil {
		list = append(list, f)
	}

	return list
}

// skipNode: a node gets no feature if it is part of a way, not a relation
// member and has no interesting tags.
func (ctx *context) skipNode(n *osm.Node) bool {
	if _, ok := ctx.wayMember[n.ID]; !ok {
		return false
	}

	return len(ctx.relationMember[n.FeatureID()]) == 0 && !hasInterestingTags(n.Tags, nil)
}

func (ctx *context) appendNodes(list []*geojson.Feature) []*geojson.Feature {
	for _, node := range ctx.osm.Nodes {
		if ctx.skipNode(node) {
			continue
		}

		if f := ctx.nodeToFeature(node); f != nil {
			list = append(list, f)
		}
	}

	return list
}
`},
	// guard held in a boolean local
	{Name: "b-g6-route-guard-local", File: "osmgeojson/convert.go", Nth: 0,
		Find: `		if !hasInterestingTags(way.Tags, nil) {
			ctx.skippable[way.ID] = struct{}{}
		}

		ls, t := ctx.wayToLineString(way)
		if t {
			tainted = true
		}

		if len(ls) == 0 {
			continue
		}

		lines = append(lines, mputil.Segment{
`,
		Replace: `		boring := !hasInterestingTags(way.Tags, nil)
		if boring {
			ctx.skippable[way.ID] = struct{}{}
		}

		ls, t := ctx.wayToLineString(way)
		if t {
			tainted = true
		}

		if len(ls) == 0 {
			continue
		}

		lines = append(lines, mputil.Segment{
`},
	// inverted branch; nil discount set held in a local; key read into a local
	{Name: "b-g6-route-guard-inverted-nil-local", File: "osmgeojson/convert.go", Nth: 0,
		Find: `		if !hasInterestingTags(way.Tags, nil) {
			ctx.skippable[way.ID] = struct{}{}
		}

		ls, t := ctx.wayToLineString(way)
		if t {
			tainted = true
		}

		if len(ls) == 0 {
			continue
		}

		lines = append(lines, mputil.Segment{
`,
		Replace: `		var none map[string]string
		id := way.ID
		if hasInterestingTags(way.Tags, none) {
			// the way keeps its own feature
		} else {
			ctx.skippable[id] = struct{}{}
		}

		ls, t := ctx.wayToLineString(way)
		if t {
			tainted = true
		}

		if len(ls) == 0 {
			continue
		}

		lines = append(lines, mputil.Segment{
`},
	// guard and store extracted into a helper with the discount set as a parameter (early return form)
	{Name: "b-g6-mark-helper-shared", File: "osmgeojson/convert.go", Nth: 0,
		Find: `func (ctx *context) buildRouteLineString(relation *osm.Relation) *geojson.Feature {
	lines := make([]mputil.Segment, 0, 10)
	tainted := false
	for _, m := range relation.Members {
		if m.Type != osm.TypeWay {
			continue
		}

		way := ctx.wayMap[osm.WayID(m.Ref)]
		if way == nil {
			tainted = true
			continue
		}

		if !hasInterestingTags(way.Tags, nil) {
			ctx.skippable[way.ID] = struct{}{}
		}
`,
		Replace: `// markBoring makes the way skippable if it has no interesting tags besides the ignored ones.
func (ctx *context) markBoring(w *osm.Way, ignore map[string]string) {
	if hasInterestingTags(w.Tags, ignore) {
		return
	}
	ctx.skippable[w.ID] = struct{}{}
}

func (ctx *context) buildRouteLineString(relation *osm.Relation) *geojson.Feature {
	lines := make([]mputil.Segment, 0, 10)
	tainted := false
	for _, m := range relation.Members {
		if m.Type != osm.TypeWay {
			continue
		}

		way := ctx.wayMap[osm.WayID(m.Ref)]
		if way == nil {
			tainted = true
			continue
		}

		ctx.markBoring(way, nil)
`},
	// helper inlined (one function fewer in the call tree)
	{Name: "b-g1-toring-inlined", File: "osmgeojson/convert.go", Nth: 0,
		Find: `		p := orb.Polygon{toRing(ls)}
`,
		Replace: `		ring := orb.Ring(ls)
		if len(ls) >= 2 && ls[0] != ls[len(ls)-1] {
			// duplicate last point
			ring = orb.Ring(append(ls, ls[0]))
		}
		p := orb.Polygon{ring}
`},
	// functions moved within the file; guards merged (toRing) and split (predicate); locals dropped
	{Name: "b-g1-functions-reordered", File: "osmgeojson/convert.go", Nth: 0,
		Find: `func hasInterestingTags(tags osm.Tags, ignore map[string]string) bool {
	if len(tags) == 0 {
		return false
	}

	for _, tag := range tags {
		k, v := tag.Key, tag.Value
		if !osm.UninterestingTags[k] &&
			(ignore == nil || !(ignore[k] == "true" || ignore[k] == v)) {
			return true
		}
	}

	return false
}

func toRing(ls orb.LineString) orb.Ring {
	if len(ls) < 2 {
		return orb.Ring(ls)
	}

	// duplicate last point
	if ls[0] != ls[len(ls)-1] {
		return orb.Ring(append(ls, ls[0]))
	}

	return orb.Ring(ls)
}
`,
		Replace: `func toRing(ls orb.LineString) orb.Ring {
	if len(ls) < 2 || ls[0] == ls[len(ls)-1] {
		return orb.Ring(ls)
	}

	// duplicate last point
	return orb.Ring(append(ls, ls[0]))
}

// hasInterestingTags reports if any tag is interesting and not ignored.
func hasInterestingTags(tags osm.Tags, ignore map[string]string) bool {
	for _, tag := range tags {
		if osm.UninterestingTags[tag.Key] {
			continue
		}

		if ignore == nil {
			return true
		}

		if iv := ignore[tag.Key]; iv != "true" && iv != tag.Value {
			return true
		}
	}

	return false
}
`},
	// renamed locals, properties map read into a local, independent statements reordered
	{Name: "b-rename-locals-node-feature", File: "osmgeojson/convert.go", Nth: 0,
		Find: `	f := geojson.NewFeature(orb.Point{n.Lon, n.Lat})

	if !ctx.noID {
		f.ID = fmt.Sprintf("node/%d", n.ID)
	}
	f.Properties["id"] = int(n.ID)
	f.Properties["type"] = "node"
	f.Properties["tags"] = n.Tags.Map()

	ctx.addMetaProperties(f.Properties, n)

	return f
`,
		Replace: `	feat := geojson.NewFeature(orb.Point{n.Lon, n.Lat})
	props := feat.Properties

	props["tags"] = n.Tags.Map()
	props["type"] = "node"
	props["id"] = int(n.ID)
	if !ctx.noID {
		feat.ID = fmt.Sprintf("node/%d", n.ID)
	}

	ctx.addMetaProperties(props, n)

	return feat
`},
	// extract helper that fills a value its only caller has just allocated (interprocedural freshness in G1)
	{Name: "b-g1-fill-helper-fresh-way", File: "osmgeojson/build_polygon.go", Nth: 0,
		Find: `func (ctx *context) buildPolygon(relation *osm.Relation) *geojson.Feature {
	tags := relation.Tags.Map()

	var outer []mputil.Segment
	var inner []mputil.Segment

	tainted := false
	outerCount := 0

	var outerWay *osm.Way // used to get featureID if only one outer way
	for _, m := range relation.Members {
		if m.Type != osm.TypeWay {
			continue
		}

		if m.Role != "inner" && m.Role != "outer" {
			continue
		}

		if m.Role == "outer" {
			outerCount++
		}

		way := ctx.wayMap[osm.WayID(m.Ref)]
		if way == nil {
			if len(m.Nodes) != 0 {
				way = &osm.Way{
					ID:    osm.WayID(m.Ref),
					Nodes: m.Nodes,
				}
`,
		Replace: `// fillWay completes a way that is only known from the member of a relation.
func fillWay(w *osm.Way, m osm.Member) {
	w.ID = osm.WayID(m.Ref)
	w.Nodes = m.Nodes
}

func (ctx *context) buildPolygon(relation *osm.Relation) *geojson.Feature {
	tags := relation.Tags.Map()

	var outer []mputil.Segment
	var inner []mputil.Segment

	tainted := false
	outerCount := 0

	var outerWay *osm.Way // used to get featureID if only one outer way
	for _, m := range relation.Members {
		if m.Type != osm.TypeWay {
			continue
		}

		if m.Role != "inner" && m.Role != "outer" {
			continue
		}

		if m.Role == "outer" {
			outerCount++
		}

		way := ctx.wayMap[osm.WayID(m.Ref)]
		if way == nil {
			if len(m.Nodes) != 0 {
				way = &osm.Way{}
				fillWay(way, m)
`},
}

// c17RefactoredMutants: defects seeded into refactored shapes of the code (each is one of the variants above plus
// a behaviour change): the generalised rules must still report them.
var c17RefactoredMutants = []core.Mutant{
	// way loop body extracted into a helper that forgets the skippable test
	{Name: "r-g5-extracted-way-helper-unguarded", File: "osmgeojson/convert.go", Nth: 0, ExpectRule: "G5", ExpectConstruct: "skippable@Convert ways",
		Find: `	for _, way := range ctx.osm.Ways {
		// should skip only skippable relation members
		if _, skip := ctx.skippable[way.ID]; skip {
			continue
		}

		feature := ctx.wayToFeature(way)
		if feature != nil {
			features = append(features, feature)
		}
	}

	for _, node := range ctx.osm.Nodes {
		// should NOT skip if any are true:
		//   not a member of a way.
		//   a member of a relation member
		//   has any interesting tags
		// should skip if all are true:
		//   a member of a way.
		//   not a member of a relation member
		//   does not have any interesting tags
		if _, ok := ctx.wayMember[node.ID]; ok &&
			len(ctx.relationMember[node.FeatureID()]) == 0 &&
			!hasInterestingTags(node.Tags, nil) {
			continue
		}

		feature := ctx.nodeToFeature(node)
		if feature != nil {
			features = append(features, feature)
		}
	}

	fc := geojson.NewFeatureCollection()
	fc.Features = features

	return fc, nil
}
`,
		Replace: `	for _, way := range ctx.osm.Ways {
		features = ctx.appendWay(features, way)
	}

	features = ctx.appendNodes(features)

	fc := geojson.NewFeatureCollection()
	fc.Features = features

	return fc, nil
}

// isRendered reports whether the way was already rendered as part of a relation.
func (ctx *context) isRendered(id osm.WayID) bool {
	_, ok := ctx.skippable[id]
	return ok
}

// appendWay adds the feature of a way, should skip only skippable relation members.
func (ctx *context) appendWay(list []*geojson.Feature, w *osm.Way) []*geojson.Feature {
	if f := ctx.wayToFeature(w); f != nil {
		list = append(list, f)
	}

	return list
}

// skipNode: a node gets no feature if it is part of a way, not a relation
// member and has no interesting tags.
func (ctx *context) skipNode(n *osm.Node) bool {
	if _, ok := ctx.wayMember[n.ID]; !ok {
		return false
	}

	return len(ctx.relationMember[n.FeatureID()]) == 0 && !hasInterestingTags(n.Tags, nil)
}

func (ctx *context) appendNodes(list []*geojson.Feature) []*geojson.Feature {
	for _, node := range ctx.osm.Nodes {
		if ctx.skipNode(node) {
			continue
		}

		if f := ctx.nodeToFeature(node); f != nil {
			list = append(list, f)
		}
	}

	return list
}
`},
	// extracted node pass called twice
	{Name: "r-g5-extracted-node-pass-twice", File: "osmgeojson/convert.go", Nth: 0, ExpectRule: "G5", ExpectConstruct: "featurelist@Convert",
		Find: `	for _, way := range ctx.osm.Ways {
		// should skip only skippable relation members
		if _, skip := ctx.skippable[way.ID]; skip {
			continue
		}

		feature := ctx.wayToFeature(way)
		if feature != nil {
			features = append(features, feature)
		}
	}

	for _, node := range ctx.osm.Nodes {
		// should NOT skip if any are true:
		//   not a member of a way.
		//   a member of a relation member
		//   has any interesting tags
		// should skip if all are true:
		//   a member of a way.
		//   not a member of a relation member
		//   does not have any interesting tags
		if _, ok := ctx.wayMember[node.ID]; ok &&
			len(ctx.relationMember[node.FeatureID()]) == 0 &&
			!hasInterestingTags(node.Tags, nil) {
			continue
		}

		feature := ctx.nodeToFeature(node)
		if feature != nil {
			features = append(features, feature)
		}
	}

	fc := geojson.NewFeatureCollection()
	fc.Features = features

	return fc, nil
}
`,
		Replace: `	for _, way := range ctx.osm.Ways {
		features = ctx.appendWay(features, way)
	}

	features = ctx.appendNodes(features)
	features = ctx.appendNodes(features)

	fc := geojson.NewFeatureCollection()
	fc.Features = features

	return fc, nil
}

// isRendered reports whether the way was already rendered as part of a relation.
func (ctx *context) isRendered(id osm.WayID) bool {
	_, ok := ctx.skippable[id]
	return ok
}

// appendWay adds the feature of a way, should skip only skippable relation members.
func (ctx *context) appendWay(list []*geojson.Feature, w *osm.Way) []*geojson.Feature {
	if ctx.isRendered(w.ID) {
		return list
	}

	if f := ctx.wayToFeature(w); f != nil {
		list = append(list, f)
	}

	return list
}

// skipNode: a node gets no feature if it is part of a way, not a relation
// member and has no interesting tags.
func (ctx *context) skipNode(n *osm.Node) bool {
	if _, ok := ctx.wayMember[n.ID]; !ok {
		return false
	}

	return len(ctx.relationMember[n.FeatureID()]) == 0 && !hasInterestingTags(n.Tags, nil)
}

func (ctx *context) appendNodes(list []*geojson.Feature) []*geojson.Feature {
	for _, node := range ctx.osm.Nodes {
		if ctx.skipNode(node) {
			continue
		}

		if f := ctx.nodeToFeature(node); f != nil {
			list = append(list, f)
		}
	}

	return list
}
`},
	// shared helper called from the route builder with the relation's tags as discount set
	{Name: "r-g6-mark-helper-route-discounts", File: "osmgeojson/convert.go", Nth: 0, ExpectRule: "G6", ExpectConstruct: "buildRouteLineString",
		Find: `func (ctx *context) buildRouteLineString(relation *osm.Relation) *geojson.Feature {
	lines := make([]mputil.Segment, 0, 10)
	tainted := false
	for _, m := range relation.Members {
		if m.Type != osm.TypeWay {
			continue
		}

		way := ctx.wayMap[osm.WayID(m.Ref)]
		if way == nil {
			tainted = true
			continue
		}

		if !hasInterestingTags(way.Tags, nil) {
			ctx.skippable[way.ID] = struct{}{}
		}
`,
		Replace: `// markBoring makes the way skippable if it has no interesting tags besides the ignored ones.
func (ctx *context) markBoring(w *osm.Way, ignore map[string]string) {
	if hasInterestingTags(w.Tags, ignore) {
		return
	}
	ctx.skippable[w.ID] = struct{}{}
}

func (ctx *context) buildRouteLineString(relation *osm.Relation) *geojson.Feature {
	lines := make([]mputil.Segment, 0, 10)
	tainted := false
	for _, m := range relation.Members {
		if m.Type != osm.TypeWay {
			continue
		}

		way := ctx.wayMap[osm.WayID(m.Ref)]
		if way == nil {
			tainted = true
			continue
		}

		ctx.markBoring(way, relation.Tags.Map())
`},
	// helper only tests the tags when a discount set is given: route ways always become skippable
	{Name: "r-g6-mark-helper-untested", File: "osmgeojson/convert.go", Nth: 0, ExpectRule: "G6", ExpectConstruct: "",
		Find: `func (ctx *context) buildRouteLineString(relation *osm.Relation) *geojson.Feature {
	lines := make([]mputil.Segment, 0, 10)
	tainted := false
	for _, m := range relation.Members {
		if m.Type != osm.TypeWay {
			continue
		}

		way := ctx.wayMap[osm.WayID(m.Ref)]
		if way == nil {
			tainted = true
			continue
		}

		if !hasInterestingTags(way.Tags, nil) {
			ctx.skippable[way.ID] = struct{}{}
		}
`,
		Replace: `// markBoring makes the way skippable if it has no interesting tags besides the ignored ones.
func (ctx *context) markBoring(w *osm.Way, ignore map[string]string) {
	if len(ignore) > 0 && hasInterestingTags(w.Tags, ignore) {
		return
	}
	ctx.skippable[w.ID] = struct{}{}
}

func (ctx *context) buildRouteLineString(relation *osm.Relation) *geojson.Feature {
	lines := make([]mputil.Segment, 0, 10)
	tainted := false
	for _, m := range relation.Members {
		if m.Type != osm.TypeWay {
			continue
		}

		way := ctx.wayMap[osm.WayID(m.Ref)]
		if way == nil {
			tainted = true
			continue
		}

		ctx.markBoring(way, nil)
`},
	// id helper also stores a property: NoID would remove more than the id
	{Name: "r-g3-setid-helper-also-property", File: "osmgeojson/convert.go", Nth: 0, ExpectRule: "G3", ExpectConstruct: "setID noID",
		Find: `func (ctx *context) nodeToFeature(n *osm.Node) *geojson.Feature {
	// our definition of empty, ill defined
	if n.Lon == 0 && n.Lat == 0 && n.Version == 0 {
		return nil
	}

	f := geojson.NewFeature(orb.Point{n.Lon, n.Lat})

	if !ctx.noID {
		f.ID = fmt.Sprintf("node/%d", n.ID)
	}
`,
		Replace: `// setID sets the feature id unless ids are switched off.
func (ctx *context) setID(f *geojson.Feature, id string) {
	if ctx.noID {
		return
	}
	f.ID = id
	f.Properties["ref"] = id
}

func (ctx *context) nodeToFeature(n *osm.Node) *geojson.Feature {
	// our definition of empty, ill defined
	if n.Lon == 0 && n.Lat == 0 && n.Version == 0 {
		return nil
	}

	f := geojson.NewFeature(orb.Point{n.Lon, n.Lat})

	ctx.setID(f, fmt.Sprintf("node/%d", n.ID))
`},
	// split bookkeeping guard that drops node members
	{Name: "r-g3-split-guard-wrong-type", File: "osmgeojson/convert.go", Nth: 0, ExpectRule: "G3", ExpectConstruct: "read@Convert noRelationMembership",
		Find: `			if ctx.noRelationMembership && m.Type != osm.TypeNode {
				// If we don't need to do relation membership we only
				// need this for nodes to check if they're interesting.
				continue
			}
`,
		Replace: `			if ctx.noRelationMembership {
				// If we don't need to do relation membership we only
				// need this for nodes to check if they're interesting.
				if m.Type != osm.TypeWay {
					continue
				}
			}
`},
	// switch form of the bookkeeping guard keeping relations instead of nodes
	{Name: "r-g3-switch-guard-drops-nodes", File: "osmgeojson/convert.go", Nth: 0, ExpectRule: "G3", ExpectConstruct: "read@Convert noRelationMembership",
		Find: `			if ctx.noRelationMembership && m.Type != osm.TypeNode {
				// If we don't need to do relation membership we only
				// need this for nodes to check if they're interesting.
				continue
			}
`,
		Replace: `			if skipOthers := ctx.noRelationMembership; skipOthers {
				switch m.Type {
				case osm.TypeRelation:
					// needed to check if nodes are interesting
				default:
					continue
				}
			}
`},
	// predicate helper lets NoMeta decide the feature id too
	{Name: "r-g3-predicate-helper-mixes-options", File: "osmgeojson/convert.go", Nth: 0, ExpectRule: "G3", ExpectConstruct: "nodeToFeature noMeta",
		Find: `func (ctx *context) nodeToFeature(n *osm.Node) *geojson.Feature {
	// our definition of empty, ill defined
	if n.Lon == 0 && n.Lat == 0 && n.Version == 0 {
		return nil
	}

	f := geojson.NewFeature(orb.Point{n.Lon, n.Lat})

	if !ctx.noID {
`,
		Replace: `func (ctx *context) wantID() bool { return !ctx.noID && !ctx.noMeta }

func (ctx *context) nodeToFeature(n *osm.Node) *geojson.Feature {
	// our definition of empty, ill defined
	if n.Lon == 0 && n.Lat == 0 && n.Version == 0 {
		return nil
	}

	f := geojson.NewFeature(orb.Point{n.Lon, n.Lat})

	if ctx.wantID() {
`},
	// extracted meta helper reachable with NoMeta set
	{Name: "r-g3-fillmeta-unguarded", File: "osmgeojson/convert.go", Nth: 0, ExpectRule: "G3", ExpectConstruct: "metaassign@(*context).fillMeta",
		Find: `	if ctx.noMeta {
		return
	}

	meta := make(map[string]interface{}, 5)
`,
		Replace: `	if !ctx.noMeta || len(props) > 3 {
		ctx.fillMeta(props, e)
	}
}

// fillMeta stores the meta object of the element.
func (ctx *context) fillMeta(props geojson.Properties, e osm.Element) {
	meta := make(map[string]interface{}, 5)
`},
	// relations helper still stores non-empty lists with the option set
	{Name: "r-g3-relations-helper-guard-after-store", File: "osmgeojson/convert.go", Nth: 0, ExpectRule: "G3", ExpectConstruct: "relassign@(*context).addRelations",
		Find: `func (ctx *context) addMetaProperties(props geojson.Properties, e osm.Element) {
	if !ctx.noRelationMembership {
		relations := ctx.relationMember[e.FeatureID()]
		if len(relations) != 0 {
			props["relations"] = relations
		} else {
			props["relations"] = []*relationSummary{}
		}
	}
`,
		Replace: `func (ctx *context) addRelations(props geojson.Properties, fid osm.FeatureID) {
	list := ctx.relationMember[fid]
	if ctx.noRelationMembership && len(list) == 0 {
		return
	}

	if len(list) == 0 {
		list = []*relationSummary{}
	}
	props["relations"] = list
}

func (ctx *context) addMetaProperties(props geojson.Properties, e osm.Element) {
	ctx.addRelations(props, e.FeatureID())
`},
	// case-local name bound to another field in one case
	{Name: "r-g4-relation-local-wrong-field", File: "osmgeojson/convert.go", Nth: 3, ExpectRule: "G4", ExpectConstruct: "*osm.Relation",
		Find: `		if e.UserID != 0 {
			meta["uid"] = e.UserID
		}
`,
		Replace: `		if uid := e.ChangesetID; uid != 0 {
			meta["uid"] = uid
		}
`},
	// alias holding the option un-negated: the option now enables the skip
	{Name: "r-g3-invalid-alias-inverted", File: "osmgeojson/build_polygon.go", Nth: 0, ExpectRule: "G3", ExpectConstruct: "buildPolygon includeInvalidPolygons",
		Find: `		if len(mp) == 0 && !ctx.includeInvalidPolygons {
`,
		Replace: `		if strict := ctx.includeInvalidPolygons; strict && len(mp) == 0 {
`},
	// fill helper also writes through the node slice it took from the input
	{Name: "r-g1-fill-helper-writes-input-nodes", File: "osmgeojson/build_polygon.go", Nth: 0, ExpectRule: "G1", ExpectConstruct: "fillWay",
		Find: `func (ctx *context) buildPolygon(relation *osm.Relation) *geojson.Feature {
	tags := relation.Tags.Map()

	var outer []mputil.Segment
	var inner []mputil.Segment

	tainted := false
	outerCount := 0

	var outerWay *osm.Way // used to get featureID if only one outer way
	for _, m := range relation.Members {
		if m.Type != osm.TypeWay {
			continue
		}

		if m.Role != "inner" && m.Role != "outer" {
			continue
		}

		if m.Role == "outer" {
			outerCount++
		}

		way := ctx.wayMap[osm.WayID(m.Ref)]
		if way == nil {
			if len(m.Nodes) != 0 {
				way = &osm.Way{
					ID:    osm.WayID(m.Ref),
					Nodes: m.Nodes,
				}
`,
		Replace: `// fillWay completes a way that is only known from the member of a relation.
func fillWay(w *osm.Way, m osm.Member) {
	w.ID = osm.WayID(m.Ref)
	w.Nodes = m.Nodes
	if len(w.Nodes) > 0 {
		w.Nodes[0].Version = 0
	}
}

func (ctx *context) buildPolygon(relation *osm.Relation) *geojson.Feature {
	tags := relation.Tags.Map()

	var outer []mputil.Segment
	var inner []mputil.Segment

	tainted := false
	outerCount := 0

	var outerWay *osm.Way // used to get featureID if only one outer way
	for _, m := range relation.Members {
		if m.Type != osm.TypeWay {
			continue
		}

		if m.Role != "inner" && m.Role != "outer" {
			continue
		}

		if m.Role == "outer" {
			outerCount++
		}

		way := ctx.wayMap[osm.WayID(m.Ref)]
		if way == nil {
			if len(m.Nodes) != 0 {
				way = &osm.Way{}
				fillWay(way, m)
`},
}
