package rules

import (
	"go/ast"
	"go/token"
	"go/types"
)

// Range tests: comparisons between an index I and the length of a container C, in every spelling the rules
// understand, normalised to one of four relations. Operands are looked through parameter bindings, single-definition
// locals and integer conversions, so `uint(u.Index) < uint(n)` inside `func (u Update) inRange(n int) bool` called
// with `len(w.Nodes)` is the same test as `u.Index < len(w.Nodes)`.
//
// Arithmetic that is understood: `len(C) - 1` ("the last valid index"). In signed arithmetic `I <= len(C)-1` is
// `I < len(C)`. After conversion to an unsigned type it is NOT: for an empty container len(C)-1 wraps to the
// maximum value and every index passes. Such a comparison is recognised (wraps = true) but is not a range test.

const (
	c15RelNone     = iota
	c15RelBelow    // expr  <=>  I <  len(C)   (in range when true)
	c15RelNotBelow // expr  <=>  len(C) <= I   (out of range when true)
	c15RelAbove    // expr  <=>  len(C) <  I   (implies out of range; false when in range)
	c15RelAtMost   // expr  <=>  I <= len(C)   (implied by in range; says nothing when true)
	c15RelNeg      // expr  <=>  I <  0        (lower bound violated)
	c15RelNonNeg   // expr  <=>  0 <= I        (lower bound holds)
)

// Abstract positions of an index relative to its container: "in range" means 0 <= I < len(C). Update.Index is a
// signed int read from xml/json, so out of range has two sides.
const (
	c15In   = +1 // 0 <= I < len(C)
	c15High = -1 // I >= len(C) (and I >= 0)
	c15Neg  = -2 // I < 0
)

type c15RangeTest struct {
	rel      int
	ienv     *c15Env
	I        ast.Expr // the index operand, conversions stripped
	cenv     *c15Env
	C        ast.Expr // the argument of len
	unsigned bool
	wraps    bool // unsigned comparison against len(C)-1: passes every index when C is empty
}

// c15Operand is one side of a comparison after looking through bindings, locals and conversions.
type c15Operand struct {
	env      *c15Env
	expr     ast.Expr // index operand; or the argument of len for kinds 'L' and 'M'
	kind     byte     // 'I' other expression, 'L' len(C), 'M' len(C)-1, 'K' integer constant k
	k        int64
	unsigned bool // an unsigned conversion was passed on the way
}

func c15IsUnsigned(t types.Type) bool {
	if t == nil {
		return false
	}
	b, ok := t.Underlying().(*types.Basic)
	return ok && b.Info()&types.IsUnsigned != 0
}

func c15IsInteger(t types.Type) bool {
	if t == nil {
		return false
	}
	b, ok := t.Underlying().(*types.Basic)
	return ok && b.Info()&types.IsInteger != 0
}

func (w *c15World) rangeOperand(env *c15Env, e ast.Expr, depth int) c15Operand {
	op := c15Operand{env: env, expr: e, kind: 'I'}
	for i := 0; i < 8; i++ {
		op.env, op.expr = w.resolveExpr(op.env, op.expr)
		call, ok := op.expr.(*ast.CallExpr)
		if !ok || len(call.Args) != 1 {
			break
		}
		tv, isConv := w.info.Types[call.Fun]
		if !isConv || !tv.IsType() || !c15IsInteger(tv.Type) || !c15IsInteger(w.info.TypeOf(call.Args[0])) {
			break
		}
		if c15IsUnsigned(tv.Type) {
			op.unsigned = true
		}
		op.expr = call.Args[0]
	}
	if la := lenCallArg(w.info, op.expr); la != nil {
		op.kind, op.expr = 'L', la
		return op
	}
	if k, ok := constInt(w.info, op.expr); ok {
		op.kind, op.k = 'K', k
		return op
	}
	if be, ok := op.expr.(*ast.BinaryExpr); ok && be.Op == token.SUB && depth < 3 {
		if k, ok := constInt(w.info, be.Y); ok && k == 1 {
			inner := w.rangeOperand(op.env, be.X, depth+1)
			if inner.kind == 'L' {
				inner.kind = 'M'
				inner.unsigned = inner.unsigned || op.unsigned
				return inner
			}
		}
	}
	return op
}

// rangeTest normalises comparison e (written in env.fn), or returns nil when it does not compare something with the
// length of a container.
func (w *c15World) rangeTest(env *c15Env, e ast.Expr) *c15RangeTest {
	l, op, r, ok := cmpNorm(e)
	if !ok || (op != token.LSS && op != token.LEQ) {
		return nil
	}
	a, b := w.rangeOperand(env, l, 0), w.rangeOperand(env, r, 0)
	unsigned := a.unsigned || b.unsigned || c15IsUnsigned(w.info.TypeOf(l))
	mk := func(rel int, i, c c15Operand) *c15RangeTest {
		return &c15RangeTest{rel: rel, ienv: i.env, I: i.expr, cenv: c.env, C: c.expr, unsigned: unsigned}
	}
	switch {
	case a.kind == 'I' && b.kind == 'L' && op == token.LSS:
		return mk(c15RelBelow, a, b)
	case a.kind == 'L' && b.kind == 'I' && op == token.LEQ:
		return mk(c15RelNotBelow, b, a)
	case a.kind == 'L' && b.kind == 'I' && op == token.LSS:
		return mk(c15RelAbove, b, a)
	case a.kind == 'I' && b.kind == 'L' && op == token.LEQ:
		return mk(c15RelAtMost, a, b)
	case a.kind == 'I' && b.kind == 'K' && !unsigned && ((op == token.LSS && b.k == 0) || (op == token.LEQ && b.k == -1)): // I < 0
		return &c15RangeTest{rel: c15RelNeg, ienv: a.env, I: a.expr}
	case a.kind == 'K' && b.kind == 'I' && !unsigned && ((op == token.LEQ && a.k == 0) || (op == token.LSS && a.k == -1)): // 0 <= I
		return &c15RangeTest{rel: c15RelNonNeg, ienv: b.env, I: b.expr}
	case a.kind == 'I' && b.kind == 'M' && op == token.LEQ: // I <= len-1
		t := mk(c15RelBelow, a, b)
		if unsigned {
			t.rel, t.wraps = c15RelNone, true
		}
		return t
	case a.kind == 'M' && b.kind == 'I' && op == token.LSS: // len-1 < I
		t := mk(c15RelNotBelow, b, a)
		if unsigned {
			t.rel, t.wraps = c15RelNone, true
		}
		return t
	}
	return nil
}

// about reports whether the test is about index path ip and container path cp (nil: any update index).
func (w *c15World) rangeTestAbout(t *c15RangeTest, ip, cp *c15Path) bool {
	p := w.pathOf(t.ienv, t.I, false)
	if p == nil || !c15IsUpdateIndexPath(p) {
		return false
	}
	if ip == nil {
		return true
	}
	if t.rel == c15RelNeg || t.rel == c15RelNonNeg {
		return p.eq(ip) // a test of the lower bound involves no container
	}
	return p.eq(ip) && w.pathOf(t.cenv, t.C, false).eq(cp)
}

// value gives the truth value of the test for an index that is in range (c15In), at or beyond the length (c15High)
// or negative (c15Neg). A negative index converted to an unsigned type is larger than every length, so the unsigned
// spellings of the upper test decide both sides at once.
func (t *c15RangeTest) value(rng int) c15Tri {
	neg := rng == c15Neg
	switch t.rel {
	case c15RelBelow: // I < len
		if neg {
			return c15Of(!t.unsigned)
		}
		return c15Of(rng == c15In)
	case c15RelNotBelow: // len <= I
		if neg {
			return c15Of(t.unsigned)
		}
		return c15Of(rng == c15High)
	case c15RelAbove: // len < I
		if neg {
			return c15Of(t.unsigned)
		}
		if rng == c15In {
			return c15F
		}
	case c15RelAtMost: // I <= len
		if neg {
			return c15Of(!t.unsigned)
		}
		if rng == c15In {
			return c15T
		}
	case c15RelNeg:
		return c15Of(neg)
	case c15RelNonNeg:
		return c15Of(!neg)
	}
	return c15U
}

// twoSided: the test, when it says "in range", also excludes negative indexes (unsigned comparison).
func (t *c15RangeTest) twoSided() bool { return t.unsigned }

// predicateExpr returns E for a function whose body is `return E`, possibly preceded by pure definitions of locals
// (`last := n - 1; return i <= last`): E is then evaluated with those locals looked through. Anything else: nil.
func (w *c15World) predicateExpr(f *c15Fn) ast.Expr {
	if f == nil || f.fi.Decl.Body == nil {
		return nil
	}
	list := f.fi.Decl.Body.List
	if len(list) == 0 {
		return nil
	}
	ret, ok := list[len(list)-1].(*ast.ReturnStmt)
	if !ok || len(ret.Results) != 1 {
		return nil
	}
	if f.predMemo == nil {
		f.predMemo = map[ast.Stmt]bool{}
	}
	for _, st := range list[:len(list)-1] {
		pure, seen := f.predMemo[st]
		if !seen {
			f.predMemo[st] = false // cut recursion through the helper itself
			switch x := st.(type) {
			case *ast.AssignStmt:
				pure = x.Tok == token.DEFINE
				for _, r := range x.Rhs {
					pure = pure && w.pureExpr(r, 1)
				}
			case *ast.DeclStmt:
				pure = w.pureExpr(x, 1)
			}
			f.predMemo[st] = pure
		}
		if !pure {
			return nil
		}
	}
	return ret.Results[0]
}
