package rules

import (
	"go/ast"
	"go/token"
	"go/types"
)

// ---------------------------------------------------------------- oracle

type c15Ord int

const (
	c15OrdNone   c15Ord = iota
	c15OrdBefore        // u.Timestamp is before t
	c15OrdEqual         // u.Timestamp equals t
	c15OrdAfter         // u.Timestamp is after t
)

func (o c15Ord) String() string {
	return [...]string{"at or before t (list already filtered)", "before t", "equal to t", "after t"}[o]
}

// c15Oracle gives the value of the atomic conditions under one abstract input.
type c15Oracle struct {
	w    *c15World
	loop *c15Loop // the loop whose element is meant (nil: any osm.Update value)
	lenv *c15Env  // environment of the loop's function
	ord  c15Ord   // relative order of the element's Timestamp and the API's time parameter

	rng     int      // +1: every `Index` vs `len` comparison is in range, -1: out of range, 0: unknown
	rngIdx  *c15Path // when set, rng speaks only about this index path against len(rngCont)
	rngCont *c15Path
	wraps   []ast.Expr // unsigned `<= len-1` comparisons met on the way (not range tests: they pass for an empty list)
	reverse int        // +1: <update>.Reverse holds, -1: does not, 0: unknown

	assigned map[types.Object]ast.Expr // values given to plain variables during the iteration being evaluated

	errObj types.Object // with errVal: this error variable is non-nil (+1) / nil (-1)
	errVal int

	sumDepth     int        // nesting of helper summaries
	timeAtoms    int        // number of atoms decided through the time order
	unknownTimes []ast.Expr // atoms that mention the element's Timestamp or t but were not understood
}

// timeRole classifies e as the element's timestamp ('U'), the API's time parameter ('T') or neither (0).
func (o *c15Oracle) timeRole(env *c15Env, e ast.Expr) byte {
	w := o.w
	p := w.pathOf(env, e, false)
	if p == nil {
		return 0
	}
	if c15IsUpdateField(p.last(), "Timestamp") {
		if o.loop == nil || w.isElem(o.lenv, o.loop, p.prefix(1)) {
			return 'U'
		}
		return 0
	}
	if len(p.steps) == 0 && namedPath(p.root.Type()) == "time.Time" {
		rf := env.root().fn
		if rf.isInput(p.root) && len(rf.defs[p.root]) == 0 {
			return 'T'
		}
	}
	return 0
}

// mentionsTime: e reads a Timestamp of an update or a time.Time parameter (used to tell "test not understood"
// from "no test").
func (o *c15Oracle) mentionsTime(env *c15Env, e ast.Expr) bool {
	found := false
	ast.Inspect(e, func(n ast.Node) bool {
		x, ok := n.(ast.Expr)
		if !ok || found {
			return !found
		}
		switch x.(type) {
		case *ast.Ident, *ast.SelectorExpr:
			if r := o.timeRole(env, x); r != 0 {
				found = true
			}
		}
		return !found
	})
	return found
}

func (o *c15Oracle) atom(env *c15Env, e ast.Expr) c15Tri {
	w := o.w
	e = ast.Unparen(e)
	// time order
	if o.ord != c15OrdNone {
		if v, ok := o.timeAtom(env, e); ok {
			o.timeAtoms++
			return v
		}
	}
	// comparisons
	if l, op, r, ok := cmpNorm(e); ok {
		// <update>.Index against len(C), in any understood spelling (c15_range.go)
		if o.rng != 0 {
			if t := w.rangeTest(env, e); t != nil && w.rangeTestAbout(t, o.rngIdx, o.rngCont) {
				if t.wraps {
					o.wraps = append(o.wraps, e)
				}
				return t.value(o.rng)
			}
		}
		// err != nil / err == nil
		if op == token.EQL || op == token.NEQ {
			var other ast.Expr
			switch {
			case isNilIdent(r):
				other = l
			case isNilIdent(l):
				other = r
			}
			if other != nil {
				if o.errObj != nil && o.errVal != 0 {
					if p := w.pathOf(env, other, false); p != nil && p.root == o.errObj && len(p.steps) == 0 {
						return c15Of((op == token.NEQ) == (o.errVal > 0))
					}
				}
				// an error variable whose only value is the result of a helper of package osm: summarise the
				// helper under the same abstract input
				if s := o.errValueOf(env, other); s != 0 {
					return c15Of((op == token.NEQ) == (s > 0))
				}
			}
		}
	} else if o.reverse != 0 {
		// <update>.Reverse (comparisons with true/false are unfolded by eval)
		if p := w.pathOf(env, e, false); p != nil && c15IsUpdateField(p.last(), "Reverse") {
			return c15Of(o.reverse > 0)
		}
	}
	// an atom about the element's Timestamp or t that is none of the understood comparisons
	if o.ord != c15OrdNone && o.mentionsTime(env, e) {
		o.unknownTimes = append(o.unknownTimes, e)
	}
	return c15U
}

// errValueOf: e is an error-typed expression; +1 = certainly non-nil, -1 = certainly nil, 0 = unknown, under the
// oracle's abstract input. Understood: nil, a local whose single definition is a call, and calls of functions of
// package osm (summarised by walking their CFG under the same oracle).
func (o *c15Oracle) errValueOf(env *c15Env, e ast.Expr) int {
	w := o.w
	e = ast.Unparen(e)
	if isNilIdent(e) {
		return -1
	}
	if id, ok := e.(*ast.Ident); ok {
		ob := objOf(w.info, id)
		env = env.scope(ob)
		if b, bound := env.lookup(ob); bound {
			return o.errValueOf(b.env, b.expr)
		}
		d := env.fn.singleDef(ob)
		if a, ok := o.assigned[ob]; ok && d == nil {
			d = a
		}
		if d == nil {
			// a named result / zero-declared variable assigned exactly once, by an assignment that dominates this use
			d = env.fn.soleAssignment(ob, id.Pos())
		}
		if d == nil {
			return 0
		}
		e = ast.Unparen(d)
	}
	call, ok := e.(*ast.CallExpr)
	if !ok {
		return 0
	}
	f, ce := w.calleeOf(env, call)
	if f == nil || !c15ReturnsError(f) || o.sumDepth >= 3 {
		return 0
	}
	if f.fi.Obj.Type().(*types.Signature).Results().Len() != 1 {
		return 0
	}
	o.sumDepth++
	defer func() { o.sumDepth-- }()
	wk := w.walk(f.g.Blocks[0], 0, c15WalkOpt{env: ce, oracle: o})
	if wk.implicit || len(wk.returns) == 0 {
		return 0
	}
	res := 0
	for i, ret := range wk.returns {
		v := 0
		if len(ret.Results) == 1 {
			if w.retKind(f, ret) == c15RetFailure {
				v = +1
			} else {
				v = o.errValueOf(ce, ret.Results[0])
			}
		}
		if v == 0 || (i > 0 && v != res) {
			return 0
		}
		res = v
	}
	return res
}

// timeAtom decides A.After(B) / A.Before(B) / A.Equal(B) / A.Compare(B) <op> k where {A,B} = {element timestamp, t}.
func (o *c15Oracle) timeAtom(env *c15Env, e ast.Expr) (c15Tri, bool) {
	w := o.w
	// sign of (u.Timestamp - t)
	sign := map[c15Ord]int{c15OrdBefore: -1, c15OrdEqual: 0, c15OrdAfter: +1}[o.ord]
	timeCall := func(x ast.Expr) (string, int, bool) { // method name, sign of (recv - arg)
		call, ok := ast.Unparen(x).(*ast.CallExpr)
		if !ok || len(call.Args) != 1 {
			return "", 0, false
		}
		fn := callee(w.info, call)
		if fn == nil {
			return "", 0, false
		}
		recv := fn.Type().(*types.Signature).Recv()
		if recv == nil || namedPath(recv.Type()) != "time.Time" {
			return "", 0, false
		}
		sel, ok := ast.Unparen(call.Fun).(*ast.SelectorExpr)
		if !ok {
			return "", 0, false
		}
		ra, rb := o.timeRole(env, sel.X), o.timeRole(env, call.Args[0])
		switch {
		case ra == 'U' && rb == 'T':
			return fn.Name(), sign, true
		case ra == 'T' && rb == 'U':
			return fn.Name(), -sign, true
		}
		return "", 0, false
	}
	if name, s, ok := timeCall(e); ok {
		switch name {
		case "After":
			return c15Of(s > 0), true
		case "Before":
			return c15Of(s < 0), true
		case "Equal":
			return c15Of(s == 0), true
		}
		return c15U, false
	}
	if be, ok := e.(*ast.BinaryExpr); ok {
		cmp := func(a int64, op token.Token, b int64) (c15Tri, bool) {
			switch op {
			case token.LSS:
				return c15Of(a < b), true
			case token.LEQ:
				return c15Of(a <= b), true
			case token.GTR:
				return c15Of(a > b), true
			case token.GEQ:
				return c15Of(a >= b), true
			case token.EQL:
				return c15Of(a == b), true
			case token.NEQ:
				return c15Of(a != b), true
			}
			return c15U, false
		}
		if name, s, ok := timeCall(be.X); ok && name == "Compare" {
			if k, ok := constInt(w.info, be.Y); ok {
				return cmp(int64(s), be.Op, k)
			}
		}
		if name, s, ok := timeCall(be.Y); ok && name == "Compare" {
			if k, ok := constInt(w.info, be.X); ok {
				return cmp(k, be.Op, int64(s))
			}
		}
	}
	return c15U, false
}

// resolveExpr follows identifiers that are parameters bound by the call environment or locals with a single pure
// definition, and returns the defining expression with the environment it is written in.
func (w *c15World) resolveExpr(env *c15Env, e ast.Expr) (*c15Env, ast.Expr) {
	for i := 0; i < 8; i++ {
		e = ast.Unparen(e)
		id, ok := e.(*ast.Ident)
		if !ok {
			break
		}
		ob := objOf(w.info, id)
		if ob == nil {
			break
		}
		env = env.scope(ob)
		if b, ok := env.lookup(ob); ok {
			env, e = b.env, b.expr
			continue
		}
		if d := env.fn.singleDef(ob); d != nil && w.pureExpr(d, 0) {
			e = d
			continue
		}
		break
	}
	return env, e
}

// eval evaluates a boolean expression written in env.fn: connectives, constants, boolean locals with a single
// definition, parameters bound by the call environment, and calls of single-expression helpers are looked through;
// everything else is an atom for the oracle.
func (w *c15World) eval(env *c15Env, e ast.Expr, o *c15Oracle, depth int) c15Tri {
	e = ast.Unparen(e)
	if depth > 12 {
		return c15U
	}
	if tv, ok := w.info.Types[e]; ok && tv.Value != nil {
		if s := tv.Value.String(); s == "true" {
			return c15T
		} else if s == "false" {
			return c15F
		}
	}
	switch x := e.(type) {
	case *ast.BinaryExpr:
		switch x.Op {
		case token.LAND:
			return c15And(w.eval(env, x.X, o, depth+1), w.eval(env, x.Y, o, depth+1))
		case token.LOR:
			return c15Or(w.eval(env, x.X, o, depth+1), w.eval(env, x.Y, o, depth+1))
		case token.EQL, token.NEQ:
			// B == true, B != false ...
			if tv, ok := w.info.Types[x.Y]; ok && tv.Value != nil && (tv.Value.String() == "true" || tv.Value.String() == "false") {
				v := w.eval(env, x.X, o, depth+1)
				if (tv.Value.String() == "true") != (x.Op == token.EQL) {
					v = c15Not(v)
				}
				return v
			}
		}
	case *ast.UnaryExpr:
		if x.Op == token.NOT {
			return c15Not(w.eval(env, x.X, o, depth+1))
		}
	case *ast.Ident:
		ob := objOf(w.info, x)
		env = env.scope(ob)
		if b, ok := env.lookup(ob); ok {
			return w.eval(b.env, b.expr, o, depth+1)
		}
		if d := env.fn.singleDef(ob); d != nil && w.pureExpr(d, 0) {
			return w.eval(env, d, o, depth+1)
		}
	case *ast.CallExpr:
		if f, ce := w.calleeOf(env, x); f != nil {
			if ret := w.predicateExpr(f); ret != nil {
				return w.eval(ce, ret, o, depth+1)
			}
		}
	}
	return o.atom(env, e)
}
