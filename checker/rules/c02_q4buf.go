package rules

import (
	"fmt"
	"go/ast"
	"go/token"
	"go/types"

	"osmcheck/core"
)

// c02BufItem is one holder of a reusable scratch buffer: a local variable / parameter of a function, or a struct field
// (scratch buffers grouped in a struct are tracked per field, package-wide).
type c02BufItem struct {
	o     types.Object // variable, or the field
	fn    *FuncInfo    // function of the variable (nil for a field)
	field bool
}

func c02IsByteSlice(t types.Type) bool {
	if t == nil {
		return false
	}
	sl, ok := t.Underlying().(*types.Slice)
	return ok && types.Identical(sl.Elem(), types.Typ[types.Byte])
}

// c02ScratchBuffers: the reader's fixed-size scratch buffers (`make([]byte, K)` with constant K in the spawner, in the
// reader goroutine or in the functions they call - e.g. a constructor of a struct that groups them) are reused for
// every block, so every use must be one that does not keep a reference: io.ReadFull, binary.BigEndian.Uint32,
// proto.Unmarshal (which copies), len/cap, re-slicing of the holder itself, or passing on to a parameter that is
// tracked the same way.
func c02ScratchBuffers(r *core.R, m *pbfModel) {
	info := m.info
	var work []c02BufItem
	nSources := 0
	source := func(call ast.Expr) bool {
		c, ok := ast.Unparen(call).(*ast.CallExpr)
		if !ok || builtinName(info, c) != "make" || len(c.Args) != 2 || !c02IsByteSlice(info.TypeOf(c.Args[0])) {
			return false
		}
		k, ok := constInt(info, c.Args[1])
		return ok && k > 0
	}
	roots := []*unit{m.byDecl[m.start.Obj]}
	if g := m.goOf("reader"); g != nil {
		roots = append(roots, g.unit)
	}
	for _, root := range roots {
		m.deepWalk(root, func(s *pbfSite, n ast.Node) bool {
			if s.unit().roles["worker"] || s.unit().roles["serializer"] {
				return true
			}
			switch x := n.(type) {
			case *ast.AssignStmt:
				if len(x.Lhs) != len(x.Rhs) {
					return true
				}
				for i, rh := range x.Rhs {
					if !source(rh) {
						continue
					}
					nSources++
					if f := fieldOf(info, x.Lhs[i]); f != nil {
						work = append(work, c02BufItem{o: f, field: true})
					} else if o := objOf(info, x.Lhs[i]); o != nil {
						work = append(work, c02BufItem{o: o, fn: s.unit().fi})
					}
				}
			case *ast.ValueSpec:
				if len(x.Names) == len(x.Values) {
					for i, v := range x.Values {
						if source(v) {
							nSources++
							work = append(work, c02BufItem{o: info.Defs[x.Names[i]], fn: s.unit().fi})
						}
					}
				}
			case *ast.KeyValueExpr:
				if id, ok := x.Key.(*ast.Ident); ok && source(x.Value) {
					if f, ok := info.Uses[id].(*types.Var); ok && f.IsField() {
						nSources++
						work = append(work, c02BufItem{o: f, field: true})
					}
				}
			}
			return true
		})
	}
	if nSources == 0 {
		r.Anchor("reader scratch buffers (make([]byte, K) with a constant length) in the spawner / reader")
	}
	seen := map[types.Object]bool{}
	for len(work) > 0 {
		k := work[len(work)-1]
		work = work[:len(work)-1]
		if k.o == nil || seen[k.o] {
			continue
		}
		seen[k.o] = true
		c := "buf@field " + k.o.Name()
		if !k.field {
			c = "buf@" + k.fn.Name() + " " + k.o.Name()
		}
		bad := ""
		var bpos token.Pos
		nuse := 0
		// classify one use: e is the identifier / selector that denotes the buffer, par the parent map of its file
		use := func(e ast.Node, par map[ast.Node]ast.Node) {
			nuse++
			pos := e.Pos()
			isSelf := func(x ast.Expr) bool {
				if k.field {
					return fieldOf(info, x) == k.o
				}
				return objOf(info, x) == k.o
			}
			// climb through slice expressions of the buffer itself
			for {
				if se, ok := par[e].(*ast.SliceExpr); ok && se.X == e {
					e = se
					continue
				}
				if pe, ok := par[e].(*ast.ParenExpr); ok {
					e = pe
					continue
				}
				break
			}
			switch p := par[e].(type) {
			case *ast.CallExpr:
				if p.Fun == e {
					return
				}
				if bn := builtinName(info, p); bn == "len" || bn == "cap" {
					return
				}
				fn := callee(info, p)
				switch {
				case pbfIsReadCall(info, p), isPkgFunc(fn, "google.golang.org/protobuf/proto", "Unmarshal"):
				case fn != nil && fn.Name() == "Uint32" && fn.Pkg() != nil && fn.Pkg().Path() == "encoding/binary":
				case fn != nil && m.funcs[fn] != nil:
					tf := m.funcs[fn]
					idx := -1
					for i, a := range p.Args {
						if ast.Node(a) == e {
							idx = i
						}
					}
					pi := 0
					for _, fld := range tf.Decl.Type.Params.List {
						for _, nm := range fld.Names {
							if pi == idx {
								work = append(work, c02BufItem{o: info.Defs[nm], fn: tf})
							}
							pi++
						}
					}
				default:
					name := "a function value"
					if fn != nil {
						name = fn.FullName()
					}
					bad, bpos = "passed to "+name+", which may retain it", pos
				}
			case *ast.AssignStmt:
				for i, rh := range p.Rhs {
					if ast.Node(rh) == e {
						// buf = buf[:n] (re-slice of itself) is fine; a plain local alias is tracked like a parameter
						if i < len(p.Lhs) && len(p.Lhs) == len(p.Rhs) {
							if isSelf(p.Lhs[i]) {
								return
							}
							if lo, ok := objOf(info, p.Lhs[i]).(*types.Var); ok && !lo.IsField() {
								if fi := m.funcAt(lo.Pos()); fi != nil {
									work = append(work, c02BufItem{o: lo, fn: fi})
									return
								}
							}
						}
						bad, bpos = "assigned to `"+src(r.P.Fset, p.Lhs[min(i, len(p.Lhs)-1)])+"`", pos
					}
				}
			case *ast.ValueSpec, *ast.Field:
			case *ast.KeyValueExpr:
				if ast.Node(p.Key) == e {
					return // the field being initialised
				}
				bad, bpos = "stored in a composite literal", pos
			default:
				bad, bpos = fmt.Sprintf("used in %T", p), pos
			}
		}
		if k.field {
			for _, u := range m.sortedUnits() {
				par := parentsOf(r.P, u.fi)
				m.walkUnit(u, func(n ast.Node) bool {
					switch x := n.(type) {
					case *ast.SelectorExpr:
						if fieldOf(info, x) == k.o {
							use(x, par)
						}
					case *ast.KeyValueExpr:
						if id, ok := x.Key.(*ast.Ident); ok && info.Uses[id] == k.o {
							nuse++
							if !source(x.Value) {
								bad, bpos = "initialised with `"+src(r.P.Fset, x.Value)+"`, not a fresh make", x.Pos()
							}
						}
					}
					return true
				})
			}
		} else {
			par := parentsOf(r.P, k.fn)
			ast.Inspect(k.fn.Decl, func(n ast.Node) bool {
				if id, ok := n.(*ast.Ident); ok && info.Uses[id] == k.o {
					use(id, par)
				}
				return true
			})
		}
		if bad != "" {
			r.Bad(c, bpos, "scratch buffer %s is %s: it is overwritten by the next block while that reference is still alive, corrupting blocks already dispatched", k.o.Name(), bad)
		} else {
			r.OK(c, k.o.Pos(), "%d uses: only io.ReadFull, binary.BigEndian.Uint32, proto.Unmarshal, len, self re-slice, or passing on to a tracked parameter", nuse)
		}
	}
}
