package rules

import (
	"go/ast"
	"go/types"
	"sort"
)

// Concrete composite values (round 7): a second, literal table of rule structs (e.g. the conditions for
// relations written as a Go composite literal and run through the same helper as the way table) is evaluated
// on its actual contents: slices and structs built by composite literals, their fields, len, index, range, and
// sort.SearchStrings executed the way package sort does on the literal order (so an unsorted literal list
// gives the wrong answers it would give at run time).

// composite evaluates a slice, array or struct composite literal.
func (x *c18Exec) composite(fr *c18Frame, cl *ast.CompositeLit) c18Val {
	t := x.info.TypeOf(cl)
	if t == nil {
		return c18Unk("`%s` has no type", x.src(cl))
	}
	if pt, ok := t.Underlying().(*types.Pointer); ok { // &T{} elided inside []*T{{...}}
		t = pt.Elem()
	}
	switch t.Underlying().(type) {
	case *types.Map:
		return c18Val{k: c18KMap, cl: cl, fr: fr}
	case *types.Struct:
		return c18Val{k: c18KStruct, cl: cl, fr: fr}
	case *types.Slice, *types.Array:
		v := c18Val{k: c18KSlice, elems: []c18Val{}}
		for _, el := range cl.Elts {
			if _, keyed := el.(*ast.KeyValueExpr); keyed {
				return c18Unk("`%s` has indexed elements", x.src(cl))
			}
			v.elems = append(v.elems, x.eval(fr, el))
		}
		return v
	}
	return c18Unk("`%s` is not modelled", x.src(cl))
}

// field evaluates <struct literal>.f: the element keyed (or positioned) for f, or f's zero value.
func (x *c18Exec) field(base c18Val, f *types.Var, at ast.Node) c18Val {
	st, _ := x.info.TypeOf(base.cl).Underlying().(*types.Struct)
	if pt, ok := x.info.TypeOf(base.cl).Underlying().(*types.Pointer); ok {
		st, _ = pt.Elem().Underlying().(*types.Struct)
	}
	if st == nil {
		return c18Unk("`%s` is not a field of a struct literal", x.src(at))
	}
	def := base.fr
	if def == nil {
		def = x.newFrame(nil, nil, 0)
	}
	for i, el := range base.cl.Elts {
		if kv, ok := el.(*ast.KeyValueExpr); ok {
			if id, ok := kv.Key.(*ast.Ident); ok && x.info.Uses[id] == f {
				return x.eval(def, kv.Value)
			}
			continue
		}
		if i < st.NumFields() && st.Field(i) == f {
			return x.eval(def, el)
		}
	}
	return x.zero(f.Type())
}

// pkgLiteral: a package-level slice, array or struct variable whose whole contents are one composite literal and
// that is never assigned, stored into or address-taken anywhere in the package.
func (x *c18Exec) pkgLiteral(o types.Object) (c18Val, bool) {
	pv, ok := o.(*types.Var)
	if !ok || pv.IsField() || pv.Pkg() != x.pk.Types || pv.Parent() != x.pk.Types.Scope() {
		return c18Val{}, false
	}
	switch pv.Type().Underlying().(type) {
	case *types.Slice, *types.Array, *types.Struct:
	default:
		return c18Val{}, false
	}
	init := c18VarInit(x.pk, pv)
	if init == nil {
		return c18Val{}, false
	}
	cl, ok := ast.Unparen(init).(*ast.CompositeLit)
	if !ok {
		return c18Val{}, false
	}
	if w := c18Writes(x.pk, pv, nil); len(w) > 0 {
		return c18Unk("%s is written at %s", pv.Name(), x.r.P.Rel(w[0])), true
	}
	return x.composite(x.newFrame(nil, nil, 0), cl), true
}

// searchConcrete is sort.SearchStrings on a literal list: binary search for the first element >= needle, exactly
// as package sort performs it (on an unsorted list it returns what it returns at run time).
func (x *c18Exec) searchConcrete(list, needle c18Val, call *ast.CallExpr) c18Val {
	if needle.k != c18KStr || (needle.org != c18OConst && needle.org != c18OTag) {
		return c18Unk("`%s`: the needle is not a decided string", x.src(call))
	}
	var strs []string
	for _, e := range list.elems {
		if e.k != c18KStr || e.org != c18OConst {
			return c18Unk("`%s`: the list has an element that is not a constant string", x.src(call))
		}
		strs = append(strs, e.s)
	}
	i := sort.Search(len(strs), func(i int) bool { return strs[i] >= needle.s })
	return c18Val{k: c18KInt, i: int64(i)}
}
