package rules

import "osmcheck/core"

// Round-7 shape: the body writer loops over a helper that concatenates the container's lists and encodes item by
// item. c04Benign4 concatenates exactly the six object lists (silent: an item-wise Encode writes the same elements
// under the same names); c04Mutants4 let the helper also yield the bounds (written a second time, under the Go type
// name) or leave a list out.

const c04InnerTail = "\tif err := e.Encode(o.Nodes); err != nil {\n\t\treturn err\n\t}\n\n\tif err := e.Encode(o.Ways); err != nil {\n\t\treturn err\n\t}\n\n\tif err := e.Encode(o.Relations); err != nil {\n\t\treturn err\n\t}\n\n\tif err := e.Encode(o.Changesets); err != nil {\n\t\treturn err\n\t}\n\n\tif err := e.Encode(o.Notes); err != nil {\n\t\treturn err\n\t}\n\n\treturn e.Encode(o.Users)\n}\n"

func c04InnerByItems(first, notes string) string {
	return "\tfor _, item := range o.xmlItems() {\n\t\tif err := e.Encode(item); err != nil {\n\t\t\treturn err\n\t\t}\n\t}\n\n\treturn nil\n}\n\n// xmlItems lists what the body holds, in document order.\nfunc (o *OSM) xmlItems() []interface{} {\n\tvar items []interface{}\n" + first +
		"\tfor _, n := range o.Nodes {\n\t\titems = append(items, n)\n\t}\n\tfor _, w := range o.Ways {\n\t\titems = append(items, w)\n\t}\n\tfor _, r := range o.Relations {\n\t\titems = append(items, r)\n\t}\n\tfor _, cs := range o.Changesets {\n\t\titems = append(items, cs)\n\t}\n" + notes +
		"\tfor _, u := range o.Users {\n\t\titems = append(items, u)\n\t}\n\treturn items\n}\n"
}

const c04NotesLoop = "\tfor _, n := range o.Notes {\n\t\titems = append(items, n)\n\t}\n"

var c04Benign4 = []core.Mutant{
	{Name: "body-written-item-by-item-from-concatenation", File: "osm.go", Find: c04InnerTail, Replace: c04InnerByItems("", c04NotesLoop)},
}

var c04Mutants4 = []core.Mutant{
	{Name: "item-concatenation-also-yields-bounds", File: "osm.go", Find: c04InnerTail, Replace: c04InnerByItems("\tif o.Bounds != nil {\n\t\titems = append(items, o.Bounds)\n\t}\n", c04NotesLoop), ExpectRule: "X1", ExpectConstruct: "emit OSM.Bounds"},
	{Name: "item-concatenation-forgets-notes", File: "osm.go", Find: c04InnerTail, Replace: c04InnerByItems("", ""), ExpectRule: "X3", ExpectConstruct: "OSM.Notes"},
}
