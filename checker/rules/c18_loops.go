package rules

import (
	"go/ast"
	"go/token"
	"go/types"
	"sort"

	"golang.org/x/tools/go/cfg"
)

// loopsOf finds the loops of fd that visit every entry of the table: `range table` and the canonical
// `for i := 0; i < len(table); i++`.
func (env *c18FlowEnv) loopsOf(fd *ast.FuncDecl, g *cfg.CFG) []*c18Loop {
	info := env.c.info
	byStmt := map[ast.Stmt]*c18Loop{}
	var out []*c18Loop
	get := func(st ast.Stmt) *c18Loop {
		if l, ok := byStmt[st]; ok {
			return l
		}
		l := &c18Loop{stmt: st}
		byStmt[st] = l
		return l
	}
	for _, b := range g.Blocks {
		if !b.Live || b.Stmt == nil {
			continue
		}
		switch st := b.Stmt.(type) {
		case *ast.RangeStmt:
			over := env.slot(fd, st.X)
			if over == nil {
				continue
			}
			l := get(st)
			l.over = over
			switch b.Kind {
			case cfg.KindRangeLoop:
				l.head = b
			case cfg.KindRangeBody:
				l.body = b
			case cfg.KindRangeDone:
				l.done = b
			}
			if st.Key != nil {
				l.key = objOf(info, st.Key)
			}
			if st.Value != nil {
				l.val = objOf(info, st.Value)
			}
		case *ast.ForStmt:
			key, over := env.indexLoop(fd, st)
			if key == nil {
				continue
			}
			l := get(st)
			l.key, l.over = key, over
			switch b.Kind {
			case cfg.KindForLoop:
				l.head = b
			case cfg.KindForBody:
				l.body = b
			case cfg.KindForDone:
				l.done = b
			}
		}
	}
	for _, l := range byStmt {
		if l.head == nil || l.body == nil || l.done == nil {
			continue
		}
		l.in = reachableFrom([]*cfg.Block{l.body}, func(b *cfg.Block) bool { return b == l.head })
		delete(l.in, l.head)
		out = append(out, l)
	}
	sort.Slice(out, func(i, j int) bool { return out[i].stmt.Pos() < out[j].stmt.Pos() })
	return out
}

// indexLoop recognises `for i := 0; i < len(table); i++` with i untouched in the body and returns i.
func (env *c18FlowEnv) indexLoop(fd *ast.FuncDecl, fs *ast.ForStmt) (types.Object, types.Object) {
	info := env.c.info
	init, ok := fs.Init.(*ast.AssignStmt)
	if !ok || len(init.Lhs) != 1 || len(init.Rhs) != 1 || fs.Cond == nil {
		return nil, nil
	}
	key := objOf(info, init.Lhs[0])
	if v, ok := constInt(info, init.Rhs[0]); !ok || v != 0 || key == nil {
		return nil, nil
	}
	l, op, r, ok := cmpNorm(fs.Cond)
	if !ok || (op != token.LSS && op != token.NEQ) || objOf(info, ast.Unparen(l)) != key {
		return nil, nil
	}
	call, ok := ast.Unparen(r).(*ast.CallExpr)
	if !ok || builtinName(info, call) != "len" || len(call.Args) != 1 || env.slot(fd, call.Args[0]) == nil {
		return nil, nil
	}
	post, ok := fs.Post.(*ast.IncDecStmt)
	if !ok || post.Tok != token.INC || objOf(info, post.X) != key {
		return nil, nil
	}
	touched := false
	ast.Inspect(fs.Body, func(n ast.Node) bool {
		switch s := n.(type) {
		case *ast.AssignStmt:
			for _, l := range s.Lhs {
				if objOf(info, l) == key {
					touched = true
				}
			}
		case *ast.IncDecStmt:
			if objOf(info, s.X) == key {
				touched = true
			}
		case *ast.UnaryExpr:
			if s.Op == token.AND && objOf(info, s.X) == key {
				touched = true
			}
		}
		return true
	})
	if touched {
		return nil, nil
	}
	return key, env.slot(fd, call.Args[0])
}
