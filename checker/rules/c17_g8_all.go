package rules

import (
	"go/ast"
	"go/token"
	"go/types"

	"golang.org/x/tools/go/cfg"
)

// Pass-level facts of C17.G8 (see c17_g8_fill.go) and the covering argument for the skippable set.

// c17G8Pass is a place that records the nodes of all ways of the input: a loop over the input's ways or a call of a
// function that does it on every path. partial: the loop leaves out exactly the ways found in the skippable set (whose
// nodes must then have been recorded when the way was made skippable, see skipStoresCovered).
type c17G8Pass struct {
	fn      *c17Fn
	node    ast.Node
	partial bool
	why     string // for a loop over the ways that is NOT a pass: what is missing (diagnostic)
}

// isInputWays: e is the Ways field of an osm.OSM value.
func (g *c17G8An) isInputWays(e ast.Expr) bool {
	f := c17FieldOf(g.a.info, stripDerefParen(e))
	return f != nil && f.Name() == "Ways" && c17FieldOwner(g.a.p, f) == "OSM"
}

// elemOf returns the variables denoting the element of the current iteration of a range over ways.
func (g *c17G8An) elemsOf(fn *c17Fn, loop *ast.RangeStmt) []types.Object {
	info := g.a.info
	var out []types.Object
	if loop.Value != nil {
		if o := objOf(info, loop.Value); o != nil {
			out = append(out, o)
		}
	}
	if loop.Key != nil {
		ko := objOf(info, loop.Key)
		ast.Inspect(loop.Body, func(n ast.Node) bool {
			as, ok := n.(*ast.AssignStmt)
			if !ok || len(as.Lhs) != len(as.Rhs) {
				return true
			}
			for i, rhs := range as.Rhs {
				if ix, ok := stripDerefParen(rhs).(*ast.IndexExpr); ok && ko != nil && objOf(info, ix.Index) == ko && sameChain(info, stripDerefParen(ix.X), stripDerefParen(loop.X)) {
					if o := objOf(info, as.Lhs[i]); o != nil && g.a.singleInit(fn, o) != nil {
						out = append(out, o)
					}
				}
			}
			return true
		})
	}
	return out
}

// passes lists the passes of fn, and for loops over ways that fall short, why.
func (g *c17G8An) passes(fn *c17Fn) []c17G8Pass {
	info := g.a.info
	var out []c17G8Pass
	ast.Inspect(fn.Decl.Body, func(n ast.Node) bool {
		switch x := n.(type) {
		case *ast.FuncLit:
			return false
		case *ast.RangeStmt:
			if c17ElementKinds[namedPath(info.TypeOf(x.X))] != "ways" {
				return true
			}
			// the way of the iteration: the loop variable, a local taken from ways[i], or ways[i] itself
			elems := g.elemsOf(fn, x)
			isElem := func(e ast.Expr) bool {
				e = stripDerefParen(g.a.resolveAlias(fn, e))
				switch y := e.(type) {
				case *ast.Ident:
					for _, el := range elems {
						if objOf(info, y) == el {
							return true
						}
					}
				case *ast.IndexExpr:
					return x.Key != nil && objOf(info, y.Index) != nil && objOf(info, y.Index) == objOf(info, x.Key) && sameChain(info, stripDerefParen(y.X), stripDerefParen(x.X))
				}
				return false
			}
			var evs []ast.Node
			for _, ev := range g.wayEvents(fn, isElem) {
				if g.innermostLoop(fn, ev) == ast.Node(x) {
					evs = append(evs, ev)
				}
			}
			if len(evs) == 0 {
				return true
			}
			p := c17G8Pass{fn: fn, node: x}
			if !g.isInputWays(g.a.resolve(fn, stripDerefParen(x.X))) {
				p.why = "it ranges over `" + src(g.a.fset, x.X) + "`, which is not the Ways of the input"
				out = append(out, p)
				return true
			}
			why := ""
			for _, ev := range evs {
				why = fn.everyIteration(x, g.eventBlocks(fn, ev), nil)
				if why == "" {
					break
				}
				// iterations that only leave out ways found in the skippable set
				if fn.everyIteration(x, g.eventBlocks(fn, ev), g.skipPrune(fn, x)) == "" {
					p.partial, why = true, ""
					break
				}
			}
			p.why = why
			out = append(out, p)
		case *ast.CallExpr:
			if h := g.a.fns[callee(info, x)]; h != nil && g.fillsAll(h) != nil {
				p := c17G8Pass{fn: fn, node: x, partial: g.fillsAll(h).partial}
				out = append(out, p)
			}
		}
		return true
	})
	return out
}

// fillsAll: every path of h reaches one of its passes (returns that pass, nil otherwise).
func (g *c17G8An) fillsAll(h *c17Fn) *c17G8Pass {
	key := "all|" + h.Name()
	switch g.memo[key] {
	case 2, -1:
		return nil
	}
	if p, ok := g.allMemo[h]; ok {
		return p
	}
	g.memo[key] = 2
	var res *c17G8Pass
	for _, p := range g.passes(h) {
		p := p
		if p.why == "" && h.everyPath(g.eventBlocks(h, p.node)) {
			res = &p
			break
		}
	}
	g.memo[key] = map[bool]int{true: 1, false: -1}[res != nil]
	g.allMemo[h] = res
	return res
}

// skipPrune: successors to follow inside the ways loop when the way of the iteration is NOT in the skippable set (the
// edge taken by skippable ways is cut).
func (g *c17G8An) skipPrune(fn *c17Fn, loop *ast.RangeStmt) func(*cfg.Block) []*cfg.Block {
	elems := map[types.Object]bool{}
	for _, o := range g.elemsOf(fn, loop) {
		elems[o] = true
	}
	return func(b *cfg.Block) []*cfg.Block {
		if len(b.Succs) != 2 || g.o.skip == nil {
			return b.Succs
		}
		c := fn.cond(b)
		if c == nil {
			return b.Succs
		}
		// only a condition that is the membership test itself (possibly negated or named by a local / helper)
		core := ast.Unparen(c)
		for {
			if ue, ok := core.(*ast.UnaryExpr); ok && ue.Op == token.NOT {
				core = ast.Unparen(ue.X)
				continue
			}
			break
		}
		if be, ok := core.(*ast.BinaryExpr); ok && (be.Op == token.LAND || be.Op == token.LOR) {
			return b.Succs
		}
		var facts []guardFact
		fn.split(c, true, b, &facts, 0)
		for _, ft := range facts {
			key, pol := g.g5.skipTest(fn, ft.expr, 0)
			if key == nil || pol == 0 || !g.g5.keyIsElemID(fn, key, elems) {
				continue
			}
			if (pol > 0) == ft.val { // the true edge is taken by ways in the set
				return b.Succs[1:]
			}
			return b.Succs[:1]
		}
		return b.Succs
	}
}
