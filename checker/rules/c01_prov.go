package rules

import (
	"fmt"
	"go/ast"
	"go/constant"
	"go/token"
	"go/types"
	"sort"
	"strings"

	"osmcheck/core"
)

// C01.R4/R5 — provenance of element fields: every store into a field of osm.Node/Way/Relation/WayNode/Member/Tag
// inside the decoder is traced back (syntactic def-use within the function, through bound parameters and string-table
// lookups) to the format columns / scalar fields, block-parameter getters and unit constants it is computed from.

type c01Atoms struct {
	set   map[string]bool
	delta map[string]bool // column atom -> reached through a running sum
	plain map[string]bool // column atom -> reached without a running sum
}

func newAtoms() *c01Atoms {
	return &c01Atoms{set: map[string]bool{}, delta: map[string]bool{}, plain: map[string]bool{}}
}

func (a *c01Atoms) list() []string {
	var out []string
	for k := range a.set {
		out = append(out, k)
	}
	sort.Strings(out)
	return out
}

type c01Tracer struct {
	cm      *c01Model
	info    *types.Info
	pbField *types.Var
}

// column atom name for an iterator field
func (t *c01Tracer) colAtom(f *types.Var) string {
	col, why := t.cm.iterColumn(f)
	if col == nil {
		return "col:?" + why
	}
	msgs := map[string]bool{}
	for _, s := range t.cm.iters[f].sources {
		msgs[s.msg] = true
	}
	var ms []string
	for m := range msgs {
		ms = append(ms, m)
	}
	sort.Strings(ms)
	return "col:" + strings.Join(ms, "|") + "." + col.Name
}

func (t *c01Tracer) trace(fi *FuncInfo, e ast.Expr, delta bool, out *c01Atoms, seen map[string]bool, depth int) {
	if e == nil || depth > 12 {
		return
	}
	info := t.info
	e = ast.Unparen(e)
	// constants
	if tv, ok := info.Types[e]; ok && tv.Value != nil {
		if sel, isSel := e.(*ast.SelectorExpr); isSel {
			if c, isConst := info.Uses[sel.Sel].(*types.Const); isConst && c.Pkg() != nil {
				out.set["const:"+c.Pkg().Name()+"."+c.Name()] = true
				return
			}
		}
		if tv.Value.Kind() == constant.Float || tv.Value.Kind() == constant.Int {
			out.set["const:"+tv.Value.String()] = true
		}
		return
	}
	switch x := e.(type) {
	case *ast.Ident:
		o := objOf(info, x)
		if o == nil {
			return
		}
		key := fmt.Sprintf("%p/%v", o, delta)
		if seen[key] {
			return
		}
		seen[key] = true
		// parameter?
		if idx := c01ParamIndex(info, fi, o); idx >= 0 {
			if f := t.cm.paramIter[o]; f != nil {
				return // iterator parameters are resolved at their reads
			}
			// trace the argument at every call site
			for _, u := range t.cm.m.sortedUnits() {
				ufi := u.fi
				t.cm.m.walkUnit(u, func(n ast.Node) bool {
					if call, ok := n.(*ast.CallExpr); ok && callee(info, call) == fi.Obj && idx < len(call.Args) {
						t.trace(ufi, call.Args[idx], delta, out, seen, depth+1)
					}
					return true
				})
			}
			return
		}
		// local: all assignments in fi
		ast.Inspect(fi.Decl.Body, func(n ast.Node) bool {
			switch s := n.(type) {
			case *ast.AssignStmt:
				for i, l := range s.Lhs {
					id, ok := ast.Unparen(l).(*ast.Ident)
					if !ok || objOf(info, id) != o {
						continue
					}
					var rhs ast.Expr
					if len(s.Rhs) == len(s.Lhs) {
						rhs = s.Rhs[i]
					} else if len(s.Rhs) == 1 {
						rhs = s.Rhs[0]
					}
					switch s.Tok {
					case token.ADD_ASSIGN, token.SUB_ASSIGN:
						t.trace(fi, rhs, true, out, seen, depth+1)
					case token.ASSIGN, token.DEFINE:
						// v = v + E  /  v = E + v  is a running sum
						if be, ok := ast.Unparen(rhs).(*ast.BinaryExpr); ok && be.Op == token.ADD && (objOf(info, be.X) == o || objOf(info, be.Y) == o) {
							other := be.Y
							if objOf(info, be.Y) == o {
								other = be.X
							}
							t.trace(fi, other, true, out, seen, depth+1)
						} else {
							t.trace(fi, rhs, delta, out, seen, depth+1)
						}
					default:
						out.set["op:"+s.Tok.String()] = true
						t.trace(fi, rhs, delta, out, seen, depth+1)
					}
				}
			case *ast.RangeStmt:
				if (s.Key != nil && objOf(info, s.Key) == o) || (s.Value != nil && objOf(info, s.Value) == o) {
					out.set["range:"+types.ExprString(s.X)] = true
				}
			}
			return true
		})
	case *ast.BinaryExpr:
		t.trace(fi, x.X, delta, out, seen, depth+1)
		t.trace(fi, x.Y, delta, out, seen, depth+1)
	case *ast.UnaryExpr:
		t.trace(fi, x.X, delta, out, seen, depth+1)
	case *ast.StarExpr:
		t.trace(fi, x.X, delta, out, seen, depth+1)
	case *ast.IndexExpr:
		// st[i]
		sub := newAtoms()
		t.trace(fi, x.X, false, sub, map[string]bool{}, depth+1)
		if sub.set["get:S"] {
			out.set["st"] = true
		} else {
			for k := range sub.set {
				out.set[k] = true
			}
		}
		t.trace(fi, x.Index, delta, out, seen, depth+1)
	case *ast.SelectorExpr:
		if f := fieldOf(info, x); f != nil {
			out.set["field:"+f.Name()] = true
		}
	case *ast.CallExpr:
		// conversion
		if tv, ok := info.Types[x.Fun]; ok && tv.IsType() && len(x.Args) == 1 {
			t.trace(fi, x.Args[0], delta, out, seen, depth+1)
			return
		}
		fn := callee(info, x)
		sel, _ := x.Fun.(*ast.SelectorExpr)
		if fn == nil {
			out.set["call:?"] = true
			return
		}
		recvT := ""
		if sel != nil {
			recvT = namedPath(info.TypeOf(sel.X))
		}
		switch {
		case recvT == protoscanIter:
			f := t.cm.iterField(sel.X)
			if f == nil {
				out.set["col:?unbound iterator "+types.ExprString(sel.X)] = true
				return
			}
			a := t.colAtom(f)
			out.set[a] = true
			if delta {
				out.delta[a] = true
			} else {
				out.plain[a] = true
			}
		case recvT == protoscanMsg:
			mvo := rootObj(info, sel.X)
			mv := t.cm.byObj[mvo]
			if mv == nil {
				out.set["fld:?"] = true
				return
			}
			n := t.cm.enclosingCase(fi, x, mvo)
			fd := t.cm.desc.Messages[mv.msg].Fields[n]
			a := fmt.Sprintf("fld:%s.#%d", mv.msg, n)
			if fd != nil {
				a = "fld:" + mv.msg + "." + fd.Name
			}
			out.set[a] = true
			if delta {
				out.delta[a] = true
			} else {
				out.plain[a] = true
			}
		case strings.HasPrefix(fn.Name(), "Get") && fn.Pkg() != nil && strings.HasSuffix(fn.Pkg().Path(), "/osmpbf/internal/osmpbf"):
			out.set["get:"+strings.TrimPrefix(fn.Name(), "Get")] = true
		case fn.Pkg() == t.cm.m.pk.Types:
			// in-package helper: string-table lookup `return p0[p1], nil`
			tf := findFunc(t.cm.m.pk, funcName(fn))
			if tf != nil && c01IsLookup(info, tf) && len(x.Args) == 2 {
				sub := newAtoms()
				t.trace(fi, x.Args[0], false, sub, map[string]bool{}, depth+1)
				if sub.set["get:S"] {
					out.set["st"] = true
				} else {
					out.set["lookup:?"] = true
				}
				t.trace(fi, x.Args[1], delta, out, seen, depth+1)
				return
			}
			out.set["call:"+fn.Name()] = true
			for _, a := range x.Args {
				t.trace(fi, a, delta, out, seen, depth+1)
			}
		default:
			if fn.Pkg() != nil && fn.Pkg().Path() == "time" {
				out.set["time."+fn.Name()] = true
			}
			if sel != nil {
				if _, isPkg := info.Uses[identOf(sel.X)].(*types.PkgName); !isPkg {
					t.trace(fi, sel.X, delta, out, seen, depth+1)
				}
			}
			for _, a := range x.Args {
				t.trace(fi, a, delta, out, seen, depth+1)
			}
		}
	}
}

func c01ParamIndex(info *types.Info, fi *FuncInfo, o types.Object) int {
	pi := 0
	for _, fld := range fi.Decl.Type.Params.List {
		for _, nm := range fld.Names {
			if info.Defs[nm] == o {
				return pi
			}
			pi++
		}
	}
	return -1
}

// c01IsLookup: func(p0 []string, p1 int...) (string, error) with a return of p0[p1].
func c01IsLookup(info *types.Info, fi *FuncInfo) bool {
	p0, p1 := c01Param(info, fi, 0), c01Param(info, fi, 1)
	if p0 == nil || p1 == nil {
		return false
	}
	ok := false
	ast.Inspect(fi.Decl.Body, func(n ast.Node) bool {
		if ret, isRet := n.(*ast.ReturnStmt); isRet && len(ret.Results) >= 1 {
			if ix, isIx := ast.Unparen(ret.Results[0]).(*ast.IndexExpr); isIx && objOf(info, ix.X) == p0 && objOf(info, stripConv(info, ix.Index)) == p1 {
				ok = true
			}
		}
		return true
	})
	return ok
}

// c01Spec is what the format prescribes for one destination field.
type c01Spec struct {
	cols   []string // acceptable source columns "Msg.name" (any one)
	extras []string // atoms that must also be present
}

func c01DestTable() map[string][]c01Spec {
	coord := func(col, off string) c01Spec {
		return c01Spec{cols: []string{col}, extras: []string{"get:" + off, "get:Granularity", "const:1e-09"}}
	}
	ts := func(col string) c01Spec {
		return c01Spec{cols: []string{col}, extras: []string{"get:DateGranularity", "const:time.Millisecond"}}
	}
	one := func(col string, extras ...string) []c01Spec { return []c01Spec{{cols: []string{col}, extras: extras}} }
	return map[string][]c01Spec{
		"Node.ID": one("DenseNodes.id"), "Node.Version": one("DenseInfo.version"), "Node.Timestamp": {ts("DenseInfo.timestamp")},
		"Node.ChangesetID": one("DenseInfo.changeset"), "Node.UserID": one("DenseInfo.uid"), "Node.User": one("DenseInfo.user_sid", "st"),
		"Node.Visible": one("DenseInfo.visible"), "Node.Lat": {coord("DenseNodes.lat", "LatOffset")}, "Node.Lon": {coord("DenseNodes.lon", "LonOffset")},
		"Tag.Key":   {{cols: []string{"DenseNodes.keys_vals"}, extras: []string{"st"}}, {cols: []string{"Relation|Way.keys"}, extras: []string{"st"}}},
		"Tag.Value": {{cols: []string{"DenseNodes.keys_vals"}, extras: []string{"st"}}, {cols: []string{"Relation|Way.vals"}, extras: []string{"st"}}},
		"Way.ID":    one("Way.id"), "Way.Version": one("Info.version"), "Way.Timestamp": {ts("Info.timestamp")}, "Way.ChangesetID": one("Info.changeset"),
		"Way.UserID": one("Info.uid"), "Way.User": one("Info.user_sid", "st"), "Way.Visible": one("Info.visible"),
		"WayNode.ID": one("Way.refs"), "WayNode.Lat": {coord("Way.lat", "LatOffset")}, "WayNode.Lon": {coord("Way.lon", "LonOffset")},
		"Relation.ID": one("Relation.id"), "Relation.Version": one("Info.version"), "Relation.Timestamp": {ts("Info.timestamp")}, "Relation.ChangesetID": one("Info.changeset"),
		"Relation.UserID": one("Info.uid"), "Relation.User": one("Info.user_sid", "st"), "Relation.Visible": one("Info.visible"),
		"Member.Role": one("Relation.roles_sid", "st"), "Member.Ref": one("Relation.memids"),
	}
}

func c01R4(r *core.R) {
	cm := c01ModelOrAnchor(r)
	if cm == nil {
		return
	}
	m := cm.m
	info := m.info
	fs := r.P.Fset
	t := &c01Tracer{cm: cm, info: info}
	table := c01DestTable()
	matched := map[string]map[int]bool{}
	elemTypes := map[string]bool{}
	for _, k := range []string{"Node", "Way", "Relation", "WayNode", "Member", "Tag"} {
		elemTypes[core.ModulePath+"."+k] = true
	}
	// descriptor lookup for delta flags
	isDelta := func(atom string) (bool, bool) {
		// atom: col:Msg1|Msg2.name or fld:Msg.name
		body := atom[strings.Index(atom, ":")+1:]
		dot := strings.LastIndex(body, ".")
		if dot < 0 {
			return false, false
		}
		name := body[dot+1:]
		for _, mn := range strings.Split(body[:dot], "|") {
			if dm := cm.desc.Messages[mn]; dm != nil {
				for _, f := range dm.Fields {
					if f.Name == name {
						return f.Delta, true
					}
				}
			}
		}
		return false, false
	}
	check := func(fi *FuncInfo, dest string, rhs ast.Expr, storeDelta bool, pos token.Pos, what string) {
		specs, known := table[dest]
		if !known {
			return
		}
		c := "store@" + fi.Name() + " " + dest
		atoms := newAtoms()
		t.trace(fi, rhs, storeDelta, atoms, map[string]bool{}, 0)
		var cols []string
		for _, a := range atoms.list() {
			if strings.HasPrefix(a, "col:") || strings.HasPrefix(a, "fld:") {
				cols = append(cols, a[4:])
			}
		}
		// which spec?
		si := -1
		for i, sp := range specs {
			for _, c0 := range sp.cols {
				for _, got := range cols {
					if got == c0 {
						si = i
					}
				}
			}
		}
		if si < 0 || len(cols) != 1 {
			var want []string
			for _, sp := range specs {
				want = append(want, sp.cols...)
			}
			r.Bad(c, pos, "`%s`: %s is computed from column(s) %v; the format defines it by %s: the field carries another column's values (e.g. lat/lon, uid/user_sid, key/value confused)", what, dest, cols, strings.Join(want, " or "))
			return
		}
		if matched[dest] == nil {
			matched[dest] = map[int]bool{}
		}
		matched[dest][si] = true
		var missing []string
		for _, ex := range specs[si].extras {
			if !atoms.set[ex] {
				missing = append(missing, ex)
			}
		}
		// forbidden: getters of the sibling coordinate
		var extra []string
		for _, a := range atoms.list() {
			if strings.HasPrefix(a, "get:") {
				okx := false
				for _, ex := range specs[si].extras {
					if ex == a {
						okx = true
					}
				}
				if !okx && a != "get:S" && a != "get:Stringtable" {
					extra = append(extra, a)
				}
			}
		}
		if len(missing) > 0 || len(extra) > 0 {
			r.Bad(c, pos, "`%s`: %s must be computed from %s with %v; missing %v, unexpected %v: the value is scaled/offset/looked up differently from what the format defines", what, dest, cols[0], specs[si].extras, missing, extra)
			return
		}
		// R5 delta coding
		a := "col:" + cols[0]
		if !atoms.set[a] {
			a = "fld:" + cols[0]
		}
		wantDelta, found := isDelta(a)
		if !found {
			r.Unknown(c, pos, "column %s not found in the descriptor", cols[0])
			return
		}
		gotDelta, gotPlain := atoms.delta[a], atoms.plain[a]
		switch {
		case wantDelta && (!gotDelta || gotPlain):
			r.Bad(c, pos, "`%s`: %s is DELTA coded in the format, so the element value is the running sum of the column; here the raw read reaches the field without accumulation: every element after the first gets a wrong value", what, cols[0])
		case !wantDelta && gotDelta:
			r.Bad(c, pos, "`%s`: %s is not delta coded in the format but is accumulated across elements here", what, cols[0])
		default:
			dc := "plain"
			if wantDelta {
				dc = "running sum (DELTA coded)"
			}
			r.OK(c, pos, "from %s, %s, with %v", cols[0], dc, specs[si].extras)
		}
	}
	for _, u := range m.sortedUnits() {
		fd, ok := u.node.(*ast.FuncDecl)
		if !ok || !u.roles["worker"] || isGenerated(r.P, fd.Pos()) {
			continue
		}
		fi := u.fi
		ast.Inspect(fd.Body, func(n ast.Node) bool {
			switch s := n.(type) {
			case *ast.AssignStmt:
				for i, l := range s.Lhs {
					sel, ok := ast.Unparen(l).(*ast.SelectorExpr)
					if !ok {
						continue
					}
					f := fieldOf(info, sel)
					if f == nil {
						continue
					}
					tn := namedPath(info.TypeOf(sel.X))
					if !elemTypes[tn] {
						continue
					}
					dest := tn[strings.LastIndex(tn, ".")+1:] + "." + f.Name()
					var rhs ast.Expr
					if len(s.Rhs) == len(s.Lhs) {
						rhs = s.Rhs[i]
					} else if len(s.Rhs) == 1 {
						rhs = s.Rhs[0]
					}
					if dest == "Member.Type" {
						c01MemberType(r, cm, t, fi, s, rhs)
						continue
					}
					check(fi, dest, rhs, s.Tok == token.ADD_ASSIGN || s.Tok == token.SUB_ASSIGN, s.Pos(), src(fs, s))
				}
			case *ast.CompositeLit:
				tn := namedPath(info.TypeOf(s))
				if tn != core.ModulePath+".Tag" {
					return true
				}
				for _, e := range s.Elts {
					if kv, ok := e.(*ast.KeyValueExpr); ok {
						check(fi, "Tag."+kv.Key.(*ast.Ident).Name, kv.Value, false, kv.Pos(), src(fs, s))
					}
				}
			}
			return true
		})
	}
	// coverage: every destination/spec of the table is produced somewhere
	var dests []string
	for d := range table {
		dests = append(dests, d)
	}
	sort.Strings(dests)
	for _, d := range dests {
		for i, sp := range table[d] {
			if !matched[d][i] {
				r.Bad("coverage@"+d+" "+strings.Join(sp.cols, "/"), token.NoPos, "no store computes %s from %s: that part of every element is never decoded", d, strings.Join(sp.cols, "/"))
			}
		}
	}
	// dense keys_vals pair order: within the tag loop the read feeding Key precedes the read feeding Value, and the
	// zero test that ends a node's tags is applied to the key read
	c01KeyValOrder(r, cm)
}

// c01MemberType: members[i].Type = osm.TypeX under case osmpbf.Relation_X of a switch whose tag derives from the types column.
func c01MemberType(r *core.R, cm *c01Model, t *c01Tracer, fi *FuncInfo, as *ast.AssignStmt, rhs ast.Expr) {
	par := parentsOf(r.P, fi)
	var cc *ast.CaseClause
	var sw *ast.SwitchStmt
	for p := par[as]; p != nil; p = par[p] {
		if c, ok := p.(*ast.CaseClause); ok && cc == nil {
			cc = c
		}
		if s, ok := p.(*ast.SwitchStmt); ok && sw == nil {
			sw = s
		}
	}
	name := "?"
	if sel, ok := ast.Unparen(rhs).(*ast.SelectorExpr); ok {
		name = sel.Sel.Name
	}
	c := "store@" + fi.Name() + " Member.Type " + name
	if cc == nil || sw == nil || sw.Tag == nil || len(cc.List) != 1 {
		r.Unknown(c, as.Pos(), "member type is not assigned under a single-valued case of a switch")
		return
	}
	atoms := newAtoms()
	t.trace(fi, sw.Tag, false, atoms, map[string]bool{}, 0)
	if !atoms.set["col:Relation.types"] {
		r.Bad(c, as.Pos(), "the switch deciding the member type is on %v, not on the relation's types column", atoms.list())
		return
	}
	caseName := ""
	if sel, ok := ast.Unparen(cc.List[0]).(*ast.SelectorExpr); ok {
		caseName = sel.Sel.Name
	}
	want := map[string]string{"Relation_NODE": "TypeNode", "Relation_WAY": "TypeWay", "Relation_RELATION": "TypeRelation"}
	if want[caseName] == name && name != "?" {
		r.OK(c, as.Pos(), "MemberType %s ↦ osm.%s, switch on the types column", strings.TrimPrefix(caseName, "Relation_"), name)
	} else {
		r.Bad(c, as.Pos(), "member type %s of the format is mapped to osm.%s", strings.TrimPrefix(caseName, "Relation_"), name)
	}
}

// c01KeyValOrder checks the dense keys_vals loop: `k := read; if k == 0 {break}; v := read; Tag{Key: st[k], Value: st[v]}`.
func c01KeyValOrder(r *core.R, cm *c01Model) {
	m := cm.m
	info := m.info
	// the function and iterator field for DenseNodes.keys_vals
	for f, it := range cm.iters {
		col, _ := cm.iterColumn(f)
		if col == nil || col.Name != "keys_vals" {
			continue
		}
		_ = it
		for _, u := range m.sortedUnits() {
			fd, ok := u.node.(*ast.FuncDecl)
			if !ok || !u.roles["worker"] {
				continue
			}
			// find a for loop whose body reads the iterator twice
			ast.Inspect(fd.Body, func(n ast.Node) bool {
				loop, ok := n.(*ast.ForStmt)
				if !ok || loop.Cond != nil {
					return true
				}
				var reads []*ast.AssignStmt
				for _, st := range loop.Body.List {
					if as, ok := st.(*ast.AssignStmt); ok && len(as.Rhs) == 1 {
						if call, ok := as.Rhs[0].(*ast.CallExpr); ok {
							if sel, ok := call.Fun.(*ast.SelectorExpr); ok && fieldOf(info, sel.X) == f {
								reads = append(reads, as)
							}
						}
					}
				}
				if len(reads) != 2 {
					return true
				}
				c := "pair-order@" + u.fi.Name() + " keys_vals"
				kObj, vObj := objOf(info, reads[0].Lhs[0]), objOf(info, reads[1].Lhs[0])
				// zero test on the first read, between the reads, leaving the loop
				zeroOK := false
				for _, st := range loop.Body.List {
					ifs, ok := st.(*ast.IfStmt)
					if !ok || ifs.Pos() < reads[0].End() || ifs.Pos() > reads[1].Pos() {
						continue
					}
					if be, ok := ast.Unparen(ifs.Cond).(*ast.BinaryExpr); ok && be.Op == token.EQL && objOf(info, be.X) == kObj {
						if v, okc := constInt(info, be.Y); okc && v == 0 && len(ifs.Body.List) == 1 {
							if br, ok := ifs.Body.List[0].(*ast.BranchStmt); ok && br.Tok == token.BREAK {
								zeroOK = true
							}
						}
					}
				}
				// the Tag literal uses the first read for Key and the second for Value
				keyFrom, valFrom := types.Object(nil), types.Object(nil)
				tr := &c01Tracer{cm: cm, info: info}
				ast.Inspect(loop.Body, func(x ast.Node) bool {
					cl, ok := x.(*ast.CompositeLit)
					if !ok || namedPath(info.TypeOf(cl)) != core.ModulePath+".Tag" {
						return true
					}
					for _, e := range cl.Elts {
						kv, ok := e.(*ast.KeyValueExpr)
						if !ok {
							continue
						}
						// which of the two read variables does the value derive from?
						uses := func(o types.Object) bool {
							found := false
							var walk func(e ast.Expr, depth int)
							seen := map[types.Object]bool{}
							walk = func(e ast.Expr, depth int) {
								if depth > 6 || found {
									return
								}
								ast.Inspect(e, func(y ast.Node) bool {
									id, ok := y.(*ast.Ident)
									if !ok {
										return true
									}
									ob := objOf(info, id)
									if ob == o {
										found = true
										return false
									}
									if ob != nil && !seen[ob] {
										seen[ob] = true
										ast.Inspect(loop.Body, func(z ast.Node) bool {
											if as, ok := z.(*ast.AssignStmt); ok && len(as.Rhs) == 1 {
												for _, l := range as.Lhs {
													if objOf(info, l) == ob {
														walk(as.Rhs[0], depth+1)
													}
												}
											}
											return true
										})
									}
									return true
								})
							}
							walk(kv.Value, 0)
							return found
						}
						_ = tr
						switch kv.Key.(*ast.Ident).Name {
						case "Key":
							if uses(kObj) && !uses(vObj) {
								keyFrom = kObj
							} else if uses(vObj) {
								keyFrom = vObj
							}
						case "Value":
							if uses(vObj) && !uses(kObj) {
								valFrom = vObj
							} else if uses(kObj) {
								valFrom = kObj
							}
						}
					}
					return true
				})
				switch {
				case !zeroOK:
					r.Bad(c, loop.Pos(), "the 0 delimiter that ends a node's tags is not tested on the first (key) read of each pair: keys and values go out of step or the next node's tags are swallowed")
				case keyFrom != kObj || valFrom != vObj:
					r.Bad(c, loop.Pos(), "in each keys_vals pair the first read is the key and the second the value; the tag literal uses them the other way round or twice")
				default:
					r.OK(c, loop.Pos(), "first read → key (0 ends the node's tags), second read → value")
				}
				return true
			})
		}
	}
}
