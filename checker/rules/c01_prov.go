package rules

import (
	"fmt"
	"go/ast"
	"go/constant"
	"go/token"
	"go/types"
	"math/big"
	"sort"
	"strings"

	"golang.org/x/tools/go/cfg"

	"osmcheck/core"
)

// C01.R4/R5 — provenance of element fields: every store into a field of osm.Node/Way/Relation/WayNode/Member/Tag
// inside the decoder is traced back (def-use within the function, context-sensitively through calls of functions of
// the package in both directions: parameters to the arguments of the call being traced, results to the returned
// expressions) to the format columns / scalar fields, block-parameter getters and unit constants it is computed from.
// Names of locals, helpers and constants play no role: constants are compared by value, columns by the descriptor.

type c01Atoms struct {
	set   map[string]bool
	delta map[string]bool // column atom -> reached through a running sum
	plain map[string]bool // column atom -> reached without a running sum
}

func newAtoms() *c01Atoms {
	return &c01Atoms{set: map[string]bool{}, delta: map[string]bool{}, plain: map[string]bool{}}
}

func (a *c01Atoms) list() []string {
	var out []string
	for k := range a.set {
		out = append(out, k)
	}
	sort.Strings(out)
	return out
}

type c01Tracer struct {
	cm   *c01Model
	info *types.Info
}

// c01Ctx is the calling context of a trace: fi is the function whose body is being read, call the call through which
// the trace entered it (nil for the function the traced store is in, or for a caller reached through a parameter).
type c01Ctx struct {
	fi   *FuncInfo
	call *ast.CallExpr
	up   *c01Ctx
}

// column atom name for an iterator field
func (t *c01Tracer) colAtom(f *types.Var) string {
	col, why := t.cm.iterColumn(f)
	if col == nil {
		return "col:?" + why
	}
	msgs := map[string]bool{}
	for _, s := range t.cm.iters[f].sources {
		msgs[s.msg] = true
	}
	var ms []string
	for m := range msgs {
		ms = append(ms, m)
	}
	sort.Strings(ms)
	return "col:" + strings.Join(ms, "|") + "." + col.Name
}

func (t *c01Tracer) mark(out *c01Atoms, a string, delta bool) {
	out.set[a] = true
	if delta {
		out.delta[a] = true
	} else {
		out.plain[a] = true
	}
}

// trace collects the atoms expression e (evaluated in context ctx) is computed from. resIdx selects the result
// when e is a call yielding a tuple.
func (t *c01Tracer) trace(ctx *c01Ctx, e ast.Expr, resIdx int, delta bool, out *c01Atoms, seen map[string]bool, depth int) {
	if e == nil || depth > 14 {
		return
	}
	info := t.info
	fi := ctx.fi
	e = ast.Unparen(e)
	// constants, by value
	if tv, ok := info.Types[e]; ok && tv.Value != nil {
		if sel, isSel := e.(*ast.SelectorExpr); isSel {
			if c, isConst := info.Uses[sel.Sel].(*types.Const); isConst && c.Pkg() != nil && c.Pkg() != t.cm.m.pk.Types {
				out.set["const:"+c.Pkg().Name()+"."+c.Name()] = true
				return
			}
		}
		if tv.Value.Kind() == constant.Float || tv.Value.Kind() == constant.Int {
			out.set["const:"+tv.Value.String()] = true
		}
		return
	}
	switch x := e.(type) {
	case *ast.Ident:
		o := objOf(info, x)
		if o == nil {
			return
		}
		key := fmt.Sprintf("%p/%p/%v/%d", o, ctx.call, delta, x.Pos())
		if seen[key] {
			return
		}
		seen[key] = true
		// the receiver of the method being read: the value the method was called on
		if ro := c01RecvObj(info, fi); ro != nil && ro == o {
			if ctx.call != nil && ctx.up != nil {
				if sel, ok := ast.Unparen(ctx.call.Fun).(*ast.SelectorExpr); ok {
					t.trace(ctx.up, sel.X, 0, delta, out, seen, depth+1)
				}
				return
			}
			for _, caller := range t.cm.worker {
				caller := caller
				ast.Inspect(caller.Decl.Body, func(n ast.Node) bool {
					if call, ok := n.(*ast.CallExpr); ok && callee(info, call) == fi.Obj {
						if sel, ok := ast.Unparen(call.Fun).(*ast.SelectorExpr); ok {
							t.trace(&c01Ctx{fi: caller}, sel.X, 0, delta, out, seen, depth+1)
						}
					}
					return true
				})
			}
			return
		}
		// parameter of the function being read?
		if idx := c01ParamIndex(info, fi, o); idx >= 0 {
			if len(t.cm.paramIter[o]) > 0 {
				return // iterator parameters are resolved at their reads
			}
			if ctx.call != nil && ctx.up != nil {
				if idx < len(ctx.call.Args) {
					t.trace(ctx.up, ctx.call.Args[idx], 0, delta, out, seen, depth+1)
				}
				return
			}
			// the store's own function: the argument at every call site
			for _, caller := range t.cm.worker {
				caller := caller
				ast.Inspect(caller.Decl.Body, func(n ast.Node) bool {
					if call, ok := n.(*ast.CallExpr); ok && callee(info, call) == fi.Obj && idx < len(call.Args) {
						t.trace(&c01Ctx{fi: caller}, call.Args[idx], 0, delta, out, seen, depth+1)
					}
					return true
				})
			}
			return
		}
		// parameter of a function literal (a setter closure handed to a helper): the argument the helper passes,
		// read in the context of the call that handed the closure over
		if lit, k := t.funcLitParam(fi, o); lit != nil {
			n := 0
			t.closureArgs(fi, lit, k, func(g *FuncInfo, handover *ast.CallExpr, arg ast.Expr) {
				n++
				t.trace(&c01Ctx{fi: g, call: handover, up: ctx}, arg, 0, delta, out, seen, depth+1)
			})
			if n == 0 {
				out.set["closure:?"+o.Name()] = true
			}
			return
		}
		// local: all definitions in fi
		for _, d := range c01ReachingDefs(c01FnOf(t.cm.p, fi).innermost(x), o, x.Pos()) {
			switch d.tok {
			case token.RANGE:
				if rs, ok := d.stmt.(*ast.RangeStmt); ok {
					out.set["range:"+types.ExprString(rs.X)] = true
				}
				continue
			case token.INC, token.DEC, token.VAR, token.AND:
				continue
			}
			if d.rhs == nil {
				continue
			}
			idx := 0
			if d.index >= 0 {
				idx = d.index
			}
			switch d.tok {
			case token.ADD_ASSIGN, token.SUB_ASSIGN:
				t.trace(ctx, d.rhs, idx, true, out, seen, depth+1)
			case token.ASSIGN, token.DEFINE:
				// v = v + E  /  v = E + v  is a running sum
				if be, ok := ast.Unparen(d.rhs).(*ast.BinaryExpr); ok && be.Op == token.ADD && (objOf(info, be.X) == o || objOf(info, be.Y) == o) {
					other := be.Y
					if objOf(info, be.Y) == o {
						other = be.X
					}
					t.trace(ctx, other, 0, true, out, seen, depth+1)
				} else {
					t.trace(ctx, d.rhs, idx, delta, out, seen, depth+1)
				}
			default:
				out.set["op:"+d.tok.String()] = true
				t.trace(ctx, d.rhs, idx, delta, out, seen, depth+1)
			}
		}
	case *ast.BinaryExpr:
		t.trace(ctx, x.X, 0, delta, out, seen, depth+1)
		t.trace(ctx, x.Y, 0, delta, out, seen, depth+1)
	case *ast.UnaryExpr:
		t.trace(ctx, x.X, 0, delta, out, seen, depth+1)
	case *ast.StarExpr:
		t.trace(ctx, x.X, 0, delta, out, seen, depth+1)
	case *ast.IndexExpr:
		// st[i]
		sub := newAtoms()
		t.trace(ctx, x.X, 0, false, sub, map[string]bool{}, depth+1)
		c01NormParams(sub)
		if sub.set["get:S"] {
			out.set["st"] = true
		} else {
			for k := range sub.set {
				out.set[k] = true
			}
		}
		t.trace(ctx, x.Index, 0, delta, out, seen, depth+1)
	case *ast.SelectorExpr:
		if f := fieldOf(info, x); f != nil {
			out.set["field:"+f.Name()] = true
			// a field of a struct type of the decoder package (a value carried from a shared helper to its callers):
			// whatever is stored into that field anywhere in the worker role
			if f.Pkg() == t.cm.m.pk.Types && namedPath(f.Type()) != protoscanIter {
				key := fmt.Sprintf("field %p/%v", f, delta)
				if seen[key] {
					return
				}
				seen[key] = true
				for _, g := range t.cm.worker {
					g := g
					ast.Inspect(g.Decl.Body, func(n ast.Node) bool {
						switch s := n.(type) {
						case *ast.AssignStmt:
							for i, l := range s.Lhs {
								if fieldOf(info, l) != f {
									continue
								}
								switch {
								case len(s.Rhs) == len(s.Lhs):
									d := delta || s.Tok == token.ADD_ASSIGN || s.Tok == token.SUB_ASSIGN
									t.trace(&c01Ctx{fi: g}, s.Rhs[i], 0, d, out, seen, depth+1)
								case len(s.Rhs) == 1:
									t.trace(&c01Ctx{fi: g}, s.Rhs[0], i, delta, out, seen, depth+1)
								}
							}
						case *ast.KeyValueExpr:
							if id, ok := s.Key.(*ast.Ident); ok && info.Uses[id] == f {
								t.trace(&c01Ctx{fi: g}, s.Value, 0, delta, out, seen, depth+1)
							}
						}
						return true
					})
				}
			}
		}
	case *ast.CallExpr:
		// conversion
		if c01IsConversion(info, x) && len(x.Args) == 1 {
			t.trace(ctx, x.Args[0], 0, delta, out, seen, depth+1)
			return
		}
		fn := callee(info, x)
		sel, _ := ast.Unparen(x.Fun).(*ast.SelectorExpr)
		if fn == nil {
			out.set["call:?"] = true
			return
		}
		recvT := ""
		if sel != nil {
			recvT = namedPath(info.TypeOf(sel.X))
		}
		switch {
		case recvT == protoscanIter:
			fields := t.iterFieldsCtx(ctx, sel.X, 0)
			if len(fields) == 0 {
				out.set["col:?unbound iterator "+types.ExprString(sel.X)] = true
				return
			}
			for _, f := range fields {
				t.mark(out, t.colAtom(f), delta)
			}
		case recvT == protoscanMsg:
			mv := t.cm.msgVarOf(sel.X)
			if mv == nil {
				out.set["fld:?"] = true
				return
			}
			cases := t.cm.casesAt(fi, x, mv, 0)
			if len(cases) == 0 {
				t.mark(out, fmt.Sprintf("fld:%s.#?", mv.msg), delta)
			}
			for _, n := range cases {
				fd := t.cm.desc.Messages[mv.msg].Fields[n]
				a := fmt.Sprintf("fld:%s.#%d", mv.msg, n)
				if fd != nil {
					a = "fld:" + mv.msg + "." + fd.Name
				}
				t.mark(out, a, delta)
			}
		case strings.HasPrefix(fn.Name(), "Get") && c01GenTypeName(c01RecvTypeOf(fn)) != "":
			out.set["get:"+strings.TrimPrefix(fn.Name(), "Get")] = true
		case fn.Pkg() == t.cm.m.pk.Types:
			// function of the package: read its returned expressions in the context of this call
			tf := c01FuncInfo(t.cm.m.pk, fn)
			if tf == nil {
				out.set["call:?"+fn.Name()] = true
				return
			}
			key := fmt.Sprintf("call %p/%d/%v", x, resIdx, delta)
			if seen[key] {
				return
			}
			seen[key] = true
			sub := &c01Ctx{fi: tf, call: x, up: ctx}
			nret := 0
			ast.Inspect(tf.Decl.Body, func(n ast.Node) bool {
				if _, ok := n.(*ast.FuncLit); ok {
					return false
				}
				ret, ok := n.(*ast.ReturnStmt)
				if !ok {
					return true
				}
				nret++
				switch {
				case resIdx < len(ret.Results) && len(ret.Results) > 1 || len(ret.Results) == 1 && fn.Type().(*types.Signature).Results().Len() == 1:
					t.trace(sub, ret.Results[resIdx], 0, delta, out, seen, depth+1)
				case len(ret.Results) == 1:
					t.trace(sub, ret.Results[0], resIdx, delta, out, seen, depth+1) // return g(...)
				case len(ret.Results) == 0:
					// named results
					if res := tf.Decl.Type.Results; res != nil {
						i := 0
						for _, fld := range res.List {
							for _, nm := range fld.Names {
								if i == resIdx {
									t.trace(sub, nm, 0, delta, out, seen, depth+1)
								}
								i++
							}
						}
					}
				}
				return true
			})
			if nret == 0 {
				out.set["call:?"+fn.Name()] = true
			}
		default:
			if fn.Pkg() != nil && fn.Pkg().Path() == "time" {
				out.set["time."+fn.Name()] = true
			}
			if sel != nil {
				if _, isPkg := info.Uses[identOf(sel.X)].(*types.PkgName); !isPkg {
					t.trace(ctx, sel.X, 0, delta, out, seen, depth+1)
				}
			}
			for _, a := range x.Args {
				t.trace(ctx, a, 0, delta, out, seen, depth+1)
			}
		}
	}
}

// iterFieldsCtx resolves an iterator expression in the calling context of the trace: a parameter of a function the
// trace entered through a call denotes what that call passes (one column), otherwise every field it is bound to.
func (t *c01Tracer) iterFieldsCtx(ctx *c01Ctx, e ast.Expr, depth int) []*types.Var {
	info := t.info
	x := ast.Unparen(c01Expand(info, ctx.fi.Decl.Body, e))
	if o := objOf(info, x); o != nil && ctx.call != nil && ctx.up != nil && depth < 4 {
		if idx := c01ParamIndex(info, ctx.fi, o); idx >= 0 && idx < len(ctx.call.Args) {
			return t.iterFieldsCtx(ctx.up, ctx.call.Args[idx], depth+1)
		}
	}
	return t.cm.iterFieldsIn(ctx.fi, e)
}

func c01RecvTypeOf(fn *types.Func) types.Type {
	if fn == nil {
		return nil
	}
	if r := fn.Type().(*types.Signature).Recv(); r != nil {
		return r.Type()
	}
	return nil
}

func c01ParamIndex(info *types.Info, fi *FuncInfo, o types.Object) int {
	pi := 0
	for _, fld := range fi.Decl.Type.Params.List {
		for _, nm := range fld.Names {
			if info.Defs[nm] == o {
				return pi
			}
			pi++
		}
	}
	return -1
}

// c01Spec is what the format prescribes for one destination field.
type c01Spec struct {
	cols   []string // acceptable source columns "Msg.name" (any one)
	extras []string // atoms that must also be present
}

func c01DestTable() map[string][]c01Spec {
	coord := func(col, off string) c01Spec {
		return c01Spec{cols: []string{col}, extras: []string{"get:" + off, "get:Granularity", "const:1e-09"}}
	}
	ts := func(col string) c01Spec {
		return c01Spec{cols: []string{col}, extras: []string{"get:DateGranularity", "const:time.Millisecond"}}
	}
	one := func(col string, extras ...string) []c01Spec { return []c01Spec{{cols: []string{col}, extras: extras}} }
	return map[string][]c01Spec{
		"Node.ID": one("DenseNodes.id"), "Node.Version": one("DenseInfo.version"), "Node.Timestamp": {ts("DenseInfo.timestamp")},
		"Node.ChangesetID": one("DenseInfo.changeset"), "Node.UserID": one("DenseInfo.uid"), "Node.User": one("DenseInfo.user_sid", "st"),
		"Node.Visible": one("DenseInfo.visible"), "Node.Lat": {coord("DenseNodes.lat", "LatOffset")}, "Node.Lon": {coord("DenseNodes.lon", "LonOffset")},
		"Tag.Key":   {{cols: []string{"DenseNodes.keys_vals"}, extras: []string{"st"}}, {cols: []string{"Relation|Way.keys"}, extras: []string{"st"}}},
		"Tag.Value": {{cols: []string{"DenseNodes.keys_vals"}, extras: []string{"st"}}, {cols: []string{"Relation|Way.vals"}, extras: []string{"st"}}},
		"Way.ID":    one("Way.id"), "Way.Version": one("Info.version"), "Way.Timestamp": {ts("Info.timestamp")}, "Way.ChangesetID": one("Info.changeset"),
		"Way.UserID": one("Info.uid"), "Way.User": one("Info.user_sid", "st"), "Way.Visible": one("Info.visible"),
		"WayNode.ID": one("Way.refs"), "WayNode.Lat": {coord("Way.lat", "LatOffset")}, "WayNode.Lon": {coord("Way.lon", "LonOffset")},
		"Relation.ID": one("Relation.id"), "Relation.Version": one("Info.version"), "Relation.Timestamp": {ts("Info.timestamp")}, "Relation.ChangesetID": one("Info.changeset"),
		"Relation.UserID": one("Info.uid"), "Relation.User": one("Info.user_sid", "st"), "Relation.Visible": one("Info.visible"),
		"Member.Role": one("Relation.roles_sid", "st"), "Member.Ref": one("Relation.memids"),
	}
}

func c01R4(r *core.R) {
	cm := c01ModelOrAnchor(r)
	if cm == nil {
		return
	}
	m := cm.m
	info := m.info
	fs := r.P.Fset
	t := &c01Tracer{cm: cm, info: info}
	table := c01DestTable()
	matched := map[string]map[int]bool{}
	elemTypes := map[string]bool{}
	for _, k := range []string{"Node", "Way", "Relation", "WayNode", "Member", "Tag"} {
		elemTypes[core.ModulePath+"."+k] = true
	}
	// descriptor lookup for delta flags
	isDelta := func(atom string) (bool, bool) {
		// atom: col:Msg1|Msg2.name or fld:Msg.name
		body := atom[strings.Index(atom, ":")+1:]
		dot := strings.LastIndex(body, ".")
		if dot < 0 {
			return false, false
		}
		name := body[dot+1:]
		for _, mn := range strings.Split(body[:dot], "|") {
			if dm := cm.desc.Messages[mn]; dm != nil {
				for _, f := range dm.Fields {
					if f.Name == name {
						return f.Delta, true
					}
				}
			}
		}
		return false, false
	}
	var check0 func(ctx *c01Ctx, via string, dest string, rhs ast.Expr, resIdx int, storeDelta bool, pos token.Pos, what string)
	// a store inside a helper that several functions call is judged once per call site, in the context of that call
	// (a tag built by one helper from the dense column here and from the keys / vals columns there)
	check := func(fi *FuncInfo, dest string, rhs ast.Expr, resIdx int, storeDelta bool, pos token.Pos, what string) {
		sites := c01CallSitesOf(cm, fi)
		if len(sites) < 2 {
			check0(&c01Ctx{fi: fi}, "", dest, rhs, resIdx, storeDelta, pos, what)
			return
		}
		for _, s := range sites {
			check0(&c01Ctx{fi: fi, call: s.call, up: &c01Ctx{fi: s.caller}}, " via "+s.caller.Name(), dest, rhs, resIdx, storeDelta, pos, what)
		}
	}
	check0 = func(ctx *c01Ctx, via string, dest string, rhs ast.Expr, resIdx int, storeDelta bool, pos token.Pos, what string) {
		fi := ctx.fi
		specs, known := table[dest]
		if !known {
			return
		}
		if tv, ok := info.Types[rhs]; ok && tv.Value != nil {
			return // a constant default (R6 decides those), not a decoded value
		}
		c := "store@" + dest + via
		atoms := newAtoms()
		t.trace(ctx, rhs, resIdx, storeDelta, atoms, map[string]bool{}, 0)
		c01NormParams(atoms)
		var cols []string
		for _, a := range atoms.list() {
			if strings.HasPrefix(a, "col:") || strings.HasPrefix(a, "fld:") {
				cols = append(cols, a[4:])
			}
		}
		// which spec?
		si := -1
		for i, sp := range specs {
			for _, c0 := range sp.cols {
				for _, got := range cols {
					if got == c0 {
						si = i
					}
				}
			}
		}
		if si < 0 || len(cols) != 1 {
			var want []string
			for _, sp := range specs {
				want = append(want, sp.cols...)
			}
			r.Bad(c, pos, "`%s` in %s: %s is computed from column(s) %v; the format defines it by %s: the field carries another column's values (e.g. lat/lon, uid/user_sid, key/value confused)", what, fi.Name(), dest, cols, strings.Join(want, " or "))
			return
		}
		if matched[dest] == nil {
			matched[dest] = map[int]bool{}
		}
		matched[dest][si] = true
		// unit check: the constant factor of the stored expression, however the conversion is spelled; when the
		// expression is understood it replaces the requirement that a particular unit constant is mentioned
		unitConst := ""
		for _, ex := range specs[si].extras {
			if strings.HasPrefix(ex, "const:") {
				unitConst = ex
			}
		}
		if unitConst != "" {
			want := big.NewRat(1000000, 1) // ns per ms
			if unitConst == "const:1e-09" {
				want = big.NewRat(1, 1000000000)
			}
			sc := &c01Scale{t: t, info: info, atoms: map[string]string{}, quot: map[string]c01QR{}}
			if decided, why := sc.verdict(ctx, rhs, resIdx, want); decided {
				if why != "" {
					r.Bad(c, pos, "`%s` in %s: unit of %s: %s (evaluated through locals, parameters and helper functions; the format defines %s)", what, fi.Name(), dest, why, c01UnitText(unitConst))
					return
				}
				atoms.set[unitConst] = true
			}
		}
		var missing []string
		for _, ex := range specs[si].extras {
			if !atoms.set[ex] {
				missing = append(missing, ex)
			}
		}
		// forbidden: getters of the sibling coordinate
		var extra []string
		for _, a := range atoms.list() {
			if strings.HasPrefix(a, "get:") {
				okx := false
				for _, ex := range specs[si].extras {
					if ex == a {
						okx = true
					}
				}
				if !okx && a != "get:S" && a != "get:Stringtable" {
					extra = append(extra, a)
				}
			}
		}
		if len(missing) > 0 || len(extra) > 0 {
			r.Bad(c, pos, "`%s` in %s: %s must be computed from %s with %v; missing %v, unexpected %v: the value is scaled/offset/looked up differently from what the format defines", what, fi.Name(), dest, cols[0], specs[si].extras, missing, extra)
			return
		}
		// R5 delta coding
		a := "col:" + cols[0]
		if !atoms.set[a] {
			a = "fld:" + cols[0]
		}
		wantDelta, found := isDelta(a)
		if !found {
			r.Unknown(c, pos, "column %s not found in the descriptor", cols[0])
			return
		}
		gotDelta, gotPlain := atoms.delta[a], atoms.plain[a]
		switch {
		case wantDelta && (!gotDelta || gotPlain):
			r.Bad(c, pos, "`%s` in %s: %s is DELTA coded in the format, so the element value is the running sum of the column; here the raw read reaches the field without accumulation: every element after the first gets a wrong value", what, fi.Name(), cols[0])
		case !wantDelta && gotDelta:
			r.Bad(c, pos, "`%s` in %s: %s is not delta coded in the format but is accumulated across elements here", what, fi.Name(), cols[0])
		default:
			dc := "plain"
			if wantDelta {
				dc = "running sum (DELTA coded)"
			}
			r.OK(c, pos, "in %s: from %s, %s, with %v", fi.Name(), cols[0], dc, specs[si].extras)
		}
	}
	memberMapped := map[string]bool{} // format member types that some store maps to an osm type
	for _, fi := range cm.worker {
		fi := fi
		ast.Inspect(fi.Decl.Body, func(n ast.Node) bool {
			switch s := n.(type) {
			case *ast.AssignStmt:
				for i, l := range s.Lhs {
					if star, isStar := ast.Unparen(l).(*ast.StarExpr); isStar {
						// `*P = v`: P may point at fields of elements (a struct of field pointers, a pointer parameter)
						var rhs ast.Expr
						idx := 0
						if len(s.Rhs) == len(s.Lhs) {
							rhs = s.Rhs[i]
						} else if len(s.Rhs) == 1 {
							rhs, idx = s.Rhs[0], i
						}
						if rhs == nil {
							continue
						}
						for _, dest := range t.pointerDests(fi, star.X, map[types.Object]bool{}, 0) {
							if dest == "Member.Type" {
								c01MemberType(r, cm, t, fi, s, rhs, memberMapped)
								continue
							}
							check(fi, dest, rhs, idx, s.Tok == token.ADD_ASSIGN || s.Tok == token.SUB_ASSIGN, s.Pos(), src(fs, s))
						}
						continue
					}
					sel, ok := ast.Unparen(l).(*ast.SelectorExpr)
					if !ok {
						continue
					}
					f := fieldOf(info, sel)
					if f == nil {
						continue
					}
					tn := namedPath(info.TypeOf(sel.X))
					if !elemTypes[tn] {
						continue
					}
					dest := tn[strings.LastIndex(tn, ".")+1:] + "." + f.Name()
					var rhs ast.Expr
					idx := 0
					if len(s.Rhs) == len(s.Lhs) {
						rhs = s.Rhs[i]
					} else if len(s.Rhs) == 1 {
						rhs, idx = s.Rhs[0], i
					}
					if rhs == nil {
						continue
					}
					if dest == "Member.Type" {
						c01MemberType(r, cm, t, fi, s, rhs, memberMapped)
						continue
					}
					check(fi, dest, rhs, idx, s.Tok == token.ADD_ASSIGN || s.Tok == token.SUB_ASSIGN, s.Pos(), src(fs, s))
				}
			case *ast.CompositeLit:
				tn := namedPath(info.TypeOf(s))
				if !elemTypes[tn] {
					return true
				}
				for _, e := range s.Elts {
					if kv, ok := e.(*ast.KeyValueExpr); ok {
						if id, ok := kv.Key.(*ast.Ident); ok {
							check(fi, tn[strings.LastIndex(tn, ".")+1:]+"."+id.Name, kv.Value, 0, false, kv.Pos(), src(fs, s))
						}
					}
				}
			}
			return true
		})
	}
	// coverage: every destination/spec of the table is produced somewhere
	var dests []string
	for d := range table {
		dests = append(dests, d)
	}
	sort.Strings(dests)
	for _, d := range dests {
		for i, sp := range table[d] {
			if !matched[d][i] {
				r.Bad("coverage@"+d+" "+strings.Join(sp.cols, "/"), token.NoPos, "no store computes %s from %s: that part of every element is never decoded", d, strings.Join(sp.cols, "/"))
			}
		}
	}
	for _, k := range []string{"Relation_NODE", "Relation_WAY", "Relation_RELATION"} {
		if !memberMapped[k] {
			r.Bad("coverage@Member.Type "+strings.TrimPrefix(k, "Relation_"), token.NoPos, "no store maps the format's member type %s to an osm type: members of that type come out untyped", strings.TrimPrefix(k, "Relation_"))
		}
	}
	// dense keys_vals pair order: the read feeding Key precedes the read feeding Value, and the zero test that ends a
	// node's tags is applied to the key read
	c01KeyValOrder(r, cm)
}

// c01KeyValOrder checks the dense keys_vals pairs: of the two reads of the keys_vals iterator the first (dominating)
// one feeds Tag.Key, the second Tag.Value; the second executes only when the first is known non-zero, and the zero
// case leaves the pair loop.
func c01KeyValOrder(r *core.R, cm *c01Model) {
	m := cm.m
	info := m.info
	var kvField *types.Var
	for f := range cm.iters {
		if col, _ := cm.iterColumn(f); col != nil && col.Name == "keys_vals" {
			kvField = f
		}
	}
	if kvField == nil {
		return // R1 reports the missing column
	}
	for _, fi := range cm.worker {
		fi := fi
		type rd struct {
			call *ast.CallExpr
			obj  types.Object
		}
		var reads []rd
		ast.Inspect(fi.Decl.Body, func(n ast.Node) bool {
			as, ok := n.(*ast.AssignStmt)
			if !ok || len(as.Rhs) != 1 || len(as.Lhs) < 1 {
				return true
			}
			call, ok := ast.Unparen(as.Rhs[0]).(*ast.CallExpr)
			if !ok {
				return true
			}
			sel, ok := ast.Unparen(call.Fun).(*ast.SelectorExpr)
			if !ok || namedPath(info.TypeOf(sel.X)) != protoscanIter || cm.iterFieldIn(fi, sel.X) != kvField {
				return true
			}
			if s := info.Selections[sel]; s == nil || s.Kind() == types.FieldVal {
				return true
			}
			if sel.Sel.Name == "HasNext" || sel.Sel.Name == "Count" {
				return true
			}
			reads = append(reads, rd{call, objOf(info, as.Lhs[0])})
			return true
		})
		if len(reads) == 0 {
			continue
		}
		c := "pair-order@keys_vals"
		if len(reads) != 2 {
			r.Unknown(c, reads[0].call.Pos(), "%s reads the keys_vals column at %d sites; the key/value pairing is only understood for one key read followed by one value read", fi.Name(), len(reads))
			continue
		}
		f := c01FnOf(r.P, fi)
		k, v := reads[0], reads[1]
		if !f.dominatesPos(k.call.Pos(), v.call.Pos()) {
			k, v = v, k
		}
		if !f.dominatesPos(k.call.Pos(), v.call.Pos()) || k.obj == nil || v.obj == nil {
			r.Unknown(c, reads[0].call.Pos(), "neither keys_vals read dominates the other in %s", fi.Name())
			continue
		}
		// zero test on the first read controls the second read
		zeroOK := false
		var zeroBlk *guardFact
		facts := f.factsAtPos(v.call.Pos())
		for i := range facts {
			fact := &facts[i]
			a, b, neq, ok := c01EqCmp(fact.expr)
			if !ok {
				continue
			}
			for _, pr := range [][2]ast.Expr{{a, b}, {b, a}} {
				if z, okc := constInt(info, pr[1]); okc && z == 0 && objOf(info, c01StripConv(info, pr[0])) == k.obj && fact.val == neq {
					zeroOK = true
					zeroBlk = fact
				}
			}
		}
		// the zero case (the edge of that test that does not lead to the value read) leaves the innermost loop holding the reads
		leaves := false
		if zeroOK {
			vb := f.blockOf(v.call.Pos())
			loop := c01InnermostLoop(c01Loops(f), vb)
			if loop != nil && zeroBlk.at != nil && len(zeroBlk.at.Succs) == 2 {
				at := zeroBlk.at
				for _, s := range at.Succs {
					if !reachableFrom([]*cfg.Block{s}, func(x *cfg.Block) bool { return x == at })[vb] {
						leaves = !loop.blocks[s]
					}
				}
			}
		}
		// which read does each Tag field derive from?
		var derivesIn func(body ast.Node, e ast.Expr, o types.Object) bool
		derives := func(e ast.Expr, o types.Object) bool { return derivesIn(fi.Decl.Body, e, o) }
		derivesIn = func(body ast.Node, e ast.Expr, o types.Object) bool {
			found := false
			seen := map[types.Object]bool{}
			var walk func(e ast.Expr, depth int)
			walk = func(e ast.Expr, depth int) {
				if depth > 6 || found || e == nil {
					return
				}
				ast.Inspect(e, func(y ast.Node) bool {
					id, ok := y.(*ast.Ident)
					if !ok {
						return true
					}
					ob := objOf(info, id)
					if ob == o {
						found = true
						return false
					}
					if ob != nil && !seen[ob] {
						seen[ob] = true
						for _, d := range c01Defs(info, body, ob) {
							walk(d.rhs, depth+1)
						}
					}
					return true
				})
			}
			walk(e, 0)
			return found
		}
		keyFrom, valFrom := "", ""
		ast.Inspect(fi.Decl.Body, func(x ast.Node) bool {
			var key, val ast.Expr
			switch s := x.(type) {
			case *ast.CompositeLit:
				if namedPath(info.TypeOf(s)) != core.ModulePath+".Tag" {
					return true
				}
				for _, e := range s.Elts {
					if kv, ok := e.(*ast.KeyValueExpr); ok {
						switch kv.Key.(*ast.Ident).Name {
						case "Key":
							key = kv.Value
						case "Value":
							val = kv.Value
						}
					}
				}
			case *ast.AssignStmt:
				for i, l := range s.Lhs {
					if fl := fieldOf(info, l); fl != nil && namedPath(info.TypeOf(ast.Unparen(l).(*ast.SelectorExpr).X)) == core.ModulePath+".Tag" && len(s.Rhs) == len(s.Lhs) {
						switch fl.Name() {
						case "Key":
							key = s.Rhs[i]
						case "Value":
							val = s.Rhs[i]
						}
					}
				}
			case *ast.CallExpr:
				// a helper that builds the tag from its parameters: Key / Value derive from what is passed for the
				// parameters the helper's own Tag literal takes them from
				tf := c01Callee(m.pk, s)
				if tf == nil {
					return true
				}
				res := tf.Obj.Type().(*types.Signature).Results()
				if res.Len() == 0 || namedPath(res.At(0).Type()) != core.ModulePath+".Tag" {
					return true
				}
				ast.Inspect(tf.Decl.Body, func(y ast.Node) bool {
					cl, ok := y.(*ast.CompositeLit)
					if !ok || namedPath(info.TypeOf(cl)) != core.ModulePath+".Tag" {
						return true
					}
					for _, e := range cl.Elts {
						kv, ok := e.(*ast.KeyValueExpr)
						if !ok {
							continue
						}
						for i, a := range s.Args {
							po := c01Param(info, tf, i)
							if po == nil || !derivesIn(tf.Decl.Body, kv.Value, po) {
								continue
							}
							switch kv.Key.(*ast.Ident).Name {
							case "Key":
								key = a
							case "Value":
								val = a
							}
						}
					}
					return true
				})
			default:
				return true
			}
			cls := func(e ast.Expr) string {
				dk, dv := derives(e, k.obj), derives(e, v.obj)
				switch {
				case dk && !dv:
					return "first"
				case dv && !dk:
					return "second"
				case dk && dv:
					return "both"
				}
				return "none"
			}
			if key != nil {
				keyFrom = cls(key)
			}
			if val != nil {
				valFrom = cls(val)
			}
			return true
		})
		switch {
		case !zeroOK || !leaves:
			r.Bad(c, k.call.Pos(), "in %s the 0 delimiter that ends a node's tags is not tested on the first (key) read of each pair with the zero case leaving the pair loop: keys and values go out of step or the next node's tags are swallowed", fi.Name())
		case keyFrom != "first" || valFrom != "second":
			r.Bad(c, k.call.Pos(), "in each keys_vals pair the first read is the key and the second the value; in %s Tag.Key derives from the %s read and Tag.Value from the %s read", fi.Name(), keyFrom, valFrom)
		default:
			r.OK(c, k.call.Pos(), "in %s: first read → key (0 ends the node's tags and leaves the pair loop), second read → value", fi.Name())
		}
	}
}

func c01UnitText(unitConst string) string {
	if unitConst == "const:1e-09" {
		return "degrees = 1e-9 * (offset + granularity * stored value)"
	}
	return "milliseconds since the epoch = stored value * date_granularity, so seconds = ms / 1000 and nanoseconds = (ms % 1000) * 1e6"
}
