package rules

import (
	"fmt"
	"go/ast"
	"go/token"
	"go/types"
)

// C08.O1/O2, what an "element variable" is. The element the next message is decoded into is held in a slot: a local or
// parameter of pointer-to-element type, or a field of a struct of the package (a scratch struct handed around by
// pointer, a field of the decoder). The typestate analysis follows one slot:
//   - a slot that is a struct field is field-based: `X.f` denotes it whatever X is, in every function that mentions the
//     field, so helpers that receive the struct by pointer (or reach it through the decoder) are executed on the same
//     slot without renaming;
//   - inside one function, locals that only ever receive the slot's current element are aliases of it: `v := slot`,
//     `v, err := decode(.., slot)` where the callee hands back its parameter (or a fresh element). A mention of an
//     alias is a mention of the slot.

// aliases returns the alias locals of slot x in function f.
func (fl *c08Flow) aliases(f *c01Fn, x types.Object) map[types.Object]bool {
	key := fmt.Sprintf("%p/%p", f.body, x)
	if fl.alias == nil {
		fl.alias = map[string]map[types.Object]bool{}
	}
	if a, ok := fl.alias[key]; ok {
		return a
	}
	info := fl.info
	al := map[types.Object]bool{}
	fl.alias[key] = al
	// candidates: locals of the slot's type that are not parameters
	var cands []types.Object
	ast.Inspect(f.body, func(n ast.Node) bool {
		id, ok := n.(*ast.Ident)
		if !ok {
			return true
		}
		o, ok := info.Defs[id].(*types.Var)
		if !ok || o.IsField() || o == x || !types.Identical(o.Type(), x.Type()) {
			return true
		}
		cands = append(cands, o)
		return true
	})
	for changed := true; changed; {
		changed = false
		for _, o := range cands {
			if al[o] {
				continue
			}
			ds := c01Defs(info, f.body, o)
			if len(ds) == 0 {
				continue
			}
			all, some := true, false
			for _, d := range ds {
				if d.rhs == nil {
					if d.tok == token.VAR {
						continue
					}
					all = false
					break
				}
				if d.tok != token.ASSIGN && d.tok != token.DEFINE && d.tok != token.VAR {
					all = false
					break
				}
				rh := ast.Unparen(d.rhs)
				if d.index <= 0 && fl.is(f, rh, x) {
					some = true
					continue
				}
				if call, ok := rh.(*ast.CallExpr); ok && d.index <= 0 && c08ReturnsParamP(fl.m, call, func(a ast.Expr) bool { return fl.is(f, a, x) }) {
					some = true
					continue
				}
				all = false
				break
			}
			if all && some {
				al[o] = true
				changed = true
			}
		}
	}
	return al
}

// isSelf: e denotes slot x itself (as an lvalue or rvalue).
func (fl *c08Flow) isSelf(e ast.Expr, x types.Object) bool {
	e = ast.Unparen(e)
	if v, ok := x.(*types.Var); ok && v.IsField() {
		sel, isSel := e.(*ast.SelectorExpr)
		return isSel && fieldOf(fl.info, sel) == v
	}
	return objOf(fl.info, e) == x
}

// is: e denotes slot x or one of its aliases in f.
func (fl *c08Flow) is(f *c01Fn, e ast.Expr, x types.Object) bool {
	if fl.isSelf(e, x) {
		return true
	}
	if o := objOf(fl.info, e); o != nil {
		if al, ok := fl.alias[fmt.Sprintf("%p/%p", f.body, x)]; ok {
			return al[o]
		}
		return fl.aliases(f, x)[o]
	}
	return false
}

// below: l is an lvalue strictly below the element of slot x (x.F, x.F[i].G, (*x).F ...): a write through the slot.
func (fl *c08Flow) below(f *c01Fn, l ast.Expr, x types.Object) bool {
	e := ast.Unparen(l)
	first := true
	for {
		if !first && fl.is(f, e, x) {
			return true
		}
		first = false
		switch y := e.(type) {
		case *ast.SelectorExpr:
			e = ast.Unparen(y.X)
		case *ast.IndexExpr:
			e = ast.Unparen(y.X)
		case *ast.StarExpr:
			e = ast.Unparen(y.X)
		case *ast.SliceExpr:
			e = ast.Unparen(y.X)
		default:
			return false
		}
	}
}

// mentions: fi, or a function of the package it reaches, selects field x (a field slot is live in it).
func (fl *c08Flow) mentions(fi *FuncInfo, x types.Object) bool {
	v, ok := x.(*types.Var)
	if !ok || !v.IsField() || fi == nil {
		return false
	}
	key := fmt.Sprintf("%p/%p", fi.Obj, x)
	if fl.ment == nil {
		fl.ment = map[string]bool{}
	}
	if r, ok := fl.ment[key]; ok {
		return r
	}
	res := false
	for _, g := range c01Reachable(fl.r.P, fi) {
		ast.Inspect(g.Decl.Body, func(n ast.Node) bool {
			switch y := n.(type) {
			case *ast.SelectorExpr:
				if fieldOf(fl.info, y) == v {
					res = true
				}
			case *ast.KeyValueExpr:
				if id, ok := y.Key.(*ast.Ident); ok && fl.info.Uses[id] == v {
					res = true
				}
			}
			return !res
		})
	}
	fl.ment[key] = res
	return res
}

// c08FieldSlots finds the struct fields of the package that serve as element slots in the worker role: fields of
// pointer-to-element type that are assigned somewhere. Each is analysed from the outermost worker functions that
// mention it.
func c08FieldSlots(m *pbfModel) []*types.Var {
	info := m.info
	seen := map[*types.Var]bool{}
	var out []*types.Var
	for _, fi := range c01RoleFuncs(m, "worker") {
		ast.Inspect(fi.Decl.Body, func(n ast.Node) bool {
			note := func(f *types.Var) {
				if f == nil || seen[f] || f.Pkg() != m.pk.Types {
					return
				}
				if _, isPtr := f.Type().(*types.Pointer); !isPtr || !c08IsElemType(f.Type()) {
					return
				}
				seen[f] = true
				out = append(out, f)
			}
			switch s := n.(type) {
			case *ast.AssignStmt:
				for _, l := range s.Lhs {
					if sel, ok := ast.Unparen(l).(*ast.SelectorExpr); ok {
						note(fieldOf(info, sel))
					}
				}
			case *ast.KeyValueExpr:
				if id, ok := s.Key.(*ast.Ident); ok {
					if f, isF := info.Uses[id].(*types.Var); isF && f.IsField() {
						note(f)
					}
				}
			}
			return true
		})
	}
	return out
}
