package rules

import (
	"fmt"
	"go/ast"
	"go/token"
	"go/types"
	"strings"

	"osmcheck/core"
)

// ---------------------------------------------------------------- Q7

// c02IsRefStorage: a slice or map type (mutable storage reached through the value).
func c02IsRefStorage(t types.Type) bool {
	if t == nil {
		return false
	}
	switch t.Underlying().(type) {
	case *types.Slice, *types.Map:
		return true
	}
	return false
}

// c02Private decides whether slice / map expression e, evaluated for one worker in the spawning loop, is storage no
// other worker can reach through len or cap: nil, a fresh make / literal, a sub-slice whose capacity is limited to
// its own region (3-index `s[lo:hi:hi]`), a per-iteration local or a constructor result of such values.
// It returns "" when private, else the reason ("?" prefix: not decided).
func (p *c02Pipe) privateStorage(e ast.Expr, fi *FuncInfo, depth int) string {
	m, info := p.m, p.info
	if e == nil {
		return ""
	}
	e = ast.Unparen(e)
	if depth > 8 {
		return "?definition chain too long at " + m.p.Rel(e.Pos())
	}
	if isNilIdent(e) {
		return ""
	}
	switch x := e.(type) {
	case *ast.CompositeLit:
		return ""
	case *ast.CallExpr:
		if bn := builtinName(info, x); bn == "make" || bn == "new" {
			return ""
		}
		if bn := builtinName(info, x); bn == "append" && len(x.Args) > 0 {
			return p.privateStorage(x.Args[0], fi, depth+1)
		}
		fn := callee(info, x)
		if fn != nil && m.funcs[fn] != nil {
			for _, ret := range m.returnsOf(m.funcs[fn], 0) {
				if why := p.privateStorage(ret, m.funcs[fn], depth+1); why != "" {
					return why
				}
			}
			return ""
		}
		return fmt.Sprintf("?`%s` is the result of a function the rule does not follow", src(m.p.Fset, e))
	case *ast.SliceExpr:
		if x.Slice3 && x.Max != nil && x.High != nil && c02SameArith(info, x.Max, x.High) {
			return "" // the capacity ends where the worker's own region ends
		}
		if why := p.privateStorage(x.X, fi, depth+1); why == "" {
			return "" // a part of storage that is itself private to this worker
		}
		if x.Slice3 {
			return fmt.Sprintf("`%s` at %s limits the capacity to `%s`, beyond the end `%s` of the worker's region of shared storage", src(m.p.Fset, e), m.p.Rel(e.Pos()), src(m.p.Fset, x.Max), src(m.p.Fset, x.High))
		}
		return fmt.Sprintf("`%s` at %s is a 2-index sub-slice of storage shared by the workers: its capacity reaches into the regions of the following workers, so growing or re-slicing by cap() writes over their live bytes (use the 3-index form `s[lo:hi:hi]`)", src(m.p.Fset, e), m.p.Rel(e.Pos()))
	case *ast.Ident:
		o, ok := objOf(info, x).(*types.Var)
		if !ok || o.IsField() {
			break
		}
		ofi := m.funcAt(o.Pos())
		if ofi == nil {
			return fmt.Sprintf("`%s` is a package-level variable, shared by all workers", o.Name())
		}
		if !pbfPerIterationStmt(o, p.spawnLoop, m, true) && c01ParamIndex(info, ofi, o) < 0 {
			return fmt.Sprintf("`%s` (declared at %s, outside the spawning loop) is one value handed to every worker", o.Name(), m.p.Rel(o.Pos()))
		}
		defs := m.defsOf(o)
		if len(defs) == 0 {
			return "?`" + o.Name() + "` has no definition the rule can see"
		}
		for _, d := range defs {
			switch d.kind {
			case "zero":
			case "assign", "arg":
				if why := p.privateStorage(d.e, d.fi, depth+1); why != "" {
					return why
				}
			default:
				return "?`" + o.Name() + "` is defined in a way the rule does not follow (" + d.kind + ")"
			}
		}
		return ""
	case *ast.SelectorExpr:
		if f := fieldOf(info, x); f != nil {
			return fmt.Sprintf("`%s` at %s is storage kept in a field, shared by whoever reads that field", src(m.p.Fset, e), m.p.Rel(e.Pos()))
		}
	}
	return fmt.Sprintf("?`%s` at %s is not an allocation, a sub-slice or a variable the rule can follow", src(m.p.Fset, e), m.p.Rel(e.Pos()))
}

// c02Q7: worker-private storage. Every slice / map a worker's decoder value starts with (the fields initialised where
// the value is built, or assigned by the spawner) and every slice / map handed to the worker goroutine at its go
// statement is storage no other worker can reach through len OR cap: nil (grown privately later), freshly allocated
// for that worker, or a sub-slice with the capacity limited to the worker's own region.
func c02Q7(r *core.R) {
	m := modelOrAnchor(r)
	if m == nil {
		return
	}
	p := c02LoadPipe(r, m)
	if p == nil {
		return
	}
	info := m.info
	wg := m.goOf("worker")
	st, _ := m.ddT.Underlying().(*types.Struct)
	if wg == nil || st == nil {
		r.Anchor("worker goroutine / per-worker decoder type")
		return
	}
	judge := func(c string, pos token.Pos, what string, e ast.Expr, fi *FuncInfo) {
		why := p.privateStorage(e, fi, 0)
		switch {
		case why == "":
			r.OK(c, pos, "%s `%s` is private to the worker: nil, freshly allocated per worker, or a sub-slice whose capacity ends with the worker's own region", what, src(r.P.Fset, e))
		case strings.HasPrefix(why, "?"):
			r.Unknown(c, pos, "could not decide that %s `%s` is private to one worker: %s", what, src(r.P.Fset, e), why[1:])
		default:
			r.Bad(c, pos, "%s is not private to one worker: %s; two workers can reach a common byte (through len or cap), so a block decoded in parallel is overwritten by its neighbour: parallel decoding differs from serial decoding", what, why)
		}
	}
	// (a) fields given a value where a per-worker decoder value is built, or assigned from outside the worker role
	initialised := map[*types.Var]bool{}
	for _, u := range m.sortedUnits() {
		u := u
		m.walkUnit(u, func(n ast.Node) bool {
			switch x := n.(type) {
			case *ast.CompositeLit:
				if namedPath(info.TypeOf(x)) != namedPath(m.ddT) {
					return true
				}
				for _, el := range x.Elts {
					kv, ok := el.(*ast.KeyValueExpr)
					if !ok {
						r.Unknown("worker-private "+m.ddT.Obj().Name()+" literal", x.Pos(), "positional literal of the per-worker decoder type")
						continue
					}
					id, _ := kv.Key.(*ast.Ident)
					f, _ := info.Uses[id].(*types.Var)
					if f == nil || !c02IsRefStorage(f.Type()) {
						continue
					}
					initialised[f] = true
					judge("worker-private field "+m.ddT.Obj().Name()+"."+f.Name(), kv.Pos(), "the initial value of "+f.Name(), kv.Value, u.fi)
				}
			case *ast.AssignStmt:
				if u.onlyRole("worker") || len(x.Lhs) != len(x.Rhs) {
					return true
				}
				for i, l := range x.Lhs {
					f := fieldOf(info, l)
					if f == nil || !c02IsRefStorage(f.Type()) || namedPath(selRecv(info, ast.Unparen(l))) != namedPath(m.ddT) {
						continue
					}
					initialised[f] = true
					judge("worker-private field "+m.ddT.Obj().Name()+"."+f.Name(), x.Pos(), "the value given to "+f.Name(), x.Rhs[i], u.fi)
				}
			}
			return true
		})
	}
	for i := 0; i < st.NumFields(); i++ {
		f := st.Field(i)
		if c02IsRefStorage(f.Type()) && !initialised[f] {
			r.OKTrivial("worker-private field "+m.ddT.Obj().Name()+"."+f.Name(), f.Pos(), "starts nil and is only allocated by the worker that owns the decoder value (Q5: reached only through the owning value)")
		}
	}
	// (b) slices / maps handed to the worker at the go statement: arguments, and variables a closure captures
	var flows []ast.Expr
	for _, a := range wg.stmt.Call.Args {
		if c02IsRefStorage(info.TypeOf(a)) {
			flows = append(flows, a)
		}
	}
	if wg.decl == nil {
		seen := map[types.Object]bool{}
		ast.Inspect(wg.lit.Body, func(n ast.Node) bool {
			if id, ok := n.(*ast.Ident); ok {
				if o, ok := info.Uses[id].(*types.Var); ok && !o.IsField() && !seen[o] && c02IsRefStorage(o.Type()) && !(o.Pos() > wg.lit.Pos() && o.Pos() < wg.lit.End()) {
					seen[o] = true
					flows = append(flows, id)
				}
			}
			return true
		})
	}
	for _, e := range flows {
		judge("worker-private handed-over "+src(r.P.Fset, e), e.Pos(), "the storage handed to the worker goroutine", e, wg.host)
	}
}

// c02SameArith compares two side-effect-free arithmetic expressions structurally (constants by value, variables by
// object, operators and conversions by shape).
func c02SameArith(info *types.Info, a, b ast.Expr) bool {
	a, b = ast.Unparen(a), ast.Unparen(b)
	if va, ok := constInt(info, a); ok {
		vb, ok2 := constInt(info, b)
		return ok2 && va == vb
	}
	switch x := a.(type) {
	case *ast.BinaryExpr:
		y, ok := b.(*ast.BinaryExpr)
		return ok && x.Op == y.Op && c02SameArith(info, x.X, y.X) && c02SameArith(info, x.Y, y.Y)
	case *ast.CallExpr:
		y, ok := b.(*ast.CallExpr)
		if !ok || len(x.Args) != len(y.Args) {
			return false
		}
		if tv, isT := info.Types[x.Fun]; !isT || !tv.IsType() {
			if builtinName(info, x) != "len" || builtinName(info, y) != "len" {
				return false
			}
		}
		for i := range x.Args {
			if !c02SameArith(info, x.Args[i], y.Args[i]) {
				return false
			}
		}
		return true
	}
	return sameExprG(info, a, b)
}
