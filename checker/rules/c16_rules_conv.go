package rules

// c16_rules_conv.go — rules P1 (Convert yields exactly the original rings, outer CCW / inner CW, on both the
// single-outer-way path and the joined path), H1 (every inner ring goes to exactly its own outer ring) and W1 (both
// sources of coordinates give the same geometry).

import (
	"fmt"

	"osmcheck/core"
)

// c16CutRing cuts the ring r (closing point not repeated) into k ways; k = 1 is one closed way.
func c16CutRing(r []string, k int) [][]string {
	n := len(r)
	var out [][]string
	for j := 0; j < k; j++ {
		lo, hi := j*n/k, (j+1)*n/k
		var w []string
		for i := lo; i <= hi; i++ {
			w = append(w, r[i%n])
		}
		out = append(out, w)
	}
	return out
}

// c16Piece is a way of a scenario with the role of its member.
type c16Piece struct {
	toks []string
	role string
}

// c16Build makes the scenario: rings[i] is cut into cuts[i] ways; inner marks the holes, within their outer ring.
func c16Build(rings [][]string, cuts []int, inner map[int]bool, within map[int]int) (*c16Ground, []c16Piece) {
	g := &c16Ground{rings: rings, inner: inner, within: within}
	var pieces []c16Piece
	for i, r := range rings {
		role := "outer"
		if inner[i] {
			role = "inner"
		}
		for _, w := range c16CutRing(r, cuts[i]) {
			pieces = append(pieces, c16Piece{toks: w, role: role})
		}
	}
	return g, pieces
}

// c16Orders: a handful of member orders (identity, reversed, rotations, evens-then-odds, odds-then-evens reversed).
func c16Orders(n int) [][]int {
	id := make([]int, n)
	for i := range id {
		id[i] = i
	}
	var out [][]int
	add := func(f func(i int) int) {
		p := make([]int, n)
		for i := range p {
			p[i] = f(i)
		}
		out = append(out, p)
	}
	add(func(i int) int { return i })
	add(func(i int) int { return n - 1 - i })
	add(func(i int) int { return (i + 1) % n })
	add(func(i int) int { return (i + n/2) % n })
	var eo []int
	for i := 0; i < n; i += 2 {
		eo = append(eo, i)
	}
	for i := 1; i < n; i += 2 {
		eo = append(eo, i)
	}
	add(func(i int) int { return eo[i] })
	add(func(i int) int { return eo[n-1-i] })
	return out
}

// c16Rels expands a scenario into relations: member orders x choices of reversed ways.
func c16Rels(g *c16Ground, pieces []c16Piece, annotated, invalid bool, onNodes func(string) bool) []c16Rel {
	var out []c16Rel
	for _, order := range c16Orders(len(pieces)) {
		for _, flip := range []func(i int) bool{func(int) bool { return false }, func(int) bool { return true }, func(i int) bool { return i%2 == 0 }, func(i int) bool { return i%3 == 1 }} {
			rel := c16Rel{g: g, onNodes: onNodes, invalid: invalid}
			for _, k := range order {
				p := pieces[k]
				toks := p.toks
				if flip(k) {
					toks = c16Rev(toks)
				}
				id := int64(500 + k)
				rel.ways = append(rel.ways, c16Way{id: id, toks: toks})
				mm := c16Mem{kind: "way", ref: id, role: p.role}
				if annotated {
					mm.orient, _ = g.wayDir(toks)
				}
				rel.mems = append(rel.mems, mm)
			}
			out = append(out, rel)
		}
	}
	return out
}

func c16AllOnNodes(string) bool { return true }

// convFamily reports one obligation for a family of Convert inputs.
func (e *c16Env) convFamily(construct, what string, rels []c16Rel) {
	conv := findFunc(e.gj, "Convert")
	pos := conv.Decl.Pos()
	for _, rel := range rels {
		ways := map[int64]c16Way{}
		for _, w := range rel.ways {
			ways[w.id] = w
		}
		text := fmt.Sprintf("Convert(multipolygon %s, IncludeInvalidPolygons(%v))", c16MemsText(rel.mems, ways), rel.invalid)
		_, v := e.convert(rel)
		switch {
		case v.undecided != "":
			e.r.Unknown(construct, pos, "%s could not be evaluated: %s", text, v.undecided)
			return
		case v.bad != "":
			e.r.Bad(construct, pos, "%s: %s. %s", text, v.bad, what)
			return
		}
	}
	e.r.Stat("convert scenarios", len(rels))
	e.r.OK(construct, pos, "%d abstract relations evaluated (member orders x reversed ways), all as demanded: %s", len(rels), what)
}

func (e *c16Env) convAnchors() bool {
	if fi := findFunc(e.gj, "Convert"); fi == nil || fi.Decl.Body == nil {
		e.r.Anchor("func osmgeojson.Convert")
		return false
	}
	for _, n := range []string{"OSM", "Way", "WayNode", "WayNodes", "Node", "Nodes", "Ways", "Relation", "Relations", "Member", "Members", "Tag", "Tags"} {
		e.osmType(n)
	}
	return e.ok
}

var (
	c16RingA  = []string{"a", "b", "c", "d", "e", "f"}
	c16RingB  = []string{"g", "h", "i", "j"}
	c16HoleA1 = []string{"p", "q", "r", "s"}
	c16HoleA2 = []string{"t", "u", "v"}
	c16HoleB  = []string{"w", "x", "y", "z"}
)

func c16P1(r *core.R) {
	e := c16NewEnv(r)
	if !e.ok || !e.convAnchors() {
		return
	}
	what := "the geometry must consist of exactly the original rings, closed, every coordinate once, outer rings counter-clockwise first, their holes clockwise after them"
	for _, annotated := range []bool{false, true} {
		tag := map[bool]string{false: "members not annotated", true: "members annotated"}[annotated]
		g, pieces := c16Build([][]string{c16RingA, c16HoleA1, c16HoleA2}, []int{1, 2, 1}, map[int]bool{1: true, 2: true}, map[int]int{1: 0, 2: 0})
		e.convFamily("Convert[one outer way with holes, "+tag+"]", what, c16Rels(g, pieces, annotated, false, c16AllOnNodes))
		g, pieces = c16Build([][]string{c16RingA, c16HoleA1}, []int{3, 2}, map[int]bool{1: true}, map[int]int{1: 0})
		e.convFamily("Convert[outer ring cut into ways, "+tag+"]", what, c16Rels(g, pieces, annotated, false, c16AllOnNodes))
		g, pieces = c16Build([][]string{c16RingA, c16RingB, c16HoleA1, c16HoleB}, []int{2, 1, 2, 1}, map[int]bool{2: true, 3: true}, map[int]int{2: 0, 3: 1})
		e.convFamily("Convert[two outer rings, "+tag+"]", what, c16Rels(g, pieces, annotated, false, c16AllOnNodes))
	}
}

func c16H1(r *core.R) {
	e := c16NewEnv(r)
	if !e.ok || !e.convAnchors() {
		return
	}
	for _, invalid := range []bool{false, true} {
		tag := fmt.Sprintf("IncludeInvalidPolygons(%v)", invalid)
		g, pieces := c16Build([][]string{c16RingA, c16RingB, c16HoleA1, c16HoleA2, c16HoleB}, []int{2, 2, 1, 2, 1}, map[int]bool{2: true, 3: true, 4: true}, map[int]int{2: 0, 3: 0, 4: 1})
		e.convFamily("holes[two outer rings, "+tag+"]", "every inner ring must be added to the polygon of the outer ring around it, and to no other", c16Rels(g, pieces, false, invalid, c16AllOnNodes))
		// an inner ring that lies in no outer ring
		g, pieces = c16Build([][]string{c16RingA, c16RingB, c16HoleA1, c16HoleB}, []int{2, 1, 1, 2}, map[int]bool{2: true, 3: true}, map[int]int{2: 0})
		e.convFamily("holes[inner ring outside every outer ring, "+tag+"]", "an inner ring without outer ring is left out unless invalid polygons are asked for; then it is kept exactly once; the other holes stay where they belong", c16Rels(g, pieces, false, invalid, c16AllOnNodes))
	}
}

func c16W1(r *core.R) {
	e := c16NewEnv(r)
	if !e.ok || !e.convAnchors() {
		return
	}
	what := "the geometry must be the same whether a coordinate is annotated on the way node or comes from a node object (a way node is without location only when both lon and lat are 0)"
	g, pieces := c16Build([][]string{c16RingA, c16HoleA1}, []int{3, 2}, map[int]bool{1: true}, map[int]int{1: 0})
	e.convFamily("coordinates[from node objects]", what, c16Rels(g, pieces, false, false, func(string) bool { return false }))
	e.convFamily("coordinates[mixed]", what, c16Rels(g, pieces, true, false, func(t string) bool { return t[0]%2 == 0 }))
	// points on the prime meridian / the equator are locations
	g, pieces = c16Build([][]string{{"a", "X0b", "c", "Y0d", "e", "f"}, c16HoleA1}, []int{3, 2}, map[int]bool{1: true}, map[int]int{1: 0})
	e.convFamily("coordinates[lon or lat 0 on a way node]", what, c16Rels(g, pieces, false, false, c16AllOnNodes))
}
