package rules

import (
	"go/token"
	"go/types"
	"strings"

	"golang.org/x/tools/go/packages"

	"osmcheck/core"
)

// c11GroupInductive tries to PROVE the property of the grouping method for its peel-off spelling (the callee that turns the locations of a child into the groups
// Compute ranges over): every group is a maximal run L[:e] of the remaining list whose elements all have
// the parent index of L[0]. Decided on the paths of the method: the run length starts at 0, is advanced by
// one only after deciding e < len(L) && L[e].<parent> == L[0].<parent>, the run loop is left only when
// that is false, the run L[:e] is appended to the result and cut off the list, until the list is empty.
func c11GroupInductive(r *core.R, cpk *packages.Package, fi *FuncInfo, recvO types.Object, locs *c11Locs) (bool, string) {
	it := c11NewInterp(cpk)
	paths := c11AllPaths(it, fi, nil)
	if notes := c11PathNotes(it, paths); len(notes) > 0 {
		return false, fi.Name() + " could not be followed on every path: " + strings.Join(notes, "; ")
	}
	// the result: a loop symbol of the outer loop
	var outer, resName string
	var resObj types.Object
	var miss []string
	for _, p := range paths {
		if p.ctl != c11Return {
			continue
		}
		if len(p.res) != 1 {
			miss = append(miss, "not a single result")
			continue
		}
		lk, ok := c11IsLoopSym(p.res[0])
		if !ok {
			miss = append(miss, "the result "+p.res[0].key()+" is not the list accumulated by a loop")
			continue
		}
		if outer != "" && outer != lk {
			miss = append(miss, "results of different loops are returned")
		}
		outer, resObj, resName = lk, p.res[0].obj, p.res[0].obj.Name()
	}
	if outer == "" || len(miss) > 0 {
		return false, strings.Join(c11Uniq(append(miss, "no accumulated result")), "; ")
	}
	L := c11Sym("loop@"+outer+":"+recvO.Name(), recvO)
	lenL := &c11V{k: "call", name: "len", xs: []*c11V{L}}
	pf := locs.parentField
	first := c11Field(&c11V{k: "index", xs: []*c11V{L, c11Int(0)}}, pf)
	nOuter, nInner := 0, 0
	var inner string
	var e *c11V
	var endObj types.Object
	for _, p := range paths {
		st := p.st
		if p.ctl != c11Back || p.loopKey != outer {
			continue
		}
		nOuter++
		// entered with an empty result and the receiver itself
		for _, ev := range st.ev {
			if ev.kind == "loop" && ev.key == outer {
				if pre := ev.pre[resObj]; pre == nil || pre.k != "nil" {
					miss = append(miss, resName+" is not empty before the loop")
				}
				if pre := ev.pre[recvO]; pre == nil || pre.key() != c11Param(recvO).key() {
					miss = append(miss, "the list being cut is not the receiver")
				}
			}
		}
		if st.truth(c11Bin(token.LSS, c11Int(0), lenL)) != c11T && st.truth(c11Bin(token.NEQ, lenL, c11Int(0))) != c11T {
			miss = append(miss, "an iteration runs without having decided len("+recvO.Name()+") > 0")
		}
		// result = append(result, L[:e]); L = L[e:]
		rv := st.env[resObj]
		okApp := false
		if rv != nil && rv.k == "call" && rv.name == "append" && len(rv.xs) == 2 && rv.xs[0].key() == c11Sym("loop@"+outer+":"+resName, resObj).key() {
			if sl := rv.xs[1]; sl.k == "slice" && sl.xs[0].key() == L.key() && (sl.xs[1].name == "-" || sl.xs[1].isConstInt(0)) {
				if lk, ok := c11IsLoopSym(sl.xs[2]); ok {
					okApp = true
					inner, e, endObj = lk, sl.xs[2], sl.xs[2].obj
				}
			}
		}
		if !okApp {
			miss = append(miss, "an iteration does not end with "+resName+" = append("+resName+", "+recvO.Name()+"[:end]) for the run length end of an inner loop")
			continue
		}
		if lv := st.env[recvO]; lv == nil || lv.k != "slice" || lv.xs[0].key() != L.key() || lv.xs[1].key() != e.key() || lv.xs[2].name != "-" {
			miss = append(miss, "an iteration does not end with "+recvO.Name()+" = "+recvO.Name()+"[end:]")
		}
		for _, ev := range st.ev {
			if ev.kind == "loop" && ev.key == inner {
				if pre := ev.pre[endObj]; pre == nil || !pre.isConstInt(0) {
					miss = append(miss, "the run length does not start at 0")
				}
			}
		}
		// the run loop was left because the run ended
		inRange := st.truth(c11Bin(token.LSS, e, lenL))
		same := st.truth(c11Bin(token.EQL, c11Field(&c11V{k: "index", xs: []*c11V{L, e}}, pf), first))
		if inRange != c11F && same != c11F {
			miss = append(miss, "the run loop can be left although the next location has the same parent index (runs would not be maximal)")
		}
	}
	if e != nil {
		for _, p := range paths {
			st := p.st
			if p.ctl != c11Back || p.loopKey != inner {
				continue
			}
			nInner++
			if st.truth(c11Bin(token.LSS, e, lenL)) != c11T {
				miss = append(miss, "the run is extended without having decided end < len("+recvO.Name()+")")
			}
			if st.truth(c11Bin(token.EQL, c11Field(&c11V{k: "index", xs: []*c11V{L, e}}, pf), first)) != c11T {
				miss = append(miss, "the run is extended without having decided "+recvO.Name()+"[end]."+pf.Name()+" == "+recvO.Name()+"[0]."+pf.Name())
			}
			if v := st.env[endObj]; v == nil || v.key() != c11Bin(token.ADD, e, c11Int(1)).key() {
				miss = append(miss, "the run length is not advanced by exactly one")
			}
		}
	}
	switch {
	case nOuter == 0:
		return false, "no iteration of the loop accumulating the result completes"
	case len(miss) > 0:
		return false, strings.Join(c11Uniq(miss), "; ")
	case nInner == 0:
		return false, "the run loop never completes an iteration"
	default:
		return true, "each group is L[:end] with end started at 0 and advanced by one only after deciding end < len(L) && L[end]." + pf.Name() + " == L[0]." + pf.Name() + "; the run loop is left only when that fails; the run is appended and cut off while len(L) > 0"
	}
}
