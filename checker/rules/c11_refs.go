package rules

import (
	"go/token"
	"go/types"
	"strconv"
	"strings"

	"osmcheck/core"
)

// c11A5Refs: Refs() and SetChild of every Parent implementation address the same member list at the same positions.
func c11A5Refs(r *core.R) {
	apk := r.P.Pkg("annotate")
	impls := c11ParentImpls(r.P)
	if apk == nil || len(impls) == 0 {
		r.Anchor("types of package annotate implementing core.Parent")
		return
	}
	info := apk.TypesInfo
	self := c11Sym("receiver", nil)
	for _, nt := range impls {
		tn := nt.Obj().Name()
		rf, sf := findFunc(apk, tn+".Refs"), findFunc(apk, tn+".SetChild")
		if rf == nil || sf == nil || rf.Decl.Body == nil || sf.Decl.Body == nil {
			r.Anchor(tn + ".Refs / SetChild")
			continue
		}
		c := "refs@" + rf.Name()
		sRecv, rRecv := c11RecvObj(info, sf.Decl), c11RecvObj(info, rf.Decl)
		if sRecv == nil || rRecv == nil {
			r.Unknown(c, rf.Decl.Pos(), "unnamed receivers")
			continue
		}
		// the list SetChild writes into
		its := c11NewInterp(apk)
		var setList *c11V
		for _, p := range c11AllPaths(its, sf, map[types.Object]*c11V{sRecv: self}) {
			for _, ev := range p.st.ev {
				if ev.kind == "store" && ev.lhs.k == "field" && ev.lhs.xs[0].k == "index" && c11FieldOwnedBy(r.P, ev.lhs.obj.(*types.Var), "WayNode", "Member") != nil {
					setList = ev.lhs.xs[0].xs[0]
				}
			}
		}
		itr := c11NewInterp(apk)
		paths := c11AllPaths(itr, rf, map[types.Object]*c11V{rRecv: self})
		if notes := c11PathNotes(itr, paths); len(notes) > 0 || setList == nil {
			r.Unknown(c, rf.Decl.Pos(), "Refs / SetChild of %s could not be followed (%s); accepted: Refs fills ids[i] = <members>[i].FeatureID(), annotated[i] = <members>[i].Version != 0 and returns them; SetChild writes <members>[idx].F", tn, strings.Join(notes, "; "))
			continue
		}
		lenL := &c11V{k: "call", name: "len", xs: []*c11V{setList}}
		var ids, ann *c11V
		var bad []string
		for _, p := range paths {
			if p.ctl != c11Return {
				continue
			}
			if len(p.res) != 2 {
				bad = append(bad, "Refs does not return two values")
				continue
			}
			for n, v := range p.res {
				_, appended := c11IsLoopSym(v)
				if !appended && !(v.k == "call" && strings.HasPrefix(v.name, "make@") && len(v.xs) >= 1 && v.xs[0].key() == lenL.key()) {
					bad = append(bad, "result "+strconv.Itoa(n)+" of Refs is neither a slice made with len(<the list SetChild indexes>) nor a list appended to once per element of it: positions reported to Compute and positions annotated would differ")
				}
			}
			ids, ann = p.res[0], p.res[1]
		}
		// slot: what an iteration puts at its position of result v, and that position. Indexed results:
		// v[pos] = x for the position pos of the loop; appended results: v = append(v, x), from an empty list.
		slot := func(p c11Out, v *c11V) (x, pos *c11V) {
			if lk, ok := c11IsLoopSym(v); ok {
				if lk != p.loopKey {
					return nil, nil
				}
				end := p.st.env[v.obj]
				if end == nil || end.k != "call" || end.name != "append" || len(end.xs) != 2 || end.xs[0].key() != v.key() {
					return nil, nil
				}
				for _, ev := range p.st.ev {
					if ev.kind == "loop" && ev.key == lk {
						if pre := ev.pre[v.obj]; pre == nil || !(pre.k == "nil" || (pre.k == "call" && strings.HasPrefix(pre.name, "make@") && len(pre.xs) >= 1 && pre.xs[0].isConstInt(0))) {
							return nil, nil
						}
					}
				}
				// the position is the one of the element the value is taken from
				var at *c11V
				end.xs[1].walk(func(t *c11V) {
					if t.k == "index" && t.xs[0].key() == setList.key() {
						at = t.xs[1]
					}
				})
				return end.xs[1], at
			}
			for _, ev := range p.st.ev {
				if ev.kind == "store" && ev.lhs.k == "index" && ev.lhs.xs[0].key() == v.key() {
					return ev.rhs, ev.lhs.xs[1]
				}
			}
			return nil, nil
		}
		nIter := 0
		fills := map[string]bool{} // the loops that fill the results: every one of their iterations must
		if ids != nil && ann != nil {
			for _, p := range paths {
				if p.ctl == c11Back {
					if a, _ := slot(p, ids); a != nil {
						fills[p.loopKey] = true
					}
					if a, _ := slot(p, ann); a != nil {
						fills[p.loopKey] = true
					}
				}
			}
		}
		if ids != nil && ann != nil && len(bad) == 0 {
			for _, p := range paths {
				if p.ctl != c11Back {
					continue
				}
				idv, idPos := slot(p, ids)
				anv, anPos := slot(p, ann)
				if idv == nil && anv == nil && !fills[p.loopKey] {
					continue // another loop
				}
				nIter++
				okIDs, okAnn := false, false
				if idv != nil && idPos != nil {
					if lk, ok := c11IsPosition(paths, p.st, idPos, lenL); ok && lk == p.loopKey {
						elem := &c11V{k: "index", xs: []*c11V{setList, idPos}}
						if v := idv; v.k == "call" && v.recv && v.fn != nil && v.fn.Name() == "FeatureID" && len(v.xs) == 1 {
							// <elem>.FeatureID(), or the feature id of the element's own ID field (what WayNode.FeatureID returns)
							rv := c11StripPtr(v.xs[0])
							if rv.key() == elem.key() || (rv.k == "field" && rv.obj.Name() == "ID" && c11StripPtr(rv.xs[0]).key() == elem.key()) {
								okIDs = true
							}
						}
					}
				}
				if anv != nil && anPos != nil {
					if lk, ok := c11IsPosition(paths, p.st, anPos, lenL); ok && lk == p.loopKey {
						elem := &c11V{k: "index", xs: []*c11V{setList, anPos}}
						if v := anv; v.k == "not" && v.xs[0].k == "bin" && v.xs[0].op == token.EQL {
							a, b := v.xs[0].xs[0], v.xs[0].xs[1]
							if a.isConstInt(0) {
								a, b = b, a
							}
							if b.isConstInt(0) && a.k == "field" && a.obj.Name() == "Version" && c11StripPtr(a.xs[0]).key() == elem.key() {
								okAnn = true
							}
						}
					}
				}
				if !okIDs {
					bad = append(bad, "an iteration does not put <members>[i].FeatureID() at position i of the ids: the history fetched for position i would belong to another child than the one SetChild(i, …) annotates")
				}
				if !okAnn {
					bad = append(bad, "an iteration does not put `<members>[i].Version != 0` at position i of the annotated flags: the ChildFilter could suppress the annotation of a child that has none yet")
				}
			}
			if nIter == 0 {
				bad = append(bad, "no loop fills ids[i] / annotated[i] from the element at position i of the list SetChild indexes")
			}
		}
		if len(bad) > 0 {
			r.Bad(c, rf.Decl.Pos(), "%s", strings.Join(c11Uniq(bad), "; "))
		} else {
			r.OK(c, rf.Decl.Pos(), "both results have one slot per element of L (made with len(L) and indexed, or appended to once per iteration from empty) and every iteration i puts L[i].FeatureID() / L[i].Version != 0 at position i, for L = %s, the list SetChild writes at L[idx]: same list, same positions", strings.ReplaceAll(setList.key(), "$receiver", "<receiver>"))
		}
	}
}
