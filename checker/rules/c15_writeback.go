package rules

import (
	"go/ast"
	"go/token"
	"go/types"
)

// Element write-back forms. The children of a way / relation are updated through one of
//
//	recv.children[u.Index].F = u.F                          field store through the index
//	p := &recv.children[u.Index]; p.F = u.F                 field store through an element pointer (alias, c15_path.go)
//	n := recv.children[u.Index]; n.F = u.F; recv.children[u.Index] = n
//	                                                        copy, modify, store the whole element back
//
// The third form is recognised here: the local must start as a copy of the very element that is stored back (so the
// fields that are not updated keep their value), and the field assignments to the local count as child writes only
// if they come before the store and the store cannot be skipped.

// c15WriteBack is `recv.children[u.Index] = n` for a local n that was initialised from the same element.
type c15WriteBack struct {
	store *ast.AssignStmt
	local types.Object
	elem  *c15Path // recv.children[u.Index]
	cont  *c15Path
	upd   *c15Path
}

// writeBacks finds the whole-element write-backs in env.fn, keyed by the local that is stored.
func (w *c15World) writeBacks(rt *c15Root, env *c15Env, target string) map[types.Object]*c15WriteBack {
	out := map[types.Object]*c15WriteBack{}
	inspectNoLit(env.fn.fi.Decl.Body, func(n ast.Node) bool {
		as, ok := n.(*ast.AssignStmt)
		if !ok || as.Tok != token.ASSIGN || len(as.Lhs) != len(as.Rhs) {
			return true
		}
		for i, l := range as.Lhs {
			t := w.info.TypeOf(l)
			if t == nil || namedPath(t) != target {
				continue
			}
			if _, isPtr := t.(*types.Pointer); isPtr {
				continue
			}
			lp := w.pathOf(env, l, true)
			if lp == nil || len(lp.steps) != 2 || lp.last().idx == nil || !c15IsUpdateIndexPath(lp.last().idx) || !rt.f.isInput(lp.root) {
				continue
			}
			id, ok := ast.Unparen(as.Rhs[i]).(*ast.Ident)
			if !ok {
				continue
			}
			ob := objOf(w.info, id)
			d := env.fn.singleDef(ob)
			if d == nil {
				continue
			}
			// the local is a by-value copy of the element that is stored back
			if _, isAddr := ast.Unparen(d).(*ast.UnaryExpr); isAddr {
				continue
			}
			if dp := w.pathOf(env, d, false); dp == nil || !dp.eq(lp) {
				continue
			}
			out[ob] = &c15WriteBack{store: as, local: ob, elem: lp, cont: lp.prefix(1), upd: lp.last().idx.prefix(1)}
		}
		return true
	})
	return out
}

// writeBackDefect checks, for a field assignment to the local of a write-back, that the assignment comes before the
// store and that the store is on every success path of an in-range in-time update.
func (w *c15World) writeBackDefect(rt *c15Root, cw c15ChildWrite) string {
	wb := cw.via
	f := cw.env.fn
	P := w.r.P
	// every path from the assignment reaches the store, and no path leads from the store to the assignment
	late := false
	_, ab, ai := f.nodeAt(cw.stmt.Pos())
	_, sb, si := f.nodeAt(wb.store.Pos())
	if ab == nil || sb == nil {
		late = true
	} else {
		isStore := func(n ast.Node) bool { return n == ast.Node(wb.store) }
		wk := w.walk(ab, ai+1, c15WalkOpt{env: cw.env, barrier: isStore})
		late = len(wk.returns) > 0 || wk.implicit || w.walk(sb, si+1, c15WalkOpt{env: cw.env}).visited[cw.stmt]
	}
	if late {
		return "`" + src(P.Fset, cw.stmt) + "` changes the local copy but does not come before `" + src(P.Fset, wb.store) + "` (" + P.Rel(wb.store.Pos()) + ") on every path: the element stored back does not carry it"
	}
	if why := w.skippable(rt, cw.env, wb.store, 0); why != "" {
		return "the copy is modified but `" + src(P.Fset, wb.store) + "`, which stores it back, is conditional: " + why
	}
	return ""
}
