package rules

import (
	"go/types"
	"strings"
)

// stringsPosCall: strings.Index / IndexByte / IndexRune / LastIndex / LastIndexByte / HasPrefix / HasSuffix /
// TrimPrefix / TrimSuffix on symbolic texts (see c10_interp_pos.go for the position model).
func (ev *c10Eval) stringsPosCall(fn *types.Func, args []c10Val) (c10Val, bool) {
	if len(args) != 2 {
		return c10Val{}, false
	}
	ps, ok := c10Pieces(args[0])
	if !ok {
		return c10Val{}, false
	}
	sep := ""
	switch {
	case args[1].K == c10VStr:
		sep = args[1].S
	case args[1].K == c10VInt: // a byte or rune constant
		c, isConst := args[1].V.signedConst()
		if !isConst || c <= 0 || c > 127 {
			return c10Val{}, false
		}
		sep = string(rune(c))
	default:
		return c10Val{}, false
	}
	switch fn.Name() {
	case "Index", "IndexByte", "IndexRune":
		return ev.textIndex(ps, sep, false)
	case "LastIndex", "LastIndexByte":
		return ev.textIndex(ps, sep, true)
	case "HasPrefix", "TrimPrefix", "HasSuffix", "TrimSuffix":
		if args[1].K != c10VStr || c10IsGeneric(sep) {
			return c10Val{}, false
		}
		suffix := strings.HasSuffix(fn.Name(), "Suffix")
		has, decided := c10TextHasAffix(ps, sep, suffix)
		if !decided {
			return c10Val{}, false
		}
		if strings.HasPrefix(fn.Name(), "Has") {
			return c10BoolVal(has), true
		}
		if !has || sep == "" {
			return args[0], true
		}
		rest := append([]c10Piece{}, ps...)
		if suffix {
			last := rest[len(rest)-1]
			rest[len(rest)-1] = c10Piece{Lit: strings.TrimSuffix(last.Lit, sep)}
		} else {
			rest[0] = c10Piece{Lit: strings.TrimPrefix(rest[0].Lit, sep)}
		}
		return c10MkText(rest), true
	}
	return c10Val{}, false
}

// c10TextHasAffix decides strings.HasPrefix / HasSuffix when the affix lies inside one plain literal piece, or
// cannot match because it would have to spell a non-digit where the text has a number.
func c10TextHasAffix(ps []c10Piece, affix string, suffix bool) (has, decided bool) {
	if affix == "" {
		return true, true
	}
	if len(ps) == 0 {
		return false, true
	}
	edge := ps[0]
	if suffix {
		edge = ps[len(ps)-1]
	}
	switch {
	case edge.Num != nil:
		c := affix[0]
		if suffix {
			c = affix[len(affix)-1]
		}
		if (c < '0' || c > '9') && !(c == '-' && !suffix && !edge.Num.nonNegative()) {
			return false, true
		}
		return false, false
	case c10IsGeneric(edge.Lit):
		return false, false
	case len(edge.Lit) >= len(affix) || len(ps) == 1:
		if suffix {
			return strings.HasSuffix(edge.Lit, affix), true
		}
		return strings.HasPrefix(edge.Lit, affix), true
	}
	// the literal edge is shorter than the affix: it must at least agree on the overlap
	if suffix && !strings.HasSuffix(affix, edge.Lit) || !suffix && !strings.HasPrefix(affix, edge.Lit) {
		return false, true
	}
	return false, false
}
