package rules

import "osmcheck/core"

// Round 5: the table reaches the package variable as a VALUE (a helper decodes into a local, sorts it and
// returns it; the table is assigned from that result in init, in its declaration, or from a local of init)
// instead of being the target of json.Unmarshal. Variants that must stay silent, and defects in those shapes.

const c18SrcInitToTable = c18SrcInit + "\nvar polyConditions []polyCondition\n"

// init assigns the result of a helper that decodes into a local, sorts it (range-value copies share the
// backing arrays) and returns it.
const c18ShapeHelperReturnsTable = `func init() {
	polyConditions = loadPolygonFeatures(polygonJSON)
}

func loadPolygonFeatures(raw []byte) []polyCondition {
	var features []polyCondition
	if err := json.Unmarshal(raw, &features); err != nil {
		// This must be valid json
		panic(err)
	}

	for _, f := range features {
		sort.Strings(f.Values)
	}

	return features
}
`

// the table is initialised in its declaration; the helper has a named result and bare returns.
const c18ShapeDeclCall = `var polyConditions = loadPolygonFeatures(polygonJSON)

func loadPolygonFeatures(raw []byte) (features []polyCondition) {
	err := json.Unmarshal(raw, &features)
	if err != nil {
		// This must be valid json
		panic(err)
	}

	for i := 0; i < len(features); i++ {
		sort.StringSlice(features[i].Values).Sort()
	}

	return
}
`

// init decodes into a local, sorts it through a helper taking the slice, then copies the header to the table.
const c18ShapeLocalThenCopy = `func init() {
	var decoded []polyCondition
	err := json.Unmarshal(polygonJSON, &decoded)
	if err != nil {
		// This must be valid json
		panic(err)
	}

	sortAllValues(decoded)
	polyConditions = decoded
}

func sortAllValues(list []polyCondition) {
	for i := range list {
		sort.Strings(list[i].Values)
	}
}
`

func c18Round5Benign() []core.Mutant {
	f := "polygon.go"
	return []core.Mutant{
		{Name: "init-assigns-helper-result", File: f, Find: c18SrcInit, Replace: c18ShapeHelperReturnsTable},
		{Name: "table-declared-with-helper-call", File: f, Find: c18SrcInitToTable, Replace: c18ShapeDeclCall},
		{Name: "init-decodes-local-then-copies", File: f, Find: c18SrcInit, Replace: c18ShapeLocalThenCopy},
	}
}

func c18Round5Mutants() []core.Mutant {
	return []core.Mutant{
		c18Seed("result-helper-forgets-sort", c18SrcInit, c18ShapeHelperReturnsTable, "\tfor _, f := range features {\n\t\tsort.Strings(f.Values)\n\t}\n\n", "", "L2", "sorted@"),
		c18Seed("result-helper-sorts-copy-returns-raw", c18SrcInit, c18ShapeHelperReturnsTable, "\tfor _, f := range features {\n\t\tsort.Strings(f.Values)\n\t}\n",
			"\tsorted := make([]polyCondition, len(features))\n\tfor i := range sorted {\n\t\tsorted[i] = features[i]\n\t\tsorted[i].Values = append([]string(nil), features[i].Values...)\n\t\tsort.Strings(sorted[i].Values)\n\t}\n", "L2", "sorted@"),
		c18Seed("result-helper-sorts-field-of-copy", c18SrcInit, c18ShapeHelperReturnsTable, "\t\tsort.Strings(f.Values)\n", "\t\tf.Values = append([]string(nil), f.Values...)\n\t\tsort.Strings(f.Values)\n", "L2", "sorted@"),
		c18Seed("init-assigns-twice", c18SrcInit, c18ShapeHelperReturnsTable, "\tpolyConditions = loadPolygonFeatures(polygonJSON)\n", "\tpolyConditions = loadPolygonFeatures(polygonJSON)\n\tpolyConditions = append([]polyCondition(nil), polyConditions[1:]...)\n", "L2", "sorted@"),
		c18Seed("result-helper-early-return", c18SrcInit, c18ShapeHelperReturnsTable, "\tfor _, f := range features {\n", "\tif len(features) > 16 {\n\t\treturn features\n\t}\n\n\tfor _, f := range features {\n", "L2", "sorted@"),
		c18Seed("decl-helper-index-loop-from-1", c18SrcInitToTable, c18ShapeDeclCall, "for i := 0; i < len(features); i++ {", "for i := 1; i < len(features); i++ {", "L2", "sorted@"),
		c18Seed("decl-helper-returns-fresh-slice", c18SrcInitToTable, c18ShapeDeclCall, "\treturn\n}", "\treturn append([]polyCondition(nil), features[:len(features)-1]...)\n}", "L2", "sorted@"),
		c18Seed("local-copy-helper-sorts-some", c18SrcInit, c18ShapeLocalThenCopy, "\t\tsort.Strings(list[i].Values)\n", "\t\tif len(list[i].Values) > 4 {\n\t\t\tcontinue\n\t\t}\n\t\tsort.Strings(list[i].Values)\n", "L2", "sorted@"),
		c18Seed("local-copy-assigns-other-slice", c18SrcInit, c18ShapeLocalThenCopy, "\tsortAllValues(decoded)\n\tpolyConditions = decoded\n", "\traw := append([]polyCondition(nil), decoded...)\n\tfor i := range raw {\n\t\traw[i].Values = append([]string(nil), raw[i].Values...)\n\t}\n\tsortAllValues(decoded)\n\tpolyConditions = raw\n", "L2", "sorted@"),
		c18Seed("table-reassigned-after-init", c18SrcInit, c18ShapeHelperReturnsTable, "func loadPolygonFeatures(raw []byte) []polyCondition {", "// ResetPolygonFeatures reloads the table.\nfunc ResetPolygonFeatures(raw []byte) {\n\tvar features []polyCondition\n\tif json.Unmarshal(raw, &features) == nil {\n\t\tpolyConditions = features\n\t}\n}\n\nfunc loadPolygonFeatures(raw []byte) []polyCondition {", "L2", ""),
	}
}
