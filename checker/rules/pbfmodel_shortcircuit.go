package rules

import (
	"go/ast"
	"go/token"
)

// go/cfg keeps a branch condition as ONE node: `a() || b()` is not split into blocks. When an operand that is only
// evaluated conditionally contains a call, executing all the calls of the node in textual order would run b() on the
// paths where a() was true. Such conditions are therefore evaluated here with short-circuit semantics: the operands
// are executed left to right, each one is followed by its own edge (so the Edge hook of a rule sees `a()` false
// before the calls of b() are entered), and the paths are handed to the true / false successor of the block.

// pbfHasCall reports whether e contains a call (outside function literals).
func pbfHasCall(e ast.Expr) bool {
	found := false
	ast.Inspect(e, func(n ast.Node) bool {
		switch n.(type) {
		case *ast.FuncLit:
			return false
		case *ast.CallExpr:
			found = true
		}
		return !found
	})
	return found
}

// pbfNeedsShortCircuit: e has an && / || (under parentheses and negations) whose right operand contains a call.
func pbfNeedsShortCircuit(e ast.Expr) bool {
	switch x := ast.Unparen(e).(type) {
	case *ast.UnaryExpr:
		return x.Op == token.NOT && pbfNeedsShortCircuit(x.X)
	case *ast.BinaryExpr:
		if x.Op == token.LAND || x.Op == token.LOR {
			return pbfHasCall(x.Y) || pbfNeedsShortCircuit(x.X)
		}
	}
	return false
}

// condEdge applies `cond == val` to one path: values already known on the path, the rule's Edge hook, and what the
// edge says about the results of inlined helpers.
func (t *pbfTracer) condEdge(p pbfPath, cond ast.Expr, val bool, fi *FuncInfo, calls []*ast.CallExpr) (pbfPath, bool) {
	m := t.v
	v := evalTri(cond, func(a ast.Expr) tri { return pbfKnownAtom(m.info, p, a) })
	if (val && v == triF) || (!val && v == triT) {
		return p, false
	}
	if t.Edge == nil {
		return p, true
	}
	s, ok := t.edge(calls, p.st, cond, val, fi)
	if ok && len(p.exprs) > 0 {
		var facts []guardFact
		splitFacts(cond, val, nil, &facts)
		for _, ft := range facts {
			var key interface{}
			switch x := ast.Unparen(ft.expr).(type) {
			case *ast.CallExpr:
				key = x
			case *ast.Ident:
				if o := objOf(m.info, x); o != nil {
					key = o
				}
			}
			if re, found := p.exprs[key]; found && key != nil && ok {
				s, ok = t.edge(calls, s, re.e, ft.val, re.fi)
			}
		}
	}
	if !ok || s == pbfDead {
		return p, false
	}
	p.st = s
	return p, true
}

// evalCond executes condition e on the given paths and returns the paths on which it is true and those on which it
// is false.
func (t *pbfTracer) evalCond(paths []pbfPath, e ast.Expr, mk func(string, ast.Node) *pbfEvent, fi *FuncInfo, depth int, calls []*ast.CallExpr) (tp, fp []pbfPath) {
	switch x := ast.Unparen(e).(type) {
	case *ast.UnaryExpr:
		if x.Op == token.NOT {
			f, tr := t.evalCond(paths, x.X, mk, fi, depth, calls)
			return tr, f
		}
	case *ast.BinaryExpr:
		switch x.Op {
		case token.LOR:
			ta, fa := t.evalCond(paths, x.X, mk, fi, depth, calls)
			tb, fb := t.evalCond(fa, x.Y, mk, fi, depth, calls)
			return pbfDedup(append(ta, tb...)), fb
		case token.LAND:
			ta, fa := t.evalCond(paths, x.X, mk, fi, depth, calls)
			tb, fb := t.evalCond(ta, x.Y, mk, fi, depth, calls)
			return tb, pbfDedup(append(fa, fb...))
		}
	}
	// a leaf: its calls, then its own edge both ways
	var after []pbfPath
	for _, p := range paths {
		after = append(after, t.execNode(p, e, mk, fi, depth, calls)...)
	}
	for _, p := range pbfDedup(after) {
		if q, ok := t.condEdge(p, e, true, fi, calls); ok {
			tp = append(tp, q)
		}
		if q, ok := t.condEdge(p, e, false, fi, calls); ok {
			fp = append(fp, q)
		}
	}
	return pbfDedup(tp), pbfDedup(fp)
}
