package rules

import (
	"go/ast"
	"go/token"
	"go/types"

	"golang.org/x/tools/go/cfg"

	"osmcheck/core"
)

// G5: one feature per element.
//
// Roles, not names: a *feature emission* is an `append` whose result is a []*geojson.Feature (assigned, returned or passed on), a composite literal of
// that type with elements, a call of (*geojson.FeatureCollection).Append, or a call of a function of the package
// that (transitively) emits. An *element pass* is a `range` over a value of type osm.Relations / osm.Ways /
// osm.Nodes that contains emissions. Starting from the exported Convert and following emitting helpers:
//   - every emission lies in exactly one element pass (none outside, no pass nested in a loop, no pass run twice);
//   - along every CFG path through one iteration of a pass at most one feature is emitted (a helper called in the
//     iteration counts with the maximum it can emit per call; emissions inside inner loops are unbounded);
//   - in the ways pass every emission is controlled by the fact "the way's ID is not in the skippable set"
//     (comma-ok lookup in the context field of type map[osm.WayID]struct{}, directly, through a boolean local or
//     through a lookup helper; whatever the branch shape);
//   - the relation pass is complete before the ways pass starts and Convert writes the skippable set only there;
//   - every value emitted is known not to be nil where it is emitted (c17_g5_nonnil.go).
// The loops may live in Convert or in helpers, bodies may be extracted, `if`/`switch`/if-init forms are equivalent.

const c17FCPath = "github.com/paulmach/orb/geojson.FeatureCollection"

func c17IsFeatureList(t types.Type) bool {
	if t == nil {
		return false
	}
	sl, ok := t.Underlying().(*types.Slice)
	if !ok {
		return false
	}
	pt, ok := sl.Elem().(*types.Pointer)
	return ok && namedPath(pt.Elem()) == c17FeaturePath
}

type c17Site struct {
	fn     *c17Fn
	node   ast.Node
	weight int // features emitted by the node itself; -1 = unbounded (helper calls: resolved through perCall)
	callee *c17Fn
	call   *ast.CallExpr
	inLit  bool
}

type c17Pass struct {
	kind   string
	fn     *c17Fn
	loop   *ast.RangeStmt
	sites  []c17Site
	anchor ast.Node // the statement of Convert the pass runs in (the loop itself or the call leading to it)
}

type c17G5An struct {
	r        *core.R
	o        *c17Opt
	a        *c17Pkg
	sites    map[*c17Fn][]c17Site
	emitMemo map[*c17Fn]int
	wMemo    map[*c17Fn]int
	wBusy    map[*c17Fn]bool
	passes   map[string]*c17Pass
	visits   map[*c17Fn]int
	closures map[*ast.FuncLit]*c17Fn // local closures bound once to a variable, as functions of their own
	nbad     int
}

var c17ElementKinds = map[string]string{core.ModulePath + ".Relations": "relations", core.ModulePath + ".Ways": "ways", core.ModulePath + ".Nodes": "nodes"}

func (an *c17G5An) elementKind(rs *ast.RangeStmt) string {
	return c17ElementKinds[namedPath(an.a.info.TypeOf(rs.X))]
}

// directSites lists the emissions written in fn itself and the calls of package functions (filtered later).
func (an *c17G5An) sitesOf(fn *c17Fn) []c17Site {
	if s, ok := an.sites[fn]; ok {
		return s
	}
	an.sites[fn] = nil
	info, fset := an.a.info, an.a.fset
	var out []c17Site
	litDepth := 0
	var walk func(n ast.Node) bool
	walk = func(n ast.Node) bool {
		switch x := n.(type) {
		case *ast.FuncLit:
			if an.closureOf(fn, x) != nil {
				return false // a local closure bound once to a variable: analysed as a function of its own at its calls
			}
			litDepth++
			ast.Inspect(x.Body, walk)
			litDepth--
			return false
		case *ast.AssignStmt:
			for i, l := range x.Lhs {
				if !c17IsFeatureList(info.TypeOf(l)) || len(x.Rhs) != len(x.Lhs) {
					continue
				}
				rhs := ast.Unparen(x.Rhs[i])
				switch y := rhs.(type) {
				case *ast.CallExpr:
					if b := builtinName(info, y); b == "append" || b == "make" {
						continue // appends are emission sites wherever their result goes (see below)
					}
					if f := callee(info, y); f != nil && an.a.fns[f] != nil {
						continue // counted as a helper call below
					}
					an.nbad++
					an.r.Unknown("featurelist@Convert", x.Pos(), "`%s` takes the feature list from a call the rule does not know", src(fset, x))
				case *ast.CompositeLit, *ast.Ident, *ast.SelectorExpr:
					// a literal (its elements are emission sites, see below), nil, or a transfer between two holders
					// of the list (fc.Features = features)
				default:
					an.nbad++
					an.r.Bad("featurelist@Convert", x.Pos(), "`%s`: the feature list is reassigned by something other than an append, an emitting helper or a transfer; features could be dropped or duplicated", src(fset, x))
				}
			}
		case *ast.CompositeLit:
			if c17IsFeatureList(info.TypeOf(x)) && len(x.Elts) > 0 {
				out = append(out, c17Site{fn: fn, node: x, weight: len(x.Elts), inLit: litDepth > 0})
			}
		case *ast.CallExpr:
			if builtinName(info, x) == "append" && c17IsFeatureList(info.TypeOf(x)) {
				// assigned, returned or passed on: the features appended are emitted
				w := len(x.Args) - 1
				if x.Ellipsis.IsValid() {
					// `append(a, b...)` moves the features of another list: they were counted where b was built (every
					// append to a feature list is a site, and an emitting helper call is a site of its own). Spreading
					// the list into itself duplicates it.
					w = len(x.Args) - 2
					last := ast.Unparen(x.Args[len(x.Args)-1])
					if ro := rootObj(info, last); ro != nil && ro == rootObj(info, x.Args[0]) {
						w = -1
					} else if c, isCall := last.(*ast.CallExpr); isCall {
						if f := callee(info, c); f == nil || an.a.fns[f] == nil {
							w = -1
						}
					} else if ro == nil {
						w = -1
					}
				}
				out = append(out, c17Site{fn: fn, node: x, weight: w, inLit: litDepth > 0})
				return true
			}
			if id, isID := ast.Unparen(x.Fun).(*ast.Ident); isID && litDepth == 0 {
				if h := an.closureVar(fn, objOf(info, id)); h != nil {
					out = append(out, c17Site{fn: fn, node: x, callee: h, call: x})
					return true
				}
			}
			f := callee(info, x)
			if f == nil {
				return true
			}
			if isMethod(f, c17FCPath, "Append") {
				out = append(out, c17Site{fn: fn, node: x, weight: 1, inLit: litDepth > 0})
				return true
			}
			if h := an.a.fns[f]; h != nil {
				out = append(out, c17Site{fn: fn, node: x, callee: h, call: x, inLit: litDepth > 0})
			}
		}
		return true
	}
	ast.Inspect(fn.Decl.Body, walk)
	an.sites[fn] = out
	return out
}

// emits: fn (transitively) emits features.
func (an *c17G5An) emits(fn *c17Fn) bool {
	if v, ok := an.emitMemo[fn]; ok {
		return v > 0
	}
	an.emitMemo[fn] = -1
	res := false
	for _, s := range an.sitesOf(fn) {
		if s.callee == nil || an.emits(s.callee) {
			res = true
		}
	}
	if res {
		an.emitMemo[fn] = 1
	}
	return res
}

// emitting sites of fn (helper calls only when the helper emits).
func (an *c17G5An) emitSites(fn *c17Fn) []c17Site {
	var out []c17Site
	for _, s := range an.sitesOf(fn) {
		if s.callee == nil || an.emits(s.callee) {
			out = append(out, s)
		}
	}
	return out
}

// loopsAround lists the loops of fn enclosing n, outermost first.
func (fn *c17Fn) loopsAround(n ast.Node) []ast.Node {
	var out []ast.Node
	par := fn.parents()
	for p := par[n]; p != nil; p = par[p] {
		switch p.(type) {
		case *ast.RangeStmt, *ast.ForStmt:
			out = append([]ast.Node{p}, out...)
		case *ast.FuncLit:
			return out // the loops around a function literal are not loops of its body
		}
	}
	return out
}

// siteWeight resolves the number of features a site can emit when executed once.
func (an *c17G5An) siteWeight(s c17Site) int {
	if s.inLit {
		return -1
	}
	if s.callee != nil {
		return an.perCall(s.callee)
	}
	return s.weight
}

// longest path (sum of block weights) from `from` to `to`/function exit; cycles carry no weight (checked by callers).
func c17Longest(from, to *cfg.Block, weight map[*cfg.Block]int) (int, int) {
	memo := map[*cfg.Block]int{}
	state := map[*cfg.Block]int{}
	var rec func(b *cfg.Block) int
	rec = func(b *cfg.Block) int {
		if b == to {
			return 0
		}
		if state[b] == 2 {
			return memo[b]
		}
		if state[b] == 1 {
			return 0
		}
		state[b] = 1
		best := 0
		for _, s := range b.Succs {
			if v := rec(s); v > best {
				best = v
			}
		}
		state[b] = 2
		memo[b] = best + weight[b]
		return memo[b]
	}
	if from == nil {
		return 0, 0
	}
	v := rec(from)
	return v, len(memo)
}

// perCall: the maximum number of features one call of fn emits (-1 = unbounded or fn runs an element pass itself).
func (an *c17G5An) perCall(fn *c17Fn) int {
	if v, ok := an.wMemo[fn]; ok {
		return v
	}
	if an.wBusy[fn] {
		return -1
	}
	an.wBusy[fn] = true
	defer func() { an.wBusy[fn] = false }()
	g := fn.graph()
	weight := map[*cfg.Block]int{}
	res := 0
	for _, s := range an.emitSites(fn) {
		w := an.siteWeight(s)
		if w == 0 {
			continue
		}
		b := fn.blockAt(s.node.Pos())
		if w < 0 || len(fn.loopsAround(s.node)) > 0 || b == nil {
			res = -1
			break
		}
		weight[b] += w
	}
	if res == 0 {
		res, _ = c17Longest(g.Blocks[0], nil, weight)
	}
	an.wMemo[fn] = res
	return res
}

func c17G5(r *core.R) {
	o := c17LoadOptions(r)
	if o == nil {
		return
	}
	root := findFunc(o.pk, "Convert")
	if root == nil {
		r.Anchor("osmgeojson.Convert")
		return
	}
	if o.skip == nil {
		r.Anchor("context field of type map[osm.WayID]struct{} (skippable ways)")
		return
	}
	an := &c17G5An{r: r, o: o, a: c17NewPkg(r.P, o.pk), sites: map[*c17Fn][]c17Site{}, emitMemo: map[*c17Fn]int{}, wMemo: map[*c17Fn]int{},
		wBusy: map[*c17Fn]bool{}, passes: map[string]*c17Pass{}, visits: map[*c17Fn]int{}}
	conv := an.a.fns[root.Obj]
	if !an.emits(conv) {
		r.Anchor("feature emissions (append to a []*geojson.Feature / FeatureCollection.Append) reachable from Convert")
		return
	}
	an.visit(conv, nil)
	fset := an.a.fset
	for _, k := range []string{"relations", "ways", "nodes"} {
		c := "loop@Convert " + k
		p := an.passes[k]
		if p == nil {
			r.Bad(c, root.Decl.Pos(), "no loop over the input %s emits features", k)
			continue
		}
		fn, loop := p.fn, p.loop
		g := fn.graph()
		var head, body *cfg.Block
		for _, b := range g.Blocks {
			if b.Kind == cfg.KindRangeLoop && b.Stmt == loop {
				head = b
			}
			if b.Kind == cfg.KindRangeBody && b.Stmt == loop {
				body = b
			}
		}
		if head == nil || body == nil {
			r.Unknown(c, loop.Pos(), "range loop not found in the control-flow graph")
			continue
		}
		weight := map[*cfg.Block]int{}
		unbounded := ""
		for _, s := range p.sites {
			w := an.siteWeight(s)
			if w == 0 {
				continue
			}
			b := fn.blockAt(s.node.Pos())
			loops := fn.loopsAround(s.node)
			switch {
			case w < 0:
				unbounded = "`" + src(fset, s.node) + "` emits an unbounded number of features (spread argument, helper with its own loop, or function literal)"
			case b == nil:
				unbounded = "`" + src(fset, s.node) + "` is not in the control-flow graph"
			case len(loops) > 1:
				unbounded = "`" + src(fset, s.node) + "` sits in an inner loop"
			default:
				weight[b] += w
			}
		}
		if unbounded != "" {
			r.Bad(c, loop.Pos(), "the %s loop can emit an unbounded number of features per element: %s", k, unbounded)
			continue
		}
		max, nblocks := c17Longest(body, head, weight)
		if max > 1 {
			r.Bad(c, loop.Pos(), "some path through one iteration of the %s loop emits %d features: an element must yield at most one feature", k, max)
			continue
		}
		r.OK(c, loop.Pos(), "every path through one iteration (%d block(s), %d emission site(s), helpers counted with their per-call maximum) emits at most %d feature", nblocks, len(p.sites), max)
		r.Stat("loop_body_blocks", nblocks)
		if k == "ways" {
			an.checkSkippable(p)
		}
	}
	an.checkOrder(conv)
	an.checkNonNil()
}

// visit walks the pass structure: fn runs outside any element pass.
func (an *c17G5An) visit(fn *c17Fn, anchor ast.Node) {
	r, fset := an.r, an.a.fset
	an.visits[fn]++
	if an.visits[fn] > 1 {
		r.Bad("featurelist@Convert", fn.Decl.Pos(), "%s, which emits features, runs more than once per conversion: an element can yield two features", fn.Name())
		return
	}
	for _, s := range an.emitSites(fn) {
		loops := fn.loopsAround(s.node)
		if s.inLit {
			r.Unknown("featurelist@Convert", s.node.Pos(), "`%s` emits features inside a function literal", src(fset, s.node))
			continue
		}
		if len(loops) == 0 {
			if s.callee == nil {
				if s.weight != 0 {
					r.Bad("featurelist@Convert", s.node.Pos(), "`%s` is outside any loop over input elements: a feature without an element", src(fset, s.node))
				}
				continue
			}
			a := anchor
			if a == nil {
				a = s.node
			}
			an.visit(s.callee, a)
			continue
		}
		rs, isRange := loops[0].(*ast.RangeStmt)
		kind := ""
		if isRange {
			kind = an.elementKind(rs)
		}
		if kind == "" {
			r.Bad("featurelist@Convert", s.node.Pos(), "`%s` sits in a loop over `%s`, which is not the input's Relations, Ways or Nodes", src(fset, s.node), src(fset, loops[0]))
			continue
		}
		p := an.passes[kind]
		if p != nil && p.loop != rs {
			r.Bad("loop@Convert "+kind, rs.Pos(), "two loops over the input %s emit features: an element can yield two features", kind)
			continue
		}
		if p == nil {
			a := anchor
			if a == nil {
				a = rs
			}
			p = &c17Pass{kind: kind, fn: fn, loop: rs, anchor: a}
			an.passes[kind] = p
		}
		p.sites = append(p.sites, s)
	}
}

// ---- skippable ways -----------------------------------------------------------------------------------------

// skipTest recognises an expression that is true (pol>0) or false (pol<0) exactly when a key is in the skippable
// set, and returns the key in the terms of fn.
func (an *c17G5An) skipTest(fn *c17Fn, e ast.Expr, depth int) (ast.Expr, int) {
	a, info := an.a, an.a.info
	e = ast.Unparen(e)
	switch x := e.(type) {
	case *ast.UnaryExpr:
		if x.Op == token.NOT {
			k, pol := an.skipTest(fn, x.X, depth)
			return k, -pol
		}
	case *ast.IndexExpr:
		// a set kept as map[osm.WayID]bool is tested by indexing
		if c17FieldOf(info, x.X) == an.o.skip && c17IsBool(info.TypeOf(x)) {
			return x.Index, 1
		}
	case *ast.Ident:
		o := objOf(info, x)
		if o == nil {
			return nil, 0
		}
		var key ast.Expr
		n := 0
		ast.Inspect(fn.Decl.Body, func(m ast.Node) bool {
			as, ok := m.(*ast.AssignStmt)
			if !ok {
				return true
			}
			for i, l := range as.Lhs {
				if objOf(info, l) != o {
					continue
				}
				n++
				if i == 1 && len(as.Lhs) == 2 && len(as.Rhs) == 1 {
					if ix, ok := ast.Unparen(as.Rhs[0]).(*ast.IndexExpr); ok && c17FieldOf(info, ix.X) == an.o.skip {
						key = ix.Index
					}
				}
			}
			return true
		})
		if n == 1 && key != nil {
			return key, 1
		}
		if depth < 3 && c17IsBool(o.Type()) {
			if init := a.singleInit(fn, o); init != nil {
				return an.skipTest(fn, init, depth+1)
			}
		}
	case *ast.CallExpr:
		if depth >= 3 {
			return nil, 0
		}
		f := c17Callee(info, x)
		h := a.fns[f]
		if h == nil || len(h.Decl.Body.List) == 0 {
			return nil, 0
		}
		list := h.Decl.Body.List
		ret, ok := list[len(list)-1].(*ast.ReturnStmt)
		if !ok || len(ret.Results) != 1 {
			return nil, 0
		}
		for _, st := range list[:len(list)-1] {
			switch st.(type) {
			case *ast.AssignStmt, *ast.DeclStmt:
			default:
				return nil, 0 // only straight-line lookup helpers
			}
		}
		k, pol := an.skipTest(h, ret.Results[0], depth+1)
		if k == nil {
			return nil, 0
		}
		k = a.resolve(h, k)
		m := map[types.Object]ast.Expr{}
		sig := f.Type().(*types.Signature)
		for i := 0; i < sig.Params().Len() && i < len(x.Args); i++ {
			m[sig.Params().At(i)] = x.Args[i]
		}
		return c17Subst(info, k, m), pol
	}
	return nil, 0
}

// keyIsElemID: key denotes `<elem>.ID` for one of the element variables.
func (an *c17G5An) keyIsElemID(fn *c17Fn, key ast.Expr, elems map[types.Object]bool) bool {
	a, info := an.a, an.a.info
	key = stripDerefParen(a.resolve(fn, stripDerefParen(key)))
	sel, ok := key.(*ast.SelectorExpr)
	if !ok {
		return false
	}
	f := c17FieldOf(info, sel)
	if f == nil || f.Name() != "ID" || namedPath(f.Type()) != core.ModulePath+".WayID" {
		return false
	}
	x := stripDerefParen(a.resolveAlias(fn, sel.X))
	id, ok := x.(*ast.Ident)
	return ok && elems[objOf(info, id)]
}

// guardedAt: the facts controlling block b include "elem.ID is not in the skippable set".
func (an *c17G5An) guardedAt(fn *c17Fn, b *cfg.Block, elems map[types.Object]bool) *guardFact {
	facts := fn.factsAt(b)
	for i := range facts {
		ft := &facts[i]
		key, pol := an.skipTest(fn, ft.expr, 0)
		if key == nil || pol == 0 {
			continue
		}
		if (pol > 0) == ft.val {
			continue // known to be IN the set
		}
		if an.keyIsElemID(fn, key, elems) {
			return ft
		}
	}
	return nil
}

// siteSkipGuarded: emission site s (in fn, element variables elems) cannot emit for a skippable way.
func (an *c17G5An) siteSkipGuarded(fn *c17Fn, s c17Site, elems map[types.Object]bool, depth int) (bool, string) {
	info, fset := an.a.info, an.a.fset
	b := fn.blockAt(s.node.Pos())
	if b == nil {
		return false, "`" + src(fset, s.node) + "` is not in the control-flow graph"
	}
	if ft := an.guardedAt(fn, b, elems); ft != nil {
		return true, "`" + src(fset, ft.expr) + "` is " + map[bool]string{true: "true", false: "false"}[ft.val] + " at `" + src(fset, s.node) + "`"
	}
	if s.callee != nil && depth > 0 {
		// the test may live in the helper: follow the element into it
		sub := map[types.Object]bool{}
		sig := s.callee.Obj.Type().(*types.Signature)
		for i := 0; i < sig.Params().Len() && i < len(s.call.Args); i++ {
			if id, ok := stripDerefParen(s.call.Args[i]).(*ast.Ident); ok && elems[objOf(info, id)] {
				sub[sig.Params().At(i)] = true
			}
		}
		if len(sub) > 0 {
			why := ""
			for _, cs := range an.emitSites(s.callee) {
				if an.siteWeight(cs) == 0 {
					continue
				}
				ok, w := an.siteSkipGuarded(s.callee, cs, sub, depth-1)
				if !ok {
					return false, w
				}
				why = w + " (in " + s.callee.Name() + ")"
			}
			if why != "" {
				return true, why
			}
		}
	}
	return false, "`" + src(fset, s.node) + "` is reachable without the test that the way's ID is absent from the skippable set"
}

func (an *c17G5An) checkSkippable(p *c17Pass) {
	r, a, info := an.r, an.a, an.a.info
	cs := "skippable@Convert ways"
	elems := map[types.Object]bool{}
	if p.loop.Value != nil {
		if o := objOf(info, p.loop.Value); o != nil {
			elems[o] = true
		}
	}
	if p.loop.Key != nil {
		// `for i := range ways { w := ways[i] … }`
		ko := objOf(info, p.loop.Key)
		ast.Inspect(p.loop.Body, func(n ast.Node) bool {
			as, ok := n.(*ast.AssignStmt)
			if !ok || len(as.Lhs) != len(as.Rhs) {
				return true
			}
			for i, rhs := range as.Rhs {
				e := ast.Unparen(rhs)
				if ue, ok := e.(*ast.UnaryExpr); ok && ue.Op == token.AND {
					e = ast.Unparen(ue.X)
				}
				if ix, ok := e.(*ast.IndexExpr); ok && ko != nil && objOf(info, ix.Index) == ko && sameChain(info, ix.X, p.loop.X) {
					if o := objOf(info, as.Lhs[i]); o != nil && a.singleInit(p.fn, o) != nil {
						elems[o] = true
					}
				}
			}
			return true
		})
	}
	if len(elems) == 0 {
		r.Unknown(cs, p.loop.Pos(), "the ways loop has no element variable the rule can follow")
		return
	}
	proof := ""
	n := 0
	for _, s := range p.sites {
		if an.siteWeight(s) == 0 {
			continue
		}
		n++
		ok, why := an.siteSkipGuarded(p.fn, s, elems, 3)
		if !ok {
			r.Bad(cs, s.node.Pos(), "%s: ways already rendered as part of a relation (members of %s) would be emitted a second time", why, an.o.skip.Name())
			return
		}
		proof = why
	}
	if n == 0 {
		r.Bad(cs, p.loop.Pos(), "the ways loop emits nothing")
		return
	}
	r.OK(cs, p.loop.Pos(), "every emission of the ways loop is controlled by the skippable test: %s", proof)
}

// checkOrder: the skippable set is filled by the relation pass, so it must be complete before the ways pass starts.
func (an *c17G5An) checkOrder(conv *c17Fn) {
	r, info, fset := an.r, an.a.info, an.a.fset
	co := "order@Convert relations-before-ways"
	rel, ways := an.passes["relations"], an.passes["ways"]
	if rel == nil || ways == nil {
		r.Bad(co, conv.Decl.Pos(), "relations/ways loops not identified")
		return
	}
	g := conv.graph()
	endOf := func(n ast.Node) *cfg.Block {
		if rs, ok := n.(*ast.RangeStmt); ok {
			for _, b := range g.Blocks {
				if b.Kind == cfg.KindRangeDone && b.Stmt == rs {
					return b
				}
			}
			return nil
		}
		return conv.blockAt(n.Pos())
	}
	startOf := func(n ast.Node) *cfg.Block {
		if rs, ok := n.(*ast.RangeStmt); ok {
			for _, b := range g.Blocks {
				if b.Kind == cfg.KindRangeLoop && b.Stmt == rs {
					return b
				}
			}
			return nil
		}
		return conv.blockAt(n.Pos())
	}
	done, whead := endOf(rel.anchor), startOf(ways.anchor)
	// writers of the skippable set in Convert itself are only inside the relation pass
	wbad := ""
	ast.Inspect(conv.Decl.Body, func(n ast.Node) bool {
		as, ok := n.(*ast.AssignStmt)
		if !ok {
			return true
		}
		for _, l := range as.Lhs {
			if ix, ok := ast.Unparen(l).(*ast.IndexExpr); ok && c17FieldOf(info, ix.X) == an.o.skip {
				if !(as.Pos() >= rel.anchor.Pos() && as.End() <= rel.anchor.End()) {
					wbad = src(fset, as)
				}
			}
		}
		return true
	})
	switch {
	case done == nil || whead == nil:
		r.Unknown(co, conv.Decl.Pos(), "passes not found in the control-flow graph of Convert")
	case rel.anchor == ways.anchor:
		r.Unknown(co, ways.anchor.Pos(), "the relation pass and the ways pass run inside the same statement of Convert (`%s`); their order is not decided here", src(fset, ways.anchor))
	case !((done == whead && rel.anchor.Pos() < ways.anchor.Pos()) || (done != whead && conv.dom[whead][done])):
		r.Bad(co, ways.anchor.Pos(), "the ways pass can start before the relation pass has finished: the skippable set is filled by the relation pass, so ways rendered inside a relation would be emitted again")
	case wbad != "":
		r.Bad(co, ways.anchor.Pos(), "`%s` writes the skippable set outside the relation pass", wbad)
	default:
		r.OK(co, ways.anchor.Pos(), "the end of the relation pass dominates the start of the ways pass; Convert writes %s only inside the relation pass", an.o.skip.Name())
	}
}
