package rules

import (
	"fmt"
	"go/token"
	"go/types"
	"sort"
	"strings"

	"osmcheck/core"
)

// ---------------------------------------------------------------------------
// L3: the decision procedure of (*Way).Polygon

// c18Clause accumulates the verdict of one clause over its abstract inputs.
type c18Clause struct {
	name  string
	n     int
	pos   token.Pos
	bad   string
	unk   string
	proof string
}

func (cl *c18Clause) expect(s *c18Scen, got c18Out, want string, wantText string) {
	cl.n++
	if !cl.pos.IsValid() {
		cl.pos = got.pos
	}
	if got.kind == want {
		return
	}
	msg := fmt.Sprintf("on {%s} the published rules require that the function %s, but it %s", s, wantText, got.describe())
	if got.kind == "unknown" {
		if cl.unk == "" {
			cl.unk, cl.pos = msg, got.pos
		}
		return
	}
	if cl.bad == "" {
		cl.bad, cl.pos = msg, got.pos
	}
}

func (cl *c18Clause) emit(r *core.R, fallback token.Pos) {
	pos := cl.pos
	if !pos.IsValid() {
		pos = fallback
	}
	switch {
	case cl.bad != "":
		r.Bad(cl.name, pos, "%s", cl.bad)
	case cl.unk != "":
		r.Unknown(cl.name, pos, "%s", cl.unk)
	case cl.n == 0:
		r.Unknown(cl.name, pos, "no abstract input exercised this clause")
	default:
		r.OK(cl.name, pos, "%s (%d abstract inputs evaluated over the control-flow graph)", cl.proof, cl.n)
	}
}

func c18L3(r *core.R) {
	c := c18Resolve(r)
	if c == nil {
		return
	}
	fname := c.fi.Name()
	x := c18NewExec(r, c.pk, c.fi.Decl, c)
	at := func(s string) string { return s + "@" + fname }
	vals := []string{"", "no", "yes", c18Fresh}
	have := map[string]bool{"": true, "no": true, "yes": true, c18Fresh: true}
	for _, v := range x.constStrings() {
		if !have[v] {
			have[v] = true
			vals = append(vals, v)
		}
	}
	reach := c18Reachable(c.pk, c.funcs, c.fi.Decl)
	r.Stat("functions_evaluated", len(reach))

	// A function that walks the TAGS and looks the rule up by key never reaches a loop over the table. In the
	// witness world of one abstract entry (no other tag has a rule) "this entry does not match" then IS the final
	// answer false; where the table loop is entered, false in place of "next entry" stays a violation.
	norm := func(o c18Out) c18Out {
		if o.kind == "false" && x.loopState == 0 {
			o.kind = "head"
		}
		return o
	}
	// ---- prefix: from the entry to the rule loop
	clLen := &c18Clause{name: at("precondition len(nodes) > 3"), proof: "every input with at most 3 node refs returns false without indexing an empty list, and 4 refs behave like 5"}
	clClosed := &c18Clause{name: at("precondition closed"), proof: "every input whose first and last node ids differ returns false whatever the tags"}
	clNo := &c18Clause{name: at("area=no"), proof: "closed, >3 refs, area=no returns false before the rule loop"}
	clOther := &c18Clause{name: at("area=<other>"), proof: "closed, >3 refs, any non-empty area value other than no returns true before the rule loop"}
	clAbsent := &c18Clause{name: at("area absent -> rule loop"), proof: "closed, >3 refs, no area value reaches the loop over " + c.table.Name()}
	nruns := 0
	for _, area := range vals {
		for _, closed := range []bool{true, false} {
			outs := map[int64]c18Out{}
			for n := int64(0); n <= 5; n++ {
				s := &c18Scen{n: n, closed: closed, tags: map[string]string{"area": area}}
				o := x.run(c18ModePrefix, s)
				outs[n] = o
				nruns++
				switch {
				case n <= 3:
					clLen.expect(s, o, "false", "returns false (a polygon needs more than 3 node refs)")
				case !closed:
					clClosed.expect(s, o, "false", "returns false (the way is not closed)")
				case n == 4:
					// boundary of the length test: 4 refs must be treated like 5
				case area == "no":
					clNo.expect(s, o, "false", "returns false (area=no is never an area)")
				case area != "":
					clOther.expect(s, o, "true", "returns true (a non-empty area value other than no always is an area)")
				default:
					clAbsent.expect(s, norm(o), "head", "evaluates the rule table")
				}
			}
			if closed && outs[4].kind != outs[5].kind {
				s := &c18Scen{n: 4, closed: true, tags: map[string]string{"area": area}}
				clLen.n++
				if clLen.bad == "" {
					clLen.bad = fmt.Sprintf("on {%s} the function %s, while with 5 node refs it %s: the length threshold is not `more than 3`", s, outs[4].describe(), outs[5].describe())
					clLen.pos = outs[4].pos
				}
			}
		}
	}
	for _, cl := range []*c18Clause{clLen, clClosed, clNo, clOther, clAbsent} {
		cl.emit(r, c.fi.Decl.Pos())
	}

	// ---- one iteration of the rule loop (started from the environment the prefix leaves behind)
	clSkip := &c18Clause{name: at("skip \"\" and \"no\""), proof: "an absent value and the value no go on to the next entry for every condition kind and search outcome"}
	branch := map[string]*c18Clause{}
	declared := map[string]string{}
	for o, v := range c.condVals {
		declared[v] = o.Name()
	}
	for _, kind := range []string{"all", "whitelist", "blacklist"} {
		d := "compared as a literal"
		if nm, ok := declared[kind]; ok {
			d = "declared as " + nm
		}
		branch[kind] = &c18Clause{name: at("branch " + kind), proof: map[string]string{
			"all":       "polygon=all (" + d + "): every value other than \"\"/no returns true",
			"whitelist": "polygon=whitelist (" + d + "): returns true exactly when index < len(values) && values[index] == value, otherwise next entry with the locals unchanged; values[index] is never evaluated at index == len(values)",
			"blacklist": "polygon=blacklist (" + d + "): returns true exactly when index == len(values) || values[index] != value, otherwise next entry with the locals unchanged; values[index] is never evaluated at index == len(values)",
		}[kind]}
	}
	truth := map[string]map[[2]bool]string{"whitelist": {}, "blacklist": {}}
	for _, kind := range []string{"all", "whitelist", "blacklist"} {
		for _, v := range vals {
			for _, p := range []bool{true, false} {
				for _, q := range []bool{true, false} {
					s := c18IterScen(kind, v, p, q)
					o := norm(x.run(c18ModeIter, s))
					nruns++
					member := !p && q
					switch {
					case v == "" || v == "no":
						clSkip.expect(s, o, "head", "skips the entry (absent value / value no never makes an area)")
					case kind == "all":
						branch[kind].expect(s, o, "true", "returns true")
					case kind == "whitelist" && member, kind == "blacklist" && !member:
						branch[kind].expect(s, o, "true", "returns true (value "+map[bool]string{true: "is", false: "is not"}[member]+" in the list)")
					default:
						branch[kind].expect(s, o, "head", "goes on to the next entry (value "+map[bool]string{true: "is", false: "is not"}[member]+" in the list)")
					}
					if v == c18Fresh && kind != "all" {
						truth[kind][[2]bool{p, q}] = o.kind
					}
				}
			}
		}
	}
	// longer and empty witness lists: a hand-written search (or an off-by-one in the bounds) only shows with
	// several elements; the value sits before, at, between and behind them. An `all` entry has no list at all.
	for _, kind := range []string{"all", "whitelist", "blacklist"} {
		for _, ll := range []int64{0, 2, 3, 4} {
			for rk := int64(0); rk <= ll; rk++ {
				for _, eq := range []bool{false, true} {
					if eq && rk == ll {
						continue
					}
					s := c18ListScen(kind, c18Fresh, ll, rk, eq)
					o := norm(x.run(c18ModeIter, s))
					nruns++
					in := map[bool]string{true: "is", false: "is not"}[eq]
					switch {
					case kind == "all":
						branch[kind].expect(s, o, "true", "returns true")
					case (kind == "whitelist") == eq:
						branch[kind].expect(s, o, "true", "returns true (value "+in+" in the list)")
					default:
						branch[kind].expect(s, o, "head", "goes on to the next entry (value "+in+" in the list)")
					}
				}
			}
		}
	}
	var loopPos token.Pos = c.fi.Decl.Pos()
	for st := range x.loopSeen {
		loopPos = st.Pos()
	}
	clSkip.emit(r, loopPos)
	for _, kind := range []string{"all", "whitelist", "blacklist"} {
		branch[kind].emit(r, loopPos)
	}
	// blacklist is the exact negation of whitelist on the (index at end, element equal) truth table
	neg := at("blacklist = NOT whitelist")
	var rows []string
	okNeg, decided := true, true
	for _, pq := range [][2]bool{{true, true}, {true, false}, {false, true}, {false, false}} {
		w, b := truth["whitelist"][pq], truth["blacklist"][pq]
		rows = append(rows, fmt.Sprintf("end=%v,eq=%v: whitelist %s / blacklist %s", pq[0], pq[1], w, b))
		switch {
		case w == "unknown" || b == "unknown" || w == "" || b == "":
			decided = false
		case !(w == "true" && b == "head") && !(w == "head" && b == "true"):
			okNeg = false
		}
	}
	switch {
	case !okNeg:
		r.Bad(neg, loopPos, "the blacklist branch is not the negation of the whitelist membership test `index < len(values) && values[index] == value` (one must return true where the other goes on to the next entry): %s (true = area, head = next entry)", strings.Join(rows, "; "))
	case !decided:
		r.Unknown(neg, loopPos, "truth tables could not be evaluated: %s", strings.Join(rows, "; "))
	default:
		r.OK(neg, loopPos, "truth tables over (index == len(values), values[index] == value) are complementary: %s", strings.Join(rows, "; "))
	}

	// ---- after the loop
	clAfter := &c18Clause{name: at("no entry matched -> false"), proof: "leaving the rule loop with the locals of the prefix returns false"}
	{
		s := &c18Scen{n: 5, closed: true, tags: map[string]string{"area": ""}}
		clAfter.expect(s, x.run(c18ModeDone, s), "false", "returns false (no rule matched)")
		nruns++
	}
	clAfter.emit(r, loopPos)
	// ---- an element without any tag: a fast path may answer false at once, or the general code runs as for
	// unrelated tags; both are the published answer (no area value, every entry skipped)
	clEmpty := &c18Clause{name: at("no tags at all -> false"), proof: "with an empty tag set the function returns false, directly (fast path) or by evaluating the rule table, skipping every entry and returning false behind the loop"}
	anyOf := func(s *c18Scen, o c18Out, ok ...string) {
		for _, k := range ok {
			if o.kind == k {
				clEmpty.expect(s, o, k, "")
				return
			}
		}
		clEmpty.expect(s, o, ok[0], "returns false for an element without tags (at once or via the rule table)")
	}
	{
		s := &c18Scen{n: 5, closed: true, tags: map[string]string{"area": ""}, empty: true}
		anyOf(s, x.run(c18ModePrefix, s), "false", "head")
		s2 := *s
		anyOf(&s2, x.run(c18ModeDone, &s2), "false")
		for _, kind := range []string{"all", "whitelist", "blacklist"} {
			si := c18ListScen(kind, "", 1, 0, false)
			si.empty = true
			anyOf(si, x.run(c18ModeIter, si), "false", "head")
		}
		nruns += 5
	}
	clEmpty.emit(r, c.fi.Decl.Pos())
	// ---- the answer is a function of the tag SET: the area value decides wherever the area tag stands, and of
	// two tags with the same key only the first counts (Tags.Find). Code that walks the tags itself is run on
	// witness lists with the entry's tag before the area tag, and with a second tag of the entry's key.
	clOrder := &c18Clause{name: at("tag order and duplicate keys"), proof: "area=no / area=<other> decide although a tag that satisfies its rule precedes the area tag, and a second tag with the entry's key is ignored"}
	for _, first := range []bool{false, true} {
		for _, area := range []string{"no", "yes"} {
			s := c18ListScen("all", "yes", 1, 0, false)
			s.tags["area"], s.entryFirst = area, first
			want := map[string]string{"no": "false", "yes": "true"}[area]
			clOrder.expect(s, x.run(c18ModeIter, s), want, "returns "+want+" (the area value overrides the rules whatever the tag order)")
			nruns++
		}
		s := c18ListScen("all", "no", 1, 0, false)
		s.dup, s.entryFirst = true, first
		clOrder.expect(s, norm(x.run(c18ModeIter, s)), "head", "skips the entry (its first tag has the value no; the second tag of that key does not count)")
		nruns++
	}
	clOrder.emit(r, c.fi.Decl.Pos())
	r.Stat("abstract_inputs_evaluated", nruns)

	// ---- reads: receiver only through len/index of Nodes and Tags.Find(const | entry.key)
	c18ReadScan(r, x, at("tags and nodes read-only, Find(const|entry key) only"), map[string]bool{"Nodes": true, "Tags": true},
		"len()/index reads of Nodes (ids only) or Tags.Find(<constant> | <entry>.key)")

	// ---- declared condition values never change
	cv := "condition values immutable@" + c.condF.Type().String()
	var names []string
	bad := ""
	var badPos token.Pos
	for o := range c.condVals {
		names = append(names, fmt.Sprintf("%s=%q", o.Name(), c.condVals[o]))
		if _, isVar := o.(*types.Var); isVar {
			if w := c18Writes(c.pk, o, nil); len(w) > 0 && bad == "" {
				bad, badPos = o.Name(), w[0]
			}
		}
	}
	sort.Strings(names)
	switch {
	case bad != "":
		r.Bad(cv, badPos, "the condition value %s is a variable written at %s: the branch it selects no longer corresponds to the kind named in the table", bad, r.P.Rel(badPos))
	case len(names) == 0:
		r.OKTrivial(cv, c.fi.Decl.Pos(), "no named condition values are declared; branches compare against literals")
	default:
		r.OK(cv, c.fi.Decl.Pos(), "declared values %v are constants or package variables that are never assigned or address-taken", names)
	}
}
