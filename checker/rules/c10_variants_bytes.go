package rules

import "osmcheck/core"

const c10SrcObjectStringBody = "\tif id.Version() == 0 {\n\t\treturn fmt.Sprintf(\"%s/%d:-\", id.Type(), id.Ref())\n\t}\n\n\treturn fmt.Sprintf(\"%s/%d:%d\", id.Type(), id.Ref(), id.Version())"

// c10BenignBytes: allocation-saving spellings: the text built with append / strconv.AppendInt in a byte buffer
// (stack scratch array, make with capacity, helper taking and returning the buffer), sorted-already fast paths
// with the length cached in a local.
var c10BenignBytes = []core.Mutant{
	{Name: "objectid-string-appendint-scratch", File: "object.go", Find: c10SrcObjectStringBody,
		Replace: "\tvar scratch [32]byte\n\tbuf := append(scratch[:0], string(id.Type())...)\n\tbuf = append(buf, '/')\n\tbuf = strconv.AppendInt(buf, id.Ref(), 10)\n\tif v := id.Version(); v == 0 {\n\t\tbuf = append(buf, ':', '-')\n\t} else {\n\t\tbuf = strconv.AppendInt(append(buf, ':'), int64(v), 10)\n\t}\n\treturn string(buf)"},
	{Name: "elementid-string-append-helper", File: "element.go",
		Find:    "func (id ElementID) String() string {\n\tif id.Version() == 0 {\n\t\treturn fmt.Sprintf(\"%s/%d:-\", id.Type(), id.Ref())\n\t}\n\n\treturn fmt.Sprintf(\"%s/%d:%d\", id.Type(), id.Ref(), id.Version())\n}",
		Replace: "func (id ElementID) String() string {\n\tbuf := make([]byte, 0, 32)\n\tbuf = appendKindRef(buf, id.Type(), id.Ref())\n\tif v := id.Version(); v != 0 {\n\t\treturn string(strconv.AppendUint(append(buf, ':'), uint64(v), 10))\n\t}\n\treturn string(append(buf, \":-\"...))\n}\n\nfunc appendKindRef(dst []byte, t Type, ref int64) []byte {\n\tdst = append(dst, t...)\n\tdst = append(dst, '/')\n\treturn strconv.AppendInt(dst, ref, 10)\n}"},
	{Name: "featureid-string-bytes-roundtrip", File: "feature.go",
		Find:    "\treturn fmt.Sprintf(\"%s/%d\", t, id.Ref())",
		Replace: "\tb := []byte(t)\n\tb = append(b, '/')\n\treturn string(strconv.AppendInt(b, id.Ref(), 10))"},
	{Name: "elementids-sort-fastpath-cached-len", File: "element.go", Find: c10SrcElementIDsSort,
		Replace: "func (ids ElementIDs) Sort() {\n\tn := len(ids)\n\tinOrder := true\n\tfor i := 1; i < n; i++ {\n\t\tif ids[i] < ids[i-1] {\n\t\t\tinOrder = false\n\t\t\tbreak\n\t\t}\n\t}\n\tif inOrder {\n\t\treturn\n\t}\n\tsort.Sort(elementIDsSort(ids))\n}"},
}

// c10MutantsBytes: defects seeded into those shapes.
var c10MutantsBytes = []core.Mutant{
	{Name: "objectid-string-scratch-drops-version", File: "object.go", Find: c10SrcObjectStringBody,
		Replace:    "\tvar scratch [32]byte\n\tbuf := append(scratch[:0], string(id.Type())...)\n\tbuf = append(buf, '/')\n\tbuf = strconv.AppendInt(buf, id.Ref(), 10)\n\tif v := id.Version(); v == 0 {\n\t\tbuf = append(buf, ':', '-')\n\t} else {\n\t\t_ = strconv.AppendInt(append(buf, ':'), int64(v), 10)\n\t}\n\treturn string(buf)",
		ExpectRule: "K5", ExpectConstruct: "format@ObjectID.String"},
	{Name: "objectid-string-scratch-hex-ref", File: "object.go", Find: c10SrcObjectStringBody,
		Replace:    "\tvar scratch [32]byte\n\tbuf := append(scratch[:0], string(id.Type())...)\n\tbuf = append(buf, '/')\n\tbuf = strconv.AppendInt(buf, id.Ref(), 16)\n\tif v := id.Version(); v == 0 {\n\t\tbuf = append(buf, ':', '-')\n\t} else {\n\t\tbuf = strconv.AppendInt(append(buf, ':'), int64(v), 10)\n\t}\n\treturn string(buf)",
		ExpectRule: "K5", ExpectConstruct: "format@ObjectID.String"},
	{Name: "featureid-string-bytes-wrong-separator", File: "feature.go",
		Find:       "\treturn fmt.Sprintf(\"%s/%d\", t, id.Ref())",
		Replace:    "\tb := []byte(t)\n\tb = append(b, ':')\n\treturn string(strconv.AppendInt(b, id.Ref(), 10))",
		ExpectRule: "K5", ExpectConstruct: "format@FeatureID.String"},
	{Name: "elementid-string-version-truncated-to-byte", File: "element.go",
		Find:       "\treturn fmt.Sprintf(\"%s/%d:%d\", id.Type(), id.Ref(), id.Version())\n}\n\n// ParseElementID",
		Replace:    "\treturn string(strconv.AppendInt(append([]byte(fmt.Sprintf(\"%s/%d\", id.Type(), id.Ref())), ':'), int64(uint8(id.Version())), 10))\n}\n\n// ParseElementID",
		ExpectRule: "K5", ExpectConstruct: "ElementID"},
	{Name: "elementids-sort-fastpath-skips-last-pair", File: "element.go", Find: c10SrcElementIDsSort,
		Replace:    "func (ids ElementIDs) Sort() {\n\tn := len(ids) - 1\n\tinOrder := true\n\tfor i := 1; i < n; i++ {\n\t\tif ids[i] < ids[i-1] {\n\t\t\tinOrder = false\n\t\t\tbreak\n\t\t}\n\t}\n\tif inOrder {\n\t\treturn\n\t}\n\tsort.Sort(elementIDsSort(ids))\n}",
		ExpectRule: "K4", ExpectConstruct: "sorted@ElementIDs.Sort"},
	{Name: "featureids-sort-fastpath-flag-set-before-loop-only", File: "feature.go", Find: c10SrcFeatureIDsSort,
		Replace:    "func (ids FeatureIDs) Sort() {\n\tinOrder := len(ids) < 2 || ids[0] <= ids[1]\n\tif inOrder {\n\t\treturn\n\t}\n\tsort.Sort(featureIDsSort(ids))\n}",
		ExpectRule: "K4", ExpectConstruct: "sorted@FeatureIDs.Sort"},
}
