package rules

import (
	"fmt"
	"go/ast"
	"go/token"
	"go/types"
	"sort"

	"golang.org/x/tools/go/cfg"

	"osmcheck/core"
)

// G3: options only subtract.
//
// The rule is decided on the control-flow graph by finite-domain evaluation, not on statement shapes:
//
//  1. Value flow. Every read of an option field must flow only through boolean structure (`!`, `&&`, `||`,
//     parentheses) into (a) a branch condition, (b) a local assigned once (its reads are followed), (c) an
//     argument of a function of the package (the reads of the parameter are followed), or (d) a boolean result of a
//     helper (one `return E`, one of several returns, a member of a (value, ok) pair; its call sites are followed and
//     evaluated through the helper, c17_result.go). Anything else (stored,
//     compared, passed outside the package) is reported.
//  2. Uses. A *use* is a branching CFG block whose feasible successors differ between option=set and
//     option=unset for some value of the member type the bookkeeping distinguishes (conditions are evaluated
//     three-valued, looking through aliases, parameters, helper results and the nil-ness of helper results). For each use the blocks executed only on the subtracting side (`only`) and the blocks the
//     subtracting side bypasses (`skipped`) are computed from reachability. The subtracting side is option=set
//     for NoID/NoMeta/NoRelationMembership and option=unset for IncludeInvalidPolygons.
//       - `only` must have no visible effect and may leave only by `return <nil/zero/unchanged parameter>`;
//       - `skipped` may contain, besides region-local state, only the effects the role documents:
//         Feature.ID stores (id), the `meta` property (meta), the `relations` property or updates of the
//         membership map (membership; the latter must not depend on the option for node members: with
//         <member>.Type == osm.TypeNode the branch is the same whatever the option says);
//       - includeInvalidPolygons may be used only in the multipolygon builder, decided by role (c17_role.go).
//  3. Guards. Every store of Feature.ID / of the `meta` / `relations` property is unreachable in its function
//     when the corresponding option is set (or the function is an unexported helper all of whose call sites
//     are); every read of the membership map is unreachable under NoRelationMembership, keyed by a node's
//     feature id, or part of the bookkeeping itself.
//  4. Writes. Each option field is written only by its own exported Option constructor.
//
// This accepts: inverted branches, early return vs nesting, if/switch forms, merged or split guards, locals
// holding the option, helpers (`setID`, `metaOf`, `skipMember`, …) and moved functions.

const (
	c17PropsPath        = "github.com/paulmach/orb/geojson.Properties"
	c17MultiPolygonPath = "github.com/paulmach/orb.MultiPolygon"
)

type c17G3An struct {
	r       *core.R
	o       *c17Opt
	a       *c17Pkg
	proxy   map[*types.Var]map[types.Object]int // per option: parameters carrying it (+1) or its negation (-1)
	visited map[ast.Node]bool
	reach   map[string]map[*cfg.Block]bool
	book    map[*cfg.Block]bool // blocks of the membership bookkeeping (skipped for non-node members)
	nUses   map[*types.Var]int
	resDone map[string]bool
}

// subtracting side of each role: true = the option being set removes something.
func c17RoleDSet(role string) bool { return role != "invalid" }

func (an *c17G3An) val(f *types.Var, set bool) c17Val {
	return c17Val{opt: f, set: set, proxy: an.proxy[f]}
}

func (an *c17G3An) dval(f *types.Var) c17Val {
	return an.val(f, c17RoleDSet(c17OptionRoles[f.Name()]))
}

func c17G3(r *core.R) {
	o := c17LoadOptions(r)
	if o == nil {
		return
	}
	if len(o.fields) == 0 {
		r.Anchor("option fields of the conversion context (assigned in Option closures)")
		return
	}
	if o.member == nil {
		r.Anchor("context field of type map[osm.FeatureID][]… (relation membership)")
		return
	}
	for want := range c17OptionRoles {
		found := false
		for _, f := range o.fields {
			if f.Name() == want {
				found = true
			}
		}
		if !found {
			r.Anchor("option field context." + want)
		}
	}
	an := &c17G3An{r: r, o: o, a: c17NewPkg(r.P, o.pk), proxy: map[*types.Var]map[types.Object]int{}, visited: map[ast.Node]bool{},
		reach: map[string]map[*cfg.Block]bool{}, book: map[*cfg.Block]bool{}, nUses: map[*types.Var]int{}}
	c17G3Writes(r, o)

	// 1. value flow of every read
	for _, f := range o.fields {
		an.proxy[f] = map[types.Object]int{}
		if _, ok := c17OptionRoles[f.Name()]; !ok {
			r.Unknown("read@"+f.Name(), f.Pos(), "option field %s has no documented role in the rule table (noID, noMeta, noRelationMembership, includeInvalidPolygons): extend the table together with the documentation", f.Name())
			continue
		}
		reads := c17FieldReads(r.P, o.pk, f)
		if len(reads) == 0 {
			r.Bad("read@"+f.Name(), f.Pos(), "option field %s is never read: the option does nothing", f.Name())
			continue
		}
		for _, rd := range reads {
			fn := an.a.fns[rd.fi.Obj]
			if why := an.cover(fn, rd.expr, f, 0); why != "" {
				r.Bad("read@"+fn.Name()+" "+f.Name(), rd.expr.Pos(), "%s: an option may only decide branches (directly, through a local, a parameter or a predicate helper); here its value escapes the analysis, so it can change more than it documents", why)
			}
		}
	}
	// 2. uses
	for _, f := range o.fields {
		role, ok := c17OptionRoles[f.Name()]
		if !ok {
			continue
		}
		for _, fn := range an.a.list {
			g := fn.graph()
			for _, b := range g.Blocks {
				if !b.Live || fn.cond(b) == nil {
					continue
				}
				// the branch is a use when, for some value of the member type the bookkeeping distinguishes (or without
				// assuming one), the feasible successors differ between the two values of the option; every distinct
				// orientation (which successor the subtracting side takes) is examined
				tried := map[*cfg.Block]bool{}
				for _, mt := range an.a.memberTypes() {
					vd, va := an.dval(f), an.val(f, !c17RoleDSet(role))
					vd.memberType, va.memberType = mt, mt
					dT, dF := an.a.succsUnder(fn, b, vd)
					aT, aF := an.a.succsUnder(fn, b, va)
					if dT == aT && dF == aF {
						continue
					}
					var dS, aS *cfg.Block
					switch {
					case dT && !aT:
						dS, aS = b.Succs[0], b.Succs[1]
					case dF && !aF:
						dS, aS = b.Succs[1], b.Succs[0]
					case dT && !dF:
						dS, aS = b.Succs[0], b.Succs[1]
					default:
						dS, aS = b.Succs[1], b.Succs[0]
					}
					if tried[dS] {
						continue
					}
					tried[dS] = true
					an.nUses[f]++
					an.checkUse(f, role, fn, b, dS, aS)
				}
				if len(tried) == 0 {
					continue
				}
				// a branch on the option inside a helper with boolean results can make the results depend on it
				sig := fn.Obj.Type().(*types.Signature)
				for i := 0; i < sig.Results().Len(); i++ {
					if c17IsBool(sig.Results().At(i).Type()) && an.resultDepends(fn, f, i, sig.Results().Len()) {
						if why := an.coverResult(fn, f, i, sig.Results().Len(), 0); why != "" {
							r.Bad("read@"+fn.Name()+" "+f.Name(), fn.cond(b).Pos(), "%s: an option may only decide branches; here its value escapes the analysis, so it can change more than it documents", why)
						}
					}
				}
			}
		}
		if an.nUses[f] == 0 && len(c17FieldReads(r.P, o.pk, f)) > 0 {
			r.Bad("read@"+f.Name(), f.Pos(), "no branch of the package depends on option field %s: the option does nothing", f.Name())
		}
	}
	// 3. guards
	an.guards()
	an.memberReads()
}

// ---- writes ---------------------------------------------------------------------------------------------

// c17G3Writes: each option field is assigned once, in the closure returned by its own exported constructor, from
// the constructor's parameter, and that closure assigns no other context field.
func c17G3Writes(r *core.R, o *c17Opt) {
	pk, info, fset := o.pk, o.info, r.P.Fset
	for _, f := range o.fields {
		c := "write@" + f.Name()
		type site struct {
			as  *ast.AssignStmt
			fi  *FuncInfo
			lit *ast.FuncLit
			rhs ast.Expr
		}
		var sites []site
		for _, fi := range allFuncs(pk) {
			par := parentsOf(r.P, fi)
			ast.Inspect(fi.Decl.Body, func(n ast.Node) bool {
				switch x := n.(type) {
				case *ast.AssignStmt:
					for i, l := range x.Lhs {
						if lf := fieldOf(info, l); lf != nil && lf != f && o.holds(lf, f) {
							sites = append(sites, site{fi: fi}) // the struct holding the option is replaced as a whole
						}
						if fieldOf(info, l) == f {
							s := site{as: x, fi: fi}
							if len(x.Rhs) == len(x.Lhs) {
								s.rhs = x.Rhs[i]
							}
							s.lit, _ = enclosing(par, x, func(y ast.Node) bool { _, ok := y.(*ast.FuncLit); return ok }).(*ast.FuncLit)
							sites = append(sites, s)
						}
					}
				case *ast.IncDecStmt:
					if fieldOf(info, x.X) == f {
						sites = append(sites, site{fi: fi})
					}
				case *ast.UnaryExpr:
					if x.Op == token.AND && fieldOf(info, x.X) == f {
						sites = append(sites, site{fi: fi}) // address taken: may be written anywhere
					}
				case *ast.CompositeLit:
					// composite literals of the context must not set option fields either
					// (nor literals of a struct the context holds, e.g. an embedded settings struct)
					lt := info.TypeOf(x)
					if lt == nil || !o.structHas(lt, f) || namedPath(lt) == "" {
						return true
					}
					for _, e := range x.Elts {
						if kv, ok := e.(*ast.KeyValueExpr); ok {
							if id, ok := kv.Key.(*ast.Ident); ok && (info.Uses[id] == f) {
								sites = append(sites, site{fi: fi})
							}
						} else {
							sites = append(sites, site{fi: fi}) // positional literal sets every field
						}
					}
				}
				return true
			})
		}
		if len(sites) != 1 || sites[0].as == nil {
			r.Bad(c, f.Pos(), "option field %s is written at %d sites; it must be set only by its own Option constructor, otherwise another option (or the conversion itself) changes what this option documents", f.Name(), len(sites))
			continue
		}
		s := sites[0]
		okCtor := s.lit != nil && types.Identical(info.TypeOf(s.lit), o.optSig) && s.fi.Decl.Recv == nil && s.fi.Obj.Exported()
		var prm *types.Var
		if s.rhs != nil {
			prm, _ = objOf(info, s.rhs).(*types.Var)
		}
		nOther := 0
		if s.lit != nil {
			ast.Inspect(s.lit.Body, func(n ast.Node) bool {
				if as, ok := n.(*ast.AssignStmt); ok {
					for _, l := range as.Lhs {
						if fv := fieldOf(info, l); fv != nil && fv != f && o.isCtxField(fv) {
							nOther++
						}
					}
				}
				return true
			})
		}
		switch {
		case !okCtor:
			r.Bad(c, s.as.Pos(), "option field %s is assigned in %s outside an exported Option constructor's closure", f.Name(), s.fi.Name())
		case prm == nil || !c17IsParam(s.fi, prm):
			r.Bad(c, s.as.Pos(), "`%s`: the option field is not set from the constructor's parameter", src(fset, s.as))
		case nOther > 0:
			r.Bad(c, s.as.Pos(), "the closure of %s also assigns %d other context field(s): the option changes more than it documents", s.fi.Name(), nOther)
		default:
			r.OK(c, s.as.Pos(), "only write site: `%s` in the closure returned by %s(%s), which assigns no other context field", src(fset, s.as), s.fi.Name(), prm.Name())
		}
	}
}

// ---- value flow -----------------------------------------------------------------------------------------

// cover follows one read of the option (the field selector, an alias, a parameter or a predicate call) and
// returns "" when it only ends in branch conditions, otherwise what it flows into.
func (an *c17G3An) cover(fn *c17Fn, read ast.Expr, f *types.Var, depth int) string {
	a, info, fset := an.a, an.a.info, an.a.fset
	if fn == nil {
		return fmt.Sprintf("%s is read outside a function declaration", f.Name())
	}
	if an.visited[read] {
		return ""
	}
	an.visited[read] = true
	if depth > 6 {
		return fmt.Sprintf("the value of %s is handed on more than 6 times", f.Name())
	}
	par := fn.parents()
	if lit := enclosing(par, read, func(n ast.Node) bool { _, ok := n.(*ast.FuncLit); return ok }); lit != nil {
		return fmt.Sprintf("%s is read inside a function literal in %s", f.Name(), fn.Name())
	}
	var n ast.Node = read
	for {
		p := par[n]
		switch x := p.(type) {
		case *ast.ParenExpr:
			n = p
			continue
		case *ast.UnaryExpr:
			if x.Op == token.NOT {
				n = p
				continue
			}
		case *ast.BinaryExpr:
			if x.Op == token.LAND || x.Op == token.LOR {
				n = p
				continue
			}
		}
		break
	}
	top := n.(ast.Expr)
	c := "read@" + fn.Name() + " " + f.Name()
	polarity := func() int {
		vs := a.eval(fn, top, an.val(f, true), 0)
		vu := a.eval(fn, top, an.val(f, false), 0)
		switch {
		case vs == triT && vu == triF:
			return 1
		case vs == triF && vu == triT:
			return -1
		}
		return 0
	}
	followObj := func(h *c17Fn, o types.Object) (int, string) {
		uses := 0
		why := ""
		ast.Inspect(h.Decl.Body, func(m ast.Node) bool {
			id, ok := m.(*ast.Ident)
			if !ok || info.Uses[id] != o || why != "" {
				return why == ""
			}
			uses++
			if c17IsAssignLHS(h.parents(), id) {
				why = fmt.Sprintf("`%s` holding %s is reassigned in %s", id.Name, f.Name(), h.Name())
				return false
			}
			why = an.cover(h, id, f, depth+1)
			return why == ""
		})
		return uses, why
	}
	switch p := par[top].(type) {
	case *ast.IfStmt:
		if p.Cond == top {
			return ""
		}
	case *ast.ForStmt:
		if p.Cond == top {
			return ""
		}
	case *ast.SwitchStmt:
		if p.Tag == top && c17IsBool(info.TypeOf(top)) {
			return "" // `switch opt { case true: … }`: each case value is held as `opt == value`
		}
	case *ast.CaseClause:
		if blk, ok := par[p].(*ast.BlockStmt); ok {
			if sw, ok := par[blk].(*ast.SwitchStmt); ok && sw.Tag == nil {
				return ""
			}
		}
	case *ast.AssignStmt:
		for i, rhs := range p.Rhs {
			if rhs != top || len(p.Lhs) != len(p.Rhs) {
				continue
			}
			o := objOf(info, p.Lhs[i])
			if o == nil || a.singleInit(fn, o) != top {
				return fmt.Sprintf("`%s` stores %s into something other than a local assigned once", src(fset, p), f.Name())
			}
			_, why := followObj(fn, o)
			if why == "" {
				an.r.OKTrivial(c, top.Pos(), "`%s`: held in local %s, whose reads all end in branch conditions (classified separately)", src(fset, p), o.Name())
			}
			return why
		}
	case *ast.ValueSpec:
		for i, v := range p.Values {
			if v != top || len(p.Names) != len(p.Values) {
				continue
			}
			o := info.Defs[p.Names[i]]
			if o == nil || a.singleInit(fn, o) != top {
				return fmt.Sprintf("`var %s` holding %s is assigned again", p.Names[i].Name, f.Name())
			}
			_, why := followObj(fn, o)
			if why == "" {
				an.r.OKTrivial(c, top.Pos(), "held in local %s, whose reads all end in branch conditions (classified separately)", o.Name())
			}
			return why
		}
	case *ast.CallExpr:
		idx := -1
		for i, arg := range p.Args {
			if arg == top {
				idx = i
			}
		}
		cf := callee(info, p)
		h := a.fns[cf]
		if idx < 0 || h == nil {
			return fmt.Sprintf("%s is handed to `%s`, which is not a function of the package", f.Name(), src(fset, p.Fun))
		}
		sig := cf.Type().(*types.Signature)
		if idx >= sig.Params().Len() || (sig.Variadic() && idx >= sig.Params().Len()-1) {
			return fmt.Sprintf("%s is handed to a variadic parameter of %s", f.Name(), h.Name())
		}
		prm := sig.Params().At(idx)
		pol := polarity()
		if pol == 0 {
			return fmt.Sprintf("`%s` mixes %s with other conditions before handing it to %s", src(fset, top), f.Name(), h.Name())
		}
		// the parameter stands for the option only if every call hands it the option (with the same polarity)
		if !a.onlyCalled(cf) {
			return fmt.Sprintf("%s is handed to %s, which is exported or used as a function value (its other callers are unknown)", f.Name(), h.Name())
		}
		for _, cs := range a.calls[cf] {
			if idx >= len(cs.call.Args) {
				return fmt.Sprintf("call `%s` does not hand %s to parameter %s", src(fset, cs.call), f.Name(), prm.Name())
			}
			vs := a.eval(cs.fn, cs.call.Args[idx], an.val(f, true), 0)
			vu := a.eval(cs.fn, cs.call.Args[idx], an.val(f, false), 0)
			if !((pol > 0 && vs == triT && vu == triF) || (pol < 0 && vs == triF && vu == triT)) {
				return fmt.Sprintf("parameter %s of %s receives %s here but `%s` at another call site, so the branches on it are not decided by the option alone", prm.Name(), h.Name(), f.Name(), src(fset, cs.call.Args[idx]))
			}
		}
		if old, ok := an.proxy[f][prm]; ok && old != pol {
			return fmt.Sprintf("parameter %s of %s receives %s at one call site and its negation at another", prm.Name(), h.Name(), f.Name())
		}
		an.proxy[f][prm] = pol
		uses, why := followObj(h, prm)
		if why == "" && uses == 0 {
			why = fmt.Sprintf("parameter %s of %s, which receives %s, is never read", prm.Name(), h.Name(), f.Name())
		}
		if why == "" {
			an.r.OKTrivial(c, top.Pos(), "passed as parameter %s of %s, whose reads all end in branch conditions (classified separately)", prm.Name(), h.Name())
		}
		return why
	case *ast.ReturnStmt:
		// the result of a helper (one-line predicate or one of several returns; also the ok of a (value, ok) pair): the
		// call sites are evaluated through the helper (c17_result.go), so each of them must be a branch position
		isResult := false
		for _, res := range p.Results {
			if res == top {
				isResult = true
			}
		}
		if isResult && c17IsBool(info.TypeOf(top)) && enclosing(par, p, func(n ast.Node) bool { _, ok := n.(*ast.FuncLit); return ok }) == nil {
			idx := 0
			for i, res := range p.Results {
				if res == top {
					idx = i
				}
			}
			if why := an.coverResult(fn, f, idx, len(p.Results), depth); why != "" {
				return why
			}
			an.r.OKTrivial(c, top.Pos(), "`%s`: result of a helper with %d call site(s), where it ends in branch conditions (evaluated through the helper, classified separately)", src(fset, p), len(a.calls[fn.Obj]))
			return ""
		}
	}
	return fmt.Sprintf("%s is used in `%s` (%s)", f.Name(), src(fset, par[top]), fn.Name())
}

// ---- uses -------------------------------------------------------------------------------------------------

func c17IsFeatureID(info *types.Info, l ast.Expr) bool {
	fv := c17FieldOf(info, l)
	if fv == nil || fv.Name() != "ID" {
		return false
	}
	sel := ast.Unparen(l).(*ast.SelectorExpr)
	return namedPath(info.TypeOf(sel.X)) == c17FeaturePath
}

// c17IsProp: l is `<geojson.Properties>["name"]`.
func c17IsProp(info *types.Info, l ast.Expr, name string) bool {
	k, ok := c17PropKey(info, l)
	if !ok || k != name {
		return false
	}
	ix := ast.Unparen(l).(*ast.IndexExpr)
	return namedPath(info.TypeOf(ix.X)) == c17PropsPath
}

func (an *c17G3An) isMemberUpdate(l ast.Expr) bool {
	ix, ok := ast.Unparen(l).(*ast.IndexExpr)
	return ok && c17FieldOf(an.a.info, ix.X) == an.o.member
}

func (an *c17G3An) checkUse(f *types.Var, role string, fn *c17Fn, b, dS, aS *cfg.Block) {
	r, a, info, fset := an.r, an.a, an.a.info, an.a.fset
	cond := fn.cond(b)
	c := "read@" + fn.Name() + " " + f.Name()
	pos := cond.Pos()
	side := "set"
	if !c17RoleDSet(role) {
		side = "unset"
	}
	dv := an.dval(f)
	rg := fn.region(b, dS, aS, func(x *cfg.Block) (bool, bool) { return a.succsUnder(fn, x, dv) })
	only := c17NodesOf(rg.only)
	skipped := c17NodesOf(rg.skipped)

	// the subtracting side does nothing of its own
	sc := &c17Scope{fn: fn, in: c17InNodes(only)}
	bad, unknown := a.effects(sc, only, nil, 3, map[*types.Func]bool{})
	if bad == "" {
		if sr := a.skipReturns(fn, only); sr != "" {
			bad = sr + ", a result that is not nil/zero/the unchanged argument"
		}
	}
	if bad != "" {
		r.Bad(c, pos, "with %s %s, `%s` leads to %s, which is not done otherwise: the option must only subtract", f.Name(), side, src(fset, cond), bad)
		return
	}
	if unknown != "" {
		r.Unknown(c, pos, "with %s %s, `%s` leads to a %s", f.Name(), side, src(fset, cond), unknown)
		return
	}
	ssc := &c17Scope{fn: fn, in: c17InNodes(skipped)}
	try := func(allow c17Allow) (string, string) {
		return a.effects(ssc, skipped, allow, 3, map[*types.Func]bool{})
	}
	switch role {
	case "id":
		n := 0
		bad, unknown := try(func(l ast.Expr, as *ast.AssignStmt, i int) bool {
			if c17IsFeatureID(info, l) {
				n++
				return true
			}
			return false
		})
		switch {
		case bad != "":
			r.Bad(c, pos, "`%s` with %s set also skips %s: NoID must change nothing but the feature id", src(fset, cond), f.Name(), bad)
		case unknown != "":
			r.Unknown(c, pos, "`%s` with %s set skips a %s", src(fset, cond), f.Name(), unknown)
		default:
			r.OK(c, pos, "`%s`: with %s set the branch does nothing of its own and bypasses only %d assignment(s) to geojson.Feature.ID and region-local state (%d block(s))", src(fset, cond), f.Name(), n, len(rg.skipped))
		}
	case "meta":
		n := 0
		bad, unknown := try(func(l ast.Expr, as *ast.AssignStmt, i int) bool {
			if c17IsProp(info, l, "meta") {
				n++
				return true
			}
			return false
		})
		switch {
		case bad != "":
			r.Bad(c, pos, "`%s` with %s set also skips %s: with NoMeta set more than the meta property is removed from the feature", src(fset, cond), f.Name(), bad)
		case unknown != "":
			r.Unknown(c, pos, "`%s` with %s set skips a %s", src(fset, cond), f.Name(), unknown)
		default:
			r.OK(c, pos, "`%s`: with %s set the branch does nothing of its own and bypasses only the construction of region-local state and %d store(s) of the `meta` property (%d block(s))", src(fset, cond), f.Name(), n, len(rg.skipped))
		}
	case "membership":
		nRel := 0
		bad, unknown := try(func(l ast.Expr, as *ast.AssignStmt, i int) bool {
			if c17IsProp(info, l, "relations") {
				nRel++
				return true
			}
			return false
		})
		if bad == "" {
			if unknown != "" {
				r.Unknown(c, pos, "`%s` with %s set skips a %s", src(fset, cond), f.Name(), unknown)
				return
			}
			r.OK(c, pos, "`%s`: with %s set the branch does nothing of its own and bypasses only region-local state and %d store(s) of the `relations` property (%d block(s))", src(fset, cond), f.Name(), nRel, len(rg.skipped))
			return
		}
		nUpd := 0
		bad2, unknown2 := try(func(l ast.Expr, as *ast.AssignStmt, i int) bool {
			if an.isMemberUpdate(l) {
				nUpd++
				return true
			}
			return false
		})
		switch {
		case bad2 != "":
			r.Bad(c, pos, "`%s` with %s set skips %s, which is neither the `relations` property nor bookkeeping of the membership map %s: NoRelationMembership changes more than it documents", src(fset, cond), f.Name(), bad2, an.o.member.Name())
		case unknown2 != "":
			r.Unknown(c, pos, "`%s` with %s set skips a %s", src(fset, cond), f.Name(), unknown2)
		default:
			// membership of nodes decides which nodes become features: for node members the option must not matter.
			// Evaluate again with <member>.Type == osm.TypeNode: no feasible way through the branch may bypass an update.
			vn := dv
			vn.nodeMember = true
			nT, nF := a.succsUnder(fn, b, vn)
			if (dS == b.Succs[0] && nT) || (dS == b.Succs[1] && nF) {
				rn := fn.region(b, dS, aS, func(x *cfg.Block) (bool, bool) { return a.succsUnder(fn, x, vn) })
				nodeNodes := c17NodesOf(rn.skipped)
				lost := 0
				a.effects(&c17Scope{fn: fn, in: c17InNodes(nodeNodes)}, nodeNodes, func(l ast.Expr, as *ast.AssignStmt, i int) bool {
					if an.isMemberUpdate(l) {
						lost++
					}
					return true
				}, 3, map[*types.Func]bool{})
				if lost > 0 {
					r.Bad(c, pos, "`%s` with %s set bypasses %d update(s) of the membership map also when the member is a node (<member>.Type == osm.TypeNode): node memberships decide which nodes become features and must be recorded whatever the option says", src(fset, cond), f.Name(), lost)
					return
				}
			}
			for blk := range rg.skipped {
				an.book[blk] = true
			}
			r.OK(c, pos, "`%s`: with %s set only %d update(s) of the membership map %s and region-local state are bypassed, and with <member>.Type == osm.TypeNode no feasible path bypasses an update", src(fset, cond), f.Name(), nUpd, an.o.member.Name())
		}
	case "invalid":
		if !a.polygonOnly(fn, map[*c17Fn]bool{}) {
			r.Bad(c, pos, "%s decides `%s` in %s, which is not part of the multipolygon builder (it has no orb.MultiPolygon value, reaches no function that has, and is not called only from such functions); the option is documented for multipolygon relations only", f.Name(), src(fset, cond), fn.Name())
			return
		}
		r.OK(c, pos, "`%s`: with %s unset the branch only skips (no effect of its own, leaves by nil/unchanged-argument return or falls through); setting the option removes the skip and nothing else; %s is part of the multipolygon builder", src(fset, cond), f.Name(), fn.Name())
	}
}

// ---- guards ---------------------------------------------------------------------------------------------------

// guarded reports whether position pos of fn cannot execute when option f is on its subtracting side.
func (an *c17G3An) guarded(f *types.Var, fn *c17Fn, pos token.Pos, depth int) bool {
	key := fn.Name() + "|" + f.Name()
	reach, ok := an.reach[key]
	if !ok {
		reach = an.a.reachUnder(fn, an.dval(f))
		an.reach[key] = reach
	}
	b := fn.blockAt(pos)
	if b != nil && !reach[b] {
		return true
	}
	if b == nil {
		if raw, _ := blockOf(fn.graph(), pos); raw != nil && !raw.Live {
			return true // dead code
		}
	}
	if depth > 0 && an.a.onlyCalled(fn.Obj) {
		for _, cs := range an.a.calls[fn.Obj] {
			if cs.fn == fn || !an.guarded(f, cs.fn, cs.call.Pos(), depth-1) {
				return false
			}
		}
		return true
	}
	return false
}

func (an *c17G3An) field(role string) *types.Var {
	for _, f := range an.o.fields {
		if c17OptionRoles[f.Name()] == role {
			return f
		}
	}
	return nil
}

func (an *c17G3An) guards() {
	r, a, info, fset := an.r, an.a, an.a.info, an.a.fset
	kinds := []struct {
		role, key, what, opt string
		is                   func(l ast.Expr) bool
	}{
		{"id", "idassign", "geojson.Feature.ID", "NoID", func(l ast.Expr) bool { return c17IsFeatureID(info, l) }},
		{"meta", "metaassign", "the `meta` property", "NoMeta", func(l ast.Expr) bool { return c17IsProp(info, l, "meta") }},
		{"membership", "relassign", "the `relations` property", "NoRelationMembership", func(l ast.Expr) bool { return c17IsProp(info, l, "relations") }},
	}
	for _, k := range kinds {
		f := an.field(k.role)
		n := 0
		for _, fn := range a.list {
			ast.Inspect(fn.Decl.Body, func(x ast.Node) bool {
				as, ok := x.(*ast.AssignStmt)
				if !ok {
					return true
				}
				for _, l := range as.Lhs {
					if !k.is(l) {
						continue
					}
					n++
					c := k.key + "@" + fn.Name()
					switch {
					case f == nil:
						r.Bad(c, as.Pos(), "`%s` stores %s but the option field of %s was not found", src(fset, as), k.what, k.opt)
					case an.guarded(f, fn, as.Pos(), 3):
						r.OK(c, as.Pos(), "`%s` cannot execute when %s is set (every path to it, here or at the call sites of this helper, takes a branch that requires the option to be unset)", src(fset, as), f.Name())
					default:
						r.Bad(c, as.Pos(), "`%s` is reachable when %s is set: %s(true) would not omit %s", src(fset, as), f.Name(), k.opt, k.what)
					}
				}
				return true
			})
		}
		if n == 0 {
			r.Anchor("stores of " + k.what + " in osmgeojson")
		}
	}
}

// memberReads: the entries the bookkeeping leaves out under NoRelationMembership (non-node members) are read nowhere
// but where the option is unset.
func (an *c17G3An) memberReads() {
	r, a, info, fset := an.r, an.a, an.a.info, an.a.fset
	f := an.field("membership")
	reads := c17FieldReads(r.P, an.o.pk, an.o.member)
	sort.SliceStable(reads, func(i, j int) bool { return reads[i].expr.Pos() < reads[j].expr.Pos() })
	for _, rd := range reads {
		fn := a.fns[rd.fi.Obj]
		par := fn.parents()
		// an update of the map from itself (`M[k] = append(M[k], …)`) is bookkeeping, not a use
		if as, ok := enclosing(par, rd.expr, func(n ast.Node) bool { _, ok := n.(*ast.AssignStmt); return ok }).(*ast.AssignStmt); ok {
			self := false
			for _, l := range as.Lhs {
				if an.isMemberUpdate(l) {
					self = true
				}
			}
			if self {
				continue
			}
		}
		if b := fn.blockAt(rd.expr.Pos()); b != nil && an.book[b] {
			continue // inside the bookkeeping region itself
		}
		c := "memberread@" + fn.Name() + " " + src(fset, rd.expr)
		ix, _ := par[rd.expr].(*ast.IndexExpr)
		if ix != nil && ix.X == rd.expr {
			c = "memberread@" + fn.Name() + " " + src(fset, ix)
		} else {
			ix = nil
		}
		if f != nil && an.guarded(f, fn, rd.expr.Pos(), 3) {
			r.OK(c, rd.expr.Pos(), "the read cannot execute when %s is set", f.Name())
			continue
		}
		nodeKey := false
		if ix != nil {
			if call, ok := ast.Unparen(a.resolve(fn, ix.Index)).(*ast.CallExpr); ok {
				if m := callee(info, call); m != nil && m.Name() == "FeatureID" {
					nodeKey = isMethod(m, core.ModulePath+".Node", "FeatureID") || isMethod(m, core.ModulePath+".NodeID", "FeatureID")
				}
			}
		}
		if nodeKey {
			r.OK(c, rd.expr.Pos(), "read keyed by a node's FeatureID(): node memberships are recorded whatever the option says")
		} else {
			r.Bad(c, rd.expr.Pos(), "`%s` in `%s` reads the membership map where NoRelationMembership may be set, with a key that is not a node's feature id; entries of way/relation members are not recorded when the option is set, so the option would change this result", src(fset, rd.expr), src(fset, par[rd.expr]))
		}
	}
}

// coverResult follows the idx-th (boolean) result of helper fn, which depends on option f, to its call sites: a single
// result must stand in a branch position (or be held in a local, …) like any other read; a member of a tuple must be
// bound by `…, ok, … := fn(…)` to a local assigned nowhere else, whose reads are followed.
func (an *c17G3An) coverResult(fn *c17Fn, f *types.Var, idx, nres, depth int) string {
	a, info, fset := an.a, an.a.info, an.a.fset
	key := fmt.Sprintf("%s|%s|%d", fn.Name(), f.Name(), idx)
	if an.resDone == nil {
		an.resDone = map[string]bool{}
	}
	if an.resDone[key] {
		return ""
	}
	an.resDone[key] = true
	if a.refs[fn.Obj] != len(a.calls[fn.Obj]) || fn.Obj.Exported() {
		return fmt.Sprintf("helper %s, whose result depends on %s, is exported or used as a function value", fn.Name(), f.Name())
	}
	for _, cs := range a.calls[fn.Obj] {
		if nres == 1 {
			if why := an.cover(cs.fn, cs.call, f, depth+1); why != "" {
				return why
			}
			continue
		}
		as, ok := cs.fn.parents()[cs.call].(*ast.AssignStmt)
		if !ok || len(as.Rhs) != 1 || len(as.Lhs) != nres {
			return fmt.Sprintf("`%s`: the results of %s, one of which depends on %s, are not bound by a tuple assignment", src(fset, cs.call), fn.Name(), f.Name())
		}
		if id, isID := ast.Unparen(as.Lhs[idx]).(*ast.Ident); isID && id.Name == "_" {
			continue
		}
		o := objOf(info, as.Lhs[idx])
		if h, i, _ := a.tupleInit(cs.fn, o); o == nil || h != fn || i != idx {
			return fmt.Sprintf("`%s` binds the result of %s that depends on %s to something other than a local assigned once", src(fset, as), fn.Name(), f.Name())
		}
		why := ""
		ast.Inspect(cs.fn.Decl.Body, func(m ast.Node) bool {
			id, ok := m.(*ast.Ident)
			if !ok || info.Uses[id] != o || why != "" {
				return why == ""
			}
			why = an.cover(cs.fn, id, f, depth+1)
			return why == ""
		})
		if why != "" {
			return why
		}
	}
	return ""
}

// resultDepends: for some member type (or none assumed) the idx-th result of fn evaluates differently with f set and unset.
func (an *c17G3An) resultDepends(fn *c17Fn, f *types.Var, idx, nres int) bool {
	for _, mt := range an.a.memberTypes() {
		vs, vu := an.val(f, true), an.val(f, false)
		vs.memberType, vu.memberType = mt, mt
		if an.a.evalResult(fn, idx, nres, vs, 0) != an.a.evalResult(fn, idx, nres, vu, 0) {
			return true
		}
	}
	return false
}
