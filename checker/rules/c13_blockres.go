package rules

import (
	"fmt"
	"go/types"
)

// Objects handed out from per-call blocks (`&wrappers[i]`, `elems[i:i+1:i+1]`).
//
// A slot of a block that Change allocated itself (make) is a fresh object as long as no other element gets the same
// slot. Two disciplines are understood, per path through an element iteration:
//   - the slot index is the index of the iteration (every iteration has its own slots), or
//   - the block is a window the loop slides forward: slots are constant offsets from the window at the start of the
//     iteration and the path advances the window past every slot it used.
// Under either, the content of a slot at the end of the iteration is its content when Change returns, so the writes of
// the path can be read back: `&block[k]` becomes `&T{fields written}` and a one-element view becomes the literal
// slice of the element written, provided the view's capacity ends with its length (a two-index view would share its
// spare capacity with the next element's slot).

// blockOf follows a location or view to the make term of the block it lies in (nil if it is not a fresh block).
func (m *c13Model) blockOf(t *c13Term, depth int) *c13Term {
	for t != nil && depth < 32 {
		depth++
		switch t.op {
		case c13OpIndex, c13OpField, c13OpSlice, c13OpAddr, c13OpDeref:
			t = t.args[0]
		case c13OpLoopIn, c13OpLoopOut:
			t = t.loop.pre[t.obj]
		case c13OpMake:
			if _, isSlice := t.typ.Underlying().(*types.Slice); isSlice {
				return t
			}
			return nil
		default:
			return nil
		}
	}
	return nil
}

// blockStore files a write into a fresh block and checks the slot discipline; it returns false for other writes.
func (m *c13Model) blockStore(p *c13UPath, ev *c13Event) bool {
	if m.blockOf(ev.lhs, 0) == nil {
		return false
	}
	p.bstores = append(p.bstores, ev)
	m.slotUse(p, ev.lhs)
	return true
}

// slotUse records the use of the slot that location loc lies in.
func (m *c13Model) slotUse(p *c13UPath, loc *c13Term) {
	for loc.op == c13OpField || loc.op == c13OpAddr {
		loc = loc.args[0]
	}
	if loc.op != c13OpIndex {
		p.problems = append(p.problems, fmt.Sprintf("writes the block value `%s` as a whole", m.show(loc)))
		return
	}
	base, off := loc.args[0], loc.args[1]
	iterIdx := p.el.elem.args[1]
	switch {
	case base.op == c13OpMake && off.key == iterIdx.key:
		// one slot per iteration
	case base.op == c13OpLoopIn && base.loop == p.el.l:
		c, isC := c13IntOf(off)
		if !isC || c < 0 {
			p.problems = append(p.problems, fmt.Sprintf("uses slot `%s` of a block window at a non-constant offset: the slots of different elements cannot be shown distinct", m.show(loc)))
			return
		}
		if p.winUsed == nil {
			p.winUsed = map[types.Object]int64{}
		}
		if c+1 > p.winUsed[base.obj] {
			p.winUsed[base.obj] = c + 1
		}
	default:
		p.problems = append(p.problems, fmt.Sprintf("uses slot `%s` of a block: neither the iteration's own index nor an offset into a window the loop advances, so another element may get the same slot", m.show(loc)))
	}
}

// windowsAdvanced checks, for a path that reaches the next iteration, that every window was advanced past the slots used.
func (m *c13Model) windowsAdvanced(p *c13UPath, out map[types.Object]*c13Term) {
	x := m.x
	for w, used := range p.winUsed {
		in := x.loopVar(c13OpLoopIn, p.el.l, w)
		o := out[w]
		adv := int64(0)
		if o != nil && o.op == c13OpSlice && o.args[0].key == in.key && o.args[2] == c13None && o.args[3] == c13None {
			if c, ok := c13IntOf(o.args[1]); ok {
				adv = c
			}
		}
		if adv < used {
			p.problems = append(p.problems, fmt.Sprintf("hands out %d slot(s) of the block window %s but advances the window by %d: the next element overwrites an object already placed in an action", used, w.Name(), adv))
		}
	}
}

// lastStore is the value last written to location loc on the path.
func (m *c13Model) lastStore(p *c13UPath, loc *c13Term) *c13Term {
	for i := len(p.bstores) - 1; i >= 0; i-- {
		if p.bstores[i].lhs.key == loc.key {
			return p.bstores[i].val
		}
	}
	return nil
}

// blockResolve reads `&block[k]` and one-element views of blocks back from the writes of the path.
func (m *c13Model) blockResolve(p *c13UPath, t *c13Term) (*c13Term, string) {
	x := m.x
	if t == nil || t.op != c13OpAddr || t.args[0].op != c13OpIndex {
		return t, ""
	}
	loc := t.args[0]
	blk := m.blockOf(loc, 0)
	if blk == nil {
		return t, ""
	}
	m.slotUse(p, loc)
	elemT := blk.typ.Underlying().(*types.Slice).Elem()
	st, isStruct := elemT.Underlying().(*types.Struct)
	if !isStruct {
		return t, ""
	}
	var keys []*types.Var
	var args []*c13Term
	for i := 0; i < st.NumFields(); i++ {
		f := st.Field(i)
		v := m.lastStore(p, x.field(loc, f, 0))
		if v == nil || v.key == x.zero(f.Type()).key {
			continue // a fresh block is zeroed
		}
		if v.op == c13OpSlice {
			view, why := m.viewLit(p, v)
			if why != "" {
				return t, why
			}
			v = view
		}
		keys = append(keys, f)
		args = append(args, v)
	}
	if keys == nil {
		keys = []*types.Var{}
	}
	return x.un(c13OpAddr, x.lit(elemT, keys, args)), ""
}

// viewLit reads a short view of a fresh block as the literal slice of the elements written on the path.
func (m *c13Model) viewLit(p *c13UPath, v *c13Term) (*c13Term, string) {
	x := m.x
	blk := m.blockOf(v, 0)
	if blk == nil {
		return v, ""
	}
	base, lo, hi, max := v.args[0], v.args[1], v.args[2], v.args[3]
	n, ok := int64(0), false
	if hi != c13None {
		n, ok = c13DiffConst(lo, hi)
	}
	if !ok || n < 0 || n > 8 {
		return v, fmt.Sprintf("the view `%s` of a block has no constant length", m.show(v))
	}
	if max == c13None {
		return v, fmt.Sprintf("the slice `%s` placed in an action is a two-index view of a shared block: its spare capacity is the next element's slot, so appending to it overwrites another action's element (a three-index view with cap == len is required)", m.show(v))
	}
	if c, okC := c13DiffConst(lo, max); !okC || c != n {
		return v, fmt.Sprintf("the view `%s` placed in an action has capacity beyond its length: appending to it reaches the next element's slot", m.show(v))
	}
	elems := make([]*c13Term, n)
	for k := int64(0); k < n; k++ {
		loc := x.index(base, x.plus(lo, c13Int(k)))
		m.slotUse(p, loc)
		e := m.lastStore(p, loc)
		if e == nil {
			e = x.zero(blk.typ.Underlying().(*types.Slice).Elem())
		}
		elems[k] = e
	}
	return x.lit(blk.typ, nil, elems), ""
}
