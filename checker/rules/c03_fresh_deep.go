package rules

import (
	"go/ast"
	"go/types"
	"sort"
)

// C03.T6, fresh decode targets, second half: freshness covers everything reachable from the target that the decoder
// appends into or partially overwrites.
//
// encoding/xml appends to a slice field that is not empty or has spare capacity WITHOUT zeroing the element it
// re-exposes (reflect Grow / SetLen), and decoding a struct element assigns only the attributes and children present.
// A target `&T{F: scratch[:0]}` is therefore not a fresh value although the T is new: the i-th child decoded into F
// inherits what the i-th child of an earlier element left in the backing array. The same holds for a map that is
// reused (entries stay) and for a pointer field aimed at a retained object (filled, not replaced). Observed at the
// moment of the DecodeElement / Decode call: every slice-, map- or pointer-typed field that has been set in the
// target (struct literal, stores before the call, nested structs and pointees included) must hold nil, or a value
// created in the same loop iteration; a value computed from the receiver's or a package-level variable's storage
// (len 0 but cap > 0 counts: `s.buf[:0]`) is a violation, a value of unknown origin undecided.

// c03DeepFinding is one non-fresh part of a decode target.
type c03DeepFinding struct {
	field   string // field path below the target ("Nodes", "Meta.Tags")
	bad     string // retained storage it is built on
	unknown string
	pos     ast.Node
}

// c03DeepFreshModel returns an interpreter hook that inspects the target of every decode call reached in a loop, and
// the findings it collected (per call).
func c03DeepFreshModel(recv *types.Var, found map[*ast.CallExpr][]c03DeepFinding) func(x *c03Interp, st *c03State, fr *c03Frame, call *ast.CallExpr, fn *types.Func, r *c03V, args []*c03V) ([]*c03V, bool) {
	return func(x *c03Interp, st *c03State, fr *c03Frame, call *ast.CallExpr, fn *types.Func, r *c03V, args []*c03V) ([]*c03V, bool) {
		if !isMethod(fn, "encoding/xml.Decoder", "DecodeElement") && !isMethod(fn, "encoding/xml.Decoder", "Decode") || len(args) == 0 {
			return nil, false
		}
		ls := -1
		for j := len(st.Trace) - 1; j >= 0; j-- {
			l := &st.Trace[j]
			if (l.Kind == "iter" || l.Kind == "range") && l.Node != nil && c03FrameWithin(fr, call, l.Node) {
				ls = j
				break
			}
		}
		if ls < 0 {
			return nil, false
		}
		obj := st.Pointee(args[0])
		if obj != nil && (obj.K == c03KPtr || obj.K == c03KAddr) {
			obj = st.Pointee(obj) // the pointer-to-pointer form
		}
		seen := map[string]bool{}
		for _, f := range found[call] {
			seen[f.field] = true
		}
		var walk func(v *c03V, path string, depth int)
		add := func(path, bad, unknown string) {
			if !seen[path] {
				seen[path] = true
				found[call] = append(found[call], c03DeepFinding{field: path, bad: bad, unknown: unknown, pos: call})
			}
		}
		classify := func(fv *c03V, path string, depth int) {
			switch fv.K {
			case c03KNil:
				return
			case c03KPtr:
				if fv.Born <= ls {
					add(path, "an object created before the loop iteration started", "")
					return
				}
				walk(st.Pointee(fv), path, depth+1)
				return
			case c03KList:
				if fv.Base == nil {
					if fv.Born > 0 && fv.Born <= ls {
						add(path, "a slice or map created before the loop iteration started", "")
					}
					return
				}
			}
			ret, unk := c05Origin(st, fv, recv, 0)
			switch {
			case ret != "":
				add(path, ret, "")
			case unk != "":
				add(path, "", unk)
			}
		}
		walk = func(v *c03V, path string, depth int) {
			if v == nil || v.K != c03KStruct || depth > 4 {
				return
			}
			if v.Base != nil {
				if ret, unk := c05Origin(st, v.Base, recv, 0); ret != "" || unk != "" {
					add(c03JoinPath(path, "*"), ret, unk) // a copy of a retained struct value shares its slices and maps
				}
			}
			var fs []*types.Var
			for f := range v.Fields {
				fs = append(fs, f)
			}
			sort.Slice(fs, func(i, j int) bool { return fs[i].Pos() < fs[j].Pos() })
			for _, f := range fs {
				fv := v.Fields[f]
				if fv == nil {
					continue
				}
				p := c03JoinPath(path, f.Name())
				switch f.Type().Underlying().(type) {
				case *types.Slice, *types.Map, *types.Pointer:
					classify(fv, p, depth)
				case *types.Struct:
					walk(fv, p, depth+1)
				}
			}
		}
		walk(obj, "", 0)
		return nil, false
	}
}

func c03JoinPath(a, b string) string {
	if a == "" {
		return b
	}
	return a + "." + b
}
