package rules

// c19_probe.go — how the binary-search loop obtains the ONE state it classifies per iteration.
//
// Either the loop body fetches the middle itself (directly or through a wrapper that counts as a fetch), or it calls
// a probe helper: a function of the package that makes exactly one state fetch outside any loop (the probe of the
// middle) and may contain the neighbour scans (loops with a fetch). In both cases the "probe site" is the node of
// the loop body whose result is the probed state; the fetch of the middle is read in the frame it lives in, so that
// the helper's parameters stand for the caller's expressions.

import (
	"fmt"
	"go/ast"
	"go/types"
)

type c19Probe struct {
	site  ast.Node      // in the search function: the fetch itself, or the call of the probe helper
	fr    *c19Frame     // the frame the fetch of the middle lives in
	fetch *ast.CallExpr // the fetch of the middle
}

// probeOf finds the probe site of the binary-search loop outer of root.fi; why explains a failure.
func (m *c19Model) probeOf(root *c19Frame, outer *ast.ForStmt) (p *c19Probe, why string) {
	own := m.fetchesIn(outer.Body)
	switch {
	case len(own) == 1:
		return &c19Probe{site: own[0], fr: root, fetch: own[0]}, ""
	case len(own) > 1:
		return nil, fmt.Sprintf("the loop makes %d state fetches of its own (outside its neighbour scans)", len(own))
	}
	var found []*c19Probe
	ast.Inspect(outer.Body, func(n ast.Node) bool {
		switch x := n.(type) {
		case *ast.ForStmt, *ast.RangeStmt, *ast.FuncLit:
			return false
		case *ast.CallExpr:
			g := m.funcs[callee(m.info, x)]
			if g == nil || g == root.fi {
				return true
			}
			if fs := m.fetchesIn(g.Decl.Body); len(fs) == 1 {
				found = append(found, &c19Probe{site: x, fr: &c19Frame{fi: g, call: x, parent: root}, fetch: fs[0]})
			}
		}
		return true
	})
	if len(found) == 1 {
		return found[0], ""
	}
	return nil, fmt.Sprintf("the loop makes no state fetch of its own and calls %d functions that make exactly one fetch outside their loops (a probe helper)", len(found))
}

// helperNilReturns checks, for a probe helper, that with every fetch finding nothing its returns hand back no
// state: the first result of every return reached is the nil literal or one of the (nil) probed variables.
// It returns the first offending return.
func (m *c19Model) helperNilReturns(p *c19Probe, par map[ast.Node]ast.Node) (bad *ast.ReturnStmt, nret int) {
	fi := p.fr.fi
	vars := map[types.Object]bool{}
	ast.Inspect(fi.Decl.Body, func(n ast.Node) bool {
		if call, ok := n.(*ast.CallExpr); ok {
			if _, isF := m.isFetch(call); isF {
				if v := m.resultVar(par, call); v != nil {
					vars[v] = true
				}
			}
		}
		return true
	})
	vars = c19Copies(m.info, fi.Decl.Body, vars)
	g := m.graph(fi)
	blk, idx := blockOf(g.g, p.fetch.Pos())
	if blk == nil {
		return nil, 0
	}
	m.walkFrom(blk, idx, m.nilAtom(vars, true), func(n ast.Node) bool {
		if ret, ok := n.(*ast.ReturnStmt); ok && len(ret.Results) > 0 {
			nret++
			first := ret.Results[0]
			if !m.info.Types[first].IsNil() && !vars[objOf(m.info, first)] && bad == nil {
				bad = ret
			}
		}
		return true
	})
	return
}
