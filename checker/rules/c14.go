package rules

import (
	"fmt"
	"go/ast"
	"go/token"
	"go/types"
	"os"

	"golang.org/x/tools/go/cfg"
	"golang.org/x/tools/go/packages"

	"osmcheck/core"
)

// Anchors of the C14 rules. Exported API only: annotate.ChildFirstOrdering, annotate.NewChildFirstOrdering,
// (*ChildFirstOrdering).Next/.Close, the RelationHistory/NotFound methods of the datasource interface,
// osm.RelationID, osm.Member{Type,Ref}, osm.Relation.Members, osm.TypeRelation, context.WithCancel,
// context.Context.Done/Err, sync.WaitGroup.Add/Done/Wait. Everything else is resolved by role:
//   - the struct fields by their types (context.Context, context.CancelFunc, sync.WaitGroup, chan RelationID,
//     map[RelationID]…, the interface with RelationHistory);
//   - the DFS ("walk") as the recursive function of package annotate from which the send on the output channel is
//     reached and that is entered from outside the recursion; its parameters by their types;
//   - the producer as whatever the single go statement of the constructor starts (closure or method);
//   - helpers are never named: every function is explored together with everything it statically calls inside
//     the module (c14_engine.go), values are compared as canonical terms (c14_val.go).
// No unexported identifier and no file name is used as an anchor.

// ---------------------------------------------------------------------------
// model

type c14Site struct {
	fi   *FuncInfo
	node ast.Node
}

// c14Call is a call expression evaluated by a node of an explored graph.
type c14Call struct {
	n    *c14Node
	call *ast.CallExpr
}

type c14Model struct {
	p     *core.Program
	pk    *packages.Package
	info  *types.Info
	named *types.Named

	fCtx, fCancel, fOut, fWG, fVisited, fDS *types.Var
	fStop                                   *types.Var                  // completion channel (when there is no wait group)
	fieldOwner                              map[*types.Var]*types.Named // the struct type declaring each role field

	ctor, next, closeFn, walk *FuncInfo
	idParam, pathParam        *types.Var
	ordParam                  types.Object

	sends, recvs, closes, visitedMut, visitedStores []c14Site
	nFuncs                                          int

	eng                *c14Eng
	wg, cg, pg, ng, xg *c14Graph // DFS, constructor, producer, Next, Close
	ord                map[*c14Graph]*c14Val
	goNode             *c14Node

	anchors   []string
	wf        *c14WalkFacts
	pdefers   *c14Deferred
	doneAlias map[*types.Var]bool // fields caching the Done channel of the ordering's context (c14_alias.go)
}

const c14RelID = core.ModulePath + ".RelationID"

var c14Cache = map[*core.Program]*c14Model{}

// c14Get returns the model of the loaded program; nil (after r.Anchor) when a keyed construct is gone.
func c14Get(r *core.R) *c14Model {
	m, ok := c14Cache[r.P]
	if !ok {
		m = c14Load(r.P)
		c14Cache[r.P] = m
	}
	if len(m.anchors) > 0 {
		for _, a := range m.anchors {
			r.Anchor(a)
		}
		return nil
	}
	return m
}

func c14IsNil(info *types.Info, e ast.Expr) bool {
	tv, ok := info.Types[e]
	return ok && tv.IsNil()
}

// c14Writes lists the statements of body that may change variable obj: assignments
// (including its definition), ++/--, range key/value bindings and &obj.
func c14Writes(info *types.Info, body ast.Node, obj types.Object) []ast.Node {
	var out []ast.Node
	if obj == nil {
		return out
	}
	is := func(e ast.Expr) bool {
		id, ok := ast.Unparen(e).(*ast.Ident)
		return ok && (info.Uses[id] == obj || info.Defs[id] == obj)
	}
	ast.Inspect(body, func(n ast.Node) bool {
		switch x := n.(type) {
		case *ast.AssignStmt:
			for _, l := range x.Lhs {
				if is(l) {
					out = append(out, x)
				}
			}
		case *ast.IncDecStmt:
			if is(x.X) {
				out = append(out, x)
			}
		case *ast.RangeStmt:
			if (x.Key != nil && is(x.Key)) || (x.Value != nil && is(x.Value)) {
				out = append(out, x)
			}
		case *ast.UnaryExpr:
			if x.Op == token.AND && is(x.X) {
				out = append(out, x)
			}
		}
		return true
	})
	return out
}

func c14KindBlock(g *cfg.CFG, stmt ast.Node, kinds ...cfg.BlockKind) *cfg.Block {
	for _, b := range g.Blocks {
		if b.Stmt != stmt {
			continue
		}
		for _, k := range kinds {
			if b.Kind == k {
				return b
			}
		}
	}
	return nil
}

func c14IsRelIDChan(t types.Type) bool {
	if t == nil {
		return false
	}
	ch, ok := t.Underlying().(*types.Chan)
	return ok && namedPath(ch.Elem()) == c14RelID
}

func c14Load(p *core.Program) *c14Model {
	m := &c14Model{p: p, ord: map[*c14Graph]*c14Val{}, fieldOwner: map[*types.Var]*types.Named{}}
	fail := func(format string, args ...interface{}) *c14Model {
		m.anchors = append(m.anchors, fmt.Sprintf(format, args...))
		return m
	}
	pk := p.Pkg("annotate")
	if pk == nil {
		return fail("package annotate")
	}
	m.pk, m.info = pk, pk.TypesInfo
	info := m.info
	named, st := structType(pk, "ChildFirstOrdering")
	if st == nil {
		return fail("annotate.ChildFirstOrdering (struct)")
	}
	m.named = named
	// the fields are looked for in the ordering itself and in struct types of this package it embeds by value or by
	// pointer (a `{ctx, cancel}` pair, a set type wrapping the map): grouping fields into a struct does not change roles
	var collect func(st *types.Struct, owner *types.Named, pred func(types.Type) bool, depth int, out *[]*types.Var)
	collect = func(st *types.Struct, owner *types.Named, pred func(types.Type) bool, depth int, out *[]*types.Var) {
		for i := 0; i < st.NumFields(); i++ {
			f := st.Field(i)
			if pred(f.Type()) {
				*out = append(*out, f)
				m.fieldOwner[f] = owner
				continue
			}
			t := f.Type()
			if pt, ok := t.(*types.Pointer); ok {
				t = pt.Elem()
			}
			if nt, ok := t.(*types.Named); ok && depth < 2 && nt.Obj().Pkg() == pk.Types {
				if inner, ok := nt.Underlying().(*types.Struct); ok {
					collect(inner, nt, pred, depth+1, out)
				}
			}
		}
	}
	uniq := func(role string, pred func(types.Type) bool) *types.Var {
		var got []*types.Var
		collect(st, named, pred, 0, &got)
		if len(got) != 1 {
			fail("ChildFirstOrdering field in the role %q (found %d, want exactly 1)", role, len(got))
			return nil
		}
		return got[0]
	}
	m.fCtx = uniq("cancellable context (context.Context)", func(t types.Type) bool { return namedPath(t) == "context.Context" })
	m.fCancel = uniq("cancel function (context.CancelFunc)", func(t types.Type) bool { return namedPath(t) == "context.CancelFunc" })
	// completion carrier: how Close learns that the producer goroutine has finished. A sync.WaitGroup (Add/Done/Wait), or
	// a channel (other than the output channel) that the producer closes as its last action and Close receives from
	var wgs, chans []*types.Var
	collect(st, named, func(t types.Type) bool { return namedPath(t) == "sync.WaitGroup" }, 0, &wgs)
	collect(st, named, func(t types.Type) bool {
		_, isChan := t.Underlying().(*types.Chan)
		return isChan && !c14IsRelIDChan(t)
	}, 0, &chans)
	switch {
	case len(wgs) == 1:
		m.fWG = wgs[0]
	case len(wgs) == 0 && len(chans) == 1:
		m.fStop = chans[0]
	default:
		fail("ChildFirstOrdering field in the role \"completion of the producer goroutine (one sync.WaitGroup, or one channel besides the output channel)\" (found %d wait groups, %d channels)", len(wgs), len(chans))
	}
	m.fOut = uniq("output channel (chan osm.RelationID)", c14IsRelIDChan)
	m.fVisited = uniq("visited set (map keyed by osm.RelationID)", func(t types.Type) bool {
		mp, ok := t.Underlying().(*types.Map)
		return ok && namedPath(mp.Key()) == c14RelID
	})
	m.fDS = uniq("history datasource (interface with RelationHistory)", func(t types.Type) bool {
		it, ok := t.Underlying().(*types.Interface)
		if !ok {
			return false
		}
		for i := 0; i < it.NumMethods(); i++ {
			if it.Method(i).Name() == "RelationHistory" {
				return true
			}
		}
		return false
	})
	if len(m.anchors) > 0 {
		return m
	}
	m.ctor = findFunc(pk, "NewChildFirstOrdering")
	m.next = findFunc(pk, "(*ChildFirstOrdering).Next")
	m.closeFn = findFunc(pk, "(*ChildFirstOrdering).Close")
	for _, a := range []struct {
		name string
		fi   *FuncInfo
	}{{"annotate.NewChildFirstOrdering", m.ctor}, {"(*ChildFirstOrdering).Next", m.next}, {"(*ChildFirstOrdering).Close", m.closeFn}} {
		if a.fi == nil || a.fi.Decl.Body == nil {
			fail("%s", a.name)
		}
	}
	if len(m.anchors) > 0 {
		return m
	}

	// channel operations on the output channel and mutations of the visited set, package wide (by field and by type,
	// so that an operation through a local alias is seen as well)
	isOut := func(e ast.Expr) bool { return fieldOf(info, e) == m.fOut || c14IsRelIDChan(info.TypeOf(e)) }
	isVisited := func(e ast.Expr) bool {
		if fieldOf(info, e) == m.fVisited {
			return true
		}
		t := info.TypeOf(e)
		return t != nil && types.Identical(t, m.fVisited.Type())
	}
	calls := map[*types.Func]map[*types.Func]bool{}
	sendFns := map[*types.Func]bool{}
	byObj := map[*types.Func]*FuncInfo{}
	for _, fi := range allFuncs(pk) {
		fi := fi
		m.nFuncs++
		byObj[fi.Obj] = fi
		calls[fi.Obj] = map[*types.Func]bool{}
		ast.Inspect(fi.Decl.Body, func(n ast.Node) bool {
			switch x := n.(type) {
			case *ast.SendStmt:
				if isOut(x.Chan) {
					m.sends = append(m.sends, c14Site{fi, x})
					sendFns[fi.Obj] = true
				}
			case *ast.UnaryExpr:
				if x.Op == token.ARROW && isOut(x.X) {
					m.recvs = append(m.recvs, c14Site{fi, x})
				}
			case *ast.RangeStmt:
				if isOut(x.X) {
					m.recvs = append(m.recvs, c14Site{fi, x})
				}
			case *ast.CallExpr:
				switch builtinName(info, x) {
				case "close":
					if len(x.Args) == 1 && isOut(x.Args[0]) {
						m.closes = append(m.closes, c14Site{fi, x})
					}
				case "delete", "clear":
					if len(x.Args) >= 1 && isVisited(x.Args[0]) {
						m.visitedMut = append(m.visitedMut, c14Site{fi, x})
					}
				}
				if fn := callee(info, x); fn != nil && fn.Pkg() == pk.Types {
					calls[fi.Obj][fn.Origin()] = true
				}
			case *ast.AssignStmt:
				for _, l := range x.Lhs {
					if fieldOf(info, l) == m.fVisited {
						m.visitedMut = append(m.visitedMut, c14Site{fi, x})
					}
					if ix, ok := ast.Unparen(l).(*ast.IndexExpr); ok && isVisited(ix.X) {
						m.visitedStores = append(m.visitedStores, c14Site{fi, x})
					}
				}
			}
			return true
		})
	}

	// the DFS: a recursive function from which a send on the output channel is reached, entered from outside the recursion
	reach := func(from *types.Func) map[*types.Func]bool {
		seen := map[*types.Func]bool{}
		var visit func(f *types.Func)
		visit = func(f *types.Func) {
			for g := range calls[f] {
				if !seen[g] {
					seen[g] = true
					visit(g)
				}
			}
		}
		visit(from)
		return seen
	}
	cand := map[*types.Func]bool{}
	for f := range calls {
		rs := reach(f)
		if !rs[f] {
			continue
		}
		sends := sendFns[f]
		for g := range rs {
			sends = sends || sendFns[g]
		}
		if sends {
			cand[f] = true
		}
	}
	var roots []*types.Func
	for f := range cand {
		entered := false
		for caller, cs := range calls {
			if cs[f] && !cand[caller] {
				entered = true
			}
		}
		if entered {
			roots = append(roots, f)
		}
	}
	if len(roots) != 1 {
		return fail("the DFS of ChildFirstOrdering: exactly one recursive function of package annotate that reaches the send on the output channel and is entered from outside the recursion (found %d)", len(roots))
	}
	m.walk = byObj[roots[0]]
	sig := m.walk.Obj.Type().(*types.Signature)
	nID, nPath, nOrd := 0, 0, 0
	consider := func(pv *types.Var) {
		if pv == nil {
			return
		}
		if namedPath(pv.Type()) == c14RelID {
			if _, isPtr := pv.Type().(*types.Pointer); !isPtr {
				m.idParam = pv
				nID++
			}
		}
		if sl, ok := pv.Type().Underlying().(*types.Slice); ok && namedPath(sl.Elem()) == c14RelID {
			m.pathParam = pv
			nPath++
		}
		if namedPath(pv.Type()) == namedPath(named) {
			m.ordParam = pv
			nOrd++
		}
	}
	consider(sig.Recv())
	for i := 0; i < sig.Params().Len(); i++ {
		consider(sig.Params().At(i))
	}
	if nID != 1 || nPath != 1 || nOrd != 1 || sig.Results().Len() != 1 || namedPath(sig.Results().At(0).Type()) != "error" {
		return fail("%s with the ordering as receiver or parameter, one osm.RelationID parameter (the id walked), one []osm.RelationID parameter (the DFS path) and an error result", m.walk.Name())
	}
	// the declared objects of the parameters (the signature's variables are the same objects as the declaration's)
	m.eng = c14NewEng(p)
	m.eng.noInline[m.walk.Obj] = true
	m.eng.keepStruct[namedPath(named)] = true // the ordering's own fields are roles, not values
	for _, owner := range m.fieldOwner {
		m.eng.keepStruct[namedPath(owner)] = true
	}

	m.wg = m.eng.explore("dfs", m.eng.fnOfDecl(m.walk), nil, nil, nil)
	m.cg = m.eng.explore("constructor", m.eng.fnOfDecl(m.ctor), nil, nil, nil)
	m.ng = m.eng.explore("Next", m.eng.fnOfDecl(m.next), nil, nil, nil)
	m.xg = m.eng.explore("Close", m.eng.fnOfDecl(m.closeFn), nil, nil, nil)
	for _, g := range []*c14Graph{m.wg, m.cg, m.ng, m.xg} {
		if g.truncated {
			return fail("exploration of %s within %d states", g.name, c14MaxStates)
		}
	}
	m.ord[m.wg] = m.wg.varVal(m.wg.root, m.ordParam) // receiver, or the parameter of the ordering's type
	for _, g := range []*c14Graph{m.ng, m.xg} {
		if g.root.fn.recv == nil {
			return fail("receiver of %s", g.root.fn.name)
		}
		m.ord[g] = g.varVal(g.root, g.root.fn.recv)
	}
	// the constructor's result is the new ordering
	for _, s := range m.cg.exitStates() {
		ret := s.n.ast.(*ast.ReturnStmt)
		if len(ret.Results) != 1 {
			return fail("NewChildFirstOrdering returning the new ordering")
		}
		v := c14StripAddr(m.cg.canon(s.n.ctx, ret.Results[0], s.n))
		if o := m.ord[m.cg]; o != nil && o.key != v.key {
			return fail("NewChildFirstOrdering returning one and the same new ordering on every path")
		}
		m.ord[m.cg] = v
	}
	if m.ord[m.cg] == nil {
		return fail("NewChildFirstOrdering returning the new ordering")
	}
	// the producer: what the single go statement of the constructor starts
	var gos []*c14Node
	for _, n := range m.cg.gos {
		if len(m.cg.byNode[n]) > 0 {
			gos = append(gos, n)
		}
	}
	if len(gos) == 1 {
		m.goNode = gos[0]
		call := gos[0].ast.(*ast.GoStmt).Call
		var fn *c14Fn
		if lit, ok := ast.Unparen(call.Fun).(*ast.FuncLit); ok {
			fn = m.eng.fnOfLit(gos[0].ctx.fn.pk, lit)
		} else if fo := callee(gos[0].ctx.fn.info, call); fo != nil && !m.eng.noInline[fo.Origin()] {
			fn = m.eng.declFn(fo)
		} else if v := m.cg.canon(gos[0].ctx, call.Fun, gos[0]); v.k == 'o' {
			// `produce := func() {…}; go produce()`: a local closure with a unique definition
			if lit, ok := v.node.(*ast.FuncLit); ok {
				fn = m.eng.fnOfLit(gos[0].ctx.fn.pk, lit)
			}
		}
		if fn != nil {
			m.pg = m.eng.explore("producer", fn, gos[0].ctx, call, gos[0])
			if m.pg.truncated {
				return fail("exploration of the producer goroutine within %d states", c14MaxStates)
			}
			m.ord[m.pg] = m.ord[m.cg]
		}
	}
	if os.Getenv("C14_DEBUG") != "" {
		for _, g := range []*c14Graph{m.wg, m.cg, m.pg, m.ng, m.xg} {
			if g != nil {
				fmt.Fprint(os.Stderr, g.dump())
			}
		}
	}
	return m
}
