package rules

import (
	"fmt"
	"go/ast"
	"go/constant"
	"go/token"
	"go/types"

	"golang.org/x/tools/go/cfg"
	"golang.org/x/tools/go/packages"

	"osmcheck/core"
)

// Anchors of the C14 rules. Exported API: annotate.ChildFirstOrdering,
// annotate.NewChildFirstOrdering, (*ChildFirstOrdering).Next/.Close, the
// RelationHistory/NotFound methods of the datasource interface, osm.RelationID,
// osm.Member{Type,Ref}, osm.Relation.Members, osm.TypeRelation. Everything else is
// resolved by role: the struct fields by their types (context.Context,
// context.CancelFunc, sync.WaitGroup, chan RelationID, map[RelationID]…, the
// interface with RelationHistory), the DFS function as "the method that sends on
// the output channel", its parameters by their types. No unexported identifier is
// used as an anchor.

// ---------------------------------------------------------------------------
// model

type c14Site struct {
	fi   *FuncInfo
	lit  *ast.FuncLit // innermost enclosing function literal, or nil
	node ast.Node
}

type c14Cond struct {
	blk  *cfg.Block
	ifs  *ast.IfStmt
	expr ast.Expr   // condition with leading negations removed
	t, f *cfg.Block // successor taken when expr is true / false
}

type c14Model struct {
	p     *core.Program
	pk    *packages.Package
	info  *types.Info
	named *types.Named

	fCtx, fCancel, fOut, fWG, fVisited, fDS *types.Var

	ctor, next, closeFn, walk *FuncInfo

	sends, recvs, closes, visitedMut []c14Site
	nFuncs                           int

	// walk
	recv      types.Object
	idParam   *types.Var
	pathParam *types.Var
	g         *cfg.CFG
	dom       map[*cfg.Block]map[*cfg.Block]bool
	par       map[ast.Node]ast.Node
	conds     []c14Cond
	send      *ast.SendStmt
	sendBlk   *cfg.Block
	sendIdx   int
	rec       []*ast.CallExpr

	// constructor
	ordVar  types.Object // variable holding the new ordering
	goStmts []*ast.GoStmt
	lit     *ast.FuncLit // body of the producer goroutine
	ctorG   *cfg.CFG
	ctorDom map[*cfg.Block]map[*cfg.Block]bool
	ctorPar map[ast.Node]ast.Node
}

const c14RelID = core.ModulePath + ".RelationID"

func c14RecvObj(info *types.Info, fi *FuncInfo) types.Object {
	if fi == nil || fi.Decl.Recv == nil || len(fi.Decl.Recv.List) == 0 || len(fi.Decl.Recv.List[0].Names) == 0 {
		return nil
	}
	return info.Defs[fi.Decl.Recv.List[0].Names[0]]
}

// c14OnBase reports whether e is `base.f`.
func c14OnBase(info *types.Info, e ast.Expr, f *types.Var, base types.Object) bool {
	if f == nil || base == nil || fieldOf(info, e) != f {
		return false
	}
	sel := ast.Unparen(e).(*ast.SelectorExpr)
	return objOf(info, sel.X) == base
}

func c14IsNil(info *types.Info, e ast.Expr) bool {
	tv, ok := info.Types[e]
	return ok && tv.IsNil()
}

func c14IsFalse(info *types.Info, e ast.Expr) bool {
	tv, ok := info.Types[e]
	return ok && tv.Value != nil && tv.Value.Kind() == constant.Bool && !constant.BoolVal(tv.Value)
}

// c14Same compares two side-effect-free expressions through the objects they mention
// (identifiers, field selections, index expressions, type conversions).
func c14Same(info *types.Info, a, b ast.Expr) bool {
	a, b = ast.Unparen(a), ast.Unparen(b)
	switch x := a.(type) {
	case *ast.Ident:
		y, ok := b.(*ast.Ident)
		return ok && objOf(info, x) != nil && objOf(info, x) == objOf(info, y)
	case *ast.SelectorExpr:
		y, ok := b.(*ast.SelectorExpr)
		if !ok {
			return false
		}
		sx, sy := info.Selections[x], info.Selections[y]
		if sx == nil || sy == nil || sx.Obj() != sy.Obj() {
			return false
		}
		return c14Same(info, x.X, y.X)
	case *ast.IndexExpr:
		y, ok := b.(*ast.IndexExpr)
		return ok && c14Same(info, x.X, y.X) && c14Same(info, x.Index, y.Index)
	case *ast.CallExpr:
		y, ok := b.(*ast.CallExpr)
		if !ok || len(x.Args) != 1 || len(y.Args) != 1 {
			return false
		}
		tx, ty := info.Types[x.Fun], info.Types[y.Fun]
		if !tx.IsType() || !ty.IsType() || !types.Identical(tx.Type, ty.Type) {
			return false
		}
		return c14Same(info, x.Args[0], y.Args[0])
	}
	return false
}

// c14Writes lists the statements of body that may change variable obj: assignments
// (including its definition), ++/--, range key/value bindings and &obj.
func c14Writes(info *types.Info, body ast.Node, obj types.Object) []ast.Node {
	var out []ast.Node
	if obj == nil {
		return out
	}
	is := func(e ast.Expr) bool {
		id, ok := ast.Unparen(e).(*ast.Ident)
		return ok && (info.Uses[id] == obj || info.Defs[id] == obj)
	}
	ast.Inspect(body, func(n ast.Node) bool {
		switch x := n.(type) {
		case *ast.AssignStmt:
			for _, l := range x.Lhs {
				if is(l) {
					out = append(out, x)
				}
			}
		case *ast.IncDecStmt:
			if is(x.X) {
				out = append(out, x)
			}
		case *ast.RangeStmt:
			if (x.Key != nil && is(x.Key)) || (x.Value != nil && is(x.Value)) {
				out = append(out, x)
			}
		case *ast.UnaryExpr:
			if x.Op == token.AND && is(x.X) {
				out = append(out, x)
			}
		}
		return true
	})
	return out
}

// c14Conds lists the if-conditions of a function as CFG branch points.
func c14Conds(g *cfg.CFG, body ast.Node) []c14Cond {
	ifOf := map[ast.Expr]*ast.IfStmt{}
	ast.Inspect(body, func(n ast.Node) bool {
		if s, ok := n.(*ast.IfStmt); ok {
			ifOf[s.Cond] = s
		}
		return true
	})
	var out []c14Cond
	for _, b := range g.Blocks {
		if !b.Live || len(b.Succs) != 2 || len(b.Nodes) == 0 {
			continue
		}
		e, ok := b.Nodes[len(b.Nodes)-1].(ast.Expr)
		if !ok || ifOf[e] == nil {
			continue
		}
		c := c14Cond{blk: b, ifs: ifOf[e], t: b.Succs[0], f: b.Succs[1]}
		for {
			e = ast.Unparen(e)
			if u, ok := e.(*ast.UnaryExpr); ok && u.Op == token.NOT {
				e = u.X
				c.t, c.f = c.f, c.t
				continue
			}
			break
		}
		c.expr = e
		out = append(out, c)
	}
	return out
}

// c14Guarded reports whether blk is reached only through edge `via` of a condition
// (via and other are the two successors of cblk).
func c14Guarded(cblk, via, other, blk *cfg.Block) bool {
	stop := func(b *cfg.Block) bool { return b == cblk }
	return reachableFrom([]*cfg.Block{via}, stop)[blk] && !reachableFrom([]*cfg.Block{other}, stop)[blk]
}

func c14KindBlock(g *cfg.CFG, stmt ast.Node, kinds ...cfg.BlockKind) *cfg.Block {
	for _, b := range g.Blocks {
		if b.Stmt != stmt {
			continue
		}
		for _, k := range kinds {
			if b.Kind == k {
				return b
			}
		}
	}
	return nil
}

func c14Preds(g *cfg.CFG, blk *cfg.Block) []*cfg.Block {
	var out []*cfg.Block
	for _, b := range g.Blocks {
		if !b.Live {
			continue
		}
		for _, s := range b.Succs {
			if s == blk {
				out = append(out, b)
				break
			}
		}
	}
	return out
}

// c14Load resolves the model; nil (after r.Anchor) when a keyed construct is gone.
func c14Load(r *core.R) *c14Model {
	pk := r.P.Pkg("annotate")
	if pk == nil {
		r.Anchor("package annotate")
		return nil
	}
	m := &c14Model{p: r.P, pk: pk, info: pk.TypesInfo}
	info := m.info
	named, st := structType(pk, "ChildFirstOrdering")
	if st == nil {
		r.Anchor("annotate.ChildFirstOrdering (struct)")
		return nil
	}
	m.named = named
	okAll := true
	uniq := func(role string, pred func(types.Type) bool) *types.Var {
		var got *types.Var
		n := 0
		for i := 0; i < st.NumFields(); i++ {
			if pred(st.Field(i).Type()) {
				got = st.Field(i)
				n++
			}
		}
		if n != 1 {
			r.Anchor(fmt.Sprintf("ChildFirstOrdering field in the role %q (found %d, want exactly 1)", role, n))
			okAll = false
			return nil
		}
		return got
	}
	m.fCtx = uniq("cancellable context (context.Context)", func(t types.Type) bool { return namedPath(t) == "context.Context" })
	m.fCancel = uniq("cancel function (context.CancelFunc)", func(t types.Type) bool { return namedPath(t) == "context.CancelFunc" })
	m.fWG = uniq("goroutine wait group (sync.WaitGroup)", func(t types.Type) bool { return namedPath(t) == "sync.WaitGroup" })
	m.fOut = uniq("output channel (chan osm.RelationID)", func(t types.Type) bool {
		ch, ok := t.Underlying().(*types.Chan)
		return ok && namedPath(ch.Elem()) == c14RelID
	})
	m.fVisited = uniq("visited set (map keyed by osm.RelationID)", func(t types.Type) bool {
		mp, ok := t.Underlying().(*types.Map)
		return ok && namedPath(mp.Key()) == c14RelID
	})
	m.fDS = uniq("history datasource (interface with RelationHistory)", func(t types.Type) bool {
		it, ok := t.Underlying().(*types.Interface)
		if !ok {
			return false
		}
		for i := 0; i < it.NumMethods(); i++ {
			if it.Method(i).Name() == "RelationHistory" {
				return true
			}
		}
		return false
	})
	if !okAll {
		return nil
	}
	m.ctor = findFunc(pk, "NewChildFirstOrdering")
	m.next = findFunc(pk, "(*ChildFirstOrdering).Next")
	m.closeFn = findFunc(pk, "(*ChildFirstOrdering).Close")
	for name, fi := range map[string]*FuncInfo{"annotate.NewChildFirstOrdering": m.ctor, "(*ChildFirstOrdering).Next": m.next, "(*ChildFirstOrdering).Close": m.closeFn} {
		if fi == nil || fi.Decl.Body == nil {
			r.Anchor(name)
			okAll = false
		}
	}
	if !okAll {
		return nil
	}

	// channel operations on the output channel and mutations of the visited set, package wide
	for _, fi := range allFuncs(pk) {
		m.nFuncs++
		par := parentsOf(r.P, fi)
		litOf := func(n ast.Node) *ast.FuncLit {
			l, _ := enclosing(par, n, func(x ast.Node) bool { _, ok := x.(*ast.FuncLit); return ok }).(*ast.FuncLit)
			return l
		}
		ast.Inspect(fi.Decl.Body, func(n ast.Node) bool {
			switch x := n.(type) {
			case *ast.SendStmt:
				if fieldOf(info, x.Chan) == m.fOut {
					m.sends = append(m.sends, c14Site{fi, litOf(x), x})
				}
			case *ast.UnaryExpr:
				if x.Op == token.ARROW && fieldOf(info, x.X) == m.fOut {
					m.recvs = append(m.recvs, c14Site{fi, litOf(x), x})
				}
			case *ast.RangeStmt:
				if fieldOf(info, x.X) == m.fOut {
					m.recvs = append(m.recvs, c14Site{fi, litOf(x), x})
				}
			case *ast.CallExpr:
				switch builtinName(info, x) {
				case "close":
					if len(x.Args) == 1 && fieldOf(info, x.Args[0]) == m.fOut {
						m.closes = append(m.closes, c14Site{fi, litOf(x), x})
					}
				case "delete", "clear":
					if len(x.Args) >= 1 && fieldOf(info, x.Args[0]) == m.fVisited {
						m.visitedMut = append(m.visitedMut, c14Site{fi, litOf(x), x})
					}
				}
			case *ast.AssignStmt:
				for _, l := range x.Lhs {
					if fieldOf(info, l) == m.fVisited {
						m.visitedMut = append(m.visitedMut, c14Site{fi, litOf(x), x})
					}
				}
			}
			return true
		})
	}

	// the DFS function: the method of the ordering that sends on the output channel
	for _, s := range m.sends {
		if s.lit == nil && namedPath(c14RecvType(s.fi)) == namedPath(named) {
			if m.walk == nil {
				m.walk = s.fi
				m.send = s.node.(*ast.SendStmt)
			}
		}
	}
	if m.walk == nil {
		r.Anchor("method of ChildFirstOrdering that sends on the output channel (the DFS walk)")
		return nil
	}
	m.recv = c14RecvObj(info, m.walk)
	sig := m.walk.Obj.Type().(*types.Signature)
	nID, nPath := 0, 0
	for i := 0; i < sig.Params().Len(); i++ {
		pv := sig.Params().At(i)
		if namedPath(pv.Type()) == c14RelID {
			if _, isPtr := pv.Type().(*types.Pointer); !isPtr {
				m.idParam = pv
				nID++
			}
		}
		if sl, ok := pv.Type().Underlying().(*types.Slice); ok && namedPath(sl.Elem()) == c14RelID {
			m.pathParam = pv
			nPath++
		}
	}
	if m.recv == nil || nID != 1 || nPath != 1 || sig.Results().Len() != 1 {
		r.Anchor(fmt.Sprintf("%s with one osm.RelationID parameter (the id walked), one []osm.RelationID parameter (the DFS path) and an error result", m.walk.Name()))
		return nil
	}
	m.g = newCFG(info, m.walk.Decl.Body)
	m.dom = dominators(m.g)
	m.par = parentsOf(r.P, m.walk)
	m.conds = c14Conds(m.g, m.walk.Decl.Body)
	m.sendBlk, m.sendIdx = blockOf(m.g, m.send.Pos())
	if m.sendBlk == nil || !m.sendBlk.Live {
		r.Anchor("the send on the output channel in the control-flow graph of " + m.walk.Name())
		return nil
	}
	inspectNoLit(m.walk.Decl.Body, func(n ast.Node) bool {
		if call, ok := n.(*ast.CallExpr); ok && callee(info, call) == m.walk.Obj {
			m.rec = append(m.rec, call)
		}
		return true
	})

	// constructor: the variable holding the new ordering, the go statements
	m.ctorG = newCFG(info, m.ctor.Decl.Body)
	m.ctorDom = dominators(m.ctorG)
	m.ctorPar = parentsOf(r.P, m.ctor)
	ast.Inspect(m.ctor.Decl.Body, func(n ast.Node) bool {
		switch x := n.(type) {
		case *ast.GoStmt:
			m.goStmts = append(m.goStmts, x)
		case *ast.AssignStmt:
			if len(x.Lhs) == 1 && len(x.Rhs) == 1 && m.ordVar == nil {
				if t := info.TypeOf(x.Rhs[0]); t != nil && namedPath(t) == namedPath(named) {
					if _, isCall := ast.Unparen(x.Rhs[0]).(*ast.CallExpr); !isCall {
						m.ordVar = objOf(info, x.Lhs[0])
					}
				}
			}
		}
		return true
	})
	if len(m.goStmts) == 1 {
		m.lit, _ = ast.Unparen(m.goStmts[0].Call.Fun).(*ast.FuncLit)
	}
	return m
}

func c14RecvType(fi *FuncInfo) types.Type {
	if recv := fi.Obj.Type().(*types.Signature).Recv(); recv != nil {
		return recv.Type()
	}
	return nil
}

// ---------------------------------------------------------------------------
// select shape

type c14Select struct {
	sel        *ast.SelectStmt
	own        *ast.CommClause
	done       *ast.CommClause
	hasDefault bool
}

// c14IsDoneRecv reports whether e is `<-base.ctx.Done()` on the ordering's own context field.
func (m *c14Model) isDoneRecv(e ast.Expr, base types.Object) bool {
	u, ok := ast.Unparen(e).(*ast.UnaryExpr)
	if !ok || u.Op != token.ARROW {
		return false
	}
	call, ok := ast.Unparen(u.X).(*ast.CallExpr)
	if !ok || len(call.Args) != 0 {
		return false
	}
	if !isMethod(callee(m.info, call), "context.Context", "Done") {
		return false
	}
	sel, ok := ast.Unparen(call.Fun).(*ast.SelectorExpr)
	return ok && c14OnBase(m.info, sel.X, m.fCtx, base)
}

func c14CommRecv(comm ast.Stmt) ast.Expr {
	switch x := comm.(type) {
	case *ast.ExprStmt:
		return x.X
	case *ast.AssignStmt:
		if len(x.Rhs) == 1 {
			return x.Rhs[0]
		}
	}
	return nil
}

// selectOf returns the select statement whose communication clause is comm, or nil.
func (m *c14Model) selectOf(par map[ast.Node]ast.Node, comm ast.Node, base types.Object) *c14Select {
	cl, ok := par[comm].(*ast.CommClause)
	if !ok || cl.Comm != comm {
		return nil
	}
	blk, _ := par[cl].(*ast.BlockStmt)
	sel, _ := par[blk].(*ast.SelectStmt)
	if sel == nil {
		return nil
	}
	s := &c14Select{sel: sel, own: cl}
	for _, c := range sel.Body.List {
		cc := c.(*ast.CommClause)
		if cc.Comm == nil {
			s.hasDefault = true
			continue
		}
		if cc == cl {
			continue
		}
		if e := c14CommRecv(cc.Comm); e != nil && m.isDoneRecv(e, base) {
			s.done = cc
		}
	}
	return s
}

// ---------------------------------------------------------------------------
// W1 emit-after-children

func c14W1(r *core.R) {
	m := c14Load(r)
	if m == nil {
		return
	}
	info, fn, fs := m.info, m.walk.Name(), r.P.Fset
	r.Stat("functions_scanned", m.nFuncs)

	// the single emission site sends the id being walked
	c := "send-site@" + fn
	switch {
	case len(m.sends) != 1:
		r.Bad(c, m.send.Pos(), "%d send statements on the output channel in package annotate; the ordering emits at exactly one site (the post-order position of the DFS), any further site emits out of order or twice", len(m.sends))
	case objOf(info, m.send.Value) != m.idParam:
		r.Bad(c, m.send.Pos(), "`%s` does not send the id being walked (parameter %s): the emitted id is not the relation whose children were just completed", src(fs, m.send), m.idParam.Name())
	case len(c14Writes(info, m.walk.Decl.Body, m.idParam)) > 0:
		r.Bad(c, m.send.Pos(), "parameter %s is reassigned inside %s; the emitted id is no longer the id the visited test and the history lookup used", m.idParam.Name(), fn)
	default:
		r.OK(c, m.send.Pos(), "the only send on the output channel in package annotate is `%s`, its value is the (never reassigned) id parameter", src(fs, m.send))
	}

	if len(m.rec) == 0 {
		r.Bad("post-order@"+fn, m.walk.Decl.Pos(), "%s never calls itself: relation members are not walked before their parent is emitted", fn)
		return
	}
	after := reachableFrom(m.sendBlk.Succs, nil)
	for _, call := range m.rec {
		cb, ci := blockOf(m.g, call.Pos())
		if cb == nil {
			r.Unknown("post-order@"+fn, call.Pos(), "recursive call `%s` not located in the control-flow graph", src(fs, call))
			continue
		}
		if after[cb] || (cb == m.sendBlk && ci > m.sendIdx) {
			r.Bad("post-order@"+fn, call.Pos(), "the recursive call `%s` is reachable after the send `%s` (%s): a parent can be emitted before the children walked by that call (graph 1→2, request [1] emits 1 before 2)",
				src(fs, call), src(fs, m.send), r.P.Rel(m.send.Pos()))
			continue
		}
		r.OK("post-order@"+fn, call.Pos(), "no control-flow path leads from the send `%s` back to `%s` (%d blocks reachable after the send)", src(fs, m.send), src(fs, call), len(after))

		// the send is only reached once the outermost loop around the recursion is exhausted
		var outer ast.Node
		for p := m.par[ast.Node(call)]; p != nil; p = m.par[p] {
			switch p.(type) {
			case *ast.RangeStmt, *ast.ForStmt:
				outer = p
			}
		}
		c2 := "members-complete@" + fn
		if outer == nil {
			r.Unknown(c2, call.Pos(), "the recursive call is not inside a loop over the members (enumerated idiom: `for … range history { for … range r.Members { … walk(child) } }`)")
			continue
		}
		done := c14KindBlock(m.g, outer, cfg.KindRangeDone, cfg.KindForDone)
		if done == nil {
			r.Unknown(c2, outer.Pos(), "loop exit block not found in the control-flow graph")
			continue
		}
		if done != m.sendBlk && !m.dom[m.sendBlk][done] {
			r.Bad(c2, m.send.Pos(), "the send `%s` can be reached without exhausting the loop at %s that walks the members: the id is emitted although some of its relation members have not been walked (child emitted after its parent)",
				src(fs, m.send), r.P.Rel(outer.Pos()))
			continue
		}
		r.OK(c2, m.send.Pos(), "the send is dominated by the exit of the outermost member loop (%s): every version's members have been walked on every path to the emission", r.P.Rel(outer.Pos()))
	}
}

// ---------------------------------------------------------------------------
// W2 emit-once

type c14VisitedTest struct {
	c               c14Cond
	key             ast.Expr
	present, absent *cfg.Block
}

// visitedTests finds the membership tests on the visited set in walk. Idioms:
//
//	if _, ok := o.visited[K]; ok {…}   (also with the lookup in the preceding statement, and `!ok`)
//	if o.visited[K] {…}                 (map[…]bool)
func (m *c14Model) visitedTests() []c14VisitedTest {
	info := m.info
	var out []c14VisitedTest
	lookup := func(e ast.Expr) ast.Expr {
		ix, ok := ast.Unparen(e).(*ast.IndexExpr)
		if ok && c14OnBase(info, ix.X, m.fVisited, m.recv) {
			return ix.Index
		}
		return nil
	}
	for _, c := range m.conds {
		if k := lookup(c.expr); k != nil {
			out = append(out, c14VisitedTest{c, k, c.t, c.f})
			continue
		}
		okObj := objOf(info, c.expr)
		if okObj == nil {
			continue
		}
		ws := c14Writes(info, m.walk.Decl.Body, okObj)
		if len(ws) != 1 {
			continue
		}
		as, ok := ws[0].(*ast.AssignStmt)
		if !ok || len(as.Lhs) != 2 || len(as.Rhs) != 1 || objOf(info, as.Lhs[1]) != okObj {
			continue
		}
		if k := lookup(as.Rhs[0]); k != nil {
			// the lookup must be evaluated immediately before the test (same block)
			if b, _ := blockOf(m.g, as.Pos()); b == c.blk {
				out = append(out, c14VisitedTest{c, k, c.t, c.f})
			}
		}
	}
	return out
}

func c14W2(r *core.R) {
	m := c14Load(r)
	if m == nil {
		return
	}
	info, fn, fs := m.info, m.walk.Name(), r.P.Fset

	// (a) membership test
	c := "visited-test@" + fn
	tests := m.visitedTests()
	var vt *c14VisitedTest
	for i := range tests {
		if objOf(info, tests[i].key) == m.idParam {
			vt = &tests[i]
			break
		}
	}
	switch {
	case vt == nil && len(tests) > 0:
		r.Bad(c, tests[0].c.expr.Pos(), "the visited test looks up `%s`, not the id being walked (%s): an id already emitted is walked and emitted again", src(fs, tests[0].key), m.idParam.Name())
	case vt == nil:
		r.Bad(c, m.walk.Decl.Pos(), "%s has no membership test on the visited set for its id: a relation that is a member of two parents, or requested twice (ids [1,1]), is emitted twice", fn)
	case !m.dom[m.sendBlk][vt.c.blk]:
		r.Bad(c, vt.c.expr.Pos(), "the visited test `%s` does not dominate the send `%s`: some path emits without consulting the visited set", src(fs, vt.c.ifs.Cond), src(fs, m.send))
	case reachableFrom([]*cfg.Block{vt.present}, func(b *cfg.Block) bool { return b == vt.c.blk })[m.sendBlk]:
		r.Bad(c, vt.c.expr.Pos(), "the send is reachable from the already-visited edge of `%s`: an id found in the visited set is emitted again", src(fs, vt.c.ifs.Cond))
	default:
		r.OK(c, vt.c.expr.Pos(), "`%s` on the id parameter dominates the send; its already-visited edge never reaches the send", src(fs, vt.c.ifs.Cond))
	}

	// (b) store
	c = "visited-store@" + fn
	var store *ast.AssignStmt
	var storeKey ast.Expr
	inspectNoLit(m.walk.Decl.Body, func(n ast.Node) bool {
		as, ok := n.(*ast.AssignStmt)
		if !ok {
			return true
		}
		for _, l := range as.Lhs {
			if ix, ok := ast.Unparen(l).(*ast.IndexExpr); ok && c14OnBase(info, ix.X, m.fVisited, m.recv) {
				if store == nil || objOf(info, ix.Index) == m.idParam {
					store, storeKey = as, ix.Index
				}
			}
		}
		return true
	})
	ownClause, _ := m.par[ast.Node(m.send)].(*ast.CommClause)
	switch {
	case store == nil:
		r.Bad(c, m.send.Pos(), "nothing in %s records the id in the visited set: a relation that is a member of two parents, or requested twice, is emitted once per walk (graph 1→3, 2→3, request [1,2] emits 3 twice)", fn)
	case objOf(info, storeKey) != m.idParam:
		r.Bad(c, store.Pos(), "`%s` records `%s`, not the id being walked (%s): the emitted id stays unvisited and is emitted again on the next walk", src(fs, store), src(fs, storeKey), m.idParam.Name())
	case posDominates(m.g, m.dom, store.Pos(), m.send.Pos()):
		r.OK(c, store.Pos(), "`%s` dominates the send: the id is in the visited set whenever it has been emitted", src(fs, store))
	default:
		// idiom B: the store post-dominates the emission (every path from the send case to an exit passes it)
		okB := false
		if ownClause != nil {
			if cb := c14KindBlock(m.g, ownClause, cfg.KindSelectCaseBody); cb != nil {
				sb, _ := blockOf(m.g, store.Pos())
				okB = sb != nil
				for b := range reachableFrom([]*cfg.Block{cb}, func(b *cfg.Block) bool { return b == sb }) {
					if b != sb && len(b.Succs) == 0 {
						okB = false
					}
				}
			}
		}
		if okB {
			r.OK(c, store.Pos(), "`%s` lies on every path from the emission to the function's exits (no recursion after the send, W1)", src(fs, store))
		} else {
			r.Bad(c, store.Pos(), "`%s` neither dominates the send nor lies on every path after it: an emitted id can stay outside the visited set and be emitted again", src(fs, store))
		}
	}

	// (b2) an id is marked visited only when its emission is attempted: the cycle cut and the not-found exit leave
	// walk without emitting, and a relation left that way must stay unvisited so that its own requested id still emits it.
	var allStores []*ast.AssignStmt
	inspectNoLit(m.walk.Decl.Body, func(n ast.Node) bool {
		if as, ok := n.(*ast.AssignStmt); ok {
			for _, l := range as.Lhs {
				if ix, ok := ast.Unparen(l).(*ast.IndexExpr); ok && c14OnBase(info, ix.X, m.fVisited, m.recv) {
					allStores = append(allStores, as)
				}
			}
		}
		return true
	})
	for _, store := range allStores {
		if reachableFrom([]*cfg.Block{m.sendBlk}, nil)[func() *cfg.Block { b, _ := blockOf(m.g, store.Pos()); return b }()] && !posDominates(m.g, m.dom, store.Pos(), m.send.Pos()) {
			continue // a store after the emission (idiom B) marks only emitted ids
		}
		c2 := "visited-only-when-emitting@" + fn
		var sel *ast.SelectStmt
		for p := m.par[ast.Node(m.send)]; p != nil; p = m.par[p] {
			if s, ok := p.(*ast.SelectStmt); ok {
				sel = s
				break
			}
		}
		inEmit := func(b *cfg.Block) bool {
			if b == m.sendBlk {
				return true
			}
			for _, n := range b.Nodes {
				if sel != nil && n.Pos() >= sel.Pos() && n.End() <= sel.End() {
					return true
				}
			}
			return false
		}
		sb, si := blockOf(m.g, store.Pos())
		why := ""
		var wpos token.Pos
		scan := func(b *cfg.Block, from int) {
			for _, n := range b.Nodes[from:] {
				ast.Inspect(n, func(x ast.Node) bool {
					if call, ok := x.(*ast.CallExpr); ok && callee(info, call) == m.walk.Obj && why == "" {
						why, wpos = "a recursive call `"+src(fs, call)+"` runs after the id was marked visited and before it is emitted", call.Pos()
					}
					return true
				})
				if ret, ok := n.(*ast.ReturnStmt); ok && why == "" {
					why, wpos = "`"+src(fs, ret)+"` leaves "+fn+" after the id was marked visited without an emission having been attempted", ret.Pos()
				}
			}
		}
		if sb != nil && !inEmit(sb) {
			scan(sb, si+1)
			seen := map[*cfg.Block]bool{sb: true}
			work := append([]*cfg.Block{}, sb.Succs...)
			for len(work) > 0 && why == "" {
				b := work[len(work)-1]
				work = work[:len(work)-1]
				if seen[b] || inEmit(b) {
					continue
				}
				seen[b] = true
				scan(b, 0)
				if len(b.Succs) == 0 && why == "" {
					why, wpos = "a path leaves "+fn+" after the id was marked visited without an emission having been attempted", store.Pos()
				}
				work = append(work, b.Succs...)
			}
		}
		if why != "" {
			r.Bad(c2, wpos, "%s: a relation whose walk is cut short (cycle cut, error) stays marked and is never emitted when its own requested id comes up (graph 1→2, 2→3, 3→2 with request [1,2,3] never emits 3)", why)
		} else {
			r.OK(c2, store.Pos(), "every path from `%s` goes straight into the emitting select: no recursion and no return in between", src(fs, store))
		}
	}

	// (c) the visited set only grows
	c = "visited-monotone"
	bad := false
	for _, s := range m.visitedMut {
		if s.fi.Obj == m.ctor.Obj && s.lit == nil && len(m.goStmts) == 1 && posDominates(m.ctorG, m.ctorDom, s.node.Pos(), m.goStmts[0].Pos()) {
			continue // initialisation before the producer starts
		}
		bad = true
		r.Bad(c, s.node.Pos(), "`%s` in %s removes or replaces entries of the visited set: ids emitted before it can be emitted again", src(fs, s.node), s.fi.Name())
	}
	if !bad {
		r.OKTrivial(c, m.walk.Decl.Pos(), "no delete/clear/reassignment of the visited set after the producer starts (%d functions of package annotate scanned)", m.nFuncs)
	}

	// (d) walk runs on one goroutine only: every use is a plain call from walk itself or from the producer closure
	c = "callers@" + fn
	nCalls, badUse := 0, false
	var rootCalls []*ast.CallExpr
	for _, fi := range allFuncs(m.pk) {
		par := parentsOf(r.P, fi)
		ast.Inspect(fi.Decl.Body, func(n ast.Node) bool {
			id, ok := n.(*ast.Ident)
			if !ok || info.Uses[id] != m.walk.Obj {
				return true
			}
			sel, _ := par[id].(*ast.SelectorExpr)
			call, _ := par[sel].(*ast.CallExpr)
			lit, _ := enclosing(par, id, func(x ast.Node) bool { _, ok := x.(*ast.FuncLit); return ok }).(*ast.FuncLit)
			why := ""
			switch {
			case sel == nil || call == nil || call.Fun != ast.Expr(sel):
				why = "is used as a method value"
			case func() bool { _, g := par[call].(*ast.GoStmt); return g }():
				why = "is started on its own goroutine"
			case func() bool { _, d := par[call].(*ast.DeferStmt); return d }():
				why = "is deferred"
			case fi.Obj == m.walk.Obj && lit == nil:
				nCalls++
			case fi.Obj == m.ctor.Obj && m.lit != nil && lit == m.lit:
				nCalls++
				rootCalls = append(rootCalls, call)
			default:
				why = "is called outside the DFS and the producer goroutine"
			}
			if why != "" {
				badUse = true
				r.Bad(c, id.Pos(), "%s %s in %s: the visited set and the DFS path are not synchronised, so the emit-once argument (sequential test, store, send) no longer holds", fn, why, fi.Name())
			}
			return true
		})
	}
	if !badUse {
		r.OK(c, m.walk.Decl.Pos(), "%d call sites, all plain calls inside %s or inside the single producer closure of %s: visited/path are confined to one goroutine", nCalls, fn, m.ctor.Name())
	}

	// (e) the producer loop walks every requested id, in order, through the same test
	c = "producer-loop@" + m.ctor.Name()
	if m.lit == nil || len(rootCalls) != 1 {
		r.Bad(c, m.ctor.Decl.Pos(), "expected exactly one producer goroutine (`go func(){…}()`) with exactly one call of %s (found %d go statements, %d calls)", fn, len(m.goStmts), len(rootCalls))
		return
	}
	root := rootCalls[0]
	lg := newCFG(info, m.lit.Body)
	ldom := dominators(lg)
	var loop *ast.RangeStmt
	for p := m.ctorPar[ast.Node(root)]; p != nil && p != ast.Node(m.lit); p = m.ctorPar[p] {
		if rs, ok := p.(*ast.RangeStmt); ok {
			loop = rs
			break
		}
		if _, ok := p.(*ast.ForStmt); ok {
			break
		}
	}
	idsParam := func() types.Object {
		if loop == nil {
			return nil
		}
		o := objOf(info, loop.X)
		sig := m.ctor.Obj.Type().(*types.Signature)
		for i := 0; i < sig.Params().Len(); i++ {
			if sig.Params().At(i) == o {
				if sl, ok := o.Type().Underlying().(*types.Slice); ok && namedPath(sl.Elem()) == c14RelID {
					return o
				}
			}
		}
		return nil
	}()
	idArg := -1
	sig := m.walk.Obj.Type().(*types.Signature)
	for i := 0; i < sig.Params().Len(); i++ {
		if sig.Params().At(i) == m.idParam {
			idArg = i
		}
	}
	switch {
	case loop == nil:
		r.Unknown(c, root.Pos(), "the producer's call `%s` is not inside a range loop (enumerated idiom: `for _, id := range ids { err := walk(id, path); if err != nil {…; return} }`)", src(fs, root))
	case idsParam == nil:
		r.Bad(c, loop.Pos(), "the producer loop ranges over `%s`, which is not the constructor's complete []osm.RelationID parameter: some requested relations are never walked and never emitted", src(fs, loop.X))
	case len(c14Writes(info, m.ctor.Decl.Body, idsParam)) > 0:
		r.Bad(c, loop.Pos(), "the request list `%s` is reassigned in the constructor before/while it is ranged over", src(fs, loop.X))
	case loop.Value == nil || idArg < 0 || idArg >= len(root.Args) || objOf(info, root.Args[idArg]) != objOf(info, loop.Value):
		r.Bad(c, root.Pos(), "`%s` does not pass the loop's element of the request list as the id to walk", src(fs, root))
	default:
		head := c14KindBlock(lg, loop, cfg.KindRangeLoop)
		cb, _ := blockOf(lg, root.Pos())
		if head == nil || cb == nil || len(head.Succs) != 2 {
			r.Unknown(c, loop.Pos(), "producer loop not located in the control-flow graph")
			break
		}
		if cb != head.Succs[0] {
			r.Bad(c, root.Pos(), "the call `%s` is not executed unconditionally at the start of every iteration: some requested ids are skipped without being walked", src(fs, root))
			break
		}
		// error idiom: err := walk(...); if err != nil { …; return }
		as, _ := m.ctorPar[ast.Node(root)].(*ast.AssignStmt)
		var errObj types.Object
		if as != nil && len(as.Lhs) == 1 {
			errObj = objOf(info, as.Lhs[0])
		}
		stops := false
		for _, cd := range c14Conds(lg, m.lit.Body) {
			be, ok := cd.expr.(*ast.BinaryExpr)
			if !ok || errObj == nil || !ldom[cd.blk][cb] && cd.blk != cb {
				continue
			}
			var edge *cfg.Block
			switch {
			case be.Op == token.NEQ && objOf(info, be.X) == errObj && c14IsNil(info, be.Y):
				edge = cd.t
			case be.Op == token.EQL && objOf(info, be.X) == errObj && c14IsNil(info, be.Y):
				edge = cd.f
			default:
				continue
			}
			if !reachableFrom([]*cfg.Block{edge}, nil)[head] {
				stops = true
			}
		}
		if !stops {
			r.Bad(c, root.Pos(), "the error of `%s` does not end the producer loop (`if err != nil { …; return }`): after a datasource error or cancellation the goroutine keeps walking the remaining ids", src(fs, root))
			break
		}
		r.OK(c, root.Pos(), "`for … range %s` calls `%s` first thing in every iteration with the loop element; a non-nil error leaves the loop; duplicates in the request list run into the dominating visited test of %s", src(fs, loop.X), src(fs, root), fn)
	}
}

// ---------------------------------------------------------------------------
// W3 cycle cut, termination, histories not found, error propagation

// c14Scan is the scan of the DFS path that precedes a recursive call.
type c14Scan struct {
	rs         *ast.RangeStmt
	head, done *cfg.Block
	c          c14Cond
	match      *cfg.Block // edge taken when an element of the path equals the member id
	nomatch    *cfg.Block
}

// scanFor finds `for _, p := range path { if p == X {…} }` with X the first argument of the recursive call.
func (m *c14Model) scanFor(x ast.Expr) (*c14Scan, string) {
	info := m.info
	why := "no loop over the path parameter compares its elements with the member id"
	var found *c14Scan
	inspectNoLit(m.walk.Decl.Body, func(n ast.Node) bool {
		rs, ok := n.(*ast.RangeStmt)
		if !ok || found != nil || objOf(info, rs.X) != types.Object(m.pathParam) || rs.Value == nil {
			return true
		}
		pv := objOf(info, rs.Value)
		for _, c := range m.conds {
			if c.ifs.Pos() < rs.Body.Pos() || c.ifs.End() > rs.Body.End() {
				continue
			}
			be, ok := c.expr.(*ast.BinaryExpr)
			if !ok || (be.Op != token.EQL && be.Op != token.NEQ) {
				continue
			}
			var other ast.Expr
			switch {
			case objOf(info, be.X) == pv:
				other = be.Y
			case objOf(info, be.Y) == pv:
				other = be.X
			default:
				continue
			}
			if !c14Same(info, other, x) {
				why = fmt.Sprintf("the path scan compares against `%s`, not against the id handed to the recursive call", src(m.p.Fset, other))
				continue
			}
			s := &c14Scan{rs: rs, c: c, match: c.t, nomatch: c.f}
			if be.Op == token.NEQ {
				s.match, s.nomatch = c.f, c.t
			}
			s.head = c14KindBlock(m.g, rs, cfg.KindRangeLoop)
			s.done = c14KindBlock(m.g, rs, cfg.KindRangeDone)
			found = s
		}
		return true
	})
	return found, why
}

// c14ErrCondReturns recognises, for error variable errObj, a dominating-from-pos test
// `errObj != nil` whose true edge returns a value mentioning errObj.
func (m *c14Model) errReturned(errObj types.Object, from *cfg.Block) *c14Cond {
	for i := range m.conds {
		c := m.conds[i]
		be, ok := c.expr.(*ast.BinaryExpr)
		if !ok || objOf(m.info, be.X) != errObj || !c14IsNil(m.info, be.Y) {
			continue
		}
		var edge *cfg.Block
		switch be.Op {
		case token.NEQ:
			edge = c.t
		case token.EQL:
			edge = c.f
		default:
			continue
		}
		if c.blk != from && !m.dom[c.blk][from] {
			continue
		}
		if len(edge.Nodes) == 0 {
			continue
		}
		ret, ok := edge.Nodes[len(edge.Nodes)-1].(*ast.ReturnStmt)
		if !ok || len(ret.Results) == 0 || !usesObj(m.info, ret.Results[len(ret.Results)-1], errObj) {
			continue
		}
		return &m.conds[i]
	}
	return nil
}

// historyCall finds `rels, err := o.ds.RelationHistory(ctx, id)` in walk.
func (m *c14Model) historyCall() (call *ast.CallExpr, rels, errObj types.Object) {
	inspectNoLit(m.walk.Decl.Body, func(n ast.Node) bool {
		as, ok := n.(*ast.AssignStmt)
		if !ok || len(as.Lhs) != 2 || len(as.Rhs) != 1 || call != nil {
			return true
		}
		ce, ok := ast.Unparen(as.Rhs[0]).(*ast.CallExpr)
		if !ok {
			return true
		}
		fn := callee(m.info, ce)
		sel, ok := ast.Unparen(ce.Fun).(*ast.SelectorExpr)
		if fn == nil || fn.Name() != "RelationHistory" || !ok || !c14OnBase(m.info, sel.X, m.fDS, m.recv) {
			return true
		}
		call, rels, errObj = ce, objOf(m.info, as.Lhs[0]), objOf(m.info, as.Lhs[1])
		return true
	})
	return
}

// notFoundCond finds `if o.ds.NotFound(err) {…}` on the history error.
func (m *c14Model) notFoundCond(errObj types.Object) *c14Cond {
	for i := range m.conds {
		ce, ok := m.conds[i].expr.(*ast.CallExpr)
		if !ok || len(ce.Args) != 1 || objOf(m.info, ce.Args[0]) != errObj {
			continue
		}
		fn := callee(m.info, ce)
		sel, ok := ast.Unparen(ce.Fun).(*ast.SelectorExpr)
		if fn == nil || fn.Name() != "NotFound" || !ok || !c14OnBase(m.info, sel.X, m.fDS, m.recv) {
			continue
		}
		return &m.conds[i]
	}
	return nil
}

func (m *c14Model) argIndex(p *types.Var) int {
	sig := m.walk.Obj.Type().(*types.Signature)
	for i := 0; i < sig.Params().Len(); i++ {
		if sig.Params().At(i) == p {
			return i
		}
	}
	return -1
}

func (m *c14Model) recBlocks() map[*cfg.Block]bool {
	out := map[*cfg.Block]bool{}
	for _, call := range m.rec {
		if b, _ := blockOf(m.g, call.Pos()); b != nil {
			out[b] = true
		}
	}
	return out
}

func c14W3(r *core.R) {
	m := c14Load(r)
	if m == nil {
		return
	}
	info, fn, fs := m.info, m.walk.Name(), r.P.Fset
	iID, iPath := m.argIndex(m.idParam), m.argIndex(m.pathParam)
	recBlks := m.recBlocks()

	// parameters are never reassigned (the scan and the append see the caller's path, the tests see the caller's id)
	c := "params-stable@" + fn
	if w := append(c14Writes(info, m.walk.Decl.Body, m.idParam), c14Writes(info, m.walk.Decl.Body, m.pathParam)...); len(w) > 0 {
		r.Bad(c, w[0].Pos(), "`%s` overwrites a parameter of %s: the cycle scan / path extension no longer work on the ancestors handed in by the caller", src(fs, w[0]), fn)
	} else {
		r.OK(c, m.walk.Decl.Pos(), "parameters %s and %s are never assigned, incremented or address-taken in %s", m.idParam.Name(), m.pathParam.Name(), fn)
	}

	if len(m.rec) == 0 {
		r.Bad("path-arg@"+fn, m.walk.Decl.Pos(), "%s never calls itself", fn)
	}
	for _, call := range m.rec {
		sel, _ := ast.Unparen(call.Fun).(*ast.SelectorExpr)
		if sel == nil || objOf(info, sel.X) != m.recv || len(call.Args) <= iID || len(call.Args) <= iPath {
			r.Unknown("path-arg@"+fn, call.Pos(), "recursive call `%s` is not a plain call on the receiver", src(fs, call))
			continue
		}
		x, pa := call.Args[iID], call.Args[iPath]

		// (a) path argument
		c = "path-arg@" + fn
		ap, _ := ast.Unparen(pa).(*ast.CallExpr)
		switch {
		case ap == nil || builtinName(info, ap) != "append" || len(ap.Args) != 2 || ap.Ellipsis.IsValid() || objOf(info, ap.Args[0]) != types.Object(m.pathParam):
			r.Bad(c, pa.Pos(), "the recursive call passes `%s` as DFS path instead of `append(%s, %s)`: the id being entered is never recorded, the path scan never matches and a cycle (1→2→1) recurses without bound",
				src(fs, pa), m.pathParam.Name(), src(fs, x))
		case c14Same(info, ap.Args[1], x):
			r.OK(c, pa.Pos(), "`%s`: the callee's path is the caller's path plus the id being entered", src(fs, pa))
		case objOf(info, ap.Args[1]) == types.Object(m.idParam):
			r.Unknown(c, pa.Pos(), "`%s` records the caller's id rather than the id being entered; this variant is not among the enumerated idioms (the emit-once argument on cycles relies on the entered id being on its own path)", src(fs, pa))
		default:
			r.Bad(c, pa.Pos(), "`%s` appends `%s`, but the id being entered (and compared by the path scan) is `%s`: the scan cannot recognise an ancestor, a cycle recurses without bound", src(fs, pa), src(fs, ap.Args[1]), src(fs, x))
		}

		// (b) the scan of the path dominates the call, a match leaves the function
		c = "cycle-scan@" + fn
		cb, _ := blockOf(m.g, call.Pos())
		sc, why := m.scanFor(x)
		stableX := true
		if xo := objOf(info, x); xo != nil && xo != types.Object(m.idParam) {
			stableX = len(c14Writes(info, m.walk.Decl.Body, xo)) == 1
		}
		switch {
		case sc == nil:
			r.Bad(c, call.Pos(), "%s before `%s`: on a reference cycle (1→2→1, or the self reference 1→1) the recursion never ends", why, src(fs, call))
		case sc.head == nil || sc.done == nil || cb == nil || len(sc.head.Succs) != 2:
			r.Unknown(c, sc.rs.Pos(), "path scan not located in the control-flow graph")
		case !stableX:
			r.Bad(c, call.Pos(), "`%s` is assigned more than once: the id compared by the path scan need not be the id handed to the recursive call", src(fs, x))
		case sc.c.blk != sc.head.Succs[0]:
			r.Bad(c, sc.c.expr.Pos(), "the comparison `%s` is not evaluated unconditionally for every element of the path: an ancestor can be missed and the cycle recursed into again", src(fs, sc.c.ifs.Cond))
		case len(c14Preds(m.g, sc.done)) != 1:
			r.Bad(c, sc.rs.Pos(), "the path scan can be left by `break` before all ancestors were compared; the recursive call is then reached although the member may be an ancestor")
		case cb != sc.done && !m.dom[cb][sc.done]:
			r.Bad(c, call.Pos(), "`%s` is not dominated by the exhausted path scan at %s: some path recurses into a member without checking whether it is an ancestor (unbounded recursion on a cycle)", src(fs, call), r.P.Rel(sc.rs.Pos()))
		default:
			reg := reachableFrom([]*cfg.Block{sc.match}, nil)
			hitRec := false
			for b := range recBlks {
				if reg[b] {
					hitRec = true
				}
			}
			switch {
			case hitRec && reg[sc.done] && func() bool {
				// recursion into the matched member itself: reachable without a fresh scan
				return reachableFrom([]*cfg.Block{sc.match}, func(b *cfg.Block) bool { return b == sc.head })[cb]
			}():
				r.Bad(c, sc.c.expr.Pos(), "when `%s` holds (the member is an ancestor) control still reaches `%s`: the cycle is not cut and the recursion is unbounded (graph 1→2→1)", src(fs, sc.c.ifs.Cond), src(fs, call))
			case hitRec || reg[m.sendBlk]:
				r.Bad(c, sc.c.expr.Pos(), "when `%s` holds (the member is an ancestor) the walk of the current id carries on (reaches %s) instead of leaving %s: on the cycle 1→2→1 with request [1] the inner activation for 1 (entered through 2) completes and emits 1, then the outer activation emits 1 again",
					src(fs, sc.c.ifs.Cond), map[bool]string{true: "a further recursive call", false: "the send"}[hitRec], fn)
			default:
				r.OK(c, call.Pos(), "`%s` is dominated by the exhausted scan `for … range %s` comparing every element with `%s`; a match leaves %s without recursing or sending, so path elements stay pairwise distinct and the recursion depth is bounded by the number of distinct ids + 1",
					src(fs, call), m.pathParam.Name(), src(fs, x), fn)
			}
		}

		// (c) the error of the recursive call is returned
		c = "rec-error@" + fn
		as, _ := m.par[ast.Node(call)].(*ast.AssignStmt)
		var eo types.Object
		if as != nil && len(as.Lhs) == 1 {
			eo = objOf(info, as.Lhs[0])
		}
		switch {
		case eo != nil && cb != nil && m.errReturned(eo, cb) != nil:
			ec := m.errReturned(eo, cb)
			r.OK(c, call.Pos(), "the result of `%s` is tested by `%s` right after the call and returned when non-nil", src(fs, call), src(fs, ec.ifs.Cond))
		case func() bool { ret, ok := m.par[ast.Node(call)].(*ast.ReturnStmt); return ok && len(ret.Results) == 1 }():
			r.Unknown(c, call.Pos(), "`return %s` ends the member loop after the first member; not an enumerated idiom", src(fs, call))
		default:
			r.Bad(c, call.Pos(), "the error of `%s` is not returned: a datasource error or the cancellation observed in a child is swallowed, the parent is emitted although its child was not, and the walk goes on after Close", src(fs, call))
		}
	}

	// (d) histories: not found → leave without emission and without error; other errors propagate
	hc, _, errObj := m.historyCall()
	if hc == nil {
		r.Anchor("call of the datasource's RelationHistory in " + fn)
		return
	}
	c = "notfound@" + fn
	nf := m.notFoundCond(errObj)
	switch {
	case len(hc.Args) < 1 || objOf(info, hc.Args[len(hc.Args)-1]) != types.Object(m.idParam):
		r.Bad(c, hc.Pos(), "`%s` does not look up the history of the id being walked", src(fs, hc))
	case nf == nil:
		r.Bad(c, hc.Pos(), "the error of `%s` is never classified with the datasource's NotFound: a missing history either aborts the whole iteration or lets the id be emitted without a history", src(fs, hc))
	case !m.dom[m.sendBlk][nf.blk]:
		r.Bad(c, nf.expr.Pos(), "`%s` does not dominate the send: an id can be emitted without consulting whether its history exists", src(fs, nf.ifs.Cond))
	default:
		reg := reachableFrom([]*cfg.Block{nf.t}, func(b *cfg.Block) bool { return b == nf.blk })
		hit := reg[m.sendBlk]
		for b := range recBlks {
			hit = hit || reg[b]
		}
		var ret *ast.ReturnStmt
		if len(nf.t.Nodes) > 0 {
			ret, _ = nf.t.Nodes[len(nf.t.Nodes)-1].(*ast.ReturnStmt)
		}
		switch {
		case hit:
			r.Bad(c, nf.expr.Pos(), "from the true edge of `%s` the send (or a recursive call) is still reachable: a relation without history is emitted", src(fs, nf.ifs.Cond))
		case ret == nil || len(ret.Results) != 1 || !c14IsNil(info, ret.Results[0]):
			r.Bad(c, nf.expr.Pos(), "a history that is not found must end this walk with `return nil`; here it ends with `%s`, which aborts the iteration for a merely missing member", src(fs, ret))
		default:
			r.OK(c, nf.expr.Pos(), "`%s` on the error of `%s` dominates the send; its true edge is `return nil` and reaches neither the send nor a recursive call", src(fs, nf.ifs.Cond), src(fs, hc))
		}
	}
	c = "history-error@" + fn
	hb, _ := blockOf(m.g, hc.Pos())
	if ec := m.errReturned(errObj, hb); ec != nil && m.dom[m.sendBlk][ec.blk] {
		r.OK(c, ec.expr.Pos(), "`%s` dominates the send and returns the datasource error", src(fs, ec.ifs.Cond))
	} else {
		r.Bad(c, hc.Pos(), "a non-nil error of `%s` (other than not-found) does not end the walk with that error before the send: the id is emitted on the basis of a failed lookup", src(fs, hc))
	}

	// (e) the root call starts with an empty path, so the cycle cut can never suppress a requested id
	c = "root-path@" + m.ctor.Name()
	var root *ast.CallExpr
	nRoot := 0
	if m.lit != nil {
		ast.Inspect(m.lit.Body, func(n ast.Node) bool {
			if call, ok := n.(*ast.CallExpr); ok && callee(info, call) == m.walk.Obj {
				root = call
				nRoot++
			}
			return true
		})
	}
	if nRoot != 1 || len(root.Args) <= iPath {
		r.Bad(c, m.ctor.Decl.Pos(), "expected exactly one call of %s in the producer goroutine, found %d", fn, nRoot)
		return
	}
	empty := func(e ast.Expr) bool {
		e = ast.Unparen(e)
		if c14IsNil(info, e) {
			return true
		}
		switch x := e.(type) {
		case *ast.CompositeLit:
			return len(x.Elts) == 0
		case *ast.CallExpr:
			if builtinName(info, x) == "make" && len(x.Args) >= 2 {
				v, ok := constInt(info, x.Args[1])
				return ok && v == 0
			}
		}
		return false
	}
	pa := root.Args[iPath]
	okEmpty := empty(pa)
	if po := objOf(info, pa); !okEmpty && po != nil {
		ws := c14Writes(info, m.ctor.Decl.Body, po)
		if len(ws) == 1 {
			if as, ok := ws[0].(*ast.AssignStmt); ok && len(as.Lhs) == 1 && len(as.Rhs) == 1 {
				okEmpty = empty(as.Rhs[0])
			}
		} else if len(ws) == 0 {
			if v, ok := po.(*types.Var); ok && !v.IsField() && po.Parent() != nil && po.Pkg() == m.pk.Types {
				// `var path []T` declaration without assignment
				okEmpty = true
				sig := m.ctor.Obj.Type().(*types.Signature)
				for i := 0; i < sig.Params().Len(); i++ {
					if sig.Params().At(i) == po {
						okEmpty = false
					}
				}
			}
		}
	}
	if okEmpty {
		r.OK(c, root.Pos(), "`%s`: the path argument is empty (`make(…, 0, …)`/nil, assigned once), so at the root no member matches the scan and only visited / not-found / error / cancellation can keep a requested id from being emitted", src(fs, root))
	} else {
		r.Bad(c, root.Pos(), "`%s` starts the walk of a requested id with a non-empty path: a requested relation that references itself (1→1) is cut as its own ancestor and never emitted", src(fs, root))
	}
}

// ---------------------------------------------------------------------------
// W4 no deadlock on stop

func c14W4(r *core.R) {
	m := c14Load(r)
	if m == nil {
		return
	}
	info, fs := m.info, r.P.Fset
	ctorName := m.ctor.Name()

	// (a) the ordering owns a cancellable context derived from the caller's
	c := "ctx@" + ctorName
	var wc *ast.AssignStmt
	inspectNoLit(m.ctor.Decl.Body, func(n ast.Node) bool {
		as, ok := n.(*ast.AssignStmt)
		if ok && len(as.Lhs) == 2 && len(as.Rhs) == 1 {
			if call, ok := ast.Unparen(as.Rhs[0]).(*ast.CallExpr); ok && isPkgFunc(callee(info, call), "context", "WithCancel") && wc == nil {
				wc = as
			}
		}
		return true
	})
	// value stored into a field of the new ordering (composite literal key or `o.f = v` before the go statement)
	fieldInit := func(f *types.Var) (ast.Expr, token.Pos) {
		var val ast.Expr
		var pos token.Pos
		inspectNoLit(m.ctor.Decl.Body, func(n ast.Node) bool {
			switch x := n.(type) {
			case *ast.CompositeLit:
				if t := info.TypeOf(x); t == nil || namedPath(t) != namedPath(m.named) {
					return true
				}
				for _, el := range x.Elts {
					if kv, ok := el.(*ast.KeyValueExpr); ok && objOf(info, kv.Key) == types.Object(f) {
						val, pos = kv.Value, kv.Pos()
					}
				}
			case *ast.AssignStmt:
				for i, l := range x.Lhs {
					if c14OnBase(info, l, f, m.ordVar) && i < len(x.Rhs) {
						val, pos = x.Rhs[i], x.Pos()
					}
				}
			}
			return true
		})
		return val, pos
	}
	if wc == nil {
		r.Bad(c, m.ctor.Decl.Pos(), "%s does not derive a cancellable context with context.WithCancel: Close has nothing to cancel and the producer blocked in its send is never released", ctorName)
	} else {
		call := ast.Unparen(wc.Rhs[0]).(*ast.CallExpr)
		ctxObj, cancelObj := objOf(info, wc.Lhs[0]), objOf(info, wc.Lhs[1])
		ctxVal, ctxPos := fieldInit(m.fCtx)
		canVal, canPos := fieldInit(m.fCancel)
		parentIsParam := false
		sig := m.ctor.Obj.Type().(*types.Signature)
		for i := 0; i < sig.Params().Len(); i++ {
			if len(call.Args) == 1 && objOf(info, call.Args[0]) == types.Object(sig.Params().At(i)) {
				parentIsParam = true
			}
		}
		switch {
		case ctxObj == nil || ctxVal == nil || objOf(info, ctxVal) != ctxObj:
			r.Bad(c, wc.Pos(), "the context stored in the ordering (`%s`) is not the one returned by `%s`: the Done cases of the send/receive selects watch a context Close never cancels, so Close blocks in Wait while the producer blocks in its send", src(fs, ctxVal), src(fs, call))
		case cancelObj == nil || canVal == nil || objOf(info, canVal) != cancelObj:
			r.Bad(c, wc.Pos(), "the cancel function stored in the ordering (`%s`) is not the one returned by `%s`", src(fs, canVal), src(fs, call))
		case !parentIsParam:
			r.Bad(c, call.Pos(), "`%s` is not derived from the constructor's context parameter: cancelling the caller's context no longer ends the iteration", src(fs, call))
		case !posDominates(m.ctorG, m.ctorDom, wc.Pos(), ctxPos) || !posDominates(m.ctorG, m.ctorDom, wc.Pos(), canPos):
			r.Bad(c, wc.Pos(), "the ordering's context fields are initialised before `%s` is evaluated", src(fs, wc))
		case func() bool {
			// between WithCancel and the store nothing else may assign the variable
			n := 0
			for _, w := range c14Writes(info, m.ctor.Decl.Body, ctxObj) {
				if w != ast.Node(wc) {
					n++
				}
			}
			return n > 0
		}():
			r.Bad(c, wc.Pos(), "the variable receiving the derived context is assigned elsewhere in the constructor as well")
		default:
			r.OK(c, wc.Pos(), "`%s` derives from the constructor's context parameter; result 0 is stored in field %s, result 1 in field %s of the new ordering", src(fs, wc), m.fCtx.Name(), m.fCancel.Name())
		}
	}

	// (b) every send on the output channel sits in a select with the ordering's Done
	for _, s := range m.sends {
		c = "send-select@" + s.fi.Name()
		base := c14RecvObj(info, s.fi)
		par := parentsOf(r.P, s.fi)
		sel := m.selectOf(par, s.node, base)
		switch {
		case sel == nil:
			r.Bad(c, s.node.Pos(), "bare send `%s` on the unbuffered output channel: when the consumer stops calling Next and calls Close, the producer stays blocked in this send and Close blocks forever in Wait", src(fs, s.node))
		case sel.done == nil:
			r.Bad(c, s.node.Pos(), "the select around `%s` has no `<-%s.%s.Done()` case on the ordering's own context: Close/cancellation cannot release the blocked producer", src(fs, s.node), base.Name(), m.fCtx.Name())
		case sel.hasDefault:
			r.Bad(c, s.node.Pos(), "the select around `%s` has a default case: the send is skipped whenever the consumer is not already waiting, so requested relations are dropped", src(fs, s.node))
		default:
			// the Done case leaves the walk with a non-nil error so that the recursion unwinds
			var ret *ast.ReturnStmt
			if n := len(sel.done.Body); n > 0 {
				ret, _ = sel.done.Body[n-1].(*ast.ReturnStmt)
			}
			if ret == nil || len(ret.Results) != 1 || c14IsNil(info, ret.Results[0]) {
				r.Bad(c, sel.done.Pos(), "the Done case of the select around `%s` does not return an error: after cancellation the DFS continues into the remaining members and ids instead of unwinding", src(fs, s.node))
			} else {
				r.OK(c, s.node.Pos(), "`%s` is a case of a select whose other case is `%s` and returns `%s`; no default", src(fs, s.node), src(fs, sel.done.Comm), src(fs, ret.Results[0]))
			}
		}
	}

	// (c) every receive from the output channel
	deferredClose := m.deferredCloseOK()
	if len(m.recvs) == 0 {
		r.Bad("recv-select@"+m.next.Name(), m.next.Decl.Pos(), "Next does not receive from the output channel")
	}
	for _, s := range m.recvs {
		c = "recv-select@" + s.fi.Name()
		if s.fi.Obj != m.next.Obj || s.lit != nil {
			r.Unknown(c, s.node.Pos(), "receive from the output channel outside Next; the consumer protocol (Next returns false on Done and on the closed channel) is only modelled for Next")
			continue
		}
		ue, isUnary := s.node.(*ast.UnaryExpr)
		if !isUnary {
			r.Unknown(c, s.node.Pos(), "range over the output channel in Next is not an enumerated idiom")
			continue
		}
		base := c14RecvObj(info, s.fi)
		par := parentsOf(r.P, s.fi)
		comm, _ := par[ast.Node(ue)].(ast.Stmt)
		as, _ := comm.(*ast.AssignStmt)
		ng := newCFG(info, m.next.Decl.Body)
		nconds := c14Conds(ng, m.next.Decl.Body)
		var sel *c14Select
		if comm != nil {
			sel = m.selectOf(par, comm, base)
		}
		if as == nil || len(as.Rhs) != 1 || as.Rhs[0] != ast.Expr(ue) {
			r.Bad(c, ue.Pos(), "`%s` discards the received value: Next cannot tell a delivered id from the closed channel and never reports the end of the iteration", src(fs, comm))
			continue
		}
		// closed-channel detection: `v, ok := <-out; !ok` or `v := <-out; v == 0`
		var closed *c14Cond
		var closedEdge *cfg.Block
		for i := range nconds {
			cd := nconds[i]
			if cd.ifs.Pos() < as.Pos() {
				continue
			}
			if len(as.Lhs) == 2 && objOf(info, cd.expr) != nil && objOf(info, cd.expr) == objOf(info, as.Lhs[1]) {
				closed, closedEdge = &nconds[i], cd.f
			}
			if be, ok := cd.expr.(*ast.BinaryExpr); ok && len(as.Lhs) == 1 && (be.Op == token.EQL || be.Op == token.NEQ) && objOf(info, be.X) != nil && objOf(info, be.X) == objOf(info, as.Lhs[0]) {
				if v, ok := constInt(info, be.Y); ok && v == 0 {
					closed, closedEdge = &nconds[i], cd.t
					if be.Op == token.NEQ {
						closedEdge = cd.f
					}
				}
			}
			if closed != nil {
				break
			}
		}
		retFalse := func(b *cfg.Block) bool {
			if b == nil || len(b.Nodes) == 0 {
				return false
			}
			ret, ok := b.Nodes[len(b.Nodes)-1].(*ast.ReturnStmt)
			return ok && len(ret.Results) == 1 && c14IsFalse(info, ret.Results[0])
		}
		var first *cfg.Block // block in which the received value becomes available
		if sel != nil {
			first = c14KindBlock(ng, sel.own, cfg.KindSelectCaseBody)
		} else {
			first, _ = blockOf(ng, as.Pos())
		}
		switch {
		case closed == nil || closed.blk != first:
			r.Bad(c, as.Pos(), "after `%s` Next does not first test for the closed channel (`!ok`, or the zero id delivered by a closed channel): once the producer has finished, Next keeps returning true with id 0 and the iteration never ends", src(fs, as))
			continue
		case !retFalse(closedEdge):
			r.Bad(c, closed.expr.Pos(), "the closed-channel edge of `%s` does not `return false`: the iteration does not end when the producer has finished", src(fs, closed.ifs.Cond))
			continue
		}
		switch {
		case sel == nil && deferredClose:
			r.OK(c, as.Pos(), "bare receive `%s`; the producer's deferred close(%s) releases it whenever the goroutine ends, the closed channel makes Next return false", src(fs, as), m.fOut.Name())
		case sel == nil:
			r.Bad(c, as.Pos(), "bare receive `%s` and no deferred close of the channel in the producer: after cancellation Next blocks forever", src(fs, as))
		case sel.hasDefault:
			r.Bad(c, as.Pos(), "the select around `%s` has a default case: Next does not wait for the producer and reports the end of the iteration early", src(fs, as))
		case sel.done == nil && !deferredClose:
			r.Bad(c, as.Pos(), "the select around `%s` has no Done case on the ordering's context and the channel is not closed by a deferred close: Next can block forever after cancellation", src(fs, as))
		case sel.done != nil && !retFalse(c14KindBlock(ng, sel.done, cfg.KindSelectCaseBody)):
			r.Bad(c, sel.done.Pos(), "the Done case of Next's select does not `return false`: a cancelled iteration is not reported as ended")
		default:
			r.OK(c, as.Pos(), "`%s` is a case of a select with `%s` → return false; the closed channel is recognised by `%s` → return false (0 is not a valid relation id)", src(fs, as), src(fs, sel.done.Comm), src(fs, closed.ifs.Cond))
		}
	}

	// (d) Close cancels, then waits
	c = "close-order@" + m.closeFn.Name()
	cbase := c14RecvObj(info, m.closeFn)
	cg := newCFG(info, m.closeFn.Decl.Body)
	cdom := dominators(cg)
	cpar := parentsOf(r.P, m.closeFn)
	var cancelCall, waitCall *ast.CallExpr
	inspectNoLit(m.closeFn.Decl.Body, func(n ast.Node) bool {
		call, ok := n.(*ast.CallExpr)
		if !ok {
			return true
		}
		if _, isStmt := cpar[ast.Node(call)].(*ast.ExprStmt); !isStmt {
			return true
		}
		if c14OnBase(info, call.Fun, m.fCancel, cbase) && cancelCall == nil {
			cancelCall = call
		}
		if sel, ok := ast.Unparen(call.Fun).(*ast.SelectorExpr); ok && isMethod(callee(info, call), "sync.WaitGroup", "Wait") && c14OnBase(info, sel.X, m.fWG, cbase) {
			waitCall = call
		}
		return true
	})
	switch {
	case cancelCall == nil:
		r.Bad(c, m.closeFn.Decl.Pos(), "Close never calls the ordering's cancel function (as a plain statement): a producer blocked in its send is not released and `%s` waits forever", src(fs, waitCall))
	case waitCall == nil:
		r.Bad(c, m.closeFn.Decl.Pos(), "Close does not wait for the producer goroutine (`%s.%s.Wait()`): the goroutine may still be running when Close returns", cbase.Name(), m.fWG.Name())
	case !posDominates(cg, cdom, cancelCall.Pos(), waitCall.Pos()):
		r.Bad(c, waitCall.Pos(), "`%s` is not preceded by `%s` on every path: Close waits for a producer that is blocked in its send until somebody cancels — deadlock when Close is called before the iteration is exhausted", src(fs, waitCall), src(fs, cancelCall))
	default:
		r.OK(c, cancelCall.Pos(), "`%s` dominates `%s`", src(fs, cancelCall), src(fs, waitCall))
	}

	// (e) producer goroutine: one go statement, Add(1) before it, leading defers close the channel and release the wait group
	c = "wg-add@" + ctorName
	var addCall *ast.CallExpr
	inspectNoLit(m.ctor.Decl.Body, func(n ast.Node) bool {
		if call, ok := n.(*ast.CallExpr); ok && isMethod(callee(info, call), "sync.WaitGroup", "Add") {
			if sel, ok := ast.Unparen(call.Fun).(*ast.SelectorExpr); ok && c14OnBase(info, sel.X, m.fWG, m.ordVar) {
				addCall = call
			}
		}
		return true
	})
	inLoop := false
	if len(m.goStmts) == 1 {
		inLoop = enclosing(m.ctorPar, m.goStmts[0], func(n ast.Node) bool {
			switch n.(type) {
			case *ast.ForStmt, *ast.RangeStmt:
				return true
			}
			return false
		}) != nil
	}
	switch {
	case len(m.goStmts) != 1 || m.lit == nil || inLoop:
		r.Bad(c, m.ctor.Decl.Pos(), "expected exactly one `go func(){…}()` outside any loop in %s (found %d go statements): visited set and path are owned by a single producer", ctorName, len(m.goStmts))
	case addCall == nil:
		r.Bad(c, m.goStmts[0].Pos(), "no `%s.%s.Add(1)` before the go statement: the deferred Done makes the counter negative (panic) and Close does not wait for the producer", m.ordVar.Name(), m.fWG.Name())
	case func() bool { v, ok := constInt(info, addCall.Args[0]); return !ok || v != 1 }():
		r.Bad(c, addCall.Pos(), "`%s` does not add exactly 1 for the single producer goroutine: Wait never returns (or panics)", src(fs, addCall))
	case !posDominates(m.ctorG, m.ctorDom, addCall.Pos(), m.goStmts[0].Pos()):
		r.Bad(c, addCall.Pos(), "`%s` does not dominate the go statement: Close may run Wait before the counter was raised", src(fs, addCall))
	default:
		r.OK(c, addCall.Pos(), "`%s` dominates the only go statement of %s", src(fs, addCall), ctorName)
	}

	c = "goroutine-defers@" + ctorName
	if m.lit != nil {
		hasClose, hasDone := m.leadingDefers()
		switch {
		case !hasDone:
			r.Bad(c, m.lit.Pos(), "the producer goroutine does not start with `defer %s.%s.Done()`: Close blocks forever in Wait", m.ordVar.Name(), m.fWG.Name())
		case !hasClose:
			r.Bad(c, m.lit.Pos(), "the producer goroutine does not start with `defer close(%s.%s)`: after the last id Next blocks in its select until somebody cancels — the iteration never ends on its own", m.ordVar.Name(), m.fOut.Name())
		default:
			r.OK(c, m.lit.Pos(), "the closure's leading statements defer %s.%s.Done() and close(%s.%s): both run on every exit of the goroutine", m.ordVar.Name(), m.fWG.Name(), m.ordVar.Name(), m.fOut.Name())
		}
	}

	c = "close-sites"
	badClose := false
	for _, s := range m.closes {
		_, deferred := parentsOf(r.P, s.fi)[s.node].(*ast.DeferStmt)
		if s.fi.Obj != m.ctor.Obj || s.lit != m.lit || !deferred {
			badClose = true
			r.Bad(c, s.node.Pos(), "`%s` in %s closes the output channel outside the producer's deferred close: the producer's select may then send on a closed channel (panic) or the channel is closed twice", src(fs, s.node), s.fi.Name())
		}
	}
	if !badClose {
		r.OK(c, m.ctor.Decl.Pos(), "%d close site(s) of the output channel, all the producer's deferred close", len(m.closes))
	}
}

// leadingDefers inspects the defer statements that open the producer closure.
func (m *c14Model) leadingDefers() (hasClose, hasDone bool) {
	for _, st := range m.lit.Body.List {
		ds, ok := st.(*ast.DeferStmt)
		if !ok {
			break
		}
		call := ds.Call
		if builtinName(m.info, call) == "close" && len(call.Args) == 1 && c14OnBase(m.info, call.Args[0], m.fOut, m.ordVar) {
			hasClose = true
		}
		if sel, ok := ast.Unparen(call.Fun).(*ast.SelectorExpr); ok && isMethod(callee(m.info, call), "sync.WaitGroup", "Done") && c14OnBase(m.info, sel.X, m.fWG, m.ordVar) {
			hasDone = true
		}
	}
	return
}

func (m *c14Model) deferredCloseOK() bool {
	if m.lit == nil {
		return false
	}
	hc, _ := m.leadingDefers()
	return hc
}

// ---------------------------------------------------------------------------
// W5 all versions, relation members only

// c14MemberRef reports whether e is the member's Ref (through a conversion and/or a
// local variable assigned exactly once from it), for loop variable mv of type osm.Member.
func (m *c14Model) memberRef(e ast.Expr, mv types.Object, depth int) bool {
	e = ast.Unparen(e)
	if depth > 4 {
		return false
	}
	switch x := e.(type) {
	case *ast.CallExpr:
		if tv := m.info.Types[x.Fun]; tv.IsType() && len(x.Args) == 1 {
			return m.memberRef(x.Args[0], mv, depth+1)
		}
	case *ast.SelectorExpr:
		f := fieldOf(m.info, x)
		return f != nil && f.Name() == "Ref" && namedPath(m.info.TypeOf(x.X)) == core.ModulePath+".Member" && objOf(m.info, x.X) == mv
	case *ast.Ident:
		o := objOf(m.info, x)
		ws := c14Writes(m.info, m.walk.Decl.Body, o)
		if len(ws) != 1 {
			return false
		}
		if as, ok := ws[0].(*ast.AssignStmt); ok && len(as.Lhs) == 1 && len(as.Rhs) == 1 {
			return m.memberRef(as.Rhs[0], mv, depth+1)
		}
	}
	return false
}

func c14W5(r *core.R) {
	m := c14Load(r)
	if m == nil {
		return
	}
	info, fn, fs := m.info, m.walk.Name(), r.P.Fset
	iID := m.argIndex(m.idParam)
	hc, rels, _ := m.historyCall()
	if hc == nil || rels == nil {
		r.Anchor("call of the datasource's RelationHistory in " + fn)
		return
	}
	var relConst constant.Value
	if osmPk := r.P.Pkg(""); osmPk != nil {
		if cn, ok := osmPk.Types.Scope().Lookup("TypeRelation").(*types.Const); ok {
			relConst = cn.Val()
		}
	}
	if relConst == nil {
		r.Anchor("osm.TypeRelation")
		return
	}
	if len(m.rec) == 0 {
		r.Bad("all-versions@"+fn, m.walk.Decl.Pos(), "%s never calls itself", fn)
	}
	for _, call := range m.rec {
		cb, _ := blockOf(m.g, call.Pos())
		// enclosing range loops, innermost first
		var loops []*ast.RangeStmt
		for p := m.par[ast.Node(call)]; p != nil; p = m.par[p] {
			if rs, ok := p.(*ast.RangeStmt); ok && rs.Body.Pos() <= call.Pos() && call.End() <= rs.Body.End() {
				loops = append(loops, rs)
			}
		}
		if len(loops) != 2 || cb == nil {
			r.Unknown("all-versions@"+fn, call.Pos(), "`%s` is enclosed by %d range loops; enumerated idiom: `for _, r := range history { for _, m := range r.Members { … } }`", src(fs, call), len(loops))
			continue
		}
		inner, outer := loops[0], loops[1]
		noBreak := func(rs *ast.RangeStmt) bool {
			done := c14KindBlock(m.g, rs, cfg.KindRangeDone)
			return done != nil && len(c14Preds(m.g, done)) == 1
		}

		c := "all-versions@" + fn
		switch {
		case objOf(info, outer.X) != rels:
			r.Bad(c, outer.Pos(), "the outer loop ranges over `%s`, not over the complete history returned by `%s`: members referenced only by the versions left out are not emitted before this relation", src(fs, outer.X), src(fs, hc))
		case len(c14Writes(info, m.walk.Decl.Body, rels)) != 1:
			r.Bad(c, outer.Pos(), "the history variable `%s` is reassigned after the lookup", src(fs, outer.X))
		case outer.Value == nil:
			r.Bad(c, outer.Pos(), "the outer loop does not bind the version")
		case !noBreak(outer):
			r.Bad(c, outer.Pos(), "the loop over the versions can be left by `break`: later versions' members are not walked before the emission")
		default:
			r.OK(c, outer.Pos(), "`for … range %s` covers every version returned by `%s` (assigned once, loop left only by exhaustion or return)", src(fs, outer.X), src(fs, hc))
		}

		c = "all-members@" + fn
		mf := fieldOf(info, inner.X)
		switch {
		case mf == nil || mf.Name() != "Members" || outer.Value == nil || objOf(info, ast.Unparen(inner.X).(*ast.SelectorExpr).X) != objOf(info, outer.Value):
			r.Bad(c, inner.Pos(), "the inner loop ranges over `%s`, not over the complete Members of the version bound by the outer loop", src(fs, inner.X))
		case inner.Value == nil:
			r.Bad(c, inner.Pos(), "the inner loop does not bind the member")
		case !noBreak(inner):
			r.Bad(c, inner.Pos(), "the loop over the members can be left by `break`: the remaining members are not walked before the emission")
		default:
			r.OK(c, inner.Pos(), "`for … range %s` covers every member of each version (left only by exhaustion or return)", src(fs, inner.X))
		}
		if inner.Value == nil {
			continue
		}
		mv := objOf(info, inner.Value)

		c = "member-ref@" + fn
		if iID < len(call.Args) && m.memberRef(call.Args[iID], mv, 0) {
			r.OK(c, call.Pos(), "the id walked by `%s` is the Ref of the member bound by the inner loop (converted to osm.RelationID)", src(fs, call))
		} else {
			r.Bad(c, call.Pos(), "the id walked by `%s` is not derived from the current member's Ref: the children emitted first are not this relation's members", src(fs, call))
		}

		c = "relation-only@" + fn
		head := c14KindBlock(m.g, inner, cfg.KindRangeLoop)
		proved, why := false, fmt.Sprintf("no test of `%s.Type` against osm.TypeRelation guards `%s`: way and node members are walked as if their Ref were a relation id (a way member 8 makes relation 8 be emitted as a child)", mv.Name(), src(fs, call))
		for _, cd := range m.conds {
			be, ok := cd.expr.(*ast.BinaryExpr)
			if !ok || (be.Op != token.EQL && be.Op != token.NEQ) || cd.ifs.Pos() < inner.Body.Pos() || cd.ifs.End() > inner.Body.End() {
				continue
			}
			isType := func(e ast.Expr) bool {
				f := fieldOf(info, e)
				return f != nil && f.Name() == "Type" && objOf(info, ast.Unparen(e).(*ast.SelectorExpr).X) == mv
			}
			var other ast.Expr
			switch {
			case isType(be.X):
				other = be.Y
			case isType(be.Y):
				other = be.X
			default:
				continue
			}
			tv := info.Types[other]
			if tv.Value == nil || !constant.Compare(tv.Value, token.EQL, relConst) {
				why = fmt.Sprintf("`%s` compares the member type with `%s`, not with osm.TypeRelation: non-relation members are followed (their Ref is taken for a relation id) and relation members are skipped", src(fs, cd.ifs.Cond), src(fs, other))
				continue
			}
			skip := cd.t // edge taken for non-relation members
			if be.Op == token.EQL {
				skip = cd.f
			}
			switch {
			case cd.blk != cb && !m.dom[cb][cd.blk]:
				why = fmt.Sprintf("`%s` does not dominate `%s`", src(fs, cd.ifs.Cond), src(fs, call))
			case reachableFrom([]*cfg.Block{skip}, func(b *cfg.Block) bool { return b == head })[cb]:
				why = fmt.Sprintf("`%s` is reachable from the non-relation edge of `%s` within the same iteration", src(fs, call), src(fs, cd.ifs.Cond))
			default:
				proved = true
				r.OK(c, cd.expr.Pos(), "`%s` dominates `%s`; its non-relation edge returns to the member loop without reaching the call", src(fs, cd.ifs.Cond), src(fs, call))
			}
			if proved {
				break
			}
		}
		if !proved {
			r.Bad(c, call.Pos(), "%s", why)
		}
	}
}

// ---------------------------------------------------------------------------
// W6 the only ways to leave walk before the emission

func c14W6(r *core.R) {
	m := c14Load(r)
	if m == nil {
		return
	}
	info, fn, fs := m.info, m.walk.Name(), r.P.Fset
	own, _ := m.par[ast.Node(m.send)].(*ast.CommClause)
	sel := m.selectOf(m.par, m.send, m.recv)
	var afterSend map[*cfg.Block]bool
	if own != nil {
		if b := c14KindBlock(m.g, own, cfg.KindSelectCaseBody); b != nil {
			afterSend = reachableFrom([]*cfg.Block{b}, nil)
		}
	}
	if afterSend == nil { // bare send: everything after the send statement
		afterSend = reachableFrom(m.sendBlk.Succs, nil)
	}
	var vt *c14VisitedTest
	for _, t := range m.visitedTests() {
		if objOf(info, t.key) == types.Object(m.idParam) {
			t := t
			vt = &t
		}
	}
	_, _, herr := m.historyCall()
	var nf *c14Cond
	if herr != nil {
		nf = m.notFoundCond(herr)
	}
	var scans []*c14Scan
	iID := m.argIndex(m.idParam)
	for _, call := range m.rec {
		if iID < len(call.Args) {
			if sc, _ := m.scanFor(call.Args[iID]); sc != nil {
				scans = append(scans, sc)
			}
		}
	}
	allNil := func(ret *ast.ReturnStmt) bool {
		for _, e := range ret.Results {
			if !c14IsNil(info, e) {
				return false
			}
		}
		return len(ret.Results) > 0
	}
	n := 0
	inspectNoLit(m.walk.Decl.Body, func(x ast.Node) bool {
		ret, ok := x.(*ast.ReturnStmt)
		if !ok {
			return true
		}
		n++
		c := "exit@" + fn
		blk, _ := blockOf(m.g, ret.Pos())
		if blk == nil || !blk.Live {
			r.OKTrivial(c, ret.Pos(), "`%s` is unreachable", src(fs, ret))
			return true
		}
		// Done case of the emission select
		if sel != nil && sel.done != nil && sel.done.Pos() <= ret.Pos() && ret.End() <= sel.done.End() {
			r.OK(c, ret.Pos(), "`%s`: cancellation observed while offering the id (Done case of the emission select)", src(fs, ret))
			return true
		}
		if blk != m.sendBlk && afterSend[blk] && !reachableFrom([]*cfg.Block{m.g.Blocks[0]}, func(b *cfg.Block) bool { return b == m.sendBlk })[blk] {
			r.OK(c, ret.Pos(), "`%s` is only reached after the id was sent", src(fs, ret))
			return true
		}
		if vt != nil && c14Guarded(vt.c.blk, vt.present, vt.absent, blk) {
			if allNil(ret) {
				r.OK(c, ret.Pos(), "`%s`: id already in the visited set (emitted earlier), nil result", src(fs, ret))
			} else {
				r.Bad(c, ret.Pos(), "`%s` reports an error for an id that was already emitted: a relation requested twice, or shared by two parents, aborts the iteration and the remaining requested relations are never emitted", src(fs, ret))
			}
			return true
		}
		if nf != nil && c14Guarded(nf.blk, nf.t, nf.f, blk) {
			r.OK(c, ret.Pos(), "`%s`: history not found (no emission for an id without history; the result is checked by W3 notfound)", src(fs, ret))
			return true
		}
		for _, sc := range scans {
			if c14Guarded(sc.c.blk, sc.match, sc.nomatch, blk) {
				if allNil(ret) {
					r.OK(c, ret.Pos(), "`%s`: cycle cut — a member is an ancestor on the path, which is empty for requested ids (W3 root-path), so only non-root activations leave here; nil result", src(fs, ret))
				} else {
					r.Bad(c, ret.Pos(), "`%s` reports an error for a reference cycle: cycles are legal in OSM and the iteration must still emit every requested relation", src(fs, ret))
				}
				return true
			}
		}
		// error guards: `E != nil` → return … E, and `ctx.Err() != nil` → return non-nil
		for _, cd := range m.conds {
			be, ok := cd.expr.(*ast.BinaryExpr)
			if !ok || (be.Op != token.NEQ && be.Op != token.EQL) || !c14IsNil(info, be.Y) {
				continue
			}
			via, other := cd.t, cd.f
			if be.Op == token.EQL {
				via, other = cd.f, cd.t
			}
			if !c14Guarded(cd.blk, via, other, blk) || len(ret.Results) == 0 {
				continue
			}
			last := ret.Results[len(ret.Results)-1]
			if eo := objOf(info, be.X); eo != nil && types.Identical(eo.Type(), types.Universe.Lookup("error").Type()) && usesObj(info, last, eo) {
				r.OK(c, ret.Pos(), "`%s` under `%s`: a non-nil error is handed to the caller", src(fs, ret), src(fs, cd.ifs.Cond))
				return true
			}
			if call, ok := ast.Unparen(be.X).(*ast.CallExpr); ok && isMethod(callee(info, call), "context.Context", "Err") && !c14IsNil(info, last) {
				if s, ok := ast.Unparen(call.Fun).(*ast.SelectorExpr); ok && c14OnBase(info, s.X, m.fCtx, m.recv) {
					r.OK(c, ret.Pos(), "`%s` under `%s`: the ordering's context is cancelled", src(fs, ret), src(fs, cd.ifs.Cond))
					return true
				}
			}
		}
		r.Unknown(c, ret.Pos(), "`%s` leaves %s before the emission for a reason that is not one of: already visited, history not found, datasource/child error, cycle cut, cancellation. Such an exit keeps a relation with a history from being emitted, or lets a parent be emitted while this child was skipped", src(fs, ret), fn)
		return true
	})
	r.Stat("walk_exits", n)
}

// ---------------------------------------------------------------------------
// registration, sensitivity suite

// exact source fragments of annotate/order.go used by the mutants
const (
	c14SrcLoop = `	for _, r := range relations {
		for _, m := range r.Members {
			if m.Type != osm.TypeRelation {
				continue
			}

			mid := osm.RelationID(m.Ref)
			for _, pid := range path {
				if pid == mid {
					// circular relations are allowed,
					// source: https://github.com/openstreetmap/openstreetmap-website/issues/1465#issuecomment-282323187

					// since this relation is already being worked through higher
					// up the stack, we can just return here.
					return nil
				}
			}

			err := o.walk(mid, append(path, mid))
			if err != nil {
				return err
			}
		}
	}
`
	c14SrcCtxCheck = `	if o.ctx.Err() != nil {
		return o.ctx.Err()
	}
`
	c14SrcEmit = `	o.visited[id] = struct{}{}
	select {
	case o.out <- id:
	case <-o.ctx.Done():
		return o.ctx.Err()
	}
`
	c14SrcScan = `			for _, pid := range path {
				if pid == mid {
					// circular relations are allowed,
					// source: https://github.com/openstreetmap/openstreetmap-website/issues/1465#issuecomment-282323187

					// since this relation is already being worked through higher
					// up the stack, we can just return here.
					return nil
				}
			}
`
	c14SrcMembersToCut = `		for _, m := range r.Members {
			if m.Type != osm.TypeRelation {
				continue
			}

			mid := osm.RelationID(m.Ref)
			for _, pid := range path {
				if pid == mid {
					// circular relations are allowed,
					// source: https://github.com/openstreetmap/openstreetmap-website/issues/1465#issuecomment-282323187

					// since this relation is already being worked through higher
					// up the stack, we can just return here.
					return nil
`
	c14SrcNextSelect = `	select {
	case id := <-o.out:
		if id == 0 {
			return false
		}
		o.id = id
		return true
	case <-o.ctx.Done():
		return false
	}
`
)

func init() {
	const f = "annotate/order.go"
	w := "(*ChildFirstOrdering).walk"
	register(&core.Property{
		ID:    "C14",
		Title: "Child-first relation ordering emits children before parents, once, always ends",
		Explanation: "Structural necessary conditions on annotate/order.go, decided on every control-flow path of the DFS, the producer goroutine, Next and Close: " +
			"(W1) the id is sent at exactly one site, no recursive call is reachable after the send and the send is dominated by the exit of the loop over all versions' members (post-order); " +
			"(W2) the send is dominated by the visited test on the id (already-visited edge never reaches the send) and by — or always followed by — the store of the id into the visited set, the set only grows, the DFS runs on the single producer goroutine, and the producer loop walks every element of the request list in order and stops on the first error; " +
			"(W3) each recursive call extends the path with the id it enters and is dominated by a complete scan of the path whose match leaves the function without recursing or sending (path elements stay distinct, so depth <= number of distinct ids + 1; and an inner activation of an id that is being walked higher up can never reach the send, so cycles do not emit twice); the root call's path is empty (a requested id is never cut as its own ancestor); not-found histories return nil before any emission, other errors and child errors are returned; " +
			"(W4) the ordering owns a context derived with WithCancel from the caller's, the send is a select case next to that context's Done (returning an error), Next's receive recognises the closed channel and Done and returns false on both, Close cancels before Wait, Add(1) dominates the single go statement whose closure starts with defer close(out) and defer wg.Done(), and the channel is closed nowhere else; " +
			"(W5) the recursion sits in `range history { range r.Members {…} }` over the complete lookup result without break, walks the member's Ref, and is guarded by the member-type test against osm.TypeRelation; " +
			"(W6) every return of the DFS before the send is one of: already visited, not found, error, cycle cut, cancellation. " +
			"Together these give, for every graph: termination, at most one emission per id, no emission without a found history, every requested id with a history reaches the send unless the iteration was stopped, and children-first order on acyclic graphs. " +
			"NOT decided: behaviour of the user's datasource (determinism of RelationHistory, honouring the context while blocked, the NotFound classification), id 0 (used by Next as the closed-channel sentinel), running time on cyclic graphs (cut activations are not memoised), data races on err/CompletedIndex, wall-clock promptness.",
		Assumptions: []string{"go/types, go/cfg (x/tools v0.29.0)", "RelationHistory returns the same history for the same id during one iteration", "the datasource returns when its context is cancelled", "0 is not a valid relation id", "Go channel/select/WaitGroup/context semantics"},
		LevelText:   "Structural necessary conditions of the child-first ordering decided on every path of the DFS and of the producer/consumer protocol: post-order emission, visited test/store around the single send, path-based cycle cut that leaves the activation, empty root path, exits before the send enumerated, select-with-Done on send and receive, cancel-before-Wait, deferred close/Done. The graph-theoretic conclusions (termination, once, children first, every requested id) follow from these by the argument in the explanation; they are not computed on graphs.",
		LevelNote:   "Trusts the type checker and go/cfg; assumes a deterministic datasource that honours cancellation and that relation id 0 does not occur.",
		Technique:   "per-function CFG dominance/reachability rules (go/cfg) over type-resolved channel, map, context and WaitGroup operations; role-based anchoring of fields by type",
		DesignRef:   "DESIGN.md §5 C14",
		Rules: []*core.Rule{
			{ID: "W1", Floor: 3, Doc: "emit after children: single send of the walked id, no recursion after it, member loops exhausted before it", Run: c14W1},
			{ID: "W2", Floor: 6, Doc: "emit once: visited test and store around the send, monotone set, single goroutine, producer loop over all requested ids", Run: c14W2},
			{ID: "W3", Floor: 7, Doc: "cycle cut and termination: append(path, child), dominating path scan whose match leaves the walk, empty root path, not-found/err handling", Run: c14W3},
			{ID: "W4", Floor: 7, Doc: "no deadlock on stop: own cancellable context, select with Done on send and receive, cancel before Wait, deferred close/Done, Add(1) before go", Run: c14W4},
			{ID: "W5", Floor: 4, Doc: "all versions' members are walked, only relation members are followed", Run: c14W5},
			{ID: "W6", Floor: 8, Doc: "exits of the walk before the emission are exactly visited / not found / error / cycle cut / cancellation", Run: c14W6},
		},
		Mutants: []core.Mutant{
			{Name: "send-before-members", File: f, Find: c14SrcLoop + "\n" + c14SrcCtxCheck + "\n" + c14SrcEmit, Replace: c14SrcEmit + "\n" + c14SrcLoop + "\n" + c14SrcCtxCheck, ExpectRule: "W1", ExpectConstruct: "post-order@" + w},
			{Name: "members-only-near-root", File: f, Find: c14SrcLoop, Replace: "\tif len(path) < 2 {\n" + c14SrcLoop + "\t}\n", ExpectRule: "W1", ExpectConstruct: "members-complete@" + w},
			{Name: "send-other-id", File: f, Find: "case o.out <- id:", Replace: "case o.out <- o.id + id:", ExpectRule: "W1", ExpectConstruct: "send-site@" + w},
			{Name: "visited-store-on-entry", File: f, Find: "\tfor _, r := range relations {\n\t\tfor _, m := range r.Members {", Replace: "\to.visited[id] = struct{}{}\n\tfor _, r := range relations {\n\t\tfor _, m := range r.Members {", ExpectRule: "W2", ExpectConstruct: "visited-only-when-emitting"},
			{Name: "drop-visited-store", File: f, Find: "\to.visited[id] = struct{}{}\n", Replace: "", ExpectRule: "W2", ExpectConstruct: "visited-store@" + w},
			{Name: "visited-store-wrong-key", File: f, Find: "o.visited[id] = struct{}{}", Replace: "o.visited[o.id] = struct{}{}", ExpectRule: "W2", ExpectConstruct: "visited-store@" + w},
			{Name: "drop-visited-test", File: f, Find: "\tif _, ok := o.visited[id]; ok {\n\t\treturn nil\n\t}\n", Replace: "", ExpectRule: "W2", ExpectConstruct: "visited-test@" + w},
			{Name: "visited-test-inverted", File: f, Find: "if _, ok := o.visited[id]; ok {", Replace: "if _, ok := o.visited[id]; !ok && len(path) > 50 {", ExpectRule: "W2", ExpectConstruct: "visited-test@" + w},
			{Name: "visited-forgotten", File: f, Find: "\t\to.CompletedIndex = i\n", Replace: "\t\to.CompletedIndex = i\n\t\tdelete(o.visited, id)\n", ExpectRule: "W2", ExpectConstruct: "visited-monotone"},
			{Name: "producer-skips-first", File: f, Find: "for i, id := range ids {", Replace: "for i, id := range ids[1:] {", ExpectRule: "W2", ExpectConstruct: "producer-loop@"},
			{Name: "producer-ignores-error", File: f, Find: "\t\t\t\to.err = err\n\t\t\t\treturn\n", Replace: "\t\t\t\to.err = err\n", ExpectRule: "W2", ExpectConstruct: "producer-loop@"},
			{Name: "path-without-append", File: f, Find: "o.walk(mid, append(path, mid))", Replace: "o.walk(mid, path)", ExpectRule: "W3", ExpectConstruct: "path-arg@" + w},
			{Name: "drop-path-scan", File: f, Find: c14SrcScan, Replace: "", ExpectRule: "W3", ExpectConstruct: "cycle-scan@" + w},
			{Name: "cut-breaks-scan-only", File: f, Find: "\t\t\t\t\t// up the stack, we can just return here.\n\t\t\t\t\treturn nil\n", Replace: "\t\t\t\t\t// up the stack, we can just return here.\n\t\t\t\t\tbreak\n", ExpectRule: "W3", ExpectConstruct: "cycle-scan@" + w},
			{Name: "cut-continues-with-next-member", File: f, Find: c14SrcMembersToCut, Replace: "\tmembers:\n" + c14SrcMembersToCut[:len(c14SrcMembersToCut)-len("return nil\n")] + "continue members\n", ExpectRule: "W3", ExpectConstruct: "cycle-scan@" + w},
			{Name: "root-on-own-path", File: f, Find: "err := o.walk(id, path)", Replace: "err := o.walk(id, append(path, id))", ExpectRule: "W3", ExpectConstruct: "root-path@"},
			{Name: "child-error-swallowed", File: f, Find: "\t\t\terr := o.walk(mid, append(path, mid))\n\t\t\tif err != nil {\n\t\t\t\treturn err\n\t\t\t}\n", Replace: "\t\t\to.walk(mid, append(path, mid))\n", ExpectRule: "W3", ExpectConstruct: "rec-error@" + w},
			{Name: "notfound-is-fatal", File: f, Find: "\tif o.ds.NotFound(err) {\n\t\treturn nil\n\t}\n\n", Replace: "", ExpectRule: "W3", ExpectConstruct: "notfound@" + w},
			{Name: "notfound-is-emitted", File: f, Find: "\tif o.ds.NotFound(err) {\n\t\treturn nil\n\t}\n", Replace: "\tif o.ds.NotFound(err) {\n\t\terr = nil\n\t}\n", ExpectRule: "W3", ExpectConstruct: "notfound@" + w},
			{Name: "bare-send", File: f, Find: "\tselect {\n\tcase o.out <- id:\n\tcase <-o.ctx.Done():\n\t\treturn o.ctx.Err()\n\t}\n", Replace: "\to.out <- id\n", ExpectRule: "W4", ExpectConstruct: "send-select@" + w},
			{Name: "send-select-foreign-done", File: f, Find: "\tcase o.out <- id:\n\tcase <-o.ctx.Done():", Replace: "\tcase o.out <- id:\n\tcase <-context.Background().Done():", ExpectRule: "W4", ExpectConstruct: "send-select@" + w},
			{Name: "close-without-cancel", File: f, Find: "\to.done()\n\to.wg.Wait()\n", Replace: "\to.wg.Wait()\n", ExpectRule: "W4", ExpectConstruct: "close-order@"},
			{Name: "close-waits-before-cancel", File: f, Find: "\to.done()\n\to.wg.Wait()\n", Replace: "\to.wg.Wait()\n\to.done()\n", ExpectRule: "W4", ExpectConstruct: "close-order@"},
			{Name: "drop-defer-close", File: f, Find: "\t\tdefer close(o.out)\n", Replace: "", ExpectRule: "W4", ExpectConstruct: "goroutine-defers@"},
			{Name: "drop-defer-wg-done", File: f, Find: "\t\tdefer o.wg.Done()\n", Replace: "", ExpectRule: "W4", ExpectConstruct: "goroutine-defers@"},
			{Name: "drop-wg-add", File: f, Find: "\to.wg.Add(1)\n", Replace: "", ExpectRule: "W4", ExpectConstruct: "wg-add@"},
			{Name: "ctx-not-the-derived-one", File: f, Find: "ctx, done := context.WithCancel(ctx)", Replace: "_, done := context.WithCancel(ctx)", ExpectRule: "W4", ExpectConstruct: "ctx@"},
			{Name: "ctx-detached-from-caller", File: f, Find: "context.WithCancel(ctx)", Replace: "context.WithCancel(context.Background())", ExpectRule: "W4", ExpectConstruct: "ctx@"},
			{Name: "next-ignores-closed-channel", File: f, Find: "\t\tif id == 0 {\n\t\t\treturn false\n\t\t}\n", Replace: "", ExpectRule: "W4", ExpectConstruct: "recv-select@"},
			{Name: "next-done-returns-true", File: f, Find: "\tcase <-o.ctx.Done():\n\t\treturn false\n", Replace: "\tcase <-o.ctx.Done():\n\t\treturn true\n", ExpectRule: "W4", ExpectConstruct: "recv-select@"},
			{Name: "follow-way-members", File: f, Find: "if m.Type != osm.TypeRelation {", Replace: "if m.Type != osm.TypeWay {", ExpectRule: "W5", ExpectConstruct: "relation-only@" + w},
			{Name: "drop-member-type-test", File: f, Find: "\t\t\tif m.Type != osm.TypeRelation {\n\t\t\t\tcontinue\n\t\t\t}\n", Replace: "", ExpectRule: "W5", ExpectConstruct: "relation-only@" + w},
			{Name: "latest-version-only", File: f, Find: "for _, r := range relations {", Replace: "for _, r := range relations[len(relations)-1:] {", ExpectRule: "W5", ExpectConstruct: "all-versions@" + w},
			{Name: "first-member-only", File: f, Find: "\t\t\tif err != nil {\n\t\t\t\treturn err\n\t\t\t}\n\t\t}\n", Replace: "\t\t\tif err != nil {\n\t\t\t\treturn err\n\t\t\t}\n\t\t\tbreak\n\t\t}\n", ExpectRule: "W5", ExpectConstruct: "all-members@" + w},
			{Name: "depth-limited-walk", File: f, Find: "\tfor _, r := range relations {\n", Replace: "\tif len(path) > 2 {\n\t\treturn nil\n\t}\n\n\tfor _, r := range relations {\n", ExpectRule: "W6", ExpectConstruct: "exit@" + w},
			{Name: "visited-is-an-error", File: f, Find: "\tif _, ok := o.visited[id]; ok {\n\t\treturn nil\n", Replace: "\tif _, ok := o.visited[id]; ok {\n\t\treturn context.Canceled\n", ExpectRule: "W6", ExpectConstruct: "exit@" + w},
		},
	})
}
