package rules

import (
	"go/constant"
	"go/types"
	"sort"
	"strings"
)

// Merging the request URLs of the paths of one endpoint into one symbolic string in the notation of
// tables/api06.json. Paths differ by assumptions (facts) about inputs: whether the configured base URL is empty
// and whether options were given. The `[...]` notation of the table ("emitted exactly when the option string
// inside is non-empty") is reconstructed from the difference between the two sides of such an assumption.

type c20Path struct {
	sym c20Sym
	st  *c20St
}

// defaultBase returns the value of the exported constant BaseURL.
func (cx *c20Ctx) defaultBase() (string, bool) {
	c, ok := cx.pk.Types.Scope().Lookup("BaseURL").(*types.Const)
	if !ok || c.Val().Kind() != constant.String {
		return "", false
	}
	return constant.StringVal(c.Val()), true
}

// normURL applies the assumptions of the path to the URL: inputs assumed empty vanish; the configured base URL
// where it is assumed non-empty, and the default constant where the configured one is assumed empty, become {base}.
func (cx *c20Ctx) normURL(sym c20Sym, st *c20St) c20Sym {
	var out c20Sym
	for _, t := range sym {
		if t.hole != nil && !t.hole.base {
			if v, ok := st.fact("nonempty:" + t.hole.key()); ok && !v {
				continue
			}
		}
		out = append(out, t)
	}
	out = c20MergeLits(out)
	if len(out) == 0 {
		return out
	}
	cfg, known := st.fact("nonempty:recv.BaseURL")
	switch {
	case out[0].hole != nil && out[0].hole.key() == "recv.BaseURL" && out[0].hole.fn == "" && out[0].hole.verb == "" && known && cfg:
		out[0] = c20Tok{hole: &c20Hole{base: true}}
	case out[0].hole == nil && out[0].opt == nil && known && !cfg:
		if d, ok := cx.defaultBase(); ok && strings.HasPrefix(out[0].lit, d) {
			rest := out[0].lit[len(d):]
			n := c20Sym{{hole: &c20Hole{base: true}}}
			if rest != "" {
				n = append(n, c20Tok{lit: rest})
			}
			out = append(n, out[1:]...)
		}
	}
	return out
}

// flat form: one element per literal byte, hole or optional group.
func c20Flatten(s c20Sym) []string {
	var out []string
	for _, t := range s {
		switch {
		case t.opt != nil:
			out = append(out, "["+t.opt.render(nil)+"]")
		case t.hole != nil:
			out = append(out, c20Sym{t}.render(nil))
		default:
			for i := 0; i < len(t.lit); i++ {
				out = append(out, "'"+t.lit[i:i+1])
			}
		}
	}
	return out
}

func c20EqFlat(a, b []string) bool {
	if len(a) != len(b) {
		return false
	}
	for i := range a {
		if a[i] != b[i] {
			return false
		}
	}
	return true
}

// tokens of s as (flat text, token) pairs, literals split per byte.
func c20Split(s c20Sym) c20Sym {
	var out c20Sym
	for _, t := range s {
		if t.hole == nil && t.opt == nil {
			for i := 0; i < len(t.lit); i++ {
				out = append(out, c20Tok{lit: t.lit[i : i+1]})
			}
			continue
		}
		out = append(out, t)
	}
	return out
}

// combine merges the URL without (sF) and with (sT) the input `key` being non-empty.
func c20Combine(sF, sT c20Sym, key string) (c20Sym, string) {
	var del c20Sym
	for _, t := range sT {
		if t.hole != nil && !t.hole.base && t.hole.key() == key {
			continue
		}
		del = append(del, t)
	}
	if c20EqFlat(c20Flatten(del), c20Flatten(sF)) {
		return sT, ""
	}
	a, b := c20Split(sF), c20Split(sT)
	fa, fb := c20Flatten(a), c20Flatten(b)
	p := 0
	for p < len(fa) && p < len(fb) && fa[p] == fb[p] {
		p++
	}
	q := 0
	for q < len(fa)-p && q < len(fb)-p && fa[len(fa)-1-q] == fb[len(fb)-1-q] {
		q++
	}
	if p+q != len(fa) {
		return nil, "without the optional input the URL is `" + sF.render(nil) + "`, with it `" + sT.render(nil) + "`: the two differ by more than one inserted part"
	}
	mid := b[p : len(b)-q]
	n := 0
	for _, t := range mid {
		if t.opt != nil {
			return nil, "nested optional part in `" + sT.render(nil) + "`"
		}
		if t.hole != nil {
			if t.hole.base || t.hole.key() != key {
				return nil, "the part `" + c20Sym(mid).render(nil) + "` added for a non-empty " + key + " contains another input"
			}
			n++
		}
	}
	if n == 0 {
		return nil, "the part `" + c20Sym(mid).render(nil) + "` is added when " + key + " is non-empty but does not contain it"
	}
	out := append(c20Sym{}, b[:p]...)
	out = append(out, c20Tok{opt: c20MergeLits(append(c20Sym{}, mid...))})
	out = append(out, b[len(b)-q:]...)
	return c20MergeLits(out), ""
}

// c20MergeURLs merges the (normalised) URLs of all paths.
func c20MergeURLs(paths []c20Path) (c20Sym, string) {
	if len(paths) == 0 {
		return nil, "no path performs a request"
	}
	atoms := map[string]bool{}
	for _, p := range paths {
		for a := range p.st.facts {
			if strings.HasPrefix(a, "nonempty:p") {
				atoms[a] = true
			}
		}
	}
	var list []string
	for a := range atoms {
		list = append(list, a)
	}
	sort.Strings(list)
	return c20MergeRec(paths, list)
}

func c20MergeRec(paths []c20Path, atoms []string) (c20Sym, string) {
	if len(atoms) == 0 {
		first := c20Flatten(paths[0].sym)
		for _, p := range paths[1:] {
			if !c20EqFlat(first, c20Flatten(p.sym)) {
				why := "the URL depends on a condition that is not a test of an input: `" + paths[0].sym.render(nil) + "` on one path, `" + p.sym.render(nil) + "` on another"
				if len(p.st.notes) > 0 {
					why += " (undecided: " + p.st.notes[0] + ")"
				}
				return nil, why
			}
		}
		return paths[0].sym, ""
	}
	a := atoms[0]
	var T, F []c20Path
	for _, p := range paths {
		v, known := p.st.fact(a)
		if !known || v {
			T = append(T, p)
		}
		if !known || !v {
			F = append(F, p)
		}
	}
	switch {
	case len(F) == 0:
		return c20MergeRec(T, atoms[1:])
	case len(T) == 0:
		return c20MergeRec(F, atoms[1:])
	}
	sT, why := c20MergeRec(T, atoms[1:])
	if why != "" {
		return nil, why
	}
	sF, why := c20MergeRec(F, atoms[1:])
	if why != "" {
		return nil, why
	}
	return c20Combine(sF, sT, strings.TrimPrefix(a, "nonempty:"))
}
