package rules

import (
	"fmt"
	"go/ast"
	"go/token"
	"go/types"

	"golang.org/x/tools/go/packages"
)

// Calls of the C13 path evaluator.

const c13MaxInline = 12

// escape marks the fresh objects reachable from the arguments as handed to unknown code.
func (x *c13Exec) escape(st *c13State, args []*c13Term) {
	for _, a := range args {
		c13Mentions(a, func(t *c13Term) bool {
			if t.op == c13OpAddrVar {
				// unknown code may write the variable
				st.env[t.obj] = x.sym("value of "+t.obj.Name()+" after it escaped", t.obj.Type())
			}
			if t.op == c13OpRef {
				if c := st.heap[t.id]; c != nil {
					nc := &c13Cell{typ: c.typ, fields: c.fields, escaped: true, ver: c.ver + 1}
					st.heap[t.id] = nc
					for _, l := range st.loops {
						l.touched[t.id] = true
					}
					// what the object pointed to escapes as well
					var inner []*c13Term
					for _, v := range c.fields {
						inner = append(inner, v)
					}
					if !c.escaped {
						x.escape(st, inner)
					}
				}
			}
			return false
		})
	}
}

func (x *c13Exec) resultSyms(name string, sig *types.Signature) []*c13Term {
	var out []*c13Term
	for i := 0; i < sig.Results().Len(); i++ {
		out = append(out, x.sym(name+"."+string(rune('0'+i)), sig.Results().At(i).Type()))
	}
	return out
}

func (x *c13Exec) evalCall(st *c13State, fr *c13Fr, call *ast.CallExpr, k func(*c13State, []*c13Term)) {
	if !x.tick() {
		return
	}
	info := fr.info
	one := func(s *c13State, t *c13Term) { k(s, []*c13Term{t}) }
	// conversion
	if tv, ok := info.Types[call.Fun]; ok && tv.IsType() && len(call.Args) == 1 {
		x.eval(st, fr, call.Args[0], func(s *c13State, a *c13Term) {
			switch tv.Type.Underlying().(type) {
			case *types.Basic:
				one(s, x.conv(tv.Type, a))
			default:
				one(s, a) // pointer, slice, interface, struct conversions keep the value
			}
		})
		return
	}
	if b := builtinName(info, call); b != "" {
		x.evalBuiltin(st, fr, b, call, k)
		return
	}
	fn := callee(info, call)
	if fn == nil {
		// call of a function value
		x.eval(st, fr, call.Fun, func(s *c13State, f *c13Term) {
			x.evalList(s, fr, call.Args, func(s *c13State, args []*c13Term) {
				sig, _ := info.TypeOf(call.Fun).Underlying().(*types.Signature)
				if f.op == c13OpFuncLit {
					lit := f.node.(*ast.FuncLit)
					x.inline(s, fr, call, nil, fr.pk, lit.Type, lit.Body, nil, nil, args, sig, call.Ellipsis.IsValid(), k)
					return
				}
				if f.op == c13OpFuncRef {
					if d := x.decls[f.obj.(*types.Func)]; d != nil && d.pk == x.home {
						x.inline(s, fr, call, f.obj.(*types.Func), d.pk, d.decl.Type, d.decl.Body, nil, nil, args, sig, call.Ellipsis.IsValid(), k)
						return
					}
				}
				if sig == nil {
					x.unsupported(s, call.Pos(), "call `%s`", src(x.fset, call))
					return
				}
				res := x.resultSyms("result of "+src(x.fset, call.Fun), sig)
				x.escape(s, args)
				s.trace = append(s.trace, c13Event{kind: "dyncall", pos: call.Pos(), tgt: f, args: args, res: res, what: src(x.fset, call)})
				k(s, res)
			})
		})
		return
	}
	sig := fn.Type().(*types.Signature)
	// receiver expression
	var recvExpr ast.Expr
	if sig.Recv() != nil {
		if sel, ok := ast.Unparen(call.Fun).(*ast.SelectorExpr); ok {
			if s := info.Selections[sel]; s != nil && s.Kind() == types.MethodVal {
				recvExpr = sel.X
			}
		}
		if recvExpr == nil {
			x.unsupported(st, call.Pos(), "method expression call `%s`", src(x.fset, call))
			return
		}
	}
	withArgs := func(f func(s *c13State, recv *c13Term, args []*c13Term)) {
		if recvExpr != nil {
			x.eval(st, fr, recvExpr, func(s *c13State, rv *c13Term) {
				x.evalList(s, fr, call.Args, func(s *c13State, args []*c13Term) { f(s, rv, args) })
			})
			return
		}
		x.evalList(st, fr, call.Args, func(s *c13State, args []*c13Term) { f(s, nil, args) })
	}
	isIface := sig.Recv() != nil && types.IsInterface(sig.Recv().Type())
	withArgs(func(s *c13State, recv *c13Term, args []*c13Term) {
		all := args
		if recv != nil {
			all = append([]*c13Term{recv}, args...)
		}
		if isIface {
			if x.pureIface != nil && x.pureIface(fn) {
				one(s, x.call(fn, all))
				return
			}
			res := x.resultSyms(fn.Name(), sig)
			x.escape(s, args)
			s.trace = append(s.trace, c13Event{kind: "dyncall", pos: call.Pos(), fn: fn, args: all, res: res, what: src(x.fset, call)})
			k(s, res)
			return
		}
		d := x.decls[fn.Origin()]
		if d != nil && d.pk == x.home {
			x.inline(s, fr, call, fn, d.pk, d.decl.Type, d.decl.Body, d.decl.Recv, recv, args, sig, call.Ellipsis.IsValid(), k)
			return
		}
		if d != nil && x.pureFunc(fn.Origin(), 0) {
			// a pure one-expression function of the module: evaluate its expression (so that `w.FeatureID()` and
			// `w.ID.FeatureID()` are the same value)
			x.inline(s, fr, call, fn, d.pk, d.decl.Type, d.decl.Body, d.decl.Recv, recv, args, sig, call.Ellipsis.IsValid(), k)
			return
		}
		res := x.resultSyms(fn.Name(), sig)
		x.escape(s, all)
		s.trace = append(s.trace, c13Event{kind: "extcall", pos: call.Pos(), fn: fn, args: all, res: res, what: src(x.fset, call)})
		k(s, res)
	})
}

// pureFunc reports whether fn (a function of the module with source) is a single `return E` whose expression
// reads only its parameters, constants, fields and calls functions of the same kind.
func (x *c13Exec) pureFunc(fn *types.Func, depth int) bool {
	if v, ok := x.pureMemo[fn]; ok {
		return v == 1
	}
	d := x.decls[fn]
	ok := false
	if d != nil && depth < 4 && len(d.decl.Body.List) == 1 {
		if ret, isRet := d.decl.Body.List[0].(*ast.ReturnStmt); isRet && len(ret.Results) == 1 {
			ok = true
			ast.Inspect(ret.Results[0], func(n ast.Node) bool {
				switch v := n.(type) {
				case *ast.CallExpr:
					if tv, isT := d.pk.TypesInfo.Types[v.Fun]; isT && tv.IsType() {
						return true
					}
					if b := builtinName(d.pk.TypesInfo, v); b == "len" || b == "cap" {
						return true
					}
					cf := callee(d.pk.TypesInfo, v)
					if cf == nil || cf == fn || !x.pureFunc(cf.Origin(), depth+1) {
						ok = false
					}
				case *ast.FuncLit, *ast.CompositeLit:
					ok = false
				case *ast.UnaryExpr:
					if v.Op == token.AND || v.Op == token.ARROW {
						ok = false
					}
				case *ast.Ident:
					if o, isVar := d.pk.TypesInfo.Uses[v].(*types.Var); isVar && !o.IsField() && o.Pkg() != nil && o.Parent() == o.Pkg().Scope() {
						ok = false // package-level variable
					}
				}
				return ok
			})
		}
	}
	if ok {
		x.pureMemo[fn] = 1
	} else {
		x.pureMemo[fn] = 2
	}
	return ok
}

// inline executes the body of a function on the argument values.
func (x *c13Exec) inline(st *c13State, fr *c13Fr, call *ast.CallExpr, fn *types.Func, pk *packages.Package, ftype *ast.FuncType, body *ast.BlockStmt,
	recvList *ast.FieldList, recv *c13Term, args []*c13Term, sig *types.Signature, ellipsis bool, k func(*c13State, []*c13Term)) {
	if fr.depth >= c13MaxInline {
		x.unsupported(st, call.Pos(), "calls nested deeper than %d", c13MaxInline)
		return
	}
	if fn != nil {
		for f := fr; f != nil; f = f.parent {
			if f.fn == fn {
				x.unsupported(st, call.Pos(), "recursive call of %s", fn.Name())
				return
			}
		}
	}
	nfr := &c13Fr{pk: pk, info: pk.TypesInfo, fn: fn, depth: fr.depth + 1, parent: fr}
	if sig != nil {
		nfr.res = sig.Results()
	}
	if len(call.Args) == len(args) && !ellipsis {
		// arguments of concrete type passed for interface parameters
		args = x.convertAll(args, c13SrcTypes(fr.info, call.Args, len(args)), func(i int) types.Type {
			if sig == nil || sig.Params().Len() == 0 {
				return nil
			}
			if i < sig.Params().Len()-1 || !sig.Variadic() && i < sig.Params().Len() {
				return sig.Params().At(i).Type()
			}
			if sig.Variadic() {
				if sl, ok := sig.Params().At(sig.Params().Len() - 1).Type().(*types.Slice); ok {
					return sl.Elem()
				}
			}
			return nil
		})
	}
	if fn == nil {
		nfr.fn = fr.fn // a function literal runs in the frame of its function
		nfr.parent = fr.parent
	}
	if recvList != nil && recv != nil && len(recvList.List) == 1 && len(recvList.List[0].Names) == 1 {
		if o := nfr.info.Defs[recvList.List[0].Names[0]]; o != nil {
			// a value receiver copies the struct: the pointer is dereferenced
			if _, isPtr := o.Type().Underlying().(*types.Pointer); !isPtr && (recv.op == c13OpRef || recv.op == c13OpAddr) {
				if recv.op == c13OpAddr {
					recv = recv.args[0]
				} else if c := st.heap[recv.id]; c != nil && !c.escaped {
					recv = x.cellLit(c)
				} else {
					recv = x.deref(recv)
				}
			}
			st.env[o] = recv
		}
	}
	// parameters
	var params []types.Object
	variadicAt := -1
	if ftype.Params != nil {
		for _, f := range ftype.Params.List {
			_, isEll := f.Type.(*ast.Ellipsis)
			if len(f.Names) == 0 {
				params = append(params, nil)
				if isEll {
					variadicAt = len(params) - 1
				}
				continue
			}
			for _, nm := range f.Names {
				params = append(params, nfr.info.Defs[nm])
				if isEll {
					variadicAt = len(params) - 1
				}
			}
		}
	}
	for i, p := range params {
		var v *c13Term
		switch {
		case i == variadicAt && !ellipsis:
			var rest []*c13Term
			if i < len(args) {
				rest = args[i:]
			}
			if len(rest) == 0 {
				v = c13NilTerm
			} else {
				var t types.Type
				if p != nil {
					t = p.Type()
				}
				v = x.lit(t, nil, rest)
			}
		case i < len(args):
			v = args[i]
		default:
			x.unsupported(st, call.Pos(), "argument count of `%s`", src(x.fset, call))
			return
		}
		if p != nil {
			st.env[p] = v
		}
	}
	var named []types.Object
	if ftype.Results != nil {
		for _, f := range ftype.Results.List {
			for _, nm := range f.Names {
				if o := nfr.info.Defs[nm]; o != nil {
					st.env[o] = x.zero(o.Type())
					named = append(named, o)
				}
			}
		}
	}
	base := len(st.loops)
	x.block(st, nfr, body.List, func(s *c13State, ctl int, label string, vals []*c13Term) {
		switch ctl {
		case c13Return:
			if len(s.loops) > base {
				// the function returned from inside its loops
				for _, l := range s.loops[base:] {
					s.trace = append(s.trace, c13Event{kind: "loopexit", pos: s.last, loop: l})
				}
				s.loops = s.loops[:base]
			}
			if len(vals) == 0 && len(named) > 0 {
				for _, o := range named {
					vals = append(vals, s.env[o])
				}
			}
			k(s, vals)
		case c13Next:
			k(s, nil)
		default:
			x.unsupported(s, call.Pos(), "break/continue leaves the function")
		}
	})
}

func (x *c13Exec) evalBuiltin(st *c13State, fr *c13Fr, name string, call *ast.CallExpr, k func(*c13State, []*c13Term)) {
	one := func(s *c13State, t *c13Term) { k(s, []*c13Term{t}) }
	switch name {
	case "panic":
		x.evalList(st, fr, call.Args, func(s *c13State, args []*c13Term) {
			x.paths = append(x.paths, &c13Path{st: s, kind: "panic", res: args, pos: call.Pos()})
		})
	case "make", "new":
		typ := fr.info.TypeOf(call.Args[0])
		x.evalList(st, fr, call.Args[1:], func(s *c13State, args []*c13Term) {
			if name == "new" {
				if _, isStruct := typ.Underlying().(*types.Struct); isStruct {
					one(s, x.newCell(s, x.lit(typ, []*types.Var{}, nil)))
					return
				}
				one(s, x.un(c13OpAddr, x.sym("new "+c13TypeKey(typ), typ)))
				return
			}
			// every evaluation of make is a distinct allocation
			x.nextCell++
			mk := x.nary(c13OpMake, "", typ, args)
			mk.id = x.nextCell
			mk.key = fmt.Sprintf("%s#%d", mk.key, mk.id)
			one(s, mk)
		})
	case "len", "cap":
		x.eval(st, fr, call.Args[0], func(s *c13State, a *c13Term) {
			if name == "len" {
				switch {
				case a.op == c13OpLit && a.keys == nil:
					one(s, c13Int(int64(len(a.args))))
					return
				case a.op == c13OpNil:
					one(s, c13Int(0))
					return
				}
			}
			one(s, x.un(name, a))
		})
	case "append":
		x.evalList(st, fr, call.Args, func(s *c13State, args []*c13Term) {
			switch {
			case call.Ellipsis.IsValid():
				one(s, x.nary(c13OpAppV, "", nil, args))
			case len(args) == 1:
				one(s, args[0])
			default:
				// append(append(a, x), y) is append(a, x, y)
				if args[0].op == c13OpApp {
					args = append(append([]*c13Term(nil), args[0].args...), args[1:]...)
				}
				one(s, x.nary(c13OpApp, "", nil, args))
			}
		})
	case "min", "max":
		x.evalList(st, fr, call.Args, func(s *c13State, args []*c13Term) { one(s, x.nary(c13OpOther, name, nil, args)) })
	default:
		// copy, delete, clear, close, print ...: an effect on the arguments
		x.evalList(st, fr, call.Args, func(s *c13State, args []*c13Term) {
			x.escape(s, args)
			s.trace = append(s.trace, c13Event{kind: "effect", pos: call.Pos(), args: args, what: src(x.fset, call)})
			k(s, []*c13Term{x.sym("result of "+name, fr.info.TypeOf(call))})
		})
	}
}
