package rules

import (
	"go/ast"
)

// Results of followed calls, path-sensitively.
//
// A helper that hands several values back (`relations, found, err := o.history(id)`, `cut, err := o.walkMembers(…)`)
// usually has one return statement per outcome. Seen from a later program point only some of them are still possible:
// the states of the explored graph that reach the point carry the store that the intervening tests established
// (`err == nil`, `found`), so walking the state graph backwards from the point tells which return statements of that
// activation can have produced the value. When exactly one can, result i of the call *is* the i-th operand of that
// return statement (evaluated in the callee's activation, parameters bound to the caller's arguments).

// returnsReaching lists the return statements of activation cc whose execution can reach node use without another
// return of cc in between; ok=false when use can also be reached without passing any of them.
func (g *c14Graph) returnsReaching(cc *c14Ctx, use *c14Node) (rets []*c14Node, states []*c14State, ok bool) {
	seen := map[*c14State]bool{}
	got := map[*c14Node]bool{}
	ok = true
	var work []*c14State
	for _, s := range g.byNode[use] {
		if len(s.in) == 0 {
			ok = false
		}
		work = append(work, s.in...)
	}
	for len(work) > 0 {
		s := work[len(work)-1]
		work = work[:len(work)-1]
		if seen[s] {
			continue
		}
		seen[s] = true
		if s.n.ctx == cc && s.n.exec() {
			if _, isRet := s.n.ast.(*ast.ReturnStmt); isRet {
				if !got[s.n] {
					got[s.n] = true
					rets = append(rets, s.n)
				}
				states = append(states, s)
				continue
			}
		}
		if len(s.in) == 0 {
			ok = false
		}
		work = append(work, s.in...)
	}
	return rets, states, ok
}

// followedResult returns the term of result i of the followed call `call` (made in activation ctx) as seen from node
// use, or nil when the call was not followed or more than one return statement can have produced the value.
func (g *c14Graph) followedResult(ctx *c14Ctx, call *ast.CallExpr, i int, use *c14Node) *c14Val {
	cc := g.ctxs[c14CtxKey{ctx, call}]
	if cc == nil || use == nil || i >= cc.fn.nres || use.ctx.g != g {
		return nil
	}
	rets, states, ok := g.returnsReaching(cc, use)
	if !ok || len(rets) != 1 {
		return nil
	}
	rn := rets[0]
	// the operands of the return statement are resolved on the paths that actually lead to the use: of the states of
	// the return statement only those that reach it count (`if c { id, ok = x, true }; return` seen from where ok holds)
	if g.fromStates == nil {
		g.fromStates = map[*c14Node][]*c14State{rn: states}
		defer func() { g.fromStates = nil }()
	}
	rs := rn.ast.(*ast.ReturnStmt)
	switch {
	case len(rs.Results) == cc.fn.nres:
		v := g.canon(cc, rs.Results[i], rn)
		if !g.stable(v, rn, use) {
			return nil
		}
		return v
	case len(rs.Results) == 0 && i < len(cc.fn.results) && cc.fn.results[i] != nil:
		// bare return: the named result variable
		v := g.resolveVar(cc, cc, cc.fn.results[i], rn)
		if !g.stable(v, rn, use) {
			return nil
		}
		return v
	case len(rs.Results) == 1:
		// `return f(…)` forwarding all results of another followed call
		if inner, isCall := ast.Unparen(rs.Results[0]).(*ast.CallExpr); isCall {
			return g.followedResult(cc, inner, i, use)
		}
	}
	return nil
}
