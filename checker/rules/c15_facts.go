package rules

import (
	"go/ast"
	"go/token"
)

// ---------------------------------------------------------------- facts with helper expansion

type c15Fact struct {
	env  *c15Env
	expr ast.Expr
	val  bool
	pos  token.Pos // position of the test in the function whose CFG established the fact
}

// expandFact decomposes "e is val" (written in env.fn) into atomic facts: connectives as splitFacts does, boolean
// locals with a single pure definition, bound boolean parameters, and calls of single-expression helpers.
func (w *c15World) expandFact(env *c15Env, e ast.Expr, val bool, pos token.Pos, depth int, out *[]c15Fact) {
	e = ast.Unparen(e)
	if depth > 10 {
		return
	}
	switch x := e.(type) {
	case *ast.UnaryExpr:
		if x.Op == token.NOT {
			w.expandFact(env, x.X, !val, pos, depth+1, out)
			return
		}
	case *ast.BinaryExpr:
		if (x.Op == token.LAND && val) || (x.Op == token.LOR && !val) {
			w.expandFact(env, x.X, val, pos, depth+1, out)
			w.expandFact(env, x.Y, val, pos, depth+1, out)
			return
		}
		if x.Op == token.LAND || x.Op == token.LOR {
			return // a false conjunction / true disjunction says nothing about its parts
		}
	case *ast.Ident:
		ob := objOf(w.info, x)
		env = env.scope(ob)
		if b, ok := env.lookup(ob); ok {
			w.expandFact(b.env, b.expr, val, pos, depth+1, out)
			return
		}
		if d := env.fn.singleDef(ob); d != nil && w.pureExpr(d, 0) {
			w.expandFact(env, d, val, pos, depth+1, out)
			return
		}
	case *ast.CallExpr:
		if f, ce := w.calleeOf(env, x); f != nil {
			if ret := w.predicateExpr(f); ret != nil {
				w.expandFact(ce, ret, val, pos, depth+1, out)
				return
			}
		}
	}
	*out = append(*out, c15Fact{env: env, expr: e, val: val, pos: pos})
}

// factsFor returns the expanded facts that hold at pos in env.fn.
func (w *c15World) factsFor(env *c15Env, pos token.Pos) []c15Fact {
	var out []c15Fact
	for _, gf := range factsAtPos(w.info, env.fn.g, env.fn.dom, pos) {
		w.expandFact(env, gf.expr, gf.val, gf.expr.Pos(), 0, &out)
	}
	return out
}

// inRangeFact finds a fact that establishes ip < len(cp): `(I < len(C))` true or `(len(C) <= I)` false in any spelling.
func (w *c15World) inRangeFact(facts []c15Fact, ip, cp *c15Path) *c15Fact {
	up, _ := w.rangeFacts(facts, ip, cp)
	return up
}

// rangeFacts finds the controlling facts that establish the two sides of "ip is in range of cp":
// upper: ip < len(cp)   — `(I < len(C))` true or `(len(C) <= I)` false, in any spelling;
// lower: 0 <= ip        — `(0 <= I)` true or `(I < 0)` false; an unsigned upper test establishes it as well.
func (w *c15World) rangeFacts(facts []c15Fact, ip, cp *c15Path) (upper, lower *c15Fact) {
	for i := range facts {
		f := &facts[i]
		t := w.rangeTest(f.env, f.expr)
		if t == nil || !w.rangeTestAbout(t, ip, cp) {
			continue
		}
		switch {
		case (t.rel == c15RelBelow && f.val) || (t.rel == c15RelNotBelow && !f.val):
			if upper == nil {
				upper = f
			}
			if t.twoSided() && lower == nil {
				lower = f
			}
		case (t.rel == c15RelNonNeg && f.val) || (t.rel == c15RelNeg && !f.val):
			if lower == nil {
				lower = f
			}
		}
	}
	return upper, lower
}

// wrappingFact finds a controlling comparison about ip / cp that is spelled `unsigned(I) <= unsigned(len(C)-1)`.
func (w *c15World) wrappingFact(facts []c15Fact, ip, cp *c15Path) *c15Fact {
	for i := range facts {
		f := &facts[i]
		if t := w.rangeTest(f.env, f.expr); t != nil && t.wraps && w.rangeTestAbout(t, ip, cp) {
			return f
		}
	}
	return nil
}

// changedBetween: an assignment in env.fn between the two positions whose target is the root variable, a prefix or
// the whole of one of the paths (aliases are resolved: a single-definition alias is not itself a change).
func (w *c15World) changedBetween(env *c15Env, paths []*c15Path, from, to token.Pos) string {
	what := ""
	hit := func(lp *c15Path) bool {
		if lp == nil {
			return false
		}
		for _, p := range paths {
			if p != nil && len(lp.steps) <= len(p.steps) && lp.eq(p.prefix(len(p.steps)-len(lp.steps))) {
				return true
			}
		}
		return false
	}
	ast.Inspect(env.fn.fi.Decl.Body, func(n ast.Node) bool {
		if what != "" {
			return false
		}
		switch x := n.(type) {
		case *ast.AssignStmt:
			if x.Pos() < from || x.Pos() > to {
				return true
			}
			for _, l := range x.Lhs {
				if o := objOf(w.info, l); o != nil && env.fn.singleDef(o) != nil {
					continue // definition of an alias
				}
				if hit(w.pathOf(env, l, true)) {
					what = src(w.r.P.Fset, x)
				}
			}
		case *ast.IncDecStmt:
			if x.Pos() >= from && x.Pos() <= to && hit(w.pathOf(env, x.X, true)) {
				what = src(w.r.P.Fset, x)
			}
		}
		return true
	})
	return what
}
