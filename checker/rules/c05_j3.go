package rules

import (
	"fmt"
	"go/types"

	"osmcheck/core"
)

// ---- J3 --------------------------------------------------------------------------------------

// c05TypeConstOf derives the osm.Type constant T's object id decodes to, by evaluation: (*T).ObjectID() is explored
// with the id and version fields zero (the packed id is then the kind mask alone, whatever helper or constant packs
// it), and the Type() method of the result's type is explored on that value. How the kind is stored in the id and how
// Type() recovers it (a switch on the mask, a lookup table indexed by the tag bits, a map) does not matter as long as
// it is computed from constants.
func c05TypeConstOf(r *core.R, T types.Type) (string, string) {
	om := c03FuncInfoOf(r.P, c03Method(T, "ObjectID"))
	if om == nil {
		return "", c03Short(T) + " has no ObjectID method in the repository"
	}
	recv := c03Receiver(om)
	x := &c03Interp{P: r.P,
		Inline: func(fn *types.Func) bool { return true },
		Init: func(v *c03V) *c03V {
			if v.IsInit("param") && v.Root.Obj == recv && len(v.Path) > 0 {
				if b, ok := v.T.Underlying().(*types.Basic); ok && b.Info()&types.IsInteger != 0 {
					return &c03V{K: c03KInt, Int: 0, T: v.T}
				}
			}
			if v.IsInit("param") && v.Root.Obj == recv {
				v.Z = triF
			}
			return v
		}}
	var id *c03V
	for _, pa := range x.Run(om, nil) {
		if pa.End != "return" || len(pa.Ret) != 1 || pa.Ret[0].K != c03KInt {
			return "", fmt.Sprintf("(*%s).ObjectID() with a zero id does not evaluate to a constant (%s): the kind bits cannot be read off", c03TypeName(T), c03PathResult(pa))
		}
		if id != nil && id.Int != pa.Ret[0].Int {
			return "", fmt.Sprintf("(*%s).ObjectID() with a zero id evaluates to different values on different paths", c03TypeName(T))
		}
		id = pa.Ret[0]
	}
	if id == nil || x.Aborted != "" {
		return "", fmt.Sprintf("(*%s).ObjectID() could not be explored: %s", c03TypeName(T), x.Aborted)
	}
	tm := c03FuncInfoOf(r.P, c03Method(id.T, "Type"))
	if tm == nil {
		return "", c03ShortT(id.T) + " has no Type method in the repository"
	}
	tx := &c03Interp{P: r.P, Inline: func(fn *types.Func) bool { return true }}
	trecv := c03Receiver(tm)
	got := map[string]bool{}
	for _, pa := range tx.Run(tm, func(st *c03State) { st.vars[trecv] = id }) {
		if pa.End != "return" || len(pa.Ret) != 1 || pa.Ret[0].K != c03KStr {
			return "", fmt.Sprintf("%s(%#x).Type() does not evaluate to a Type constant (%s)", c03ShortT(id.T), uint64(id.Int), c03PathResult(pa))
		}
		got[pa.Ret[0].Str] = true
	}
	if tx.Aborted != "" {
		return "", "Type() could not be explored: " + tx.Aborted
	}
	ks := c03SortedKeys(got)
	if len(ks) != 1 {
		return "", fmt.Sprintf("%s(%#x).Type() evaluates to %d values %v; exactly one expected", c03ShortT(id.T), uint64(id.Int), len(ks), ks)
	}
	return ks[0], ""
}

// c03PathResult renders how a path ended, for diagnostics.
func c03PathResult(pa *c03Path) string {
	s := "the path ends with " + pa.End
	for _, rv := range pa.Ret {
		s += " " + rv.String()
	}
	if pa.Why != "" {
		s += " (" + pa.Why + ")"
	}
	return s
}

func c05J3(r *core.R) {
	c03Init(r)
	fl := c05FindFlattening(r)
	if fl == nil {
		return
	}
	pk := c03OsmPkg(r.P)
	osmNT, _ := structType(pk, "OSM")
	for _, t := range fl.types {
		T := c03Deref(t.T)
		jf, lit, pos, why := c05TypeKeyOf(r.P, T)
		if jf == nil || why != "" {
			continue // reported by J1
		}
		c := "name@" + c03TypeName(T)
		// XML name: XMLName tag, else the tag of the OSM field holding T
		xmlName := ""
		if ti := c03XMLTypeInfo(T); ti != nil && ti.XMLName != nil {
			xmlName = ti.XMLName.Name
		}
		if xmlName == "" && osmNT != nil {
			for _, f := range c03XMLTypeInfo(osmNT).Fields {
				if f.Kind == c03Elem && types.Identical(c03ElemType(f.Var.Type()), T) {
					xmlName = f.Name
				}
			}
		}
		tc, twhy := c05TypeConstOf(r, T)
		switch {
		case twhy != "":
			r.Unknown(c, pos, "cannot derive the osm.Type constant of %s: %s", c03Short(T), twhy)
		case xmlName != lit:
			r.Bad(c, pos, "JSON \"type\":%q but the XML element of %s is <%s>: the same object is named differently in the two formats (and by osm.Type)", lit, c03Short(T), xmlName)
		case tc != lit:
			r.Bad(c, pos, "JSON \"type\":%q but (*%s).ObjectID().Type() is %q: ids parsed from the JSON type (Type(%q).FeatureID, members' type) do not denote this kind of object", lit, c03TypeName(T), tc, lit)
		default:
			r.OK(c, pos, "JSON type literal, XML element name and osm.Type constant are all %q", lit)
		}
	}
}
