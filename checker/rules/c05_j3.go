package rules

import (
	"fmt"
	"go/ast"
	"go/types"

	"osmcheck/core"
)

// ---- J3 --------------------------------------------------------------------------------------

// c05TypeConstOf derives the osm.Type constant T's object id decodes to: the mask constants that label the
// cases of ObjectID.Type() and are referenced by the functions (*T).ObjectID reaches; exactly one is required.
func c05TypeConstOf(r *core.R, T types.Type) (string, string) {
	pk := c03OsmPkg(r.P)
	info := pk.TypesInfo
	tm := findFunc(pk, "ObjectID.Type")
	if tm == nil {
		return "", "osm.ObjectID.Type not found"
	}
	labels := map[types.Object]string{} // mask constant -> Type constant value
	ast.Inspect(tm.Decl.Body, func(n ast.Node) bool {
		cc, ok := n.(*ast.CaseClause)
		if !ok || len(cc.List) != 1 || len(cc.Body) != 1 {
			return true
		}
		rs, ok := cc.Body[0].(*ast.ReturnStmt)
		if !ok || len(rs.Results) != 1 {
			return true
		}
		if v, ok := constString(info, rs.Results[0]); ok {
			if o := objOf(info, cc.List[0]); o != nil {
				labels[o] = v
			}
		}
		return true
	})
	if len(labels) == 0 {
		return "", "ObjectID.Type() has no `case <mask>: return Type<X>` table"
	}
	om := c03FuncInfoOf(r.P, c03Method(T, "ObjectID"))
	if om == nil {
		return "", c03Short(T) + " has no ObjectID method in the repository"
	}
	hit := map[string]bool{}
	for _, fi := range c03Callees(r.P, om, 5) {
		ast.Inspect(fi.Decl.Body, func(n ast.Node) bool {
			if id, ok := n.(*ast.Ident); ok {
				if v, ok := labels[fi.Pkg.TypesInfo.Uses[id]]; ok {
					hit[v] = true
				}
			}
			return true
		})
	}
	ks := c03SortedKeys(hit)
	if len(ks) != 1 {
		return "", fmt.Sprintf("the functions (*%s).ObjectID reaches reference %d type masks %v; exactly one expected", c03TypeName(T), len(ks), ks)
	}
	return ks[0], ""
}

func c05J3(r *core.R) {
	c03Init(r)
	fl := c05FindFlattening(r)
	if fl == nil {
		return
	}
	pk := c03OsmPkg(r.P)
	osmNT, _ := structType(pk, "OSM")
	for _, t := range fl.types {
		T := c03Deref(t.T)
		jf, lit, pos, why := c05TypeKeyOf(r.P, T)
		if jf == nil || why != "" {
			continue // reported by J1
		}
		c := "name@" + c03TypeName(T)
		// XML name: XMLName tag, else the tag of the OSM field holding T
		xmlName := ""
		if ti := c03XMLTypeInfo(T); ti != nil && ti.XMLName != nil {
			xmlName = ti.XMLName.Name
		}
		if xmlName == "" && osmNT != nil {
			for _, f := range c03XMLTypeInfo(osmNT).Fields {
				if f.Kind == c03Elem && types.Identical(c03ElemType(f.Var.Type()), T) {
					xmlName = f.Name
				}
			}
		}
		tc, twhy := c05TypeConstOf(r, T)
		switch {
		case twhy != "":
			r.Unknown(c, pos, "cannot derive the osm.Type constant of %s: %s", c03Short(T), twhy)
		case xmlName != lit:
			r.Bad(c, pos, "JSON \"type\":%q but the XML element of %s is <%s>: the same object is named differently in the two formats (and by osm.Type)", lit, c03Short(T), xmlName)
		case tc != lit:
			r.Bad(c, pos, "JSON \"type\":%q but (*%s).ObjectID().Type() is %q: ids parsed from the JSON type (Type(%q).FeatureID, members' type) do not denote this kind of object", lit, c03TypeName(T), tc, lit)
		default:
			r.OK(c, pos, "JSON type literal, XML element name and osm.Type constant are all %q", lit)
		}
	}
}
