package rules

import (
	"fmt"
	"go/ast"
	"go/types"
	"sort"
	"strings"
)

// The decision table of one element iteration.
//
// Abstract inputs of the iteration for a modified/deleted element:
//   history error (nil / non-nil), NotFound(error) (no / yes), ignore missing (no / yes),
//   earlier version (none / found by the scan), history empty (no / yes; "found" excludes "empty").
// Required outcome:
//   error non-nil: NotFound ? (ignore ? create action : typed error for the element) : the error itself
//   error nil:     earlier version found ? modify/delete action pairing it with the element
//                                        : (ignore ? create action : typed error for the element)
// Every path through the iteration is mapped to the abstract inputs its conditions admit (a condition that is not
// one of the whitelisted kinds makes the path undecidable) and its outcome is compared with the table for each of
// them, whatever the statement structure, helper functions or order of tests.

const (
	c13VErr = iota
	c13VNF
	c13VIgn
	c13VFound
	c13VEmpty
)

var c13UpdDom = &c13Dom{
	vars: []string{"history error", "NotFound(error)", "ignore missing", "earlier version", "history empty"},
	vals: [][]string{{"nil", "non-nil"}, {"no", "yes"}, {"no", "yes"}, {"none", "found"}, {"no", "yes"}},
	feasible: func(c []int) bool {
		return !(c[c13VFound] == 1 && c[c13VEmpty] == 1)
	},
}

var c13CreateDom = &c13Dom{}

func c13Expected(c []int) string {
	if c[c13VErr] == 1 {
		if c[c13VNF] == 1 {
			if c[c13VIgn] == 1 {
				return "create"
			}
			return "typed"
		}
		return "pass"
	}
	if c[c13VFound] == 1 {
		return "update"
	}
	if c[c13VIgn] == 1 {
		return "create"
	}
	return "typed"
}

func (m *c13Model) isIgnoreOption(t *c13Term) bool {
	if t.op != c13OpField || t.obj.Name() != "IgnoreMissingChildren" || t.obj.Pkg() == nil {
		return false
	}
	return t.obj.Pkg().Path() == c13OsmPath+"/annotate/internal/core"
}

// interpret maps the conditions of an update-iteration path to the abstract inputs they admit.
func (m *c13Model) interpret(p *c13UPath) {
	if p.allowed != nil {
		return
	}
	x := m.x
	el := p.el
	if el.sec == 0 {
		p.allowed = c13CreateDom.all()
		for _, a := range p.atoms {
			p.guardP = append(p.guardP, m.showAtom(c13Atom{t: a.t, val: true, e: a.e}))
		}
		for _, ev := range p.events {
			if ev.kind == "loop" || ev.kind == "loopexit" {
				p.problems = append(p.problems, "runs a loop for every created element ("+x.prog.Rel(ev.pos)+")")
			}
		}
		if len(p.hist) > 0 {
			p.problems = append(p.problems, "asks the datasource for a history of a created element")
		}
		return
	}
	p.allowed = c13UpdDom.all()
	if len(p.hist) >= 1 && len(p.hist[0].res) == 2 {
		p.H, p.herr = p.hist[0].res[0], p.hist[0].res[1]
	}
	for _, ev := range p.events {
		if ev.kind != "loop" && ev.kind != "loopexit" {
			continue
		}
		xs, idx, counter, ok := m.indexView(ev.loop)
		if ev.kind == "loopexit" && !ok && ev.loop.xs == nil {
			continue
		}
		if ok && p.H != nil && xs.key == p.H.key {
			s := m.analyseSearch(ev.loop, xs, idx, counter, el.elem, el.kind)
			if p.srch != nil && p.srch != s {
				p.problems = append(p.problems, "scans the history more than once ("+x.prog.Rel(ev.pos)+")")
			}
			p.srch = s
			continue
		}
		if ev.loop == el.l {
			continue
		}
		p.problems = append(p.problems, "runs a loop that is not a scan of the element's history ("+x.prog.Rel(ev.pos)+")")
	}
	isErr := func(t *c13Term) bool { return p.herr != nil && t.key == p.herr.key }
	// the ignore-missing option does not change during the call: what the calling context has established about it
	// (e.g. a test hoisted out of the loop) holds in the iteration
	if n := el.l.pcLen; n <= len(p.st.pc) {
		for _, a := range p.st.pc[:n] {
			if m.isIgnoreOption(a.t) {
				c13Restrict(p.allowed, c13VIgn, []int{0, 1}, a.val)
			}
		}
	}
	for _, a := range p.atoms {
		t := a.t
		switch {
		case t.op == c13OpEq && (isErr(t.args[0]) && t.args[1].op == c13OpNil || isErr(t.args[1]) && t.args[0].op == c13OpNil):
			c13Restrict(p.allowed, c13VErr, []int{1, 0}, a.val)
			continue
		case t.op == c13OpCall && isMethod(t.obj.(*types.Func), c13OsmPath+".HistoryDatasourcer", "NotFound") && len(t.args) == 2 && isErr(t.args[1]) && t.args[0].key == m.dsP.key:
			c13Restrict(p.allowed, c13VNF, []int{0, 1}, a.val)
			continue
		case m.isIgnoreOption(t):
			c13Restrict(p.allowed, c13VIgn, []int{0, 1}, a.val)
			continue
		}
		if p.srch != nil && p.srch.idiom != "" {
			if truth, ok := p.srch.foundTruth(m, t); ok {
				if c13Restrict(p.allowed, c13VFound, truth, a.val) {
					p.guardP = append(p.guardP, m.showAtom(a)+" (does not separate `no earlier version` from `an earlier version was selected`)")
				}
				continue
			}
		}
		if p.H != nil {
			if f, ok := c13CmpConst(t, func(u *c13Term) bool { return u.op == c13OpLen && u.args[0].key == p.H.key }); ok {
				if c13Restrict(p.allowed, c13VEmpty, []int{c13TruthFrom(f, 1), c13B(f(0))}, a.val) {
					p.guardP = append(p.guardP, m.showAtom(a)+" (length of the history beyond empty/non-empty)")
				}
				continue
			}
		}
		p.guardP = append(p.guardP, m.showAtom(c13Atom{t: a.t, val: true, e: a.e}))
	}
}

// typedErr recognises &T{ID: id, ...} with T an error struct of package annotate.
func (m *c13Model) typedErr(t *c13Term) (name string, id *c13Term, ok bool) {
	if t == nil || t.op != c13OpAddr || t.args[0].op != c13OpLit || t.args[0].keys == nil {
		return "", nil, false
	}
	lit := t.args[0]
	nt, isNamed := lit.typ.(*types.Named)
	if !isNamed || nt.Obj().Pkg() != m.pk.Types {
		return "", nil, false
	}
	errI := types.Universe.Lookup("error").Type().Underlying().(*types.Interface)
	if !types.Implements(types.NewPointer(nt), errI) {
		return "", nil, false
	}
	for i, f := range lit.keys {
		if f.Name() == "ID" && namedPath(f.Type()) == c13OsmPath+".FeatureID" {
			id = lit.args[i]
		}
	}
	return nt.Obj().Name(), id, true
}

// featureIDOf is the value of <elem>.FeatureID().
func (m *c13Model) featureIDOf(elem *c13Term, kind int) *c13Term {
	x := m.x
	fn := m.featureID[kind]
	d := x.decls[fn]
	if d != nil && x.pureFunc(fn, 0) {
		var out *c13Term
		st := &c13State{env: map[types.Object]*c13Term{}, pcIdx: map[string]bool{}, heap: map[int]*c13Cell{}}
		fr := &c13Fr{pk: m.pk, info: m.pk.TypesInfo}
		x.inline(st, fr, &ast.CallExpr{Fun: ast.NewIdent("FeatureID")}, fn, d.pk, d.decl.Type, d.decl.Body, d.decl.Recv, elem, nil, fn.Type().(*types.Signature), false,
			func(_ *c13State, vals []*c13Term) {
				if len(vals) == 1 {
					out = vals[0]
				}
			})
		if out != nil {
			return out
		}
	}
	return x.call(fn, []*c13Term{elem})
}

// holds reports whether t is &osm.OSM{<Elems of kind>: {want}}.
func (m *c13Model) holds(t *c13Term, kind int, want *c13Term) bool {
	if t == nil || want == nil || t.op != c13OpAddr || t.args[0].op != c13OpLit {
		return false
	}
	lit := t.args[0]
	if namedPath(lit.typ) != c13OsmPath+".OSM" || len(lit.keys) != 1 || lit.keys[0] != m.osmFields[kind] {
		return false
	}
	in := lit.args[0]
	if in.op == c13OpApp && len(in.args) == 2 && (in.args[0].op == c13OpNil || in.args[0].op == c13OpLit && in.args[0].keys == nil && len(in.args[0].args) == 0) {
		return in.args[1].key == want.key // append(<empty>, e) is the one-element slice
	}
	return in.op == c13OpLit && in.keys == nil && len(in.args) == 1 && in.args[0].key == want.key
}

type c13ActionLit struct {
	typ, osm, old, new *c13Term
	extra              string
}

func (m *c13Model) actionLit(t *c13Term) (*c13ActionLit, bool) {
	if t == nil || t.op != c13OpLit || t.keys == nil || namedPath(t.typ) != c13OsmPath+".Action" {
		return nil, false
	}
	al := &c13ActionLit{}
	for i, f := range t.keys {
		switch f {
		case m.actType:
			al.typ = t.args[i]
		case m.actOSM:
			al.osm = t.args[i]
		case m.actOld:
			al.old = t.args[i]
		case m.actNew:
			al.new = t.args[i]
		default:
			al.extra = f.Name()
		}
	}
	return al, true
}

// outcome classifies what a path does.
func (m *c13Model) outcome(p *c13UPath) string {
	switch p.how {
	case "iter":
		switch {
		case p.accBad != "":
			return "bad-list"
		case len(p.appended) == 0:
			return "none"
		case len(p.appended) > 1:
			return "multi"
		}
		al, ok := m.actionLit(p.appended[0])
		if !ok {
			return "opaque-action"
		}
		if al.old != nil || al.new != nil {
			return "update"
		}
		return "create"
	case "exit":
		if len(p.res) == 0 {
			return "exit-nil"
		}
		e := m.x.resolve(p.st, p.res[len(p.res)-1])
		switch {
		case e.op == c13OpNil:
			return "exit-nil"
		case p.herr != nil && e.key == p.herr.key:
			return "pass"
		case e.op == c13OpTypedNil:
			return "typed-nil"
		}
		if _, _, ok := m.typedErr(e); ok {
			return "typed"
		}
		return "other-error"
	}
	return p.how
}

func c13OutcomeText(o string) string {
	return map[string]string{
		"create": "appends a create action", "update": "appends a modify/delete action with Old and New", "typed": "returns a typed annotate error",
		"pass": "returns the datasource's error unchanged", "none": "appends no action", "multi": "appends more than one action",
		"bad-list": "rewrites the action list", "opaque-action": "appends an action that is not an osm.Action literal",
		"exit-nil": "leaves annotate.Change without an error", "other-error": "returns some other error", "break": "leaves the loop by break",
		"panic": "panics", "end": "ends the function",
		"typed-nil": "returns a nil pointer of a concrete error type converted to `error`, which is a NON-nil error (the interface holds the type) and aborts annotate.Change",
	}[o]
}

// quality checks the details of an outcome of the given class; it returns the first defect.
func (m *c13Model) quality(p *c13UPath, class string) string {
	el := p.el
	kn := c13Kinds[el.kind]
	visible := func(want bool, why string) string {
		if p.visible == nil {
			return fmt.Sprintf("no assignment to the element's Visible accompanies the action: the change's own visible attribute (absent = false in an osmChange) is kept; %s", why)
		}
		if b, ok := c13BoolOf(p.visible); !ok || b != want {
			return fmt.Sprintf("the element's Visible is set to `%s`; %s", m.show(p.visible), why)
		}
		return ""
	}
	if p.blockWhy != "" && (class == "create" || class == "update") {
		return p.blockWhy
	}
	switch class {
	case "create":
		al, _ := m.actionLit(p.appended[0])
		switch {
		case al.typ == nil || !c13IsString(al.typ, m.actVals[0]):
			return fmt.Sprintf("the action type is `%s`, not osm.ActionCreate", m.show(al.typ))
		case al.osm == nil || !m.holds(al.osm, el.kind, el.elem) || al.extra != "":
			return fmt.Sprintf("the create action does not hold exactly the change element in OSM.%s: `%s`", kn.Elems, m.show(p.appended[0]))
		}
		return visible(true, "a create must be visible, also when the element came from the delete section with its missing history ignored")
	case "update":
		al, _ := m.actionLit(p.appended[0])
		want := m.actVals[el.sec]
		var found []*c13Term
		if p.srch != nil && p.srch.idiom != "" {
			found = p.srch.found(m.x)
		}
		holdsFound := false
		for _, f := range found {
			holdsFound = holdsFound || m.holds(al.old, el.kind, f)
		}
		var shown *c13Term
		if len(found) > 0 {
			shown = found[0]
		}
		switch {
		case al.typ == nil || !c13IsString(al.typ, want):
			return fmt.Sprintf("an element of change.%s gets action type `%s`, not %q", c13Secs[el.sec].Field, m.show(al.typ), want)
		case al.osm != nil || al.extra != "" || al.old == nil || al.new == nil:
			return fmt.Sprintf("a modify/delete action must carry exactly Old and New: `%s`", m.show(p.appended[0]))
		case !holdsFound:
			return fmt.Sprintf("Old holds `%s`, not the history entry selected by the scan (%s)", m.show(al.old), m.show(shown))
		case !m.holds(al.new, el.kind, el.elem):
			return fmt.Sprintf("New holds `%s`, not the change element", m.show(al.new))
		}
		return visible(el.sec != 2, "required: false for an element of change.Delete, true for an element of change.Modify")
	case "typed":
		e := m.x.resolve(p.st, p.res[len(p.res)-1])
		tn, id, _ := m.typedErr(e)
		if id == nil || id.key != m.featureIDOf(el.elem, el.kind).key {
			return fmt.Sprintf("the %s's ID is `%s`, not the FeatureID of the element", tn, m.show(id))
		}
	}
	return ""
}

func c13IsString(t *c13Term, s string) bool {
	v, ok := c13StringOf(t)
	return ok && v == s
}

func (m *c13Model) conds(p *c13UPath) string {
	var c []string
	for _, a := range p.atoms {
		c = append(c, m.showAtom(a))
	}
	if len(c) == 0 {
		return "no condition"
	}
	return strings.Join(c, ", ")
}

// ---- canonical summaries for the sibling comparison ----------------------------------------------------

func (m *c13Model) canonType(t types.Type) string {
	s := types.TypeString(t, func(p *types.Package) string { return p.Name() })
	for _, kn := range c13Kinds {
		s = strings.ReplaceAll(s, "osm."+kn.Elems, "osm.<Elems>")
	}
	for _, kn := range c13Kinds {
		s = strings.ReplaceAll(s, "osm."+kn.ID, "osm.<ElemID>")
	}
	for _, kn := range c13Kinds {
		s = strings.ReplaceAll(s, "osm."+kn.Elem, "osm.<Elem>")
	}
	return s
}

func (m *c13Model) canon(t *c13Term, kind int, names map[string]string, d int) string {
	if t == nil {
		return "<none>"
	}
	if n, ok := names[t.key]; ok {
		return n
	}
	if d > 10 {
		return "…"
	}
	cn := func(a *c13Term) string { return m.canon(a, kind, names, d+1) }
	list := func(as []*c13Term) string {
		var p []string
		for _, a := range as {
			p = append(p, cn(a))
		}
		return strings.Join(p, ",")
	}
	switch t.op {
	case c13OpNil:
		return "nil"
	case c13OpConst:
		return t.cv.ExactString()
	case c13OpSym:
		n := t.name
		n = strings.ReplaceAll(n, c13Kinds[kind].Hist, "<History>")
		return "$" + n
	case c13OpField:
		fn := t.obj.Name()
		if t.obj == types.Object(m.osmFields[kind]) {
			fn = "<Elems>"
		}
		return cn(t.args[0]) + "." + fn
	case c13OpLit:
		if t.keys == nil {
			return m.canonType(t.typ) + "{" + list(t.args) + "}"
		}
		var p []string
		for i, a := range t.args {
			fn := t.keys[i].Name()
			if t.keys[i] == m.osmFields[kind] {
				fn = "<Elems>"
			}
			p = append(p, fn+":"+cn(a))
		}
		sort.Strings(p)
		return m.canonType(t.typ) + "{" + strings.Join(p, ",") + "}"
	case c13OpCall:
		return "call " + t.obj.Name() + "(" + list(t.args) + ")"
	case c13OpConv:
		return m.canonType(t.typ) + "(" + cn(t.args[0]) + ")"
	case c13OpLoopIn, c13OpLoopOut:
		return t.op // variable names are local to a sibling
	case c13OpIdx:
		return "idx"
	case c13OpRef:
		return "<object>"
	case c13OpTypedNil:
		return "typednil " + m.canonType(t.typ)
	}
	return t.op + " " + t.name + "(" + list(t.args) + ")"
}
