package rules

import (
	"go/ast"
	"go/types"
)

// Value-preserving copy-out of a decoded slice (C03.T5).
//
// After DecodeElement a decoder may give the decoded object an exact-size copy of one of its own slice fields
// (`x.F = append(T(nil), x.F...)`, `append(make(T, 0, len(x.F)), x.F...)`, make(len) + copy, nil when it is empty,
// directly or through a helper): the object still says what the document says, only the spare capacity is gone. To
// recognise that, the scanner model marks the slice and map fields of a decode target as "what the decoder left
// there" (an unknown value with a key of its own) right before the call, and T5 accepts a store into such a field
// whose value is a new list made of exactly that value.

func c03DecodedKey(obj *c03V, f *types.Var) string { return "decoded:" + obj.Ident() + "." + f.Name() }

// c03DecodedFieldsModel is the interpreter hook of the scanner model.
func c03DecodedFieldsModel(x *c03Interp, st *c03State, fr *c03Frame, call *ast.CallExpr, fn *types.Func, r *c03V, args []*c03V) ([]*c03V, bool) {
	if !isMethod(fn, "encoding/xml.Decoder", "DecodeElement") && !isMethod(fn, "encoding/xml.Decoder", "Decode") || len(args) == 0 {
		return nil, false
	}
	p := args[0]
	if p.K == c03KAddr {
		if d := st.vars[p.Var]; d != nil && d.K == c03KPtr {
			p = d
		}
	}
	if p.K != c03KPtr {
		return nil, false
	}
	cur := st.heap[p.Obj]
	if cur == nil || cur.K != c03KStruct {
		return nil, false
	}
	stT, ok := c03DerefT(p.T).Underlying().(*types.Struct)
	if !ok {
		return nil, false
	}
	for i := 0; i < stT.NumFields(); i++ {
		f := stT.Field(i)
		switch f.Type().Underlying().(type) {
		case *types.Slice, *types.Map:
			cur = c03WithField(cur, f, &c03V{K: c03KUnk, T: f.Type(), Key: c03DecodedKey(p, f), Z: triU}, cur.T)
		}
	}
	st.heap[p.Obj] = cur
	return nil, false
}

// c03ValuePreservingStore: the store gives field F of the decoded object a fresh copy of F itself.
func (it *c03Iter) c03ValuePreservingStore(e *c03Event, obj *c03V) bool {
	if len(e.Field) != 1 || e.Val == nil {
		return false
	}
	if _, isSlice := e.Field[0].Type().Underlying().(*types.Slice); !isSlice {
		return false
	}
	key := c03DecodedKey(obj, e.Field[0])
	is := func(v *c03V) bool { return v != nil && v.K == c03KUnk && v.Key == key }
	val := e.Val
	switch val.K {
	case c03KNil:
		// nil for an empty list: the path established that the decoded field is empty
		return it.path.St.Zero(&c03V{K: c03KUnk, Key: key, Z: triU}) == triT
	case c03KList:
		if val.Base == nil {
			// append(<nil or empty fresh list>, F...)
			return len(val.Elems) == 1 && val.Elems[0].K == c03KSpread && len(val.Elems[0].From) == 1 && is(val.Elems[0].From[0])
		}
		// make(T, len(F)) filled by copy(dst, F)
		b := val.Base
		if len(val.Elems) != 0 || b.K != c03KUnk || len(b.From) != 1 || b.From[0] == nil || !is(b.From[0].LenOf) {
			return false
		}
		for i := range it.after {
			c := &it.after[i]
			if c.Kind == "builtin" && c.Why == "copy" && len(c.Args) == 2 && c.Args[0] != nil && c.Args[0].K == c03KList && c.Args[0].Base == b && is(c.Args[1]) {
				return true
			}
		}
	}
	return false
}
