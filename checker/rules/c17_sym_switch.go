package rules

import (
	"go/ast"
	"go/token"
)

// expression and tagless switches of the symbolic interpreter (c17_sym.go)

func (s *c17Sym) switchStmt(x *ast.SwitchStmt, env c17Env, next func(c17Env), ret func([]c17SV)) {
	run := func(env c17Env) {
		var tag *c17SV
		if x.Tag != nil {
			v := s.eval(x.Tag, env)
			tag = &v
		}
		var deflt *ast.CaseClause
		undecided := false
		for _, cl := range x.Body.List {
			cc := cl.(*ast.CaseClause)
			if cc.List == nil {
				deflt = cc
				continue
			}
			for _, ce := range cc.List {
				v := s.eval(ce, env)
				var hit c17SV
				switch {
				case tag == nil:
					hit = v
				case tag.kind == c17Int && v.kind == c17Int:
					hit = c17SV{kind: c17Bool, b: tag.i == v.i}
				case tag.kind == c17Bool && v.kind == c17Bool:
					hit = c17SV{kind: c17Bool, b: tag.b == v.b}
				}
				if hit.kind == c17Bool && hit.b {
					if !undecided {
						s.caseBody(cc, env, next, ret)
						return
					}
					s.caseBody(cc, env.clone(), next, ret)
					return
				}
				if hit.kind != c17Bool {
					undecided = true
					s.caseBody(cc, env.clone(), next, ret)
				}
			}
		}
		if deflt != nil {
			s.caseBody(deflt, env, next, ret)
		} else {
			next(env)
		}
	}
	if x.Init != nil {
		s.stmt(x.Init, env, run, ret)
	} else {
		run(env)
	}
}

func (s *c17Sym) caseBody(cc *ast.CaseClause, env c17Env, next func(c17Env), ret func([]c17SV)) {
	for _, st := range cc.Body {
		if br, ok := st.(*ast.BranchStmt); ok && br.Tok == token.FALLTHROUGH {
			s.gaveUp = append(s.gaveUp, st)
			return
		}
	}
	// a `break` inside the case ends the switch: treated as unsupported only if present
	hasBreak := false
	for _, st := range cc.Body {
		ast.Inspect(st, func(n ast.Node) bool {
			if br, ok := n.(*ast.BranchStmt); ok && br.Tok == token.BREAK {
				hasBreak = true
			}
			return true
		})
	}
	if hasBreak {
		s.gaveUp = append(s.gaveUp, cc)
		return
	}
	s.block(cc.Body, env, next, ret)
}
