package rules

import (
	"fmt"
	"go/types"
	"sort"
)

// Loop-carried state in fresh objects (`b := &builder{}; for ... { b.actions = append(b.actions, ...) }`).
//
// A field of an object allocated before the loop that the loop body writes is a loop-carried value exactly like a
// local variable. Which fields are written is found by a discarded trial execution of the loop; in the real
// execution each such field is represented by a synthetic variable (loopin/loopout values, recorded per iteration),
// so every rule that understands carried variables understands carried fields.

type c13HeapSlot struct {
	id int
	f  *types.Var
}

func (x *c13Exec) heapVar(hs c13HeapSlot) types.Object {
	if x.heapVars == nil {
		x.heapVars = map[c13HeapSlot]types.Object{}
		x.heapSlots = map[types.Object]c13HeapSlot{}
	}
	if v, ok := x.heapVars[hs]; ok {
		return v
	}
	v := types.NewVar(hs.f.Pos(), hs.f.Pkg(), fmt.Sprintf("object%d.%s", hs.id, hs.f.Name()), hs.f.Type())
	x.heapVars[hs] = v
	x.heapSlots[v] = hs
	return v
}

func (x *c13Exec) heapRead(s *c13State, hs c13HeapSlot) *c13Term {
	c := s.heap[hs.id]
	if c == nil || c.escaped {
		return x.sym("field "+hs.f.Name()+" of an object handed to unknown code", hs.f.Type())
	}
	if v, ok := c.fields[hs.f]; ok {
		return v
	}
	return x.zero(hs.f.Type())
}

func (x *c13Exec) heapWrite(s *c13State, hs c13HeapSlot, val *c13Term) {
	c := s.heap[hs.id]
	if c == nil {
		return
	}
	nc := &c13Cell{typ: c.typ, fields: map[*types.Var]*c13Term{}, escaped: c.escaped, ver: c.ver}
	for kf, kv := range c.fields {
		nc.fields[kf] = kv
	}
	nc.fields[hs.f] = val
	s.heap[hs.id] = nc
}

// noteHeapStore records a write to field f of fresh object id for the enclosing loops: a loop that does not carry the
// field loses track of the object's content.
func (x *c13Exec) noteHeapStore(s *c13State, id int, f *types.Var) {
	hs := c13HeapSlot{id, f}
	for _, lp := range s.loops {
		if lp.stored == nil {
			lp.stored = map[c13HeapSlot]bool{}
		}
		lp.stored[hs] = true
		if !lp.hvars[hs] && lp.touched != nil {
			lp.touched[id] = true
		}
	}
}

// bindHeapVars makes the fields hvars loop-carried in loop l: their pre-loop values are recorded and the body sees
// loopin values.
func (x *c13Exec) bindHeapVars(l *c13Loop, b *c13State, hvars []types.Object) {
	for _, w := range hvars {
		hs := x.heapSlots[w]
		if l.hvars == nil {
			l.hvars = map[c13HeapSlot]bool{}
		}
		l.hvars[hs] = true
		l.vars = append(l.vars, w)
		l.pre[w] = x.heapRead(b, hs)
		x.heapWrite(b, hs, x.loopVal(c13OpLoopIn, l, w))
	}
}

// probeHeap executes a loop once with all results discarded and returns the fields of pre-existing fresh objects its
// body writes.
func (x *c13Exec) probeHeap(s *c13State, run func(ps *c13State, pk c13K) *c13Loop) []types.Object {
	live := false
	for _, c := range s.heap {
		if !c.escaped {
			live = true
		}
	}
	if !live || x.probing >= 3 {
		return nil
	}
	np, nl, nu := len(x.paths), len(x.loops), len(x.unsupAll)
	x.probing++
	l := run(s.clone(), func(*c13State, int, string, []*c13Term) {})
	x.probing--
	x.paths, x.loops, x.unsupAll = x.paths[:np], x.loops[:nl], x.unsupAll[:nu]
	if l == nil {
		return nil
	}
	var slots []c13HeapSlot
	for hs := range l.stored {
		if c := s.heap[hs.id]; c != nil && !c.escaped {
			slots = append(slots, hs)
		}
	}
	sort.Slice(slots, func(i, j int) bool {
		if slots[i].id != slots[j].id {
			return slots[i].id < slots[j].id
		}
		return slots[i].f.Pos() < slots[j].f.Pos()
	})
	var out []types.Object
	for _, hs := range slots {
		out = append(out, x.heapVar(hs))
	}
	return out
}
