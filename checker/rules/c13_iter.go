package rules

import (
	"fmt"
	"go/token"
	"go/types"
	"strings"
)

// Analysis of one iteration of an element loop: every path through the body (to the next iteration, out of the
// loop, or out of annotate.Change) with the conditions it depends on and what it does.

type c13UPath struct {
	el     *c13ELoop
	st     *c13State
	how    string // "iter" (reaches the next iteration) | "break" | "exit" (Change returns) | "panic" | "end"
	res    []*c13Term
	pos    token.Pos
	atoms  []c13Atom
	events []c13Event

	appended []*c13Term // actions appended to the action list
	accBad   string     // the action list is written other than by appending
	visible  *c13Term   // last value stored to <element>.Visible
	visPos   token.Pos
	problems []string               // effects outside the whitelist
	bstores  []*c13Event            // writes into blocks allocated by Change itself
	winUsed  map[types.Object]int64 // slots used per sliding block window
	blockWhy string                 // an object handed out from a block could not be read back

	// update iterations
	hist    []*c13Event
	H, herr *c13Term
	srch    *c13Search
	allowed [][]bool // per domain variable: the values consistent with the path's conditions
	guardP  []string // conditions outside the whitelist
}

// collectPaths gathers the paths of an element loop.
func (m *c13Model) collectPaths(el *c13ELoop) {
	l := el.l
	add := func(st *c13State, how string, res []*c13Term, pos token.Pos, out map[types.Object]*c13Term) {
		p := &c13UPath{el: el, st: st, how: how, res: res, pos: pos}
		if len(st.pc) >= l.pcLen {
			p.atoms = st.pc[l.pcLen:]
		}
		if len(st.trace) >= l.trLen {
			p.events = st.trace[l.trLen:]
			// what a path does after it has left the loop's function is not part of the iteration
			for i, ev := range p.events {
				if ev.kind == "loopexit" && ev.loop == l {
					p.events = p.events[:i+1]
					break
				}
			}
		}
		m.effects(p, out)
		el.paths = append(el.paths, p)
	}
	for _, it := range l.iters {
		add(it.st, "iter", nil, it.st.last, it.out)
	}
	for _, it := range l.breaks {
		add(it.st, "break", nil, it.st.last, it.out)
	}
	for _, rp := range m.x.paths {
		in := false
		for _, pl := range rp.st.loops {
			if pl == l {
				in = true
			}
		}
		if !in {
			for _, ev := range rp.st.trace {
				if ev.kind == "loopexit" && ev.loop == l {
					in = true
				}
			}
		}
		if !in {
			continue
		}
		how := "exit"
		if rp.kind == "panic" || rp.kind == "end" {
			how = rp.kind
		}
		add(rp.st, how, rp.res, rp.pos, nil)
	}
}

func (m *c13Model) isActionSlice(t types.Type) bool {
	if t == nil {
		return false
	}
	sl, ok := t.Underlying().(*types.Slice)
	return ok && namedPath(sl.Elem()) == c13OsmPath+".Action" && !isPointer(sl.Elem())
}

func isPointer(t types.Type) bool {
	_, ok := t.(*types.Pointer)
	return ok
}

// effects extracts what the path does: appended actions, the Visible store, other effects.
func (m *c13Model) effects(p *c13UPath, out map[types.Object]*c13Term) {
	x := m.x
	l := p.el.l
	for _, w := range l.vars {
		if !m.isActionSlice(w.Type()) || out == nil {
			continue
		}
		in := x.loopVar(c13OpLoopIn, l, w)
		o := out[w]
		switch {
		case o == nil:
		case o.key == in.key:
		case o.op == c13OpApp && (o.args[0].key == in.key || m.lazyBase(p.st, o.args[0], in)):
			for _, a := range o.args[1:] {
				p.appended = append(p.appended, x.resolve(p.st, a))
			}
		default:
			p.accBad = fmt.Sprintf("the action list %s becomes `%s`, which is not the list with actions appended", w.Name(), m.show(o))
		}
	}
	for i := range p.events {
		ev := &p.events[i]
		switch ev.kind {
		case "store":
			if ev.lhs.op == c13OpField && ev.lhs.obj.Name() == "Visible" && ev.lhs.args[0].key == p.el.elem.key {
				p.visible, p.visPos = ev.val, ev.pos
				continue
			}
			if m.blockStore(p, ev) {
				continue
			}
			p.problems = append(p.problems, fmt.Sprintf("writes `%s = %s` (%s)", m.show(ev.lhs), m.show(ev.val), m.x.prog.Rel(ev.pos)))
		case "dyncall":
			if ev.fn != nil && isIfaceMethod(ev.fn, c13OsmPath+".HistoryDatasourcer") && strings.HasSuffix(ev.fn.Name(), "History") {
				p.hist = append(p.hist, ev)
				continue
			}
			p.problems = append(p.problems, fmt.Sprintf("calls `%s`, whose effects are unknown (%s)", ev.what, m.x.prog.Rel(ev.pos)))
		case "extcall", "effect":
			p.problems = append(p.problems, fmt.Sprintf("calls `%s`, whose effects are unknown (%s)", ev.what, m.x.prog.Rel(ev.pos)))
		}
	}
	// objects handed out from blocks are read back from the writes of the path
	for i, a := range p.appended {
		if a.op != c13OpLit || a.keys == nil {
			continue
		}
		args := make([]*c13Term, len(a.args))
		for j, v := range a.args {
			r, why := m.blockResolve(p, v)
			if why != "" && p.blockWhy == "" {
				p.blockWhy = why
			}
			args[j] = r
		}
		p.appended[i] = x.lit(a.typ, a.keys, args)
	}
	if out != nil {
		m.windowsAdvanced(p, out)
	}
}

func isIfaceMethod(fn *types.Func, iface string) bool {
	recv := fn.Type().(*types.Signature).Recv()
	return recv != nil && namedPath(recv.Type()) == iface
}

// ---- finite domains ---------------------------------------------------------------------------------

// c13Dom is a finite abstract input domain: variables with named values; a combination of values is one abstract input.
type c13Dom struct {
	vars     []string
	vals     [][]string
	feasible func(c []int) bool
}

func (d *c13Dom) combos() [][]int {
	var out [][]int
	cur := make([]int, len(d.vars))
	var rec func(i int)
	rec = func(i int) {
		if i == len(d.vars) {
			if d.feasible == nil || d.feasible(cur) {
				out = append(out, append([]int(nil), cur...))
			}
			return
		}
		for v := range d.vals[i] {
			cur[i] = v
			rec(i + 1)
		}
	}
	rec(0)
	return out
}

func (d *c13Dom) all() [][]bool {
	out := make([][]bool, len(d.vars))
	for i := range out {
		out[i] = make([]bool, len(d.vals[i]))
		for j := range out[i] {
			out[i][j] = true
		}
	}
	return out
}

func (d *c13Dom) describe(c []int) string {
	var p []string
	for i, v := range c {
		p = append(p, d.vars[i]+"="+d.vals[i][v])
	}
	return strings.Join(p, ", ")
}

func c13Covers(allowed [][]bool, c []int) bool {
	for i, v := range c {
		if !allowed[i][v] {
			return false
		}
	}
	return true
}

// c13Restrict narrows variable v of allowed to the values on which the atom has the truth value the path took;
// truth[value] is 1 (true), 0 (false) or -1 (depends on more than the abstract value).
func c13Restrict(allowed [][]bool, v int, truth []int, val bool) (varies bool) {
	for i, t := range truth {
		switch {
		case t < 0:
			varies = true
		case (t == 1) != val:
			allowed[v][i] = false
		}
	}
	return varies
}

// c13CmpConst reads an order/equality atom between term t and a constant: it returns a function giving the truth of
// the atom for a value of t.
func c13CmpConst(a *c13Term, isT func(*c13Term) bool) (f func(v int64) bool, ok bool) {
	if a.op != c13OpLt && a.op != c13OpEq {
		return nil, false
	}
	l, r := a.args[0], a.args[1]
	switch {
	case isT(l):
		c, isC := c13IntOf(r)
		if !isC {
			return nil, false
		}
		if a.op == c13OpLt {
			return func(v int64) bool { return v < c }, true
		}
		return func(v int64) bool { return v == c }, true
	case isT(r):
		c, isC := c13IntOf(l)
		if !isC {
			return nil, false
		}
		if a.op == c13OpLt {
			return func(v int64) bool { return c < v }, true
		}
		return func(v int64) bool { return v == c }, true
	}
	return nil, false
}

// c13TruthFrom gives the truth of f on all integers >= lo: 1, 0 or -1 (varies). f is an order/equality test
// against a constant, so it is constant beyond the constants involved; a window of 64 values around them suffices.
func c13TruthFrom(f func(int64) bool, lo int64) int {
	first := f(lo)
	for v := lo; v < lo+64; v++ {
		if f(v) != first {
			return -1
		}
	}
	for _, v := range []int64{1 << 20, 1 << 40} {
		if f(v) != first {
			return -1
		}
	}
	if first {
		return 1
	}
	return 0
}

func c13B(b bool) int {
	if b {
		return 1
	}
	return 0
}

// ---- predecessor search -------------------------------------------------------------------------------

// c13Search is the analysis of a loop over a history: whether it is a greatest-version-below scan.
type c13Search struct {
	l        *c13Loop
	H        *c13Term
	idx      *c13Term
	elem     *c13Term
	idiom    string // "index" (index of the best entry + running maximum) | "pointer" (best entry so far)
	loc, max *c13Slot
	best     *c13Slot
	flag     *c13Slot // a boolean set when an entry is selected ((index, ok) results instead of a sentinel)
	locInit  int64
	locKnown bool
	selBad   string
	selUnk   string
	selOK    string
	initBad  string
	initOK   string
	pos      token.Pos
}

// found lists the spellings of the selected history entry after the loop (by index, by pointer).
func (s *c13Search) found(x *c13Exec) []*c13Term {
	var out []*c13Term
	if s.loc != nil {
		out = append(out, x.index(s.H, s.loc.after))
	}
	if s.best != nil {
		out = append(out, s.best.after)
	}
	return out
}

func (m *c13Model) versionOf(t *c13Term, kind int) *c13Term {
	_, st := structType(m.osmPk, c13Kinds[kind].Elem)
	return m.x.field(t, c13Field(st, "Version"), 0)
}

// analyseSearch decides whether loop l (a scan of history H in the iteration for element elem of the given kind)
// selects the entry with the greatest Version strictly below the element's own.
func (m *c13Model) analyseSearch(l *c13Loop, H, idx *c13Term, counter types.Object, elem *c13Term, kind int) *c13Search {
	key := l
	if s, ok := m.search[key]; ok {
		return s
	}
	x := m.x
	s := &c13Search{l: l, H: H, idx: idx, elem: elem, pos: l.stmt.Pos()}
	m.search[key] = s
	cand := x.index(H, idx)
	CV, OV := m.versionOf(cand, kind), m.versionOf(elem, kind)
	// roles of the carried variables
	slots := m.slots(l, counter)
	for _, it := range append(append([]*c13Iter(nil), l.iters...), l.breaks...) {
		for _, w := range slots {
			o := w.out(it)
			if o == nil {
				continue
			}
			if b, isB := w.typ.Underlying().(*types.Basic); isB && b.Info()&types.IsBoolean != 0 && o.key == c13True.key {
				s.flag = w
				continue
			}
			switch o.key {
			case w.in.key:
			case CV.key:
				s.max = w
			case idx.key:
				s.loc = w
			case cand.key:
				s.best = w
			default:
				s.selUnk = fmt.Sprintf("the search loop sets %s to `%s`; accepted: the index of the best entry and/or the best entry itself, a running maximum of its Version, a found flag", w.Name(), m.show(o))
				return s
			}
		}
		if len(it.st.trace) > l.trLen {
			ev := it.st.trace[l.trLen]
			s.selUnk = fmt.Sprintf("the body of the search loop has an effect besides updating its variables (%s at %s)", ev.kind+" "+ev.what, x.prog.Rel(ev.pos))
			return s
		}
	}
	var dom *c13Dom
	var interp func(a c13Atom, allowed [][]bool) (known, varies bool)
	var expect func(c []int) bool
	rel3 := []string{"below", "equal", "above"}
	relTruth := func(a *c13Term, p, q *c13Term) ([]int, bool) { // truth of atom a per relation of p to q
		if a.op != c13OpLt && a.op != c13OpEq {
			return nil, false
		}
		l0, r0 := a.args[0].key, a.args[1].key
		switch {
		case a.op == c13OpLt && l0 == p.key && r0 == q.key:
			return []int{1, 0, 0}, true
		case a.op == c13OpLt && l0 == q.key && r0 == p.key:
			return []int{0, 0, 1}, true
		case a.op == c13OpEq && (l0 == p.key && r0 == q.key || l0 == q.key && r0 == p.key):
			return []int{0, 1, 0}, true
		}
		return nil, false
	}
	switch {
	case s.max != nil && (s.loc != nil || s.best != nil):
		s.idiom = "index"
		if s.loc != nil {
			// the index is a not-found indicator only when it starts at a value that is not an index
			if li, isC := c13IntOf(s.loc.pre); isC && li < 0 {
				s.locInit, s.locKnown = li, true
			}
		}
		M := s.max.in
		dom = &c13Dom{vars: []string{"entry version vs own version", "entry version vs running maximum"}, vals: [][]string{rel3, rel3}}
		interp = func(a c13Atom, allowed [][]bool) (bool, bool) {
			if t, ok := relTruth(a.t, CV, OV); ok {
				return true, c13Restrict(allowed, 0, t, a.val)
			}
			if t, ok := relTruth(a.t, CV, M); ok {
				return true, c13Restrict(allowed, 1, t, a.val)
			}
			return false, false
		}
		expect = func(c []int) bool { return c[0] == 0 && c[1] == 2 }
	case s.best != nil && s.max == nil:
		s.idiom = "pointer"
		B := s.best.in
		BV := m.versionOf(B, kind)
		dom = &c13Dom{vars: []string{"entry version vs own version", "an entry is selected already", "entry version vs selected entry's version"},
			vals: [][]string{rel3, {"no", "yes"}, rel3}}
		interp = func(a c13Atom, allowed [][]bool) (bool, bool) {
			if t, ok := relTruth(a.t, CV, OV); ok {
				return true, c13Restrict(allowed, 0, t, a.val)
			}
			if t, ok := relTruth(a.t, CV, BV); ok {
				return true, c13Restrict(allowed, 2, t, a.val)
			}
			if a.t.op == c13OpEq && (a.t.args[0].key == B.key && a.t.args[1].op == c13OpNil || a.t.args[1].key == B.key && a.t.args[0].op == c13OpNil) {
				return true, c13Restrict(allowed, 1, []int{1, 0}, a.val)
			}
			return false, false
		}
		expect = func(c []int) bool { return c[0] == 0 && (c[1] == 0 || c[2] == 2) }
	default:
		s.selUnk = "search idiom not recognised: the loop over the history must record the index of the best entry and/or the best entry itself, and compare against a running maximum of its Version or against the best entry's Version"
		return s
	}
	m.searchInit(s)
	switch {
	case l.exits > 0:
		s.selBad = "the search loop returns early: with an unsorted history a later entry with a greater version below the element's own is never seen"
		return s
	case len(l.breaks) > 0:
		s.selBad = "the search loop is left early (break): with an unsorted history a later entry with a greater version below the element's own is never seen"
		return s
	case len(l.iters) == 0:
		s.selUnk = "no path through the body of the search loop reaches the next iteration"
		return s
	}
	// classify the iteration paths and evaluate the domain
	type ipath struct {
		allowed [][]bool
		update  bool
		mixed   string
		it      *c13Iter
	}
	var ips []ipath
	for _, it := range l.iters {
		ip := ipath{allowed: dom.all(), it: it}
		for _, a := range it.st.pc[l.pcLen:] {
			if counter != nil && a.val && a.t.op == c13OpLt && a.t.args[0].key == x.loopVar(c13OpLoopIn, l, counter).key && a.t.args[1].op == c13OpLen {
				continue // the loop condition of a counted loop
			}
			known, varies := interp(a, ip.allowed)
			if !known || varies {
				s.selBad = fmt.Sprintf("the branch %s inside the search loop is not a comparison of the entry's Version with the element's own Version or with the best so far: some history entries are treated differently", m.showAtom(a))
				return s
			}
		}
		changed := func(w *c13Slot) bool { o := w.out(it); return o != nil && o.key != w.in.key }
		nCh, nRoles := 0, 0
		var names []string
		for _, w := range []*c13Slot{s.max, s.loc, s.best, s.flag} {
			if w != nil {
				nRoles++
				names = append(names, w.Name())
				if changed(w) {
					nCh++
				}
			}
		}
		switch {
		case nCh == nRoles:
			ip.update = true
		case nCh != 0:
			ip.mixed = fmt.Sprintf("on a path through the search loop only some of {%s} are updated: what is recorded is not the entry the comparison is made against", strings.Join(names, ", "))
		}
		ips = append(ips, ip)
	}
	for _, c := range dom.combos() {
		covered := false
		for _, ip := range ips {
			if !c13Covers(ip.allowed, c) {
				continue
			}
			covered = true
			if ip.mixed != "" {
				s.selBad = ip.mixed
				return s
			}
			if ip.update == expect(c) {
				continue
			}
			why := ""
			switch {
			case ip.update && c[0] == 1:
				why = "a history entry with the element's own version is selected: the element would be paired with itself as old state instead of the greatest version below"
			case ip.update && c[0] == 2:
				why = "a history entry with a version above the element's own is selected"
			case ip.update && c[len(c)-1] == 1:
				why = "the comparison with the running maximum is not strict: of two history entries with the same version the later replaces the earlier"
			case ip.update:
				why = "an entry with a smaller version replaces the best so far: the result is not the greatest version below"
			default:
				why = "an entry below the element's own version and above the best so far is not selected: the result is not the greatest version below (histories may be unsorted)"
			}
			var conds []string
			for _, a := range ip.it.st.pc[l.pcLen:] {
				conds = append(conds, m.showAtom(a))
			}
			s.selBad = fmt.Sprintf("%s [abstract input: %s; path conditions: %s; the path %s the selection]", why, dom.describe(c), strings.Join(conds, ", "), map[bool]string{true: "updates", false: "keeps"}[ip.update])
			return s
		}
		if !covered {
			s.selUnk = fmt.Sprintf("no path through the search loop for the abstract input {%s}", dom.describe(c))
			return s
		}
	}
	s.selOK = fmt.Sprintf("%d path(s) through the loop over `%s`, evaluated on the %d order relations between the entry's Version, the element's own Version and the best so far: the selection is updated exactly for `entry < own && entry > best` (both strict); no other branch, effect or exit",
		len(ips), m.show(H), len(dom.combos()))
	return s
}
